(** C12 — whatever other clients do between the scanner's steps (deliveries, removals, purges, with caps and size limits), and whenever shutdown is requested, every message a scan takes out of the store has a date before the cutoff *)
From Coq Require Import ZArith.
From IV Require Import Base.Bytes Model.StoreSpec Model.Retention Proofs.StoreSpecFacts Proofs.Retention.
Theorem never_deletes_young : forall cfg cutoff order st evs, SInv st ->
  Forall (fun e => expired cutoff (e_msg e) = true) (s_removed (run cfg cutoff (sys_init order st) evs)).
Proof. exact Retention.never_deletes_young. Qed.
Print Assumptions never_deletes_young.

(** C12 — over every schedule: consecutive scans of the run loop start at least a minute apart (clock at scan start), the first one at least a minute after Start was called *)
From Coq Require Import ZArith.
From IV Require Import Base.Bytes Model.StoreSpec Model.Retention Model.RetentionLoop Proofs.RetentionLoop.
Theorem loop_one_scan_per_minute : forall cfg period enum now st evs,
  spaced now (l_starts (lrun cfg period enum (linit period now st) evs)).
Proof. exact one_scan_per_minute. Qed.
Print Assumptions loop_one_scan_per_minute.

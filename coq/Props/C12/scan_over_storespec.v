(** C12 — scan_over_storespec: a scan is the run of one Lst per mailbox of the walk and one Remove (Kth k) per expired snapshot entry *)
From Coq Require Import List Arith Lia ZArith.
From IV Require Import Base.Bytes Base.BytesFacts Model.StoreSpec Model.StoreSpecImpl Model.MemStore Model.FileStore Model.Retention Model.RetentionLoop Proofs.StoreSpecFacts Proofs.MemStoreLimits Proofs.MemStoreRefine Proofs.FileStoreRefine Proofs.Retention.
From IV Require Import Proofs.RetentionStore.
Theorem scan_over_storespec cfg cutoff order : forall st,
  scan cfg cutoff order st = final_spec cfg st (scan_ops cfg cutoff order st).
Proof. first [exact RetentionStore.scan_over_storespec | intros; apply RetentionStore.scan_over_storespec]. Qed.
Print Assumptions scan_over_storespec.

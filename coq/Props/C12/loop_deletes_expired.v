(** C12 — liveness of the periodic scan, over every schedule: a message seen older than the period while the loop waits is gone for good once one scan has run to completion afterwards; a waiting, uncancelled loop starts that scan with its first move after the minute (cutoff = clock - period, over every mailbox the store enumerates); every move of an uncancelled scan brings it closer to its end, other clients cannot hold it up *)
From Coq Require Import ZArith.
From IV Require Import Base.Bytes Model.StoreSpec Model.Retention Model.RetentionLoop Proofs.StoreSpecFacts Proofs.RetentionLoop.
Theorem loop_deletes_expired : forall cfg period enum,
  (forall y0 e evs1 evs2 ts,
     (forall st x, SInv st -> In x (live st) -> In (e_mb x) (enum st)) ->
     SInv (s_st (l_sys y0)) -> l_mode y0 = LWait ->
     In e (live (s_st (l_sys y0))) -> (m_date (e_msg e) < l_now y0 - period)%Z ->
     l_mode (lrun cfg period enum y0 evs1) = LCheck -> hd_error (l_done (lrun cfg period enum y0 evs1)) = Some (ts, false) ->
     forall e', In e' (live (s_st (l_sys (lrun cfg period enum y0 (evs1 ++ evs2))))) -> ~ (e_mb e' = e_mb e /\ e_k e' = e_k e)) /\
  (forall y tf, l_mode y = LWait -> s_cancel (l_sys y) = false -> (l_last y + minute <= l_now y)%Z ->
     l_mode (loop_step cfg period enum y tf) = LScan (l_now y - period) /\ l_starts (loop_step cfg period enum y tf) = l_now y :: l_starts y /\
     s_todo (l_sys (loop_step cfg period enum y tf)) = enum (s_st (l_sys y)) /\ s_phase (l_sys (loop_step cfg period enum y tf)) = PIdle) /\
  (forall c tf s, s_cancel s = false -> (exists b, s_phase s = PDone b) \/
     lex_lt (scan_measure (sc_step cfg c tf s)) (scan_measure s) \/
     (s_phase s = PIdle /\ exists mb r, s_todo s = mb :: r /\ s_phase (sc_step cfg c tf s) = PBox mb (snapshot (s_st s) mb) /\ s_todo (sc_step cfg c tf s) = r)).
Proof.
  intros cfg period enum. split; [exact (RetentionLoop.loop_deletes_expired cfg period enum)|].
  split; [exact (loop_scan_due cfg period enum)|exact (scan_progress cfg)].
Qed.
Print Assumptions loop_deletes_expired.

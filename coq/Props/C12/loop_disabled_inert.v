(** C12 — RetentionScanner.Start with a period <= 0: Start has returned at once (Join returns) and, over every schedule of clock ticks, cancellations, other clients' operations and loop moves, no scan ever starts, nothing is removed, and the store is exactly what the other clients made of it *)
From Coq Require Import ZArith.
From IV Require Import Base.Bytes Model.StoreSpec Model.Retention Model.RetentionLoop Proofs.RetentionLoop.
Theorem loop_disabled_inert : forall cfg period enum now st evs, (period <= 0)%Z ->
  let y := lrun cfg period enum (linit period now st) evs in
  l_mode y = LExit /\ l_closed y = true /\ s_st (l_sys y) = apply_ops cfg st evs /\
  l_log y = [] /\ l_starts y = [] /\ l_visits y = O.
Proof. exact loop_disabled. Qed.
Print Assumptions loop_disabled_inert.

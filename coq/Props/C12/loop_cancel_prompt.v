(** C12 — after shutdown is requested, over every schedule: at most ONE more mailbox callback is started; inside a callback or behind the scan the loop has returned after (entries left in the snapshot + 3) of its own moves; between callbacks it is one move from there or from the end; and Join returns exactly when Start has returned *)
From Coq Require Import ZArith.
From IV Require Import Base.Bytes Model.StoreSpec Model.Retention Model.RetentionLoop Proofs.RetentionLoop.
Theorem loop_cancel_prompt : forall cfg period enum,
  (forall evs y, cancelled y -> (l_visits (lrun cfg period enum y evs) <= l_visits y + 1)%nat) /\
  (forall evs y, cancelled y -> settled y -> (togo y <= lsteps_in evs)%nat -> l_mode (lrun cfg period enum y evs) = LExit) /\
  (forall y tf, cancelled y ->
     settled (loop_step cfg period enum y tf) \/ l_mode (loop_step cfg period enum y tf) = LExit \/
     (l_mode y = LWait /\ exists c, l_mode (loop_step cfg period enum y tf) = LScan c /\ s_phase (l_sys (loop_step cfg period enum y tf)) = PIdle)) /\
  (forall now st evs, let y := lrun cfg period enum (linit period now st) evs in l_mode y = LExit <-> l_closed y = true).
Proof.
  intros cfg period enum. split; [exact (cancel_one_callback cfg period enum)|].
  split; [exact (cancel_exits cfg period enum)|]. split; [exact (cancel_unsettled cfg period enum)|exact (exit_closed cfg period enum)].
Qed.
Print Assumptions loop_cancel_prompt.

(** C12 — after shutdown is requested, over every schedule: the mailbox callbacks still started are at most one plus the number of moves at which an already expired timer wins its select against ctx.Done (a real race in Go: RetentionSleep near 0, or the minute timer firing together with the cancellation) — hence at most ONE when the ctx case wins every select ([lctx_first]: timers not expired, e.g. the default RetentionSleep of 50 ms); under that condition, inside a callback or behind the scan the loop has returned after (entries left in the snapshot + 3) of its own moves (each entry may cost one RemoveMessage call: n expired messages in the mailbox delay shutdown by up to n removals); otherwise it is one move from there, from the end, or from a scan between two mailboxes; and Join returns exactly when Start has returned *)
From Coq Require Import ZArith.
From IV Require Import Base.Bytes Model.StoreSpec Model.Retention Model.RetentionLoop Proofs.RetentionLoop.
Theorem loop_cancel_prompt : forall cfg period enum,
  (forall evs y, cancelled y -> (l_visits (lrun cfg period enum y evs) <= l_visits y + 1 + timer_wins evs)%nat) /\
  (forall evs y, lctx_first evs -> cancelled y -> (l_visits (lrun cfg period enum y evs) <= l_visits y + 1)%nat) /\
  (forall evs y, lctx_first evs -> cancelled y -> settled y -> (togo y <= lsteps_in evs)%nat -> l_mode (lrun cfg period enum y evs) = LExit) /\
  (forall y tf, cancelled y ->
     settled (loop_step cfg period enum y tf) \/ l_mode (loop_step cfg period enum y tf) = LExit \/
     (exists c, l_mode (loop_step cfg period enum y tf) = LScan c /\ s_phase (l_sys (loop_step cfg period enum y tf)) = PIdle)) /\
  (forall now st evs, let y := lrun cfg period enum (linit period now st) evs in l_mode y = LExit <-> l_closed y = true).
Proof.
  intros cfg period enum. split; [exact (cancel_callbacks_bounded cfg period enum)|].
  split; [exact (cancel_one_callback cfg period enum)|].
  split; [exact (cancel_exits cfg period enum)|]. split; [exact (cancel_unsettled cfg period enum)|exact (exit_closed cfg period enum)].
Qed.
Print Assumptions loop_cancel_prompt.

(** C12 — the structure of RetentionScanner.Start / DoScan / Join, read from pkg/storage/retention.go by the translator on this run (statement skeleton with logging and metrics stripped), is the structure the models were written from (select arms, close of retentionShutdown on both paths, delete-then-sleep in the callback, cutoff expression, removal test); the disabled-guard as the source spells it is the model's (Start has returned and Join is released exactly when it holds), and the wait test `since < time.Minute` is the model's "due" *)
From Coq Require Import ZArith.
From IV Require Import Base.Bytes Model.StoreSpec Model.Retention Model.RetentionLoop Gen.RetentionShape Proofs.RetentionShape.
Theorem retention_structure_pinned :
  (start_skeleton = expected_start /\ doscan_skeleton = expected_doscan /\ join_skeleton = expected_join) /\
  (exists cmp, cmp_of_op disabled_guard_op = Some cmp /\
     forall period now st,
       l_mode (linit period now st) = (if cmp period disabled_guard_rhs then LExit else LWait) /\
       l_closed (linit period now st) = cmp period disabled_guard_rhs) /\
  (wait_seconds = minute /\
   exists cmp, cmp_of_op wait_op = Some cmp /\
     forall y : lstate, (l_last y + minute <=? l_now y)%Z = negb (cmp (l_now y - l_last y)%Z wait_seconds)).
Proof. split; [exact skeletons_pinned|split; [exact disabled_guard_is_model|exact wait_test_is_model]]. Qed.
Print Assumptions retention_structure_pinned.

(** C12 — scan_over_store_models: for every operation history from the empty store, the scan removes and the listing afterwards shows the same over the memory-store model, the file-store model (c_max = 0, file_fresh) and StoreSpec *)
From Coq Require Import List Arith Lia ZArith.
From IV Require Import Base.Bytes Base.BytesFacts Model.StoreSpec Model.StoreSpecImpl Model.MemStore Model.FileStore Model.Retention Model.RetentionLoop Proofs.StoreSpecFacts Proofs.MemStoreLimits Proofs.MemStoreRefine Proofs.FileStoreRefine Proofs.Retention.
From IV Require Import Proofs.RetentionStore.
Theorem scan_over_store_models cfg cutoff order ops mb :
  let st := final_spec cfg spec_init ops in
  let sops := scan_ops cfg cutoff order st in
  let all := ops ++ sops ++ [Lst mb] in
  scan cfg cutoff order st = final_spec cfg spec_init (ops ++ sops) /\
  (exists pre, run_spec cfg spec_init all = pre ++
     [(OList (map view_of (if mem_str mb order
                           then filter (fun e => negb (expired cutoff (e_msg e))) (box mb (live st))
                           else box mb (live st))), [])]) /\
  run_mem cfg all = run_spec cfg spec_init all /\
  (forall ticks, c_max cfg = 0%N -> file_fresh cfg (file_init ticks, []) all ->
     run_file cfg ticks all = run_spec cfg spec_init all).
Proof. first [exact RetentionStore.scan_over_store_models | intros; apply RetentionStore.scan_over_store_models]. Qed.
Print Assumptions scan_over_store_models.

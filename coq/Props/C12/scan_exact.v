(** C12 — an undisturbed retention scan leaves in every mailbox of the walk exactly the messages whose date is not before the cutoff, in their order, and touches no other mailbox — for every distribution of ages, every period, every enumeration order *)
From Coq Require Import ZArith.
From IV Require Import Base.Bytes Model.StoreSpec Model.Retention Proofs.StoreSpecFacts Proofs.Retention.
Theorem scan_exact : forall cfg cutoff order st mb, SInv st ->
  box mb (live (scan cfg cutoff order st)) =
  if mem_str mb order then filter (fun e => negb (expired cutoff (e_msg e))) (box mb (live st)) else box mb (live st).
Proof. exact Retention.scan_exact. Qed.
Print Assumptions scan_exact.

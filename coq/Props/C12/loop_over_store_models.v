(** C12 — loop_over_store_models: the same over both store models, Start entered on the store an operation history built *)
From Coq Require Import List Arith Lia ZArith.
From IV Require Import Base.Bytes Base.BytesFacts Model.StoreSpec Model.StoreSpecImpl Model.MemStore Model.FileStore Model.Retention Model.RetentionLoop Proofs.StoreSpecFacts Proofs.MemStoreLimits Proofs.MemStoreRefine Proofs.FileStoreRefine Proofs.Retention.
From IV Require Import Proofs.RetentionStore.
Theorem loop_over_store_models cfg period enum now ops evs :
  let y0 := linit period now (final_spec cfg spec_init ops) in
  let all := ops ++ loop_ops cfg period enum y0 evs in
  s_st (l_sys (lrun cfg period enum y0 evs)) = final_spec cfg spec_init all /\
  run_mem cfg all = run_spec cfg spec_init all /\
  (forall ticks, c_max cfg = 0%N -> file_fresh cfg (file_init ticks, []) all ->
     run_file cfg ticks all = run_spec cfg spec_init all).
Proof. first [exact RetentionStore.loop_over_store_models | intros; apply RetentionStore.loop_over_store_models]. Qed.
Print Assumptions loop_over_store_models.

(** C12 — the select at the end of a DoScan callback, shutdown requested: the ctx case ends the scan at once, the timer case (ready only if RetentionSleep's timer has already expired — a real race in Go for RetentionSleep near 0) lets it go on; when the ctx case wins every such select ([ctx_first]: the timer has not expired, e.g. the default 50 ms) the scanner stops within (entries left of the current mailbox snapshot + 1) of its own steps — each of which may be one RemoveMessage call: a mailbox with n expired messages delays the stop by up to n removals — whatever other clients do; between mailboxes it takes at most one more snapshot; once stopped it removes nothing more; the toy run loop of Model/Retention.v returns as soon as it sees the cancellation (the real loop: loop_cancel_prompt) *)
From Coq Require Import ZArith.
From IV Require Import Base.Bytes Model.StoreSpec Model.Retention Proofs.Retention.
Theorem cancel_bounded : forall cfg cutoff,
  (forall y mb, s_cancel y = true -> s_phase y = PBox mb [] ->
     s_phase (sc_step cfg cutoff false y) = PDone true /\ s_phase (sc_step cfg cutoff true y) = PIdle /\
     s_st (sc_step cfg cutoff false y) = s_st y /\ s_st (sc_step cfg cutoff true y) = s_st y) /\
  (forall evs y mb rest, ctx_first evs -> s_cancel y = true -> s_phase y = PBox mb rest -> (S (length rest) <= steps_in evs)%nat ->
     s_phase (run cfg cutoff y evs) = PDone true) /\
  (forall y tf, s_phase y = PIdle ->
     (exists mb, s_phase (sc_step cfg cutoff tf y) = PBox mb (snapshot (s_st y) mb)) \/ s_phase (sc_step cfg cutoff tf y) = PDone false) /\
  (forall evs y b, s_phase y = PDone b ->
     s_phase (run cfg cutoff y evs) = PDone b /\ s_removed (run cfg cutoff y evs) = s_removed y) /\
  (forall period evs, In LCancel evs -> snd (start period evs) = true).
Proof.
  intros cfg cutoff. split; [exact (callback_end_choice cfg cutoff)|]. split; [exact (Retention.cancel_bounded cfg cutoff)|].
  split; [exact (cancel_idle cfg cutoff)|]. split; [exact (done_stays cfg cutoff)|exact start_exits].
Qed.
Print Assumptions cancel_bounded.

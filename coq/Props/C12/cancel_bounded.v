(** C12 — after shutdown is requested the scanner stops within (entries left of the current mailbox snapshot + 1) of its own steps, whatever other clients do; between mailboxes it takes at most one more snapshot; once stopped it removes nothing more; the run loop returns (Join returns) as soon as it sees the cancellation *)
From Coq Require Import ZArith.
From IV Require Import Base.Bytes Model.StoreSpec Model.Retention Proofs.Retention.
Theorem cancel_bounded : forall cfg cutoff,
  (forall evs y mb rest, s_cancel y = true -> s_phase y = PBox mb rest -> (S (length rest) <= steps_in evs)%nat ->
     s_phase (run cfg cutoff y evs) = PDone true) /\
  (forall y, s_phase y = PIdle ->
     (exists mb, s_phase (sc_step cfg cutoff y) = PBox mb (snapshot (s_st y) mb)) \/ s_phase (sc_step cfg cutoff y) = PDone false) /\
  (forall evs y b, s_phase y = PDone b ->
     s_phase (run cfg cutoff y evs) = PDone b /\ s_removed (run cfg cutoff y evs) = s_removed y) /\
  (forall period evs, In LCancel evs -> snd (start period evs) = true).
Proof.
  intros cfg cutoff. split; [exact (Retention.cancel_bounded cfg cutoff)|].
  split; [exact (cancel_idle cfg cutoff)|]. split; [exact (done_stays cfg cutoff)|exact start_exits].
Qed.
Print Assumptions cancel_bounded.

(** C12 — liveness of the periodic scan for the store's own enumeration (enum := the mailboxes that hold mail), no coverage hypothesis left: a message seen older than the period while the loop waits is gone for good once one scan has run to completion afterwards, over every schedule *)
From Coq Require Import ZArith.
From IV Require Import Base.Bytes Model.StoreSpec Model.Retention Model.RetentionLoop Proofs.StoreSpecFacts Proofs.RetentionLoop.
Theorem loop_deletes_expired_all : forall cfg period y0 e evs1 evs2 ts,
  SInv (s_st (l_sys y0)) -> l_mode y0 = LWait ->
  In e (live (s_st (l_sys y0))) -> (m_date (e_msg e) < l_now y0 - period)%Z ->
  l_mode (lrun cfg period visit_enum y0 evs1) = LCheck ->
  hd_error (l_done (lrun cfg period visit_enum y0 evs1)) = Some (ts, false) ->
  forall e', In e' (live (s_st (l_sys (lrun cfg period visit_enum y0 (evs1 ++ evs2))))) -> ~ (e_mb e' = e_mb e /\ e_k e' = e_k e).
Proof. exact RetentionLoop.loop_deletes_expired_all. Qed.
Print Assumptions loop_deletes_expired_all.

(* Model runner for C12: replays a retention scan (with the forced interleaving the driver
   reports) on the extracted scanner model over the store spec, and evaluates the property
   oracle on what the implementation did: exactly the expired messages are gone
   (scan_exact), the scanner removed nothing young, nothing young is missing unless another
   client removed it, nothing expired survives a completed scan, cancellation stops the walk
   after the current mailbox, Start/Join return. *)
open C12_model
open Conv

let sp c s = Mlutil.split_on_char c s
let cfg = { c_cap = O; c_max = N0 }
let exec st o = fst (fst (exec_spec cfg st o))

(* boxes field -> store (date = -age) *)
let fill (boxes : string) : spec_store =
  if boxes = "-" then spec_init else
  List.fold_left (fun st b ->
    match sp ':' b with
    | [mb; ""] -> let mb = str_of_field mb in exec (exec st (Add (mb, z_of_int 0, N0, N0))) (Purge mb)
    | [mb; ages] ->
        let mb = str_of_field mb in
        (* "<age>*<n>": n messages of that age *)
        List.fold_left (fun st a ->
          let (a, n) = (match sp '*' a with [a; n] -> (a, int_of_string n) | _ -> (a, 1)) in
          let st = ref st in
          for _ = 1 to n do st := exec !st (Add (mb, z_of_int (- (int_of_string a)), N0, N0)) done;
          !st) st (sp ',' ages)
    | _ -> failwith "bad box") spec_init (sp ';' boxes)

let parse_op (f : string list) : op =
  match f with
  | ["add"; mb] -> Add (str_of_field mb, z_of_int 0, N0, N0)
  | ["rm"; mb; k] -> Remove (str_of_field mb, Kth (nat_of_int (int_of_string k)))
  | ["purge"; mb] -> Purge (str_of_field mb)
  | ["seen"; mb; k] -> Seen (str_of_field mb, Kth (nat_of_int (int_of_string k)))
  | _ -> failwith "bad op"

let parse_pos (p : string) : ipos =
  let n = nat_of_int (int_of_string (String.sub p 1 (String.length p - 1))) in
  if p.[0] = 'v' then IV n else if p.[0] = 'a' then IA n else IR n

let parse_eff (f : string) : (ipos * op) list * (string list) list =
  let body = String.sub f 2 (String.length f - 2) in
  if body = "" then ([], []) else
  let es = List.map (fun e -> match sp '/' e with [p; o] -> (parse_pos p, sp ':' o) | _ -> failwith "bad eff")
             (List.filter (fun e -> e <> "STUCK") (sp ',' body)) in
  (List.map (fun (p, o) -> (p, parse_op o)) es, List.map snd es)

let dump (st : spec_store) : string =
  let parts = List.map (fun (mb, l) -> field_of_str mb ^ "=" ^ String.concat ":" (List.map (fun (k, _) -> string_of_int (int_of_nat k)) l)) (spec_visit st) in
  "D=" ^ String.concat "|" (List.sort compare parts)

(* D=mb=k:k|mb=k -> assoc mb(hex) -> int list; "k!" = listed, but its content cannot be opened or is not the
   bytes delivered (then [content_bad] is set) *)
let content_bad = ref false
let parse_dump (f : string) : (string * int list) list =
  content_bad := false;
  let body = String.sub f 2 (String.length f - 2) in
  if body = "" then [] else
  List.map (fun p -> match sp '=' p with
    | [mb; ks] -> (mb, List.map (fun k ->
        let n = String.length k in
        let k = if n > 0 && k.[n - 1] = '!' then (content_bad := true; String.sub k 0 (n - 1)) else k in
        try int_of_string k with _ -> -1) (sp ':' ks))
    | _ -> failwith "bad dump") (sp '|' body)

let removed_tok (l : entry list) = "R=" ^ String.concat "," (List.map (fun e -> field_of_str e.e_mb ^ "." ^ string_of_int (int_of_nat e.e_k)) l)


(* ---- the run loop (Model/RetentionLoop.v) as the `start` and `asm12` cases drive it *)
let enum_all (st : spec_store) = List.map fst st.counts
let lstep period y e = lev_step cfg (z_of_int period) enum_all y e
let settle_loop period y = settle cfg (z_of_int period) enum_all (nat_of_int 100000) y

(* Start is entered at clock 0; the loop runs whenever it can; every full minute the timer fires;
   after [cancel_after] seconds (None: never) shutdown is requested. *)
let serve_loop (period : int) (st0 : spec_store) (cancel_after : int option) : lstate =
  let y = ref (settle_loop period (linit (z_of_int period) (z_of_int 0) st0)) in
  (match cancel_after with
   | None -> ()
   | Some secs ->
       let rem = ref secs in
       while !rem >= 60 do
         y := settle_loop period (lstep period !y (LTick (n_of_int 60)));
         rem := !rem - 60
       done;
       y := lstep period !y (LTick (n_of_int !rem));
       y := settle_loop period (lstep period !y LCancelEv));
  !y

let parse_duration (s : string) : int =
  let n = String.length s in
  if n = 0 then 0 else
  let v = int_of_string (String.sub s 0 (n - 1)) in
  match s.[n - 1] with 'h' -> v * 3600 | 'm' -> v * 60 | _ -> v

let () =
  Mlutil.iter_lines (fun line ->
    let (kind, ins, outs) = Mlutil.split_case line in
    match kind, ins with
    | "scan", [_store; period; boxes; _inj; cancel_at] ->
        let st0 = fill boxes in
        let cutoff = z_of_int (- (int_of_string period)) in
        (* cancelAt: "-" | "<n>" (RetentionSleep 100 ms: the ctx case is the only ready one at the callback end)
           | "<n>z" / "<n>n" (RetentionSleep 0 / 1 ns: the expired timer races with ctx.Done, see sc_step) *)
        let racy = cancel_at <> "-" && (let c = cancel_at.[String.length cancel_at - 1] in c = 'z' || c = 'n') in
        (* "<n>r<m>": the cancellation comes inside the n-th callback (at the m-th removal): the callback is finished, then the scan stops *)
        let cancel_cb = (match sp 'r' cancel_at with [n; _] -> n | _ -> cancel_at) in
        let cancel = if cancel_at = "-" then 0
          else int_of_string (if racy then String.sub cancel_at 0 (String.length cancel_at - 1) else cancel_cb) in
        (match outs with
         | [order; res; callbacks; eff; d; r] ->
             let ord = if order = "none" then [] else List.map (fun m -> if m = "-" then [] else str_of_field m) (sp ',' order) in
             let (pend, effops) = parse_eff eff in
             let run_extra extra =
               let y = replay cfg (nat_of_int 100000) cutoff (nat_of_int cancel) (nat_of_int extra) pend (sys_init ord st0) in
               [order; "ok"; string_of_int (int_of_nat y.s_visited); eff; dump y.s_st; removed_tok y.s_removed] in
             (* with an expired sleep timer every callback end after the cancellation is a coin flip: the scan may
                stop there or go on — one alternative per number of callback ends at which the timer wins *)
             let alts = if racy then List.sort_uniq compare (List.init (List.length ord + 1) run_extra) else [run_extra 0] in
             let model = [String.concat " || " (List.map (String.concat " ") alts)] in
             (* ---- oracle, on the implementation's observation *)
             let surv = parse_dump d in
             let surv_of mb = try List.assoc mb surv with Not_found -> [] in
             let initial = List.map (fun (mb, _) -> (field_of_str mb, snapshot st0 mb)) st0.counts in
             let is_exp (v : nat * msg) = expired cutoff (snd v) in
             let undisturbed = (effops = [] && cancel = 0) in
             let by_client mb k = List.exists (fun o -> match o with
                 | ["rm"; m; kk] -> m = mb && int_of_string kk = k
                 | ["purge"; m] -> m = mb
                 | _ -> false) effops in
             let verdict =
               if List.mem "STUCK" (sp ',' eff) then "fail:delivery-stuck"
               else if res = "ok-SLOW" && cancel > 0 then "fail:cancel-not-prompt"
               else if res <> "ok" then "fail:scan-" ^ String.lowercase_ascii res
               else begin
                 let bad = ref "" in
                 let fail s = if !bad = "" then bad := s in
                 (* removed by the scanner: only expired messages *)
                 if r <> "R=" then List.iter (fun t ->
                   match sp '.' t with
                   | [mb; k] ->
                       let k = (try int_of_string k with _ -> -1) in
                       let snap = (try List.assoc mb initial with Not_found -> []) in
                       (match List.find_opt (fun (kk, _) -> int_of_nat kk = k) snap with
                        | Some v -> if not (is_exp v) then fail "deleted-young"
                        | None -> fail "deleted-young")       (* delivered during the scan: young *)
                   | _ -> fail "bad-removed-log") (sp ',' (String.sub r 2 (String.length r - 2)));
                 List.iter (fun (mb, snap) ->
                   let s = surv_of mb in
                   List.iter (fun v ->
                     let k = int_of_nat (fst v) in
                     if is_exp v then begin
                       if cancel = 0 && List.mem k s then fail "expired-survived"
                     end else begin
                       if not (List.mem k s) && not (by_client mb k) then fail "young-missing"
                     end) snap;
                   if undisturbed then begin
                     let want = List.map (fun v -> int_of_nat (fst v)) (List.filter (fun v -> not (is_exp v)) snap) in
                     if s <> want then fail "scan-not-exact"
                   end) initial;
                 (* mail delivered during the scan is young: it must be there unless another client removed it later *)
                 let cnt = Hashtbl.create 7 in
                 List.iter (fun (mb, n) -> Hashtbl.replace cnt (field_of_str mb) (int_of_nat n)) st0.counts;
                 let fresh = ref [] in
                 List.iter (fun o -> match o with
                   | ["add"; mb] ->
                       let k = (try Hashtbl.find cnt mb with Not_found -> 0) in
                       Hashtbl.replace cnt mb (k + 1); fresh := (mb, k) :: !fresh
                   | ["rm"; mb; kk] -> fresh := List.filter (fun (m, k) -> not (m = mb && k = int_of_string kk)) !fresh
                   | ["purge"; mb] -> fresh := List.filter (fun (m, _) -> m <> mb) !fresh
                   | _ -> ()) effops;
                 List.iter (fun (mb, k) -> if not (List.mem k (surv_of mb)) then fail "fresh-mail-lost") !fresh;
                 if cancel > 0 && not racy && int_of_string callbacks > cancel then fail "cancel-not-prompt";
                 (* what is still listed still has its content *)
                 if !content_bad then fail "listed-message-content-destroyed";
                 if !bad = "" then "ok" else "fail:" ^ !bad
               end in
             Mlutil.print_model model verdict
         | "PANIC" :: _ -> Mlutil.print_model ["none"; "ok"] "fail:panic"
         | _ -> Mlutil.print_model ["none"; "ok"] "fail:no-answer")
    | "slow", [_store; period; boxes; target] ->
        (* a delivery whose body is still arriving while DoScan runs: wherever the store puts the delivery relative to
           the scan's steps, the new message is young and handles are never reused, so the outcome is the scan of the
           store that already holds it *)
        let st0 = fill boxes in
        let cutoff = z_of_int (- (int_of_string period)) in
        let tmb = str_of_field target in
        let st0' = exec st0 (Add (tmb, z_of_int 0, N0, N0)) in
        let st1 = scan cfg cutoff (enum_all st0') st0' in
        let gone = List.filter (fun e -> not (List.exists (fun e' -> e'.e_mb = e.e_mb && e'.e_k = e.e_k) st1.live)) st0'.live in
        let rtok = "R=" ^ String.concat "," (List.sort compare
                     (List.map (fun e -> field_of_str e.e_mb ^ "." ^ string_of_int (int_of_nat e.e_k)) gone)) in
        let model = ["ok"; dump st1; rtok] in
        let verdict = match outs with
          | [res; d; r] ->
              if res <> "ok" then "fail:scan-" ^ String.lowercase_ascii res else begin
                let bad = ref "" in
                let fail s = if !bad = "" then bad := s in
                let surv = parse_dump d in
                let cbad = !content_bad in
                let surv_of mb = try List.assoc mb surv with Not_found -> [] in
                let is_exp (v : nat * msg) = expired cutoff (snd v) in
                let initial = List.map (fun (mb, _) -> (field_of_str mb, snapshot st0 mb)) st0.counts in
                if r <> "R=" then List.iter (fun t ->
                  match sp '.' t with
                  | [mb; k] ->
                      let snap = (try List.assoc mb initial with Not_found -> []) in
                      (match List.find_opt (fun (kk, _) -> string_of_int (int_of_nat kk) = k) snap with
                       | Some v -> if not (is_exp v) then fail "deleted-young"
                       | None -> fail "deleted-young")
                  | _ -> fail "bad-removed-log") (sp ',' (String.sub r 2 (String.length r - 2)));
                List.iter (fun (mb, snap) ->
                  let s = surv_of mb in
                  List.iter (fun v ->
                    let k = int_of_nat (fst v) in
                    if is_exp v then (if List.mem k s then fail "expired-survived")
                    else (if not (List.mem k s) then fail "young-missing")) snap) initial;
                let fk = (try int_of_nat (List.assoc tmb st0.counts) with Not_found -> 0) in
                if not (List.mem fk (surv_of target)) then fail "fresh-mail-lost";
                (* listed is not enough: the message must still have the bytes that were delivered *)
                if cbad then fail "listed-message-content-destroyed";
                if !bad = "" then "ok" else "fail:" ^ !bad
              end
          | ("DELIVERY-STUCK" | "SCAN-STUCK" | "DELIVERY-NEVER-READ") :: _ -> "fail:delivery-stuck"
          | "DELIVERERR" :: _ -> "fail:delivery-refused"
          | "PANIC" :: _ -> "fail:panic"
          | _ -> "fail:no-answer" in
        Mlutil.print_model model verdict
    | "start", [_store; period; cancel_ms; boxes] ->
        (* the run-loop model (Model/RetentionLoop.v): clock in seconds, Start entered at 0, dates = -age *)
        let st0 = fill boxes in
        let cms = int_of_string cancel_ms in
        let y = serve_loop (int_of_string period) st0 (if cms < 0 then None else Some (cms / 1000)) in
        let returned = (y.l_mode = LExit) in
        let st1 = y.l_sys.s_st in
        let model = [(if returned then "returned" else "BLOCKED"); dump st1] in
        let scans = List.length y.l_starts in
        let verdict = match outs with
          | [res; d] ->
              if res <> "returned" then "fail:start-join-timeout"
              else if d <> dump st1 then
                (if int_of_string period <= 0 then "fail:zero-period-deleted"
                 else if scans = 0 then "fail:start-deleted" else "fail:start-scan-not-exact")
              else "ok"
          | _ -> "fail:no-answer" in
        Mlutil.print_model model verdict
    | "dlv", [_store; period; wait; dates] ->
        (* mail delivered through the real StoreManager.Deliver at clock 0 with its own Date: header; DoScan at clock [wait] *)
        let period = int_of_string period and wait = int_of_string wait in
        let ds = sp ',' dates in
        let st0 = fst (List.fold_left (fun (st, i) d ->
            let hdr = (match d with "x" | "g" -> None | s -> Some (z_of_int (int_of_string s))) in
            (exec st (deliver_op (str_of_raw (Printf.sprintf "box%d" (i mod 2))) (z_of_int 0) hdr (n_of_int i) N0), i + 1))
            (spec_init, 0) ds) in
        let st1 = scan cfg (z_of_int (wait - period)) (List.map fst st0.counts) st0 in
        let tags st = List.sort compare (List.map (fun e -> int_of_n e.e_msg.m_tag) st.live) in
        let stok l = if l = [] then "-" else String.concat "," (List.map string_of_int l) in
        let verdict = match outs with
          | ["ok"; s] ->
              let got = if s = "-" then [] else List.map int_of_string (sp ',' s) in
              let all = List.mapi (fun i _ -> i) ds in
              (* the oracle: every mail arrived [wait] seconds ago, whatever its Date header says *)
              if wait < period && got <> all then "fail:deleted-young"
              else if wait > period && got <> [] then "fail:expired-survived"
              else "ok"
          | r :: _ -> "fail:scan-" ^ String.lowercase_ascii r
          | [] -> "fail:no-answer" in
        Mlutil.print_model ["ok"; stok (tags st1)] verdict
    | "asm12", [period; n] ->
        (* the assembled server (go/asmsys) served a pre-populated file store for T seconds: which messages
           must still be there comes from the run-loop model *)
        (match outs with
         | ["ok"; s; a; tt] when String.length s >= 2 && String.sub s 0 2 = "S=" ->
             let ages = List.map int_of_string (sp ',' (String.sub a 2 (String.length a - 2))) in
             let secs = int_of_string (String.sub tt 2 (String.length tt - 2)) in
             let p = parse_duration period in
             let st0 = fst (List.fold_left (fun (st, i) age ->
               (exec st (Add (str_of_raw (Printf.sprintf "box%d" (i mod 3)), z_of_int (- age), n_of_int i, N0)), i + 1)) (spec_init, 0) ages) in
             let y = serve_loop p st0 (Some secs) in
             let tags st = List.sort compare (List.map (fun e -> int_of_n e.e_msg.m_tag) st.live) in
             let want = tags y.l_sys.s_st in
             let model = ["ok"; "S=" ^ String.concat "," (List.map string_of_int want); a; tt] in
             let got = (let b = String.sub s 2 (String.length s - 2) in if b = "" then [] else List.map int_of_string (sp ',' b)) in
             (* oracle: nothing younger than the period (with the child's one-minute margin) may be missing; period <= 0: nothing at all *)
             let missing_young = List.exists (fun (i, age) -> (p <= 0 || age < p - 60) && not (List.mem i got))
                 (List.mapi (fun i age -> (i, age)) ages) in
             ignore n;
             Mlutil.print_model model (if missing_young then "fail:assembled-server-deleted-unexpired-mail" else "ok")
         | _ -> Mlutil.asm_case outs)
    | _ -> Mlutil.print_model ["UNKNOWN-KIND"] "ok")

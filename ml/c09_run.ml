(* Model runner for C09.
   default mode : case lines on stdin -> model outcome set (all resolutions of map/readdir order)
                  + property oracle evaluated on what the IMPLEMENTATION answered.
   enum mode    : combo lines (no schedule) on stdin -> case lines with schedules enumerated from the
                  executable model (preemption-bounded DFS + seeded random walks).
   case line    : mem  <cap> <maxkb> <prefix> <ops> <sched>
                  file <geo>        <prefix> <ops> <sched>
   ops          : a:mb:tag:size g:mb:tgt t:mb l:mb s:mb:tgt r:mb:tgt p:mb v   (tgt = tag | x)
   sched        : one character per step: 0..9 = thread, e = size enforcer goroutine
   outs         : status flags intervals r0 .. rn-1 final ids *)
open C09_model
open Conv

type target = Tag of int | Bogus
type symop =
  | SAdd of int * int * int | SGet of int * target | SLatest of int | SList of int
  | SSeen of int * target | SRemove of int * target | SPurge of int | SVisit

let bogus_id = 9999
let universe = [1; 2; 3; 4]

let parse_target s = if s = "x" then Bogus else Tag (int_of_string s)
let parse_op s =
  match String.split_on_char ':' s with
  | ["a"; mb; tag; size] -> SAdd (int_of_string mb, int_of_string tag, int_of_string size)
  | ["g"; mb; t] -> SGet (int_of_string mb, parse_target t)
  | ["t"; mb] -> SLatest (int_of_string mb)
  | ["l"; mb] -> SList (int_of_string mb)
  | ["s"; mb; t] -> SSeen (int_of_string mb, parse_target t)
  | ["r"; mb; t] -> SRemove (int_of_string mb, parse_target t)
  | ["p"; mb] -> SPurge (int_of_string mb)
  | ["v"] -> SVisit
  | _ -> failwith ("bad op " ^ s)
let parse_ops s = if s = "-" then [] else List.map parse_op (String.split_on_char ',' s)

let target_of = function SGet (_, t) | SSeen (_, t) | SRemove (_, t) -> Some t | _ -> None

(* symbolic op -> model op, given the id the target resolves to *)
let concrete (o : symop) (id : int) : op =
  let n = n_of_int in
  match o with
  | SAdd (mb, tag, size) -> OAdd (n mb, n tag, n size)
  | SGet (mb, _) -> OGet (n mb, n id)
  | SLatest mb -> OLatest (n mb)
  | SList mb -> OList (n mb)
  | SSeen (mb, _) -> OSeen (n mb, n id)
  | SRemove (mb, _) -> ORemove (n mb, n id)
  | SPurge mb -> OPurge (n mb)
  | SVisit -> OVisit

let view_str (v : view) =
  String.concat "+" (List.map (fun (t, s) -> Printf.sprintf "%d.%d" (int_of_n t) (if s then 1 else 0)) v)
let visit_str (l : (mbname * view) list) =
  let l = List.sort compare (List.map (fun (mb, v) -> (int_of_n mb, view_str v)) l) in
  String.concat ";" (List.map (fun (mb, v) -> Printf.sprintf "%d=%s" mb v) l)
let res_str = function
  | RId _ -> "id" | ROk -> "ok" | RNotExist -> "ne"
  | RMsg (t, s) -> Printf.sprintf "m%d.%d" (int_of_n t) (if s then 1 else 0)
  | RList v -> "L" ^ view_str v
  | RVisit l -> "V" ^ visit_str l
  | RFail -> "err"

(* ------------------------------------------------------------------ machines *)

type 'st machine = {
  mstep : 'st -> int -> int -> 'st sres;          (* party (-1 = enforcer), choice *)
  nchoices : 'st -> int -> int;
  at_start : 'st -> int -> bool;
  set_op : 'st -> int -> op -> 'st;
  tags : 'st -> (int * int) list;                 (* visible (tag, id) *)
  result : 'st -> int -> res option;
  listing : 'st -> int -> view;
  done_all : 'st -> bool;
  nthreads : 'st -> int;
  has_enf : 'st -> bool;
}

let who_of p = if p < 0 then E else T (nat_of_int p)

let mem_machine : msys machine = {
  mstep = (fun s p c -> step s (who_of p) (nat_of_int c));
  nchoices = (fun s p ->
    if p < 0 then 1 else
    match List.nth_opt s.s_thr p with
    | Some (PStart OVisit) -> max 1 (List.length s.s_boxes)
    | Some (PVisitLock (_, rest, _)) -> max 1 (List.length rest)
    | Some (PPurgeSwapped (_, ms)) -> if s.s_max = None then 1 else max 1 (List.length ms)
    | Some (PPurgeEnf (_, _, rest, true)) -> max 1 (List.length rest)
    | _ -> 1);
  at_start = (fun s p -> match List.nth_opt s.s_thr p with Some (PStart _) -> true | _ -> false);
  set_op = (fun s p o -> setpc (nat_of_int p) (PStart o) s);
  tags = (fun s -> List.concat_map (fun (_, x) -> List.map (fun m -> (int_of_n m.m_tag, int_of_n m.m_id)) x.x_box.b_msgs) s.s_boxes);
  result = (fun s p -> match List.nth_opt s.s_thr p with Some (PDone r) -> Some r | _ -> None);
  listing = (fun s mb -> match List.assoc_opt (n_of_int mb) s.s_boxes with
                         | Some x -> List.map (fun m -> (m.m_tag, m.m_seen)) x.x_box.b_msgs | None -> []);
  done_all = all_done;
  nthreads = (fun s -> List.length s.s_thr);
  has_enf = (fun s -> s.s_max <> None);
}

let file_machine : fsys machine = {
  mstep = (fun s p c -> if p < 0 then SNoop else fstep s (nat_of_int p) (nat_of_int c));
  nchoices = (fun s p ->
    match List.nth_opt s.f_thr p with
    | Some FVisit1 -> max 1 (List.length s.f_l1)
    | Some (FVisit2 (n1, r1, _)) ->
        (* the next pick is among the level-2 names if the directory is there, else among r1 *)
        max 1 (max (List.length s.f_l2) (List.length r1))
    | Some (FVisit3 (_, r2, r1, _)) -> max 1 (max (List.length s.f_mbd) (max (List.length r2) (List.length r1)))
    | Some (FVisitMb (_, r3, r2, r1, _)) -> max 1 (max (List.length r3) (max (List.length r2) (List.length r1)))
    | _ -> 1);
  at_start = (fun s p -> match List.nth_opt s.f_thr p with Some (FStart _) -> true | _ -> false);
  set_op = (fun s p o -> fsetpc (nat_of_int p) (FStart o) s);
  tags = (fun s -> List.concat_map (fun (_, l) -> List.map (fun m -> (int_of_n m.m_tag, int_of_n m.m_id)) l) s.f_idx);
  result = (fun s p -> match List.nth_opt s.f_thr p with Some (FDone r) -> Some r | _ -> None);
  listing = (fun s mb -> match List.assoc_opt (n_of_int mb) s.f_idx with
                         | Some l -> List.map (fun m -> (m.m_tag, m.m_seen)) l | None -> []);
  done_all = fall_done;
  nthreads = (fun s -> List.length s.f_thr);
  has_enf = (fun _ -> false);
}

(* ------------------------------------------------------------------ running *)

type 'st rstate = {
  st : 'st;
  table : (int * int) list;        (* tag -> id, grow-only *)
  flags : char array;              (* per thread: '-' no target, 'r' resolved, 'u' unresolved, '?' not started *)
  starts : int array; ends : int array;
}

let learn m r = { r with table = List.fold_left (fun t (tag, id) -> if List.mem_assoc tag t then t else (tag, id) :: t) r.table (m.tags r.st) }

(* first step of thread p: resolve its target now *)
let prepare m (ops : symop array) r p n =
  if p >= 0 && p < Array.length ops && m.at_start r.st p && r.starts.(p) < 0 then begin
    let flags = Array.copy r.flags and starts = Array.copy r.starts in
    starts.(p) <- n;
    let id = match target_of ops.(p) with
      | None -> flags.(p) <- '-'; 0
      | Some Bogus -> flags.(p) <- 'u'; bogus_id
      | Some (Tag k) -> (match List.assoc_opt k r.table with
                         | Some id -> flags.(p) <- 'r'; id
                         | None -> flags.(p) <- 'u'; bogus_id) in
    { r with st = m.set_op r.st p (concrete ops.(p) id); flags; starts }
  end else r

let after_step m r p n =
  let r = learn m r in
  if p >= 0 && p < Array.length r.ends && r.ends.(p) < 0 && m.result r.st p <> None then begin
    let ends = Array.copy r.ends in ends.(p) <- n; { r with ends }
  end else r

type status = Fin | Unfinished | Blocked of int | Crash

let party_of_char c = if c = 'e' then -1 else Char.code c - 48
let char_of_party p = if p < 0 then 'e' else Char.chr (48 + p)

let final_str m st = String.concat ";" (List.map (fun mb -> Printf.sprintf "%d=%s" mb (view_str (m.listing st mb))) universe)

let render m (ops : symop array) (status, r) =
  let n = Array.length ops in
  let st_s = match status with Fin -> "fin" | Unfinished -> "unfinished" | Blocked k -> Printf.sprintf "blocked@%d" k | Crash -> "crash" in
  let flags = String.init n (fun i -> r.flags.(i)) in
  let res = List.init n (fun i -> match m.result r.st i with Some x -> res_str x | None -> "none") in
  if status = Fin then
    let iv = String.concat "," (List.init n (fun i -> Printf.sprintf "%d-%d" r.starts.(i) r.ends.(i))) in
    [st_s; flags; iv] @ res @ [final_str m r.st; "ids=ok"]
  else [st_s; flags; "-"] @ res @ ["-"; "ids=ok"]

(* all outcomes of a schedule over every resolution of the iteration-order choices *)
let eval_all m ops (r0 : 'st rstate) (sched : string) : (status * 'st rstate) list =
  let sched = if sched <> "" && sched.[String.length sched - 1] = '!' then String.sub sched 0 (String.length sched - 1) else sched in
  let len = String.length sched in
  let out = ref [] in
  let rec go r n =
    if n >= len then out := ((if m.done_all r.st then Fin else Unfinished), r) :: !out
    else begin
      let p = party_of_char sched.[n] in
      let r = prepare m ops r p n in
      let k = m.nchoices r.st p in
      let seen = ref [] in
      for c = 0 to k - 1 do
        match m.mstep r.st p c with
        | SOk st' -> if not (List.mem st' !seen) then begin seen := st' :: !seen; go (after_step m { r with st = st' } p n) (n + 1) end
        | SNoop -> if c = 0 then go r (n + 1)
        | SBlocked -> if c = 0 then out := (Blocked n, r) :: !out
        | SCrash -> if c = 0 then out := (Crash, r) :: !out
      done
    end in
  go r0 0; !out

let fresh m (st, table) ops =
  let n = Array.length ops in
  learn m { st; table; flags = Array.make n '?'; starts = Array.make n (-1); ends = Array.make n (-1) }

(* sequential preparation of the initial state by the model itself *)
let grow tb l = List.fold_left (fun t (tag, id) -> if List.mem_assoc tag t then t else (tag, id) :: t) tb l

let mem_init cap maxkb (prefix : symop list) (ops : symop array) : msys * (int * int) list =
  let max = if maxkb = 0 then None else Some (z_of_int (maxkb * 1024)) in
  let (st, tb) = List.fold_left (fun (st, tb) o ->
      let s1 = init_sys st.s_cap st.s_max (List.map (fun (k, x) -> (k, x.x_box)) st.s_boxes) st.s_enf [] in
      let id = match target_of o with Some (Tag k) -> (try List.assoc k tb with Not_found -> bogus_id) | _ -> bogus_id in
      let s1 = { s1 with s_thr = [PStart (concrete o id)] } in
      (* the id of a delivery is known from the moment it is visible, even if it is evicted at once *)
      let rec go fuel s tb =
        if fuel = 0 then failwith "prefix does not run" else
        match step s E O with
        | SOk s' -> go (fuel - 1) s' (grow tb (mem_machine.tags s'))
        | SCrash -> failwith "prefix crashes"
        | _ -> (match step s (T O) O with
                | SOk s' -> go (fuel - 1) s' (grow tb (mem_machine.tags s'))
                | SNoop -> (s, tb)
                | _ -> failwith "prefix blocks") in
      go 1000 s1 tb)
      (init_sys (n_of_int cap) max [] enf0 [], []) prefix in
  (init_sys st.s_cap st.s_max (List.map (fun (k, x) -> (k, x.x_box)) st.s_boxes) st.s_enf
    (List.map (fun o -> concrete o 0) (Array.to_list ops)), tb)

let parse_geo s : geo =
  List.map (fun e -> match String.split_on_char ':' e with
      | [mb; a; b] -> (n_of_int (int_of_string mb), (n_of_int (int_of_string a), n_of_int (int_of_string b)))
      | _ -> failwith "bad geo") (String.split_on_char ',' s)

let file_init g (prefix : symop list) (ops : symop array) : fsys * (int * int) list =
  let (st, tb) = List.fold_left (fun (st, tb) o ->
      let id = match target_of o with Some (Tag k) -> (try List.assoc k tb with Not_found -> bogus_id) | _ -> bogus_id in
      let s1 = fwith_ops st [concrete o id] in
      match fdrive (nat_of_int 1000) s1 O with Some s -> (s, grow tb (file_machine.tags s)) | None -> failwith "prefix does not run")
      (finit g [], []) prefix in
  (fwith_ops st (List.map (fun o -> concrete o 0) (Array.to_list ops)), tb)

(* ------------------------------------------------------------------ oracle *)

(* Is there a sequential order of the actions, consistent with real time, that explains the observed
   results and the final listing?  Runs the extracted sequential specification [seq_exec]. *)
type action = { aop : symop; resolved : bool; obs : string; a_s : int; a_e : int }

let spec_tags (s : sstore) = List.concat_map (fun (_, b) -> List.map (fun m -> (int_of_n m.m_tag, int_of_n m.m_id)) b.b_msgs) s
let spec_exec touch cap s (o : symop) resolved =
  let id = match target_of o with
    | Some (Tag k) when resolved -> (try List.assoc k (spec_tags s) with Not_found -> bogus_id)
    | _ -> bogus_id in
  seq_exec touch (n_of_int cap) s (concrete o id)

let nonempty_final (l : string) =
  (* "1=a;2=;3=b" -> entries with a non-empty view *)
  List.filter (fun e -> match String.index_opt e '=' with Some i -> i < String.length e - 1 | None -> false)
    (String.split_on_char ';' l)

let spec_final (s : sstore) =
  List.filter_map (fun mb -> let v = view_str (view_of (sget (n_of_int mb) s).b_msgs) in
                    if v = "" then None else Some (Printf.sprintf "%d=%s" mb v)) universe

let explain touch cap (s0 : sstore) (acts : action list) (final : string) : bool =
  let want_final = nonempty_final final in
  let rec go s rem =
    match rem with
    | [] -> spec_final s = want_final
    | _ ->
        List.exists (fun a ->
            (* a may come next only if no remaining action finished before a started *)
            if List.exists (fun b -> b != a && b.a_e < a.a_s) rem then false
            else begin
              let (s', r) = spec_exec touch cap s a.aop a.resolved in
              res_str r = a.obs && go s' (List.filter (fun b -> b != a) rem)
            end) rem in
  go s0 acts

let expand_actions (ops : symop array) flags ivs (rs : string list) : action list option =
  try
    Some (List.concat (List.mapi (fun i o ->
        let (a_s, a_e) = List.nth ivs i in
        let obs = List.nth rs i in
        match o with
        | SVisit ->
            if String.length obs = 0 || obs.[0] <> 'V' then raise Exit;
            let body = String.sub obs 1 (String.length obs - 1) in
            if body = "" then [] else
            List.map (fun e -> match String.split_on_char '=' e with
                | [mb; v] -> { aop = SList (int_of_string mb); resolved = false; obs = "L" ^ v; a_s; a_e }
                | _ -> raise Exit) (String.split_on_char ';' body)
        | _ -> [{ aop = o; resolved = (String.get flags i = 'r'); obs; a_s; a_e }]) (Array.to_list ops)))
  with _ -> None

(* With the size limit: is there an interleaving of the operations' atomic sub-actions (extracted
   specification [qstep], Model/ConcEnfSpec.v), each operation's sub-actions inside its observed interval,
   that gives every operation its observed result and ends in the observed content? *)
let norm_visit (s : string) : string =
  (* "V1=a;2=;3=b" -> entries with non-empty views only *)
  if s = "" || s.[0] <> 'V' then s else
  "V" ^ String.concat ";" (nonempty_final (String.sub s 1 (String.length s - 1)))

let q_tags (q : qstate) = spec_tags q.q_store

let explain_enf cap maxkb (prefix : symop list) (ops : symop array) (flags : string)
    (ivs : (int * int) array) (rs : string array) (final : string) : bool =
  let n = Array.length ops in
  let capn = n_of_int cap and max = Some (z_of_int (maxkb * 1024)) in
  let resolve q o resolved =
    let id = match target_of o with
      | Some (Tag k) when resolved -> (try List.assoc k (q_tags q) with Not_found -> bogus_id)
      | _ -> bogus_id in
    concrete o id in
  (* initial state: the prefix, each operation run alone *)
  let q_init = List.fold_left (fun q o ->
      match qdrive (nat_of_int 1000) capn max q (QStart (resolve q o true)) with
      | Some (q', _) -> q' | None -> q) q0 prefix in
  let want_final = nonempty_final final in
  let q_final q = List.filter_map (fun mb -> let v = view_str (view_of (sget (n_of_int mb) q.q_store).b_msgs) in
                    if v = "" then None else Some (Printf.sprintf "%d=%s" mb v)) universe in
  let seen = Hashtbl.create 1024 in
  let rec go (q : qstate) (pcs : qpc option array) =
    let key = (q, Array.to_list pcs) in
    if Hashtbl.mem seen key then false else begin
      Hashtbl.add seen key ();
      let finished i = match pcs.(i) with Some (QDone _) -> true | _ -> false in
      if Array.for_all (fun p -> match p with Some (QDone _) -> true | _ -> false) pcs then q_final q = want_final
      else begin
        let ok = ref false in
        for i = 0 to n - 1 do
          if not !ok then
            match pcs.(i) with
            | Some (QDone _) -> ()
            | None ->
                (* i may start only when everything that returned before its call has finished *)
                let blocked = ref false in
                for j = 0 to n - 1 do
                  if j <> i && not (finished j) && snd ivs.(j) < fst ivs.(i) then blocked := true
                done;
                if not !blocked then begin
                  let pcs' = Array.copy pcs in
                  pcs'.(i) <- Some (QStart (resolve q ops.(i) (flags.[i] = 'r')));
                  if go q pcs' then ok := true
                end
            | Some p ->
                let k = int_of_nat (qchoices q p) in
                for c = 0 to k - 1 do
                  if not !ok then
                    match qstep capn max q p (nat_of_int c) with
                    | None -> ()
                    | Some (q', p') ->
                        let fits = match p' with
                          | QDone r -> norm_visit (res_str r) = norm_visit rs.(i)
                          | _ -> true in
                        if fits then begin
                          let pcs' = Array.copy pcs in
                          pcs'.(i) <- Some p';
                          if go q' pcs' then ok := true
                        end
                done
        done;
        !ok
      end
    end in
  go q_init (Array.make n None)

let rec split_byp = function
  | [] -> ([], None)
  | "BYP" :: rest -> ([], Some rest)
  | x :: rest -> let (a, b) = split_byp rest in (x :: a, b)

let rec oracle touch cap (maxkb : int) (prefix : symop list) (ops : symop array) ?(all_blocked = false) ?init (outs : string list) : string =
  let n = Array.length ops in
  let (outs, byp) = split_byp outs in
  match byp with
  | Some (iv :: rest) when List.length rest = n + 1 ->
      (* the schedule did not run everything to the end (a pick the model says must block went on, a pick
         blocked unexpectedly, or the schedule ended early) and the implementation was run to completion
         under control: that execution is judged as well *)
      let flags = match outs with _ :: f :: _ -> f | _ -> String.make n '-' in
      let v = oracle touch cap maxkb prefix ops (["fin"; flags; iv] @ rest @ ["ids=ok"]) in
      if v = "ok" then oracle touch cap maxkb prefix ops outs
      else v ^ (if all_blocked then "-after-bypassed-lock" else "-after-controlled-completion")
  | _ ->
  match outs with
  | "PANIC" :: _ -> "fail:panic"
  | ["crash"] -> "fail:process-crashed"
  | status :: flags :: iv :: rest when List.length rest = n + 2 ->
      let rs = List.filteri (fun i _ -> i < n) rest in
      let final = List.nth rest n and ids = List.nth rest (n + 1) in
      if status = "crash" then "fail:process-crashed"
      else if status = "deadlock" then "fail:deadlock"
      else if List.mem "err" rs then "fail:operation-failed"
      else if List.exists (fun r -> String.length r > 3 && String.sub r 0 3 = "err") rs then "fail:operation-failed"
      else if ids <> "ids=ok" then "fail:duplicate-id"
      else if status <> "fin" then "ok"
      else if List.exists2 (fun o r -> match o with SAdd _ -> r <> "id" | _ -> false) (Array.to_list ops) rs then "fail:delivery-without-id"
      else if maxkb > 0 then begin
        let ivs = List.map (fun e -> match String.split_on_char '-' e with
            | [a; b] -> (int_of_string a, int_of_string b) | _ -> (0, 0)) (String.split_on_char ',' iv) in
        if explain_enf cap maxkb prefix ops flags (Array.of_list ivs) (Array.of_list rs) final then "ok"
        else "fail:not-explainable-with-size-limit"
      end
      else begin
        let ivs = List.map (fun e -> match String.split_on_char '-' e with
            | [a; b] -> (int_of_string a, int_of_string b) | _ -> (0, 0)) (String.split_on_char ',' iv) in
        (* initial specification state: the prefix run sequentially *)
        let s0 = match init with
          | Some s -> s
          | None -> List.fold_left (fun s o -> fst (spec_exec touch cap s o true)) [] prefix in
        (* a walk must report every mailbox that holds mail during the whole walk: non-empty after the
           prefix and not the target of any concurrent removal / purge (no cap in force) *)
        let stable mb =
          cap = 0 && (sget (n_of_int mb) s0).b_msgs <> [] &&
          not (Array.exists (fun o -> match o with SRemove (m, _) | SPurge m -> m = mb | _ -> false) ops) in
        let visit_misses =
          List.exists2 (fun o r -> match o with
              | SVisit -> List.exists (fun mb -> stable mb &&
                            not (List.exists (fun e -> match String.split_on_char '=' e with
                                                       | [m; v] -> int_of_string m = mb && v <> "" | _ -> false)
                                   (String.split_on_char ';' (String.sub r 1 (String.length r - 1))))) universe
              | _ -> false) (Array.to_list ops) rs in
        if visit_misses then "fail:visit-missed-mailbox" else
        match expand_actions ops flags ivs rs with
        | None -> "fail:malformed-observation"
        | Some acts -> if explain touch cap s0 acts final then "ok" else "fail:not-linearizable"
      end
  | _ -> "fail:malformed-observation"

(* ------------------------------------------------------------------ enumeration *)

let lcg = ref 12345
let rnd k = lcg := (!lcg * 1103515245 + 12345) land 0x3fffffff; (!lcg lsr 8) mod k

(* complete schedules (choice 0 everywhere) with at most [pb] preemptions, at most [limit] of them;
   and for each reachable state where some party is blocked, one probe schedule ending in that party *)
let enumerate m ops r0 pb limit : string list * string list * string list =
  let nt = Array.length ops in
  let parties = (if m.has_enf r0.st then [-1] else []) @ List.init nt (fun i -> i) in
  let full = ref [] and probes = ref [] and count = ref 0 and crashes = ref [] in
  let probe_seen = Hashtbl.create 64 in
  let rec go r n (pre : char list) last preempt =
    if !count < limit then begin
      let status p = let r' = prepare m ops r p n in (r', m.mstep r'.st p 0) in
      let sts = List.map (fun p -> (p, status p)) parties in
      let en = List.filter (fun (_, (_, s)) -> match s with SOk _ | SCrash -> true | _ -> false) sts in
      List.iter (fun (p, (_, s)) -> if s = SBlocked then begin
          let key = (n, p, List.rev pre) in
          if not (Hashtbl.mem probe_seen key) && Hashtbl.length probe_seen < limit then begin
            Hashtbl.add probe_seen key ();
            probes := (String.of_seq (List.to_seq (List.rev ('!' :: char_of_party p :: pre)))) :: !probes end end) sts;
      if en = [] then begin
        incr count; full := String.of_seq (List.to_seq (List.rev pre)) :: !full
      end else
        List.iter (fun (p, (r', s)) ->
            let last_enabled = List.exists (fun (q, _) -> q = last) en in
            let cost = if last_enabled && p <> last && last <> -2 then 1 else 0 in
            if preempt + cost <= pb then
              match s with
              | SOk st' -> go (after_step m { r' with st = st' } p n) (n + 1) (char_of_party p :: pre) p (preempt + cost)
              | SCrash -> incr count; crashes := String.of_seq (List.to_seq (List.rev (char_of_party p :: pre))) :: !crashes
              | _ -> ()) en
    end in
  go r0 0 [] (-2) 0;
  (List.rev !full, List.rev !probes, List.rev !crashes)

let random_walk m ops r0 : string =
  let nt = Array.length ops in
  let parties = (if m.has_enf r0.st then [-1] else []) @ List.init nt (fun i -> i) in
  let rec go r n pre last =
    if n > 200 then pre else
    let sts = List.map (fun p -> let r' = prepare m ops r p n in (p, r', m.mstep r'.st p 0)) parties in
    let en = List.filter (fun (_, _, s) -> match s with SOk _ | SCrash -> true | _ -> false) sts in
    if en = [] then pre else
    let pickd = if List.exists (fun (p, _, _) -> p = last) en && rnd 100 < 45
      then List.find (fun (p, _, _) -> p = last) en else List.nth en (rnd (List.length en)) in
    let (p, r', s) = pickd in
    match s with
    | SOk st' -> go (after_step m { r' with st = st' } p n) (n + 1) (char_of_party p :: pre) p
    | _ -> char_of_party p :: pre in
  String.of_seq (List.to_seq (List.rev (go r0 0 [] (-2))))

let sample k l =
  let a = Array.of_list l in
  let n = Array.length a in
  if n <= k then l else begin
    for i = 0 to k - 1 do let j = i + rnd (n - i) in let t = a.(i) in a.(i) <- a.(j); a.(j) <- t done;
    Array.to_list (Array.sub a 0 k) end

(* ------------------------------------------------------------------ main *)

let with_case line (f_mem : int -> int -> symop list -> symop array -> string -> string list -> unit)
    (f_file : geo -> symop list -> symop array -> string -> string list -> unit) =
  let (kind, ins, outs) = Mlutil.split_case line in
  match kind, ins with
  | "mem", cap :: maxkb :: prefix :: ops :: rest ->
      f_mem (int_of_string cap) (int_of_string maxkb) (parse_ops prefix) (Array.of_list (parse_ops ops))
        (match rest with s :: _ -> s | [] -> "") outs
  | "file", g :: prefix :: ops :: rest ->
      f_file (parse_geo g) (parse_ops prefix) (Array.of_list (parse_ops ops)) (match rest with s :: _ -> s | [] -> "") outs
  | _ -> raise Not_found

let dedup l = List.sort_uniq compare l

let eval_mode () =
  Mlutil.iter_lines (fun line ->
    try
      with_case line
        (fun cap maxkb prefix ops sched outs ->
           let st = mem_init cap maxkb prefix ops in
           let res = eval_all mem_machine ops (fresh mem_machine st ops) sched in
           let alts = dedup (List.map (fun o -> String.concat " " (render mem_machine ops o)) res) in
           let all_blocked = res <> [] && List.for_all (fun (s, _) -> match s with Blocked _ -> true | _ -> false) res in
           let verdict = oracle true cap maxkb prefix ops ~all_blocked outs in
           (* bounded search for the unproved quiescence statement (mem_quiescent_accounting_stmt), on the MODEL:
              at all_done the enforcer's book is exactly the live messages, curSize their total, total <= max *)
           let quiescent_ok (st : msys) =
             st.s_max = None ||
             (let live = List.sort compare (List.concat_map (fun (_, x) -> List.map (fun m -> int_of_n m.m_tag) x.x_box.b_msgs) st.s_boxes) in
              let book = List.sort compare (List.map (fun (_, m) -> int_of_n m.m_tag) st.s_enf.e_all) in
              let total = List.fold_left (fun a (_, m) -> a + int_of_n m.m_size) 0 st.s_enf.e_all in
              live = book && int_of_z st.s_enf.e_cur = total && total <= maxkb * 1024) in
           let verdict = if verdict = "ok" && List.exists (fun (s, r) -> s = Fin && not (quiescent_ok r.st)) res
             then "fail:model-quiescence-statement-refuted" else verdict in
           print_string (String.concat " || " alts); print_string " ## "; print_string verdict; print_char '\n')
        (fun g prefix ops sched outs ->
           let st = file_init g prefix ops in
           let res = eval_all file_machine ops (fresh file_machine st ops) sched in
           let alts = dedup (List.map (fun o -> String.concat " " (render file_machine ops o)) res) in
           let all_blocked = res <> [] && List.for_all (fun (s, _) -> match s with Blocked _ -> true | _ -> false) res in
           let verdict = oracle false 0 0 prefix ops ~all_blocked outs in
           print_string (String.concat " || " alts); print_string " ## "; print_string verdict; print_char '\n')
    with
    | Not_found when (let (k, _, _) = Mlutil.split_case line in k = "scan") ->
        (* the retention scanner as a concurrent party. Specification: "scan" = a walk + removals of the expired
           messages it saw, nothing else: whatever the interleaving, at the end every fresh message (of the prefix
           or delivered meanwhile) is there, in arrival order, and every expired message of the prefix is gone *)
        let (_, ins, outs) = Mlutil.split_case line in
        (match ins with
         | [_; prefix; adds; _] ->
             let items s = if s = "-" then [] else String.split_on_char ',' s in
             let fresh = List.filter_map (fun it -> match String.split_on_char ':' it with
                 | [mb; tag; "f"] -> Some (int_of_string mb, int_of_string tag) | _ -> None) (items prefix)
               @ List.filter_map (fun it -> match String.split_on_char ':' it with
                 | [mb; tag] -> Some (int_of_string mb, int_of_string tag) | _ -> None) (items adds) in
             let expired = List.filter_map (fun it -> match String.split_on_char ':' it with
                 | [mb; tag; "e"] -> Some (int_of_string mb, int_of_string tag) | _ -> None) (items prefix) in
             let fin = String.concat ";" (List.map (fun mb -> Printf.sprintf "%d=%s" mb
                 (String.concat "+" (List.filter_map (fun (m, t) -> if m = mb then Some (Printf.sprintf "%d.0" t) else None) fresh))) [1; 2; 4]) in
             let addres = let n = List.length (items adds) in if n = 0 then "-" else String.concat "," (List.init n (fun _ -> "id")) in
             let has tag = match outs with
               | [_; _; f] -> List.exists (fun e -> match String.split_on_char '=' e with
                   | [_; v] -> List.mem (Printf.sprintf "%d.0" tag) (String.split_on_char '+' v) || List.mem (Printf.sprintf "%d.1" tag) (String.split_on_char '+' v)
                   | _ -> false) (String.split_on_char ';' f)
               | _ -> false in
             let verdict = match outs with
               | ["crash"] -> "fail:process-crashed"
               | ["no-answer"] -> "fail:deadlock"
               | st :: _ when st = "deadlock" -> "fail:deadlock"
               | st :: _ when String.length st >= 4 && String.sub st 0 4 = "scan" -> "fail:operation-failed"
               | [_; _; _] ->
                   if List.exists (fun (_, t) -> not (has t)) fresh then "fail:retention-scan-removed-unexpired-message"
                   else if List.exists (fun (_, t) -> has t) expired then "fail:retention-scan-kept-expired-message"
                   else "ok"
               | _ -> "fail:malformed-observation" in
             Mlutil.print_model ["fin"; addres; fin] verdict
         | _ -> Mlutil.print_model ["MALFORMED"] "ok")
    | Not_found when (let (k, _, _) = Mlutil.split_case line in k = "fault") ->
        (* fault family: the index of mailbox 1 cannot be rewritten. The models have no I/O errors; the expected
           observation below is what the unchanged file store does (a rewrite of that index fails with an error
           and changes nothing; removing its last message / purging it deletes the directory and with it the
           fault); the verdict judges the clause directly: every operation returns, the bucket neighbour is served *)
        let (_, ins, outs) = Mlutil.split_case line in
        (match ins with
         | [cap; fill; opss] ->
             let cap = int_of_string cap and fill = int_of_string fill in
             let ops = parse_ops opss in
             let st = Hashtbl.create 8 in
             let get mb = try Hashtbl.find st mb with Not_found -> [] in
             Hashtbl.replace st 2 [(80, false)]; Hashtbl.replace st 4 [(81, false)];
             Hashtbl.replace st 1 (List.init fill (fun i -> (90 + i, false)));
             let fault = ref (fill > 0) in
             let view l = String.concat "+" (List.map (fun (t, sn) -> Printf.sprintf "%d.%d" t (if sn then 1 else 0)) l) in
             let tg = function Tag k -> k | Bogus -> -1 in
             let rec drop l = if cap > 0 && List.length l >= cap then drop (List.tl l) else l in
             let exec o = match o with
               | SAdd (mb, tag, _) -> if mb = 1 && !fault then "err" else (Hashtbl.replace st mb (drop (get mb) @ [(tag, false)]); "id")
               | SList mb -> "L" ^ view (get mb)
               | SGet (mb, t) -> (match List.assoc_opt (tg t) (get mb) with Some sn -> Printf.sprintf "m%d.%d" (tg t) (if sn then 1 else 0) | None -> "ne")
               | SLatest mb -> (match List.rev (get mb) with (t, sn) :: _ -> Printf.sprintf "m%d.%d" t (if sn then 1 else 0) | [] -> "ne")
               | SSeen (mb, t) -> (match List.assoc_opt (tg t) (get mb) with
                   | None -> "ne" | Some true -> "ok"
                   | Some false -> if mb = 1 && !fault then "err"
                       else (Hashtbl.replace st mb (List.map (fun (x, sn) -> if x = tg t then (x, true) else (x, sn)) (get mb)); "ok"))
               | SRemove (mb, t) -> (match List.assoc_opt (tg t) (get mb) with
                   | None -> "ne"
                   | Some _ -> if mb = 1 && !fault && List.length (get mb) > 1 then "err"
                       else begin
                         Hashtbl.replace st mb (List.filter (fun (x, _) -> x <> tg t) (get mb));
                         if mb = 1 && get mb = [] then fault := false; "ok" end)
               | SPurge mb -> Hashtbl.replace st mb []; if mb = 1 then fault := false; "ok"
               | SVisit -> "V" ^ String.concat ";" (List.filter_map (fun mb -> if get mb = [] then None else Some (Printf.sprintf "%d=%s" mb (view (get mb)))) [1; 2; 3; 4]) in
             let exp = List.map exec ops in
             let fin = String.concat ";" (List.map (fun mb -> Printf.sprintf "%d=%s" mb (view (get mb))) [1; 2; 4]) in
             let n = List.length ops in
             let hung i = (match List.nth_opt outs i with Some "hang" -> true | _ -> false) in
             let on1 = function SAdd (m, _, _) | SGet (m, _) | SLatest m | SList m | SSeen (m, _) | SRemove (m, _) | SPurge m -> m = 1 | SVisit -> true in
             let on2 = function SAdd (m, _, _) | SGet (m, _) | SLatest m | SList m | SSeen (m, _) | SRemove (m, _) | SPurge m -> m = 2 | SVisit -> false in
             let finals = match List.nth_opt outs n with Some f -> String.split_on_char ';' f | None -> [] in
             let h1 = List.exists (fun i -> hung i && on1 (List.nth ops i)) (List.init n (fun i -> i)) || List.mem "1=hang" finals
                      || outs = ["no-answer"] in
             let h2 = List.exists (fun i -> hung i && on2 (List.nth ops i)) (List.init n (fun i -> i)) || List.mem "2=hang" finals in
             let hother = List.exists hung (List.init n (fun i -> i)) || List.mem "4=hang" finals in
             let verdict =
               if h1 && h2 then "fail:operation-never-returns-after-io-failure+bucket-neighbour-blocked"
               else if h1 then "fail:operation-never-returns-after-io-failure"
               else if h2 then "fail:bucket-neighbour-blocked"
               else if hother then "fail:operation-never-returns"
               else if outs = ["crash"] then "fail:process-crashed"
               else if List.exists2 (fun o r -> (match o with SList _ | SGet _ | SLatest _ | SVisit -> true | _ -> false)
                                                && String.length r >= 3 && String.sub r 0 3 = "err")
                         ops (List.filteri (fun i _ -> i < n) (outs @ List.init n (fun _ -> ""))) then "fail:read-failed-after-io-failure"
               else "ok" in
             Mlutil.print_model (exp @ [fin]) verdict
         | _ -> Mlutil.print_model ["MALFORMED"] "ok")
    | Not_found when (let (k, _, _) = Mlutil.split_case line in k = "burst") ->
        (* free-running mini-histories: each round is judged by the linearizability oracle (extracted seq_exec) *)
        let (_, ins, outs) = Mlutil.split_case line in
        let touch = (match ins with "mem" :: _ -> true | _ -> false) in
        let store_of_listing (l : string) : sstore =
          let fresh = ref 1000000 in
          List.filter_map (fun e -> match String.split_on_char '=' e with
              | [mb; v] ->
                  let msgs = if v = "" then [] else List.map (fun x -> match String.split_on_char '.' x with
                      | [t; sn] -> incr fresh; { m_tag = n_of_int (int_of_string t); m_id = n_of_int !fresh; m_size = n_of_int 10; m_seen = (sn = "1") }
                      | _ -> failwith "bad view") (String.split_on_char '+' v) in
                  Some (n_of_int (int_of_string mb), { b_last = n_of_int 2000000; b_first = N0; b_msgs = msgs })
              | _ -> None) (String.split_on_char ';' l) in
        let verdict = ref "ok" in
        List.iteri (fun k tok ->
            if !verdict = "ok" then
              match String.split_on_char '|' tok with
              | [init; opss; flags; iv; rs; final] ->
                  (try
                    let ops = Array.of_list (parse_ops opss) in
                    let v = oracle touch 0 0 [] ops ~init:(store_of_listing init)
                        (["fin"; flags; iv] @ String.split_on_char ',' rs @ [final; "ids=ok"]) in
                    if v <> "ok" then verdict := Printf.sprintf "%s@round%d:%s" v k (String.map (fun c -> if c = ' ' then '_' else c) tok)
                  with _ -> verdict := Printf.sprintf "fail:malformed-round%d" k)
              | _ -> if tok <> "" then verdict := Printf.sprintf "fail:malformed-round%d" k) outs;
        Mlutil.print_model outs !verdict
    | Not_found when (let (k, _, _) = Mlutil.split_case line in k = "stress") ->
        (* free-running stress: the driver checked the history; the only acceptable observation is "ok" *)
        let (_, _, outs) = Mlutil.split_case line in
        Mlutil.print_model ["ok"] (match outs with ["ok"] -> "ok" | ["crash"] -> "fail:process-crashed-or-data-race" | _ -> "fail:stress-history-check")
    | Not_found -> Mlutil.print_model ["UNKNOWN-KIND"] "ok"
    | Failure msg -> Mlutil.print_model ["MODEL-ERROR:" ^ (String.map (fun c -> if c = ' ' then '_' else c) msg)] "ok")

(* enum <per-combo complete> <per-combo probes> <preemption bound> <seed> *)
let enum_mode per_full per_probe pb seed =
  lcg := seed;
  Mlutil.iter_lines (fun line ->
    let emit prefix_fields sched = print_string (String.concat " " (prefix_fields @ [sched])); print_char '\n' in
    let (kind, ins, _) = Mlutil.split_case line in
    let fields = kind :: ins in
    let gen m r0 ops =
      let (full, probes, crashes) = enumerate m ops r0 pb 4000 in
      List.iter (emit fields) (sample 2 crashes);
      let walks = List.init (max 2 (per_full / 3)) (fun _ -> random_walk m ops r0) in
      let chosen = dedup (sample per_full full @ walks) in
      List.iter (emit fields) chosen;
      List.iter (emit fields) (sample per_probe probes) in
    try
      with_case line
        (fun cap maxkb prefix ops _ _ ->
           let st = mem_init cap maxkb prefix ops in gen mem_machine (fresh mem_machine st ops) ops)
        (fun g prefix ops _ _ ->
           let st = file_init g prefix ops in gen file_machine (fresh file_machine st ops) ops)
    with
    | Not_found -> print_string line; print_char '\n'      (* stress / burst lines carry no schedule *)
    | Failure _ -> ())

let () =
  match Array.to_list Sys.argv with
  | _ :: "enum" :: a :: b :: c :: d :: _ -> enum_mode (int_of_string a) (int_of_string b) (int_of_string c) (int_of_string d)
  | _ -> eval_mode ()

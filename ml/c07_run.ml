open C07_model
(* Model runner shared by C07, C08 and C16 (the three files differ in the first line only).
   Per case line "<mem|file> <mode> <cap> <maxkb> <names> <ops> => <token per op>" it prints the
   tokens of the extracted back-end model (MemStore / FileStore run through the handle
   resolver) and, as verdict, the property oracle: the extracted SPECIFICATION (StoreSpec.run_spec)
   evaluated on the same history must yield exactly the tokens the IMPLEMENTATION printed;
   with mode suffix "+o" also: no message's deleted event precedes its stored event. *)
open Conv

let split c s = if s = "" then [] else String.split_on_char c s

let parse_handle h =
  if h = "l" then Latest else if h = "b" then Bogus
  else if String.length h > 0 && h.[0] = 'z' then Bogus (* another spelling of an issued id names no message *)
  else Kth (nat_of_int (int_of_string (String.sub h 1 (String.length h - 1))))

(* names: array of (index, coq string) *)
let rec parse_ops deliver names (f : string) : op list =
  let p = parse_ops_from (ref 0) deliver names in
  List.concat_map p (if f = "-" then [] else split ',' f)
and parse_ops_from tag deliver names : string -> op list =
  let name i = names.(i) in
  (fun o -> [
    let kind = o.[0] in
    let rest = split ':' (String.sub o 1 (String.length o - 1)) in
    let mb () = name (int_of_string (List.nth rest 0)) in
    match kind with
    | 'a' ->
        let date = if deliver then 0 else int_of_string (List.nth rest 1) in
        let size = int_of_string (List.nth rest 2) in
        let t = !tag in incr tag;
        Add (mb (), z_of_int date, n_of_int t, n_of_int size)
    | 'g' -> Get (mb (), parse_handle (List.nth rest 1))
    | 'l' | 'h' -> Lst (mb ())   (* h: a listing the caller keeps; the model's answer is the listing *)
    | 's' -> Seen (mb (), parse_handle (List.nth rest 1))
    | 'r' -> Remove (mb (), parse_handle (List.nth rest 1))
    | 'p' -> Purge (mb ())
    | 'v' -> Visit
    | _ -> failwith ("bad op " ^ o)])

let view_tok ((k, m) : nat * msg) =
  Printf.sprintf "%d.%d.%d.%d.%s" (int_of_nat k) (int_of_z m.m_date) (int_of_n m.m_tag) (int_of_n m.m_size)
    (if m.m_seen then "1" else "0")

let res_tok f = function Ok a -> f a | NotExist -> "N" | Err -> "E"

let tokens name_index (r : (obs * event list) list) : string list =
  List.map (fun ((ob, evs) : obs * event list) ->
    let base = match ob with
      | OAdd (k, back) -> Printf.sprintf "A%d:%s" (int_of_nat k) (res_tok view_tok back)
      | OGet r -> "G" ^ res_tok view_tok r
      | OList l -> "L" ^ String.concat "," (List.map view_tok l)
      | OUnit r -> "U" ^ res_tok (fun () -> "ok") r
      | OVisit l ->
          let gs = List.map (fun (n, vs) -> (name_index n, String.concat "," (List.map view_tok vs))) l in
          let gs = List.sort compare gs in
          "V" ^ String.concat ";" (List.map (fun (i, s) -> Printf.sprintf "%d=%s" i s) gs) in
    let ev kindc ((_, mb), k) = Printf.sprintf "/%c%d.%d" kindc (name_index mb) (int_of_nat k) in
    let dels = List.filter (fun ((kd, _), _) -> kd = EDeleted) evs in
    let stos = List.filter (fun ((kd, _), _) -> kd = EStored) evs in
    base ^ String.concat "" (List.map (ev 'D') dels) ^ String.concat "" (List.map (ev 'S') stos)) r

(* events of the implementation's tokens, for the order oracle *)
let impl_events names (toks : string list) : event list =
  List.concat_map (fun t ->
    match split '/' t with
    | [] | [_] -> []
    | _ :: evs ->
        List.filter_map (fun e ->
          if String.length e < 2 then None else
          let kd = e.[0] in
          match split '.' (String.sub e 1 (String.length e - 1)) with
          | [mb; k] ->
              (match int_of_string_opt mb, int_of_string_opt k with
               | Some mb, Some k when mb < Array.length names ->
                   Some (((if kd = 'S' then EStored else EDeleted), names.(mb)), nat_of_int k)
               | _ -> None)
          | _ -> None) evs) toks

let op_char = function
  | Add _ -> "add" | Get _ -> "get" | Lst _ -> "list" | Seen _ -> "seen" | Remove _ -> "remove"
  | Purge _ -> "purge" | Visit -> "visit"

let () =
  Mlutil.iter_lines (fun line ->
    let (kind, ins, outs) = Mlutil.split_case line in
    match ins with
    | [mode; cap; maxkb; names; ops] when kind = "mem" || kind = "file" ->
        let order = String.length mode > 2 && String.sub mode (String.length mode - 2) 2 = "+o" in
        let deliver = String.length mode >= 7 && String.sub mode 0 7 = "deliver" in
        let names = Array.of_list (List.map str_of_field (split ',' names)) in
        let name_index n =
          let r = ref (-1) in Array.iteri (fun i x -> if !r < 0 && x = n then r := i) names; !r in
        (* a trailing w<k>:<mut> (VisitMailboxes whose visitor says stop at its k-th non-empty mailbox,
           optionally removing the oldest message of each mailbox it is handed) is judged on the final
           abstract state: the walk hands over exactly min k (number of non-empty mailboxes) mailboxes,
           each with its listing, never calls the visitor again, and (mut) exactly those lose their oldest *)
        let ops_field = ops in
        let reopened = kind = "file" && List.exists (fun o -> String.length o > 0 && o.[0] = 'o') (if ops = "-" then [] else split ',' ops) in
        if reopened then begin
          (* o<cap>: the file store is re-opened on the same path with another cap. The history is cut into
             segments, each run with its own cap from the state the previous one left
             (FileStore.run_file_segs / StoreSpec run_spec_segs; theorem file_refines_spec_reopened) *)
          let all = parse_ops_from (ref 0) deliver names in
          let rec cut cur acc = function
            | [] -> List.rev ((cur, List.rev acc) :: [])
            | o :: rest when String.length o > 0 && o.[0] = 'o' ->
                ((cur, List.rev acc)) :: cut (int_of_string (String.sub o 1 (String.length o - 1))) [] rest
            | o :: rest -> cut cur (o :: acc) rest in
          let segs_raw = cut (int_of_string cap) [] (split ',' ops) in
          let segs = List.map (fun (c, os) ->
            ({ c_cap = nat_of_int c; c_max = n_of_int 0 }, List.concat_map (fun o -> all o) os)) segs_raw in
          let render rs = String.concat " O " (List.map (fun r -> String.concat " " (tokens name_index r)) rs) in
          let flat rs = List.filter (fun t -> t <> "") (split ' ' (render rs)) in
          let mtoks = flat (run_file_segs (file_init [], []) segs) in
          let stoks = flat (run_spec_segs spec_init segs) in
          let rec fd i st im = match st, im with
            | [], [] -> None
            | s :: st', x :: im' -> if s = x then fd (i + 1) st' im' else Some (Printf.sprintf "fail:op%d:reopened:impl=%s:spec=%s" i x s)
            | _ :: _, [] -> Some (Printf.sprintf "fail:op%d:missing-observation" i)
            | [], x :: _ -> Some (Printf.sprintf "fail:op%d:extra-observation:%s" i x) in
          Mlutil.print_model mtoks (match fd 0 stoks outs with Some r -> r | None -> "ok")
        end else
        let (ops, wop) =
          let l = if ops = "-" then [] else split ',' ops in
          match List.rev l with
          | w :: rest when String.length w > 0 && (w.[0] = 'w' || w = "c") ->
              ((if rest = [] then "-" else String.concat "," (List.rev rest)), Some w)
          | _ -> (ops, None) in
        let ops = parse_ops deliver names ops in
        (* mode …@cfg<K>: the configuration as an operator writes it (sd.cfgVariant). What the unchanged
           constructors make of it: an empty or non-numeric maxkb is refused (the case ends with NEWERR);
           maxkb 0, negative or absent means no limit, a huge one is never reached; a negative cap is no cap *)
        let cfgk = (match String.index_opt mode '@' with
          | Some i when String.length mode >= i + 5 && String.sub mode i 4 = "@cfg" ->
              int_of_string (String.sub mode (i + 4) (String.length mode - i - 4))
          | _ -> 0) in
        if kind = "mem" && (cfgk = 2 || cfgk = 4) then
          Mlutil.print_model ["NEWERR"] (if outs = ["NEWERR"] then "ok" else "fail:constructor-accepted-unparsable-maxkb")
        else
        let cfg = { c_cap = nat_of_int (max 0 (int_of_string cap)); c_max = n_of_int (1024 * max 0 (int_of_string maxkb)) } in
        let model = if kind = "mem" then run_mem cfg ops else run_file cfg [] ops in
        let wtok = match wop with
          | None -> []
          | Some "c" ->
              (* the listings handed out by the h operations, read again at the end: each message still
                 belongs to the mailbox it was listed for, has its size, and — if it is still live — its
                 content; a message that has left since is marked - *)
              let raw = if ops_field = "-" then [] else split ',' ops_field in
              let raw = List.filter (fun o -> o <> "c") raw in
              let res = run_spec cfg spec_init ops in
              let lists = List.filter_map (fun (o, (ob, _)) ->
                if String.length o > 0 && o.[0] = 'h' then
                  (match ob with
                   | OList l ->
                       let mbi = int_of_string (String.sub o 1 (String.length o - 1)) in
                       let live_now =
                         (match List.rev (run_spec cfg spec_init (ops @ [Lst names.(mbi)])) with
                          | (OList ln, _) :: _ -> List.map (fun (k, _) -> int_of_nat k) ln
                          | _ -> []) in
                       Some (String.concat "," (List.map (fun (k, m) ->
                         let k = int_of_nat k in
                         Printf.sprintf "%d.%d.%d.%s" mbi k (int_of_n m.m_size)
                           (if List.mem k live_now then string_of_int (int_of_n m.m_tag) else "-")) l))
                   | _ -> Some "?")
                else None) (List.combine raw res) in
              ["C" ^ String.concat ";" lists]
          | Some w ->
              (match split ':' (String.sub w 1 (String.length w - 1)) with
               | k :: rest ->
                   let k = int_of_string k and mut = (rest = ["1"]) in
                   let n = List.length (spec_visit (final_spec cfg spec_init ops)) in
                   let h = min k n and nn = Array.length names in
                   [if mut then Printf.sprintf "W%d:0:1:%d:%d:0:%d" h h (nn - h) h
                    else Printf.sprintf "W%d:0:1:0:%d:0:0" h nn]
               | [] -> ["BADW"]) in
        let mtoks = tokens name_index model @ wtok in
        let stoks = tokens name_index (run_spec cfg spec_init ops) @ wtok in
        let ops = if wtok = [] then ops else ops @ [Visit] in
        (* oracle: spec vs implementation *)
        let rec first_diff i ops st im =
          match st, im with
          | [], [] -> None
          | s :: st', x :: im' -> if s = x then first_diff (i + 1) (List.tl ops) st' im' else
              Some (Printf.sprintf "fail:op%d:%s:impl=%s:spec=%s" i (op_char (List.hd ops)) x s)
          | s :: _, [] -> Some (Printf.sprintf "fail:op%d:missing-observation" i)
          | [], x :: _ -> Some (Printf.sprintf "fail:op%d:extra-observation:%s" i x) in
        let verdict =
          match first_diff 0 ops stoks outs with
          | Some r -> r
          | None ->
              if order then
                (match sbd_scan [] (impl_events names outs) with
                 | None -> "ok"
                 | Some (mb, k) -> Printf.sprintf "fail:deleted-before-stored:%d.%d" (name_index mb) (int_of_nat k))
              else "ok" in
        let verdict = String.map (fun c -> if c = ' ' then '_' else c) verdict in
        Mlutil.print_model mtoks verdict
    | [n; b; brokers] when kind = "sched" ->
        (* Events.v: a per-listener FIFO broker calls each listener serially (listener_serial) and with
           exactly the emitted events in emit order (delivery_is_emit_order); the oracle demands it *)
        let n = int_of_string n and b = int_of_string b and brokers = int_of_string brokers in
        let to_d i = brokers = 2 && i < b && i mod 2 = 1 in
        let rec range i = if i >= n then [] else i :: range (i + 1) in
        let show l = if l = [] then "-" else String.concat "," (List.map string_of_int l) in
        let want = ["ser=1"; "s=" ^ show (List.filter (fun i -> not (to_d i)) (range 0));
                    "d=" ^ show (List.filter to_d (range 0))] in
        Mlutil.print_model want (if outs = want then "ok" else "fail:listener-not-serial-or-not-in-emit-order")
    | [_] when kind = "cdeliver" ->
        (* two concurrent deliveries, cap 1: Deliver emits stored(m1) only after AddMessage(m1) has returned
           (manager.go), the store emits deleted(m1) from inside the evicting AddMessage(m2): as coded the
           listener sees D1 (and S2) while stored(m1) has not even been emitted. The oracle demands
           stored(n) before deleted(n) *)
        let want = ["p1=D1,S2"; "p2=S1"] in
        let has p e = List.exists (fun t ->
          let pre = p ^ "=" in
          String.length t > String.length pre && String.sub t 0 (String.length pre) = pre &&
          List.mem e (split ',' (String.sub t (String.length pre) (String.length t - String.length pre)))) outs in
        let verdict =
          if outs = [] then "fail:no-observation"
          else if has "p1" "D1" && not (has "p1" "S1") then "fail:concurrent-deleted-before-stored"
          else "ok" in
        Mlutil.print_model want verdict
    | [_; k; _; rounds] when kind = "sdeliver" ->
        (* one Deliver whose k recipients map to ONE mailbox: each recipient is a delivery of its own
           (StoreSpec: k adds to the mailbox = k messages, k handles; stored_once: one stored event per
           message, carrying its id; deleted_once: one deleted event per removed message) *)
        let n = int_of_string k * int_of_string rounds in
        let want = ["err=0"; "box=1"; Printf.sprintf "listed=%d" n; Printf.sprintf "ids=%d" n;
                    Printf.sprintf "stored=%d" n; Printf.sprintf "sids=%d" n;
                    Printf.sprintf "del=%d" n; Printf.sprintf "dids=%d" n] in
        Mlutil.print_model want (if outs = want then "ok" else "fail:recipients-of-one-mailbox-not-one-message-one-stored-one-deleted-each")
    | [_; n; fail; rounds] when kind = "mdeliver" ->
        (* StoreManager.Deliver as coded: for each mailbox in order AddMessage, then the stored event;
           the first failing AddMessage ends the delivery. Oracle (stored_once / events_match_history):
           every message that entered a mailbox has exactly one stored event, no stored event names a
           message that is not there, nothing was deleted *)
        let n = int_of_string n and fail = int_of_string fail and rounds = int_of_string rounds in
        let want = (Printf.sprintf "err=%d" (if fail < n then rounds else 0))
                   :: List.init n (fun i -> if i < fail then Printf.sprintf "r%d:%d:%d:0" i rounds rounds else Printf.sprintf "r%d:0:0:0" i)
                   @ ["del=0"] in
        let bad = List.filter (fun t ->
          match split ':' t with
          | [r; listed; good; extra] when String.length r > 0 && r.[0] = 'r' -> not (listed = good && extra = "0")
          | _ -> false) outs in
        let verdict = match bad with
          | t :: _ -> "fail:entered-without-stored-event-or-stored-without-message:" ^ t
          | [] -> if List.mem "del=0" outs then "ok" else "fail:deleted-event-without-departure" in
        Mlutil.print_model want verdict
    | [j; _] when kind = "collide" ->
        (* FileStore.gen_loop (the hasID loop of fix 0010) run on an index that holds the j ids the next
           j draws would produce: predicts the counter of the id AddMessage returns. The probe counter c
           is an environment observation (like a clock) and is taken from the implementation's line.
           Oracle (ids_unique, read_back_as_written): the new id differs from every existing one and
           every planted message still reads back its own content *)
        let j = int_of_string j in
        let field name = List.find_map (fun t ->
          let p = name ^ "=" in
          let lp = String.length p in
          if String.length t > lp && String.sub t 0 lp = p then int_of_string_opt (String.sub t lp (String.length t - lp)) else None) outs in
        (match field "c" with
         | None -> Mlutil.print_model ["NO-COUNTER"] "fail:no-observation"
         | Some c ->
             let m = { m_date = z_of_int 0; m_tag = n_of_int 0; m_size = n_of_int 0; m_seen = false } in
             let rec planted k = if k > j then [] else ((n_of_int 0, n_of_int ((c + k) mod 10000)), m) :: planted (k + 1) in
             let ((sec, ctr), _) = gen_loop gen_fuel (n_of_int 0) (n_of_int ((c + 1) mod 10000)) (planted 1) in
             let want = [Printf.sprintf "c=%d" c; Printf.sprintf "ctr=%d" (int_of_n ctr); "fresh=1"; "intact=1";
                         Printf.sprintf "n=%d" (2 + 3 * j)] in
             let ok = int_of_n sec = 0 && field "fresh" = Some 1 && field "intact" = Some 1 && field "n" = Some (2 + 3 * j) in
             Mlutil.print_model want (if ok then "ok" else "fail:id-collision-not-avoided-or-message-overwritten"))
    | [_; _; _; _] when kind = "churn" ->
        (* Events.v Part 4 / theorem emit_reaches_every_stable_listener: every permanent listener is
           handed every event exactly once whatever the probes do *)
        let want = ["miss=0"; "dup=0"] in
        Mlutil.print_model want (if outs = want then "ok" else "fail:stable-listener-missed-or-duplicated-event")
    | [_; n] when kind = "slow" ->
        (* a listener held inside its first invocation for seconds: listener_serial and delivery_is_emit_order
           know no time limit — no re-entry, then the queued events in emit order *)
        let n = int_of_string n in
        let rec range i = if i >= n then [] else i :: range (i + 1) in
        let want = ["ser=1"; "s=" ^ String.concat "," (List.map string_of_int (range 0))] in
        Mlutil.print_model want (if outs = want then "ok" else "fail:listener-not-serial-or-not-in-emit-order")
    | [groups; _] when kind = "sched2" ->
        (* bursts emitted while the listener is busy: still exactly the emitted events, in emit order *)
        let n = List.fold_left (fun a g -> a + int_of_string g) 0 (split ',' groups) in
        let rec range i = if i >= n then [] else i :: range (i + 1) in
        let want = ["ser=1"; "s=" ^ String.concat "," (List.map string_of_int (range 0))] in
        Mlutil.print_model want (if outs = want then "ok" else "fail:listener-not-serial-or-not-in-emit-order")
    | [_; _; _; _; _] when kind = "conc" ->
        (* forced schedules of concurrent operations: which messages survive depends on the schedule,
           so the implementation's observation is echoed; the oracle is the schedule-independent
           conservation law of Proofs/EventsCount.v (stored_once, deleted_once): per delivered message
           exactly one stored event and deleted + live = stored *)
        let bad = List.filter (fun t ->
          match split ':' t with
          | [name; s; d; l] ->
              (match int_of_string_opt s, int_of_string_opt d, int_of_string_opt l with
               | Some s, Some d, Some l -> not (String.length name > 0 && name.[0] = 't' && s = 1 && d + l = s)
               | _ -> true)
          | _ -> true) outs in
        let verdict = match bad with
          | [] -> if outs = [] then "fail:no-observation" else "ok"
          | t :: _ -> "fail:event-count:" ^ t in
        Mlutil.print_model outs verdict
    | [_] when kind = "xbroker" ->
        (* Events.v Part 3: the two-broker model run on the schedule of finding K-C16-cross-broker-order
           predicts the consumer's log; the oracle demands stored(n) before deleted(n) of what the
           implementation's consumer saw *)
        let tok (b, n) = (if b then "S" else "D") ^ string_of_int (int_of_nat n) in
        let model = "log=" ^ String.concat "," (List.map tok xbroker_log) in
        let impl_log =
          match outs with
          | [o] when String.length o > 4 && String.sub o 0 4 = "log=" ->
              List.filter_map (fun t ->
                if String.length t < 2 then None else
                match int_of_string_opt (String.sub t 1 (String.length t - 1)) with
                | Some n -> Some (t.[0] = 'S', nat_of_int n) | None -> None)
                (split ',' (String.sub o 4 (String.length o - 4)))
          | _ -> [] in
        let verdict = if impl_log = [] then "fail:no-consumer-log"
                      else if xsbd_ok impl_log then "ok" else "fail:cross-broker-deleted-before-stored" in
        Mlutil.print_model [model] verdict
    | _ -> Mlutil.print_model ["UNKNOWN-KIND"] "ok")

#!/bin/bash
# Instantiates the SMTP-session part of the model runners (ml/smtp_part.ml.inc) for every property it serves.
cd "$(dirname "$0")"
for p in C01 C03 C06 C05 C17; do
  low=$(echo $p | tr A-Z a-z)
  main=smtp_main.ml.inc; [ -f ${low}_main.ml.inc ] && main=${low}_main.ml.inc
  cat smtp_part.ml.inc $main | sed -e "s/@PID@/$p/g" -e "s/@MOD@/${p:0:1}${low:1}/g" > ${low}_run.ml
done

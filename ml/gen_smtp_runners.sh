#!/bin/bash
# Instantiates ml/smtp_run.ml.tmpl for every property served by the SMTP session model.
cd "$(dirname "$0")"
for p in C01 C03 C06; do
  low=$(echo $p | tr A-Z a-z)
  sed -e "s/@PID@/$p/g" -e "s/@MOD@/${p:0:1}${low:1}/g" smtp_run.ml.tmpl > ${low}_run.ml
done

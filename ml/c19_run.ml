(* Model runner for C19: the extracted lifecycle model on every schedule (model observation)
   and the extracted specification-side oracle on what the IMPLEMENTATION showed. *)
open C19_model
open Conv

let split c s = String.split_on_char c s

let num s = nat_of_int (int_of_string s)

let phase_of = function
  | "helo" -> Some SHelo | "mail" -> Some SMail | "rcpt" -> Some SRcpt | "data" -> Some SData
  | "body" -> Some SBody | "user" -> Some PUser | "pass" -> Some PPass | "dele" -> Some PDele
  | _ -> None

let rest_of s = String.sub s 1 (String.length s - 1)

let parse_op (o : string) : lop option =
  try
    match split ':' o with
    | ["k"] -> Some LCancel
    | ["xP"] -> Some LPlain
    | ["ES"] -> Some (LAcceptFail PSmtp)
    | ["EP"] -> Some (LAcceptFail PPop3)
    | ["G"] -> Some LGate
    | ["U"] -> Some LUngate
    | [a; _] when a.[0] = 'b' -> Some (LBusy (num (rest_of a)))
    | [a; _; "s"] when a.[0] = 'b' -> Some (LBusy (num (rest_of a)))   (* silence, then one NOOP: for the model the same step *)
    | [a] when a.[0] = 't' -> Some (LUpgrade (num (rest_of a)))
    | [a] when a.[0] = 'q' -> Some (LQuit (num (rest_of a)))
    | [a] when a.[0] = 'e' -> Some (LEnd (num (rest_of a)))
    | ["DS"] -> Some (LDrain PSmtp)
    | ["DP"] -> Some (LDrain PPop3)
    | ["nS"] -> Some (LProbe PSmtp)
    | ["nP"] -> Some (LProbe PPop3)
    | [a; "S"] when a.[0] = 'o' -> Some (LOpen (num (rest_of a), PSmtp))
    | [a; "P"] when a.[0] = 'o' -> Some (LOpen (num (rest_of a), PPop3))
    | [a; "S"] when a.[0] = 'A' -> Some (LAcceptHold (num (rest_of a), PSmtp))
    | [a; "P"] when a.[0] = 'A' -> Some (LAcceptHold (num (rest_of a), PPop3))
    | [a] when a.[0] = 'O' -> Some (LOpenHeld (num (rest_of a), PSmtp))
    | [a; "S"] when a.[0] = 'O' -> Some (LOpenHeld (num (rest_of a), PSmtp))
    | [a; "P"] when a.[0] = 'O' -> Some (LOpenHeld (num (rest_of a), PPop3))
    | [a] when a.[0] = 'L' -> Some (LRelease (num (rest_of a)))
    | [a] when a.[0] = 'f' -> Some (LFinish (num (rest_of a)))
    | [a] when a.[0] = 'a' -> Some (LAbort (num (rest_of a)))
    | [a; st] when a.[0] = 'p' ->
        (match phase_of st with Some p -> Some (LAdvance (num (rest_of a), p)) | None -> None)
    | _ -> None
  with _ -> None

let tok (x : lobs) : string =
  match x with
  | XNotified -> "notified" | XErr -> "-ERR" | XParked -> "parked" | XDropped -> "dropped" | XDot -> "." | XQ -> "?" | XRefused -> "refused" | XHeld -> "held" | XAccepted -> "accepted"
  | XCode c -> string_of_int (int_of_nat c)
  | XOk -> "+OK"
  | XFinS (d, q, n) ->
      Printf.sprintf "%s/%d/%d" (match d with Some c -> string_of_int (int_of_nat c) | None -> "-") (int_of_nat q) (int_of_nat n)
  | XFinP (o, n) -> Printf.sprintf "%s/%d" (if o then "+OK" else "-ERR") (int_of_nat n)
  | XReturned -> "returned" | XBlocked -> "blocked" | XJoined -> "joined" | XFine -> "ok" | XOther -> "other"

let parse_obs (t : string) : lobs =
  match t with
  | "notified" -> XNotified | "-ERR" -> XErr | "parked" -> XParked | "dropped" -> XDropped | "." -> XDot | "?" -> XQ | "refused" -> XRefused | "held" -> XHeld | "accepted" -> XAccepted
  | "+OK" -> XOk | "returned" -> XReturned | "blocked" -> XBlocked | "joined" -> XJoined | "ok" -> XFine
  | _ ->
    (try
      match split '/' t with
      | [c] -> XCode (num c)
      | ["+OK"; n] -> XFinP (true, num n)
      | ["-ERR"; n] -> XFinP (false, num n)
      | [d; q; n] -> XFinS ((if d = "-" then None else Some (num d)), num q, num n)
      | _ -> XOther
    with _ -> XOther)

let wait_name = function
  | Some WSmtpDrain -> "smtp-drain" | Some WPop3Drain -> "pop3-drain" | Some WRetJoin -> "retention-join" | None -> "nothing"

let verdict_string ops (v : lverdict) : string =
  let at k = let k = int_of_nat k in
    Printf.sprintf "op%d(%s)" k (try List.nth ops k with _ -> "?") in
  match v with
  | LVOk -> "ok"
  | LVShape -> "fail:observation-does-not-fit-the-schedule"
  | LVAcceptedAfterShutdown k -> "fail:connection-accepted-after-shutdown-at-" ^ at k
  | LVSessionDisturbed k -> "fail:open-session-did-not-get-the-reply-its-dialogue-entitles-it-to-at-" ^ at k
  | LVDrainEarly k -> "fail:drain-returned-while-an-accepted-session-is-alive-at-" ^ at k
  | LVDrainUncounted k -> "fail:drain-returned-while-an-accepted-connection-was-not-yet-counted-at-" ^ at k
  | LVDrainStuck k -> "fail:drain-did-not-return-with-no-session-alive-at-" ^ at k
  | LVFinal k -> "fail:shutdown-does-not-end:" ^ (List.nth ["smtp-drain"; "pop3-drain"; "retention-join"; "hub-sync"; "hub-late-ops"] (int_of_nat k))

let () =
  Mlutil.iter_lines (fun line ->
    let (kind, ins, outs) = Mlutil.split_case line in
    match kind, ins with
    | ("life" | "tls" | "lifet" | "stls"), [ops] ->
        let toks = if ops = "-" then [] else split ',' ops in
        let lops = List.map parse_op toks in
        if List.exists (fun x -> x = None) lops then Mlutil.print_model ["BADOPS"] "ok"
        else begin
          let lops = List.map (function Some d -> d | None -> assert false) lops in
          let m = ldrive lops in
          let verdict =
            match outs with
            | "PANIC" :: _ -> "fail:panic"
            | "CRASH" :: _ -> "fail:process-died-during-the-schedule(panic-in-a-goroutine-of-the-code-under-test)"
            | _ -> verdict_string toks (loracle lops (List.map parse_obs outs)) in
          Mlutil.print_model (List.map tok m) verdict
        end
    | "early", [mode; busy] ->
        (* model (Model/LifecycleAsm.v): after cancel every listener's Start runs to its end — bound ones close their
           listener, the one that could not bind holds nothing — and main()'s waits return (no_listener_left_open) *)
        let e = { f_web = (mode = "clash" && busy = "web"); f_smtp = (mode = "clash" && busy = "smtp"); f_pop3 = (mode = "clash" && busy = "pop3") } in
        let bo = boot_pinned e true in
        let st n = if mode = "clash" && busy = n then n ^ "=held-by-harness" else n ^ "=closed" in
        let m = [st "web"; st "smtp"; st "pop3"; (if bo.bo_returns then "returns" else "stuck")] in
        let verdict = match outs with
          | [w; s; p; r] ->
              let bad = List.filter (fun (n, x) -> x <> st n) [("web", w); ("smtp", s); ("pop3", p)] in
              (match bad with
               | (n, x) :: _ -> "fail:listener-still-open-after-shutdown-was-requested(" ^ x ^ ")"
               | [] -> if r <> "returns" then "fail:shutdown-does-not-end:" ^ r else "ok")
          | "CRASH" :: _ -> "fail:process-died-during-the-schedule(panic-in-a-goroutine-of-the-code-under-test)"
          | o :: _ when String.length o > 5 && String.sub o 0 5 = "fail:" -> o
          | _ -> "fail:observation-does-not-fit" in
        Mlutil.print_model m verdict
    | "scan", (n :: _ :: k :: _) ->
        (* model: the scanner is in RScan (n-k) when the context is cancelled; count its steps until it has left
           the per-mailbox loop — each such step visits one mailbox *)
        let n_i = int_of_string n and k_i = int_of_string k in
        let rec visits r acc =
          if acc > n_i + 2 then acc else
          match r with
          | RScan j when int_of_nat j > 0 -> visits (rsteps true (nat_of_int n_i) (nat_of_int 1) r) (acc + 1)
          | _ -> acc in
        let v = if k_i >= n_i then 0 else visits (RScan (nat_of_int (n_i - k_i))) 0 in
        let m = ["visited=" ^ string_of_int v; "returned"] in
        (* oracle: after cancellation at most the callback under way runs (exactly one when the pass was not over) *)
        let verdict = match outs with
          | [vis; r] ->
              let got = (try int_of_string (String.sub vis 8 (String.length vis - 8)) with _ -> -1) in
              if r <> "returned" then "fail:retention-scan-does-not-return"
              else if got < 0 then "fail:observation-does-not-fit"
              else if got > 1 then Printf.sprintf "fail:retention-scan-visited-%d-more-mailboxes-after-cancellation" got
              else if k_i < n_i && got <> 1 then "fail:cancellation-point-not-reached"
              else "ok"
          | _ -> "fail:observation-does-not-fit" in
        Mlutil.print_model m verdict
    | "ret", [period; n; whn] ->
        let n_i = int_of_string n in
        let enabled = period <> "0s" in
        (* DoScan: the scanner in RScan n; cancellation arrives before, after two mailboxes, or never *)
        let steps_until_back cancelled_from =
          let rec go k r =
            if k > n_i + 5 then k else
            match r with
            | RScan _ -> go (k + 1) (rsteps (k >= cancelled_from) (nat_of_int n_i) (nat_of_int 1) r)
            | _ -> k in
          go 0 (RScan (nat_of_int n_i)) in
        let steps = match whn with "pre" -> steps_until_back 0 | "mid" -> steps_until_back 2 | _ -> steps_until_back 1000000 in
        let early = 2 * steps < n_i in
        let after_cancel = rsteps true (nat_of_int n_i) (nat_of_int 1) (rinit enabled) in
        let m = ["returned"; (if early then "early" else "late"); (if enabled then "running" else "disabled");
                 (match after_cancel with RStopped -> "joined" | _ -> "blocked")] in
        let verdict =
          match outs with
          | [r; e; s; j] ->
              if r <> "returned" then "fail:retention-scan-does-not-return"
              else if whn <> "none" && e <> "early" then "fail:retention-scan-ignores-cancellation"
              else if s = "stopped-early" then "fail:retention-scanner-stopped-before-shutdown"
              else if j <> "joined" then "fail:retention-join-does-not-return"
              else "ok"
          | _ -> "fail:observation-does-not-fit" in
        Mlutil.print_model m verdict
    | "asm19", [busy] ->
        (* the assembled server with one listener unable to bind: the model (Model/LifecycleAsm.v, shape of
           Services.Start pinned from the source) says whether the shutdown sequence gets through *)
        let e = { f_web = (busy = "web"); f_smtp = (busy = "smtp"); f_pop3 = (busy = "pop3") } in
        let bo = boot_pinned e true in
        let m = if bo.bo_returns then "ok" else "fail:" ^ wait_name bo.bo_stuck_at ^ "-did-not-return" in
        let verdict = match outs with
          | ["ok"] -> "ok"
          | o :: _ when String.length o > 5 && String.sub o 0 5 = "fail:" -> o
          | o :: _ -> "fail:" ^ o
          | [] -> "fail:no-observation" in
        Mlutil.print_model [m] verdict
    | "boot", [mask; period] when String.length mask = 3 ->
        let e = { f_web = (mask.[0] = '1'); f_smtp = (mask.[1] = '1'); f_pop3 = (mask.[2] = '1') } in
        let bo = boot_pinned e (period <> "0s") in
        let b2s b = if b then "1" else "0" in
        let m = ["ready=" ^ b2s bo.bo_ready; "notified=" ^ b2s bo.bo_notified;
                 (if bo.bo_returns then "returns" else "stuck:" ^ wait_name bo.bo_stuck_at)] in
        (* oracle = the statements of ready_iff_all_bound / notified_iff_some_failed / shutdown_terminates *)
        let any_fail = e.f_web || e.f_smtp || e.f_pop3 in
        let verdict = match outs with
          | [r; n; t] ->
              if r <> "ready=" ^ b2s (not any_fail) then
                (if any_fail then "fail:ready-reported-although-a-listener-could-not-bind" else "fail:not-ready-although-all-listeners-bound")
              else if n <> "notified=" ^ b2s any_fail then
                (if any_fail then "fail:bind-failure-not-notified" else "fail:failure-notified-although-all-listeners-bound")
              else if t <> "returns" then "fail:shutdown-does-not-end:" ^ t
              else "ok"
          | o :: _ when String.length o > 5 && String.sub o 0 5 = "fail:" -> o
          | _ -> "fail:observation-does-not-fit" in
        Mlutil.print_model m verdict
    | _ -> Mlutil.print_model ["UNKNOWN-KIND"] "ok")

(* Model runner for C14: replays a history of deliveries, raw HTTP requests and Go-client calls
   on the extracted model (router + handlers + client over the store spec) and evaluates the
   property oracle = the extracted SPECIFICATION ([hspec]: RFC routing, the operation the
   route / client method names, applied to the abstract store) on what the implementation
   answered. *)
open C14_model
open Conv

let sp c s = Mlutil.split_on_char c s

(* ---- naming function (MailboxForAddress) from the table observed by the driver *)
let mfa_miss = ref false
let parse_mfa (f : string) : (string * string option) list =
  let body = String.sub f 2 (String.length f - 2) in
  if body = "" then [] else
  List.map (fun e ->
    match sp ':' e with
    | [a; r] -> (Mlutil.unhex a, if r = "E" then None else Some (Mlutil.unhex (String.sub r 1 (String.length r - 1))))
    | _ -> failwith "bad mfa entry") (sp ',' body)

let mk_mfa tbl = fun (s : n list) ->
  let raw = raw_of_str s in
  match List.assoc_opt raw tbl with
  | Some (Some r) -> Some (str_of_raw r)
  | Some None -> None
  | None -> mfa_miss := true; None

(* ---- tokens *)
let view_tok ((k, m) : nat * msg) =
  Printf.sprintf "k%d.%d.%d.%d.%s" (int_of_nat k) (int_of_z m.m_date) (int_of_n m.m_tag) (int_of_n m.m_size)
    (if m.m_seen then "1" else "0")
let views_tok l = String.concat ";" (List.map view_tok l)
let list_tok mb l = if l = [] then "L@-:" else "L@" ^ field_of_str mb ^ ":" ^ views_tok l
let tag_of ((_, m) : nat * msg) = string_of_int (int_of_n m.m_tag)

let status_tok = function
  | S200 -> "200" | S301 -> "301" | S400 -> "400" | S404 -> "404" | S405 -> "405" | S500 -> "500"
  | SPanic -> "DROP" | SOther -> "OTHER"

(* ---- JSON answers field by field (Model/Rest.v: jheader, jmessage, juimessage) *)
let nstr n = string_of_int (int_of_n n)
let hdr_tok (h : jheader) =
  Printf.sprintf "k%d.%d.%d.%s.%s.%s.%s.%s" (int_of_nat h.jh_id) (int_of_z h.jh_millis) (int_of_z h.jh_date)
    (nstr h.jh_from) (nstr h.jh_to) (nstr h.jh_subject) (nstr h.jh_size) (if h.jh_seen then "1" else "0")
let headers_tok (l : jheader list) =
  match l with
  | [] -> "L@-:"
  | h :: _ -> "L@" ^ field_of_str h.jh_mailbox ^ ":" ^ String.concat ";" (List.map hdr_tok l)
let opt_tok = function None -> "none" | Some t -> nstr t
let msg_tok (links : bool) (m : jmessage) =
  hdr_tok m.jm_h ^ "|t" ^ nstr m.jm_text ^ "|h" ^ opt_tok m.jm_html
  ^ "|H" ^ nstr m.jm_hdr_from ^ "." ^ nstr m.jm_hdr_to ^ "." ^ nstr m.jm_hdr_subject
  ^ "|A" ^ String.concat ";" (List.map (fun a ->
      if links then nstr a.ja_md5 ^ "@" ^ field_of_str a.ja_link_mb ^ "/" ^ field_of_str a.ja_link_id ^ "/" ^ nstr a.ja_link_num
      else nstr a.ja_md5) m.jm_atts)
let ui_tok (m : juimessage) =
  hdr_tok m.ju_h ^ "|t" ^ nstr m.ju_text ^ "|h" ^ opt_tok m.ju_html
  ^ "|H" ^ nstr m.ju_hdr_from ^ "." ^ nstr m.ju_hdr_to ^ "." ^ nstr m.ju_hdr_subject
  ^ "|A" ^ String.concat ";" (List.map nstr m.ju_atts) ^ "|E" ^ nstr m.ju_errors

let resp_tok ((s, p) : status * payload) =
  let st = status_tok s in
  match render p with
  | JNone -> st
  | JOk -> st ^ "/OK"
  | JHeaders l -> st ^ "/" ^ headers_tok l
  | JMessage m -> st ^ "/M@" ^ field_of_str m.jm_h.jh_mailbox ^ ":" ^ msg_tok true m
  | JUiMessage m -> st ^ "/U@" ^ field_of_str m.ju_h.jh_mailbox ^ ":" ^ ui_tok m
  | JSource tag -> st ^ "/S:" ^ nstr tag
  | JHtml t -> st ^ "/H:" ^ opt_tok t
  | JAttachment (tag, num) -> st ^ "/T:" ^ nstr tag ^ "." ^ nstr num
  | JLocation p -> st ^ "/" ^ field_of_str p

let cres_tok = function
  | CErr -> "E" | COkUnit -> "U"
  | COkList (mb, l) -> headers_tok (List.map (jheader_of mb) l)
  | COkMsg (mb, v) -> "M@" ^ field_of_str mb ^ ":" ^ msg_tok false (jmessage_of mb [] v)
  | COkSrc v -> "S:" ^ tag_of v
  | COkRaw -> "S:BAD"     (* a 200 body that is not a message source, handed back as the source *)

let hout_tok = function
  | OAdded _ -> "A"
  | OResp r -> resp_tok r
  | OCli c -> cres_tok c

let dump_tok (st : spec_store) =
  let parts = List.map (fun (mb, l) -> field_of_str mb ^ "=" ^ views_tok l) (spec_visit st) in
  "D=" ^ String.concat "|" (List.sort compare parts)

(* ---- parsing of the history *)
let meth_of = function "GET" -> GET | "DELETE" -> DELETE | "PATCH" -> PATCH | _ -> MOther
(* body field: content (t|f|b|e) + framing + headers; only the content reaches the handler model *)
let body_of (s : string) = if s = "" then BBad else match s.[0] with 't' -> BTrue | 'f' -> BFalse | _ -> BBad

let parse_op (base : n list list) (o : string) : hop =
  match sp ':' o with
  | ["a"; mb; date; tag; size] ->
      HAdd (str_of_field mb, z_of_int (int_of_string date), n_of_int (int_of_string tag), n_of_int (int_of_string size))
  | ["r"; m; tmpl; wname; id; body; num; file] ->
      let path = req_path base (n_of_int (int_of_string tmpl)) (str_of_field wname) (str_of_field id)
                   (str_of_field num) (str_of_field file) in
      HReq { rq_meth = meth_of m; rq_path = path; rq_body = body_of body }
  | ["y"; tmpl; mb; k; body] ->
      (* a GET racing with a removal of message k of mb that completes between look-up and open *)
      let mbs = str_of_field mb in
      let k = int_of_string k in
      let path = req_path base (n_of_int (int_of_string tmpl)) (qescape mbs) (id_of_k (nat_of_int k)) (str_of_raw "0") (str_of_raw "a.bin") in
      HRace ({ rq_meth = GET; rq_path = path; rq_body = body_of body }, mbs, nat_of_int k)
  | ["c"; op; name; arg] ->
      let name = str_of_field name in
      let id () = str_of_field arg and idx () = nat_of_int (int_of_string arg) in
      HCli (match op with
        | "list" -> CList name | "get" -> CGet (name, id ()) | "seen" -> CSeen (name, id ())
        | "src" -> CSrc (name, id ()) | "del" -> CDel (name, id ()) | "purge" -> CPurge name
        | "hget" -> CHGet (name, idx ()) | "hsrc" -> CHSrc (name, idx ()) | "hdel" -> CHDel (name, idx ())
        | "msrc" -> CMSrc (name, id ()) | "mdel" -> CMDel (name, id ())
        | _ -> failwith ("bad client op " ^ op))
  | _ -> failwith ("bad op " ^ o)

let classify (o : hop) (expected : string) (impl : string) : string =
  if impl = "DROP" || (String.length impl >= 5 && String.sub impl 0 5 = "PANIC") then "handler-panic-or-connection-dropped"
  else match o with
  | HCli _ -> "client-effect"
  | HAdd _ -> "delivery"
  | HReq _ | HRace _ -> if expected = "404" then "missing-not-404" else "api-differs-from-store"

(* One history (kind `hist`, or `asm14` = the same against the assembled server): model line and oracle verdict. *)
let judge (asm : bool) (storef : string) (basef : string) (opsf : string) (outs : string list) : unit =
        mfa_miss := false;
        let mfa_field = try List.find (fun f -> String.length f >= 2 && String.sub f 0 2 = "M=") outs with Not_found -> "M=" in
        let mfa = mk_mfa (parse_mfa mfa_field) in
        let cfg =
          let parts = sp '.' storef in
          let is_mem = (List.hd parts = "mem") in
          List.fold_left (fun c o ->
            let v = int_of_string (String.sub o 1 (String.length o - 1)) in
            if o.[0] = 'c' then { c with c_cap = nat_of_int v }
            else if o.[0] = 'm' && is_mem then { c with c_max = n_of_int (v * 1024) }
            else c) { c_cap = O; c_max = N0 } (List.tl parts) in
        let base = base_of_config (str_of_field basef) in
        let cbase = join_slash base in
        let is_file = (List.hd (sp '.' storef) = "file") in
        (* "x:<mb>:<k>": the content file of message k of mb vanishes (file store; nothing to lose in memory) *)
        (* assembled-system stream: a delivery goes over SMTP; when the server stamped it and how many bytes it stored
           are observations ("A:<millis>:<size>") that enter the model as the delivery's date and size *)
        let op_strs = if opsf = "-" then [] else sp ',' opsf in
        let asm_err = ref (-1) in
        let op_strs = if not asm then op_strs else
            List.mapi (fun i o ->
              match sp ':' o with
              | ["a"; mb; _; tag; _] ->
                  (match (try sp ':' (List.nth outs i) with _ -> []) with
                   | ["A"; millis; size] -> String.concat ":" ["a"; mb; millis; tag; size]
                   | _ -> (if !asm_err < 0 then asm_err := i); String.concat ":" ["a"; mb; "0"; tag; "0"])
              | _ -> o) op_strs in
        let add_tok i = if asm then (try List.nth outs i with _ -> "A") else "A" in
        let ops = List.map (fun o ->
            match sp ':' o with
            | ["x"; mb; k] -> `Vanish (Mlutil.unhex mb, int_of_string k)
            | _ -> `Model (parse_op base o)) op_strs in
        let srcok_of broken = fun (mb : n list) (k : nat) -> not (List.mem (raw_of_str mb, int_of_nat k) broken) in
        (* the environment of one step: for a race, the content of the raced message is gone on the file store *)
        let env broken o = match o with
          | HRace (_, mbs, k) when is_file -> srcok_of ((raw_of_str mbs, int_of_nat k) :: broken)
          | _ -> srcok_of broken in
        let remove st mbs k = fst (fst (exec_spec cfg st (Remove (mbs, Kth k)))) in
        (* model: what the code is predicted to answer *)
        let tok_of i o out = (match o with HAdd _ -> add_tok i | _ -> hout_tok out) in
        let (mst, _, mtoks, _) = List.fold_left (fun (st, broken, acc, i) o ->
          match o with
          | `Vanish (m, k) -> (st, (if is_file then (m, k) :: broken else broken), "X" :: acc, i + 1)
          | `Model o ->
              let (st', out) = hstep mfa cfg (env broken o) base cbase st o in (st', broken, tok_of i o out :: acc, i + 1))
          (spec_init, [], [], 0) ops in
        let mtoks = List.rev mtoks in
        let model_outs = mtoks @ [dump_tok mst; mfa_field] @ (if !mfa_miss then ["MFA-MISS"] else []) in
        (* oracle: the specification applied to what the implementation answered; where the specification leaves
           the answer open (content gone, unparsable name, ...) any well-formed answer will do — a dropped
           connection (handler panic) never *)
        let nops = List.length ops in
        let verdict =
          if !asm_err >= 0 then Printf.sprintf "fail:assembled-delivery-not-visible-through-the-api@%d" !asm_err
          else if List.length outs < nops + 1 then
            (match outs with "PANIC" :: _ -> "fail:handler-panic-or-connection-dropped" | _ -> "fail:no-answer")
          else begin
            let rec go st broken ops outs i =
              match ops, outs with
              | [], d :: _ -> if d = dump_tok st then "ok" else "fail:store-after"
              | `Vanish (m, k) :: ops', impl :: outs' ->
                  if impl <> "X" then Printf.sprintf "fail:harness@%d" i
                  else go st (if is_file then (m, k) :: broken else broken) ops' outs' (i + 1)
              | `Model _ :: _, impl :: _ when impl = "DROP" ->
                  (* no request may make a handler panic or drop the connection — whatever the model says for it *)
                  Printf.sprintf "fail:handler-panic-or-connection-dropped@%d" i
              | `Model o :: ops', impl :: outs' ->
                  (match hspec mfa cfg (env broken o) base st o with
                   | Some (st', out) ->
                       let e = tok_of i o out in
                       if e = impl then go st' broken ops' outs' (i + 1)
                       else Printf.sprintf "fail:%s@%d" (classify o e impl) i
                   | None ->
                       if impl = "DROP" then Printf.sprintf "fail:handler-panic-or-connection-dropped@%d" i
                       else
                         let st' = (match o with HRace (_, mbs, k) -> remove st mbs k | _ -> st) in
                         go st' broken ops' outs' (i + 1))
              | _ -> "fail:no-answer" in
            go spec_init [] ops outs 0
          end in
        Mlutil.print_model model_outs verdict

let () =
  Mlutil.iter_lines (fun line ->
    let (kind, ins, outs) = Mlutil.split_case line in
    match kind, ins with
    | "hist", [storef; _naming; basef; opsf] -> judge false storef basef opsf outs
    | "asm14", [storef; basef; opsf] ->
        (match outs with
         | ("SETUPERR" | "CRASH" | "HANG" | "NOOUTPUT") :: _ -> Mlutil.print_model ["-"] ("fail:assembled-server-" ^ String.lowercase_ascii (List.hd outs))
         | _ -> judge true storef basef opsf outs)
    | _ -> Mlutil.print_model ["UNKNOWN-KIND"] "ok")

(* Model runner for C05: evaluates the extracted policy model on every case and the
   property oracle (the specification side) on what the implementation answered. *)
open C05_model
open Conv

let () =
  Mlutil.iter_lines (fun line ->
    let (kind, ins, outs) = Mlutil.split_case line in
    match kind, ins with
    | "wild", [p; s] ->
        let p = str_of_field p and s = str_of_field s in
        let m = match_wild p s in
        (* oracle: the glob specification; only claimed when the input holds no '*' *)
        let has_star = List.exists (fun c -> int_of_n c = 42) s in
        let verdict =
          match outs with
          | [o] when not has_star ->
              if bool_of_field o = globb p s then "ok" else "fail:wildcard-differs-from-glob-spec"
          | _ -> "ok" in
        Mlutil.print_model [field_of_bool m] verdict
    | "pol", [da; acc; rej; ds; sto; dis; rejo; d] ->
        let f = str_of_field in
        let c = load_cfg (bool_of_field da) (f acc) (f rej) (bool_of_field ds) (f sto) (f dis) (f rejo) in
        let r = raw_cfg (bool_of_field da) (f acc) (f rej) (bool_of_field ds) (f sto) (f dis) (f rejo) in
        let d = f d in
        let m = [should_accept c d; should_store c d; should_accept_origin c d] in
        let spec = [accept_spec r d; store_spec r d; origin_spec r d] in
        let verdict =
          match outs with
          | [a; b; o] ->
              let impl = [bool_of_field a; bool_of_field b; bool_of_field o] in
              if impl = spec then "ok"
              else if List.nth impl 0 <> List.nth spec 0 then "fail:accept-rule"
              else if List.nth impl 1 <> List.nth spec 1 then "fail:store-rule"
              else "fail:origin-rule"
          | _ -> "fail:no-answer" in
        Mlutil.print_model (List.map field_of_bool m) verdict
    | _ -> Mlutil.print_model ["UNKNOWN-KIND"] "ok")

(* Model runner for C13 (POP3 session) and the POP3 wire part of C02.

   input   bytes <mem|file> <init> <hexstream>     one raw client byte stream, then EOF
           net <mem|file> <init> <chunk,chunk..> <eof|idle|err>   scripted connection (pauses, endings)
           tls <0|1> <init> <sess;sess..>  sess = <hex>:<hs>,..   connections to ONE server, real TLS client

   input   sess <mem|file> <init> <events>
     init    -  |  box;box;...      box = <namehex>:<srchex>.<srchex>...
     events  -  |  ev,ev,...        ev  = c<hex> client bytes | d<name>:<src> delivery
                                          | x<name>:<k> other client removes handle k
                                          | p<name> purge | w write side breaks
                                          | t idle timeout | r read error
                                          | n drop the connection (if open) and connect again
   outs    one field per reply that reached the client (greeting first; N marks a new
           connection), then one field
           S<namehex>=<k>:<size>.<k>:<size>... per mailbox named in init/deliveries.
   reply   <+|-|?>/<toks>/<body>   toks: - | t,t,..  (numbers, h<k> handles)
           body: - | L<n:v;..> | U<n:hk;..> | W<hex> | C | F | X<hex>
   The verdict is the extracted oracle (spec_step/oracle_run of Model/Pop3.v) applied to
   what the IMPLEMENTATION answered. *)
open C13_model
open Conv

let split c s = if s = "" then [] else String.split_on_char c s
let fstr f = str_of_field f          (* "-" or hex -> byte list *)

let handle_of_id (id : n list) : string =
  match id with
  | [k] -> "h" ^ string_of_int (int_of_n k)
  | _ -> "x" ^ field_of_str id

let id_of_handle (h : string) : n list =
  if String.length h > 1 && h.[0] = 'h' then [n_of_int (int_of_string (String.sub h 1 (String.length h - 1)))]
  else if String.length h > 1 && h.[0] = 'x' then
    (* an id the harness could not resolve: make it differ from every model id *)
    n_of_int 1000000 :: str_of_field (String.sub h 1 (String.length h - 1))
  else [n_of_int 1000001]

(* ---- parsing the input ---- *)
(* the stores' cap rule: after a delivery only the newest [cap] messages remain; the
   evictions are explicit ERemove events (what the store does to a session's mailbox is,
   for the session, a removal by somebody else) *)
let evictions (cap : int) (st : store) (name : n list) : store * event list =
  if cap <= 0 then (st, []) else
  let rec go st acc =
    let b = get_box st name in
    if List.length b.mmsgs > cap then
      let id = (List.hd b.mmsgs).sid in
      go (remove_msg st name id) (ERemove (name, id) :: acc)
    else (st, List.rev acc) in
  go st []

(* the memory store's store-wide size limit (maxkb): after a delivery (and its cap evictions) the
   globally oldest live messages go until the store holds at most [maxb] bytes. [arr] is the
   arrival order of everything ever delivered: (mailbox, id). *)
let size_evictions (maxb : int) (st : store) (arr : (n list * n list) list) : store * event list =
  if maxb <= 0 then (st, []) else
  let live = List.filter_map (fun (nm, id) ->
      match List.find_opt (fun m -> m.sid = id) (get_box st nm).mmsgs with
      | Some m -> Some (nm, id, List.length m.ssrc)
      | None -> None) arr in
  let total = List.fold_left (fun a (_, _, sz) -> a + sz) 0 live in
  let rec go total live st acc =
    if total > maxb then
      match live with
      | (nm, id, sz) :: r -> go (total - sz) r (remove_msg st nm id) (ERemove (nm, id) :: acc)
      | [] -> (st, List.rev acc)
    else (st, List.rev acc) in
  go total live st []

(* one delivery with both limits: the new store, the arrival list, the removals it caused *)
let deliver_limited (cap : int) (maxb : int) (st : store) (arr : (n list * n list) list) (name : n list) (src : n list)
  : store * (n list * n list) list * event list =
  let st1 = deliver st name src in
  let id = (match List.rev (get_box st1 name).mmsgs with m :: _ -> m.sid | [] -> []) in
  let arr = arr @ [(name, id)] in
  let (st2, e1) = evictions cap st1 name in
  let (st3, e2) = size_evictions maxb st2 arr in
  (st3, arr, e1 @ e2)

let parse_init_lim (cap : int) (maxb : int) (f : string) : store * (n list * n list) list =
  if f = "-" then ([], []) else
  List.fold_left (fun (st, arr) box ->
    match String.index_opt box ':' with
    | None -> (st, arr)
    | Some i ->
        let name = fstr (String.sub box 0 i) in
        let srcs = split '.' (String.sub box (i + 1) (String.length box - i - 1)) in
        List.fold_left (fun (st, arr) s ->
          let (st', arr', _) = deliver_limited cap maxb st arr name (fstr s) in (st', arr')) (st, arr) srcs)
    ([], []) (split ';' f)

let parse_init (cap : int) (f : string) : store = fst (parse_init_lim cap 0 f)

let split2 (s : string) : string * string =
  match String.index_opt s ':' with
  | None -> (s, "")
  | Some i -> (String.sub s 0 i, String.sub s (i + 1) (String.length s - i - 1))

(* 'n': the client drops the connection (if it is still open) and connects again; the
   sessions of one history share nothing but the store *)
type pev = Ev of bevent | NewConn

let parse_events (f : string) : pev list =
  if f = "-" then [] else
  List.map (fun ev ->
    let rest = String.sub ev 1 (String.length ev - 1) in
    match ev.[0] with
    | 'c' -> Ev (BBytes (fstr rest))
    | 'd' -> let (n, s) = split2 rest in Ev (BOther (EDeliver (fstr n, fstr s)))
    | 'x' -> let (n, k) = split2 rest in Ev (BOther (ERemove (fstr n, [n_of_int (int_of_string k)])))
    | 'p' -> Ev (BOther (EPurge (fstr rest)))
    | 'w' -> Ev (BOther EWriteBreak)
    | 't' | 'r' -> Ev (BOther EReadErr)
    | 'n' -> NewConn
    | _ -> failwith ("bad event " ^ ev)) (split ',' f)

let box_names (init : string) (events : string) : string list =
  let a = if init = "-" then [] else List.filter_map (fun b -> match String.index_opt b ':' with Some i -> Some (String.sub b 0 i) | None -> None) (split ';' init) in
  let b = if events = "-" then [] else List.filter_map (fun ev -> if ev.[0] = 'd' then Some (fst (split2 (String.sub ev 1 (String.length ev - 1)))) else None) (split ',' events) in
  List.sort_uniq compare (a @ b)

(* ---- printing replies ---- *)
let string_of_z z = string_of_int (int_of_z z)

let field_of_reply (r : reply) : string =
  let toks = List.map string_of_z r.r_nums @ (match r.r_id with Some id -> [handle_of_id id] | None -> []) in
  let toks = if toks = [] then "-" else String.concat "," toks in
  let body = match r.r_body with
    | BNone -> "-"
    | BList rows -> "L" ^ String.concat ";" (List.map (fun (a, b) -> string_of_int (int_of_n a) ^ ":" ^ string_of_int (int_of_n b)) rows)
    | BUidl rows -> "U" ^ String.concat ";" (List.map (fun (a, id) -> string_of_int (int_of_n a) ^ ":" ^ handle_of_id id) rows)
    | BWire w -> "W" ^ field_of_str w
    | BCapa -> "C"
    | BFail -> "F"
    | BPanic -> "PANIC"
    | BRaw w -> "X" ^ field_of_str w in
  (if r.r_ok then "+" else "-") ^ "/" ^ toks ^ "/" ^ body

let is_int s = s <> "" && (let ok = ref true in String.iteri (fun i c -> if not ((c >= '0' && c <= '9') || (i = 0 && c = '-' && String.length s > 1)) then ok := false) s; !ok)

(* implementation reply field -> reply; None when it has no structural reading *)
let reply_of_field (f : string) : reply option =
  match String.split_on_char '/' f with
  | [st; toks; body] when st = "+" || st = "-" ->
      let toks = if toks = "-" then [] else split ',' toks in
      let nums = List.filter is_int toks and ids = List.filter (fun t -> not (is_int t)) toks in
      let rid = match ids with [] -> None | h :: _ -> Some (id_of_handle h) in
      let pair s = let (a, b) = split2 s in (a, b) in
      let b =
        if body = "-" then Some BNone
        else match body.[0] with
          | 'L' -> (try Some (BList (List.map (fun r -> let (a, b) = pair r in (n_of_int (int_of_string a), n_of_int (int_of_string b))) (split ';' (String.sub body 1 (String.length body - 1))))) with _ -> None)
          | 'U' -> (try Some (BUidl (List.map (fun r -> let (a, b) = pair r in (n_of_int (int_of_string a), id_of_handle b)) (split ';' (String.sub body 1 (String.length body - 1))))) with _ -> None)
          | 'W' -> Some (BWire (fstr (String.sub body 1 (String.length body - 1))))
          | 'C' -> Some BCapa
          | 'F' -> Some BFail
          | 'X' -> Some (BRaw (fstr (String.sub body 1 (String.length body - 1))))
          | _ -> None in
      (match b with
       | None -> None
       | Some b -> (try Some { r_ok = (st = "+"); r_nums = List.map (fun t -> z_of_int (int_of_string t)) nums; r_id = rid; r_body = b } with _ -> None))
  | _ -> None

let field_of_dump (name : string) (rows : (n list * n) list) : string =
  "S" ^ name ^ "=" ^ String.concat "." (List.map (fun (id, sz) -> handle_of_id id ^ ":" ^ string_of_int (int_of_n sz)) rows)

let dump_of_field (f : string) : (n list * (n list * n) list) option =
  if String.length f < 2 || f.[0] <> 'S' then None else
  match String.index_opt f '=' with
  | None -> None
  | Some i ->
      let name = fstr (String.sub f 1 (i - 1)) in
      let rows = split '.' (String.sub f (i + 1) (String.length f - i - 1)) in
      (try Some (name, List.map (fun r -> let (h, sz) = split2 r in (id_of_handle h, n_of_int (int_of_string sz))) rows) with _ -> None)


(* ---- Coq terms of sampled cases, for the in-kernel cross-check ---- *)
let coq_n (x : n) = string_of_int (int_of_n x)
let coq_str (l : n list) = "[" ^ String.concat ";" (List.map coq_n l) ^ "]"
let coq_z (x : z) = "(" ^ string_of_int (int_of_z x) ^ ")%Z"
let coq_list f l = "[" ^ String.concat "; " (List.map f l) ^ "]"
let coq_store (st : store) =
  coq_list (fun (name, b) ->
    "(" ^ coq_str name ^ ", {| mnext := " ^ coq_n b.mnext ^ "; mmsgs := " ^
    coq_list (fun m -> "{| sid := " ^ coq_str m.sid ^ "; ssrc := " ^ coq_str m.ssrc ^ " |}") b.mmsgs ^ " |})") st
let coq_event = function
  | ELine l -> "ELine " ^ coq_str l
  | ECmd _ -> failwith "ECmd not printed"
  | EDeliver (a, b) -> "EDeliver " ^ coq_str a ^ " " ^ coq_str b
  | ERemove (a, b) -> "ERemove " ^ coq_str a ^ " " ^ coq_str b
  | EPurge a -> "EPurge " ^ coq_str a
  | EWriteBreak -> "EWriteBreak"
  | EEof -> "EEof"
  | EReadErr -> "EReadErr"
let coq_body = function
  | BNone -> "BNone" | BCapa -> "BCapa" | BFail -> "BFail" | BPanic -> "BPanic"
  | BList rows -> "BList " ^ coq_list (fun (a, b) -> "(" ^ coq_n a ^ ", " ^ coq_n b ^ ")") rows
  | BUidl rows -> "BUidl " ^ coq_list (fun (a, b) -> "(" ^ coq_n a ^ ", " ^ coq_str b ^ ")") rows
  | BWire w -> "BWire " ^ coq_str w
  | BRaw w -> "BRaw " ^ coq_str w
let coq_reply (r : reply) =
  "{| r_ok := " ^ (if r.r_ok then "true" else "false") ^ "; r_nums := " ^ coq_list coq_z r.r_nums ^
  "; r_id := " ^ (match r.r_id with None -> "None" | Some i -> "Some " ^ coq_str i) ^
  "; r_body := " ^ coq_body r.r_body ^ " |}"
let coq_dump (d : (n list * (n list * n) list) list) =
  coq_list (fun (name, rows) -> "(" ^ coq_str name ^ ", " ^ coq_list (fun (i, sz) -> "(" ^ coq_str i ^ ", " ^ coq_n sz ^ ")") rows ^ ")") d
let coq_cases : string list ref = ref []
let coq_cases_path = Sys.getenv_opt "C13_COQ_CASES"
let coq_cases_max = 150

let reason_text (r : n) : string =
  match int_of_n r with
  | 1 -> "server-panic"
  | 2 -> "wrong-status"
  | 3 -> "stat-disagrees-with-snapshot"
  | 4 -> "list-not-the-snapshot"
  | 5 -> "uidl-not-the-store-ids"
  | 6 -> "retr-body-not-the-stored-message"
  | 7 -> "store-after-session-not-what-the-dialogue-entitles"
  | 8 -> "reply-count"
  | 9 -> "unterminated-multiline-reply"
  | 10 -> "login-count-not-the-mailbox"
  | k -> "reason-" ^ string_of_int k

let () =
  Mlutil.iter_lines (fun line ->
    let (kind, ins, outs) = Mlutil.split_case line in
    match kind, ins with
    | "sess", [fl; init; events] ->
        let (flname, cap, maxb) = match String.split_on_char ':' fl with
          | [a; c; m] -> (a, int_of_string c, 1024 * int_of_string m)
          | [a; c] -> (a, int_of_string c, 0)
          | _ -> (fl, 0, 0) in
        let fl' = if flname = "file" then File else Mem in
        let (st0, arr0) = parse_init_lim cap maxb init in
        let arr = ref arr0 in
        let pevs = parse_events events in
        (* byte chunks -> lines (Coq: feed), cap evictions -> explicit removals,
           'n' -> a new segment run from the store the previous session left *)
        let (w, _, acc, segs_rev) =
          List.fold_left (fun (w, pend, acc, segs) pe ->
            match pe with
            | NewConn ->
                let w' = wstep fl' w EEof in
                (init_world w'.w_store, [], [], List.rev acc :: segs)
            | Ev be ->
              let es, pend' = match be with
                | BBytes b -> let (ls, p) = feed (frev pend) b in (List.map (fun l -> ELine l) ls, p)
                | BOther e -> ([e], pend) in
              let (w, acc) = List.fold_left (fun (w, acc) e ->
                let w = wstep fl' w e in
                match e with
                | EDeliver (name, _) when cap > 0 || maxb > 0 ->
                    let id = (match List.rev (get_box w.w_store name).mmsgs with m :: _ -> m.sid | [] -> []) in
                    arr := !arr @ [(name, id)];
                    let (st1, rm1) = evictions cap w.w_store name in
                    let (_, rm2) = size_evictions maxb st1 !arr in
                    let rm = rm1 @ rm2 in
                    let w = List.fold_left (wstep fl') w rm in
                    (w, List.rev_append rm (e :: acc))
                | _ -> (w, e :: acc)) (w, acc) es in
              (w, pend', acc, segs))
            (init_world st0, [], [], []) pevs in
        ignore w;
        let segs = List.rev (List.rev acc :: segs_rev) in
        (* run every segment with the extracted model *)
        let (_, runs_rev) = List.fold_left (fun (st, rs) evs ->
            let w = run fl' (init_world st) (evs @ [EEof]) in
            (w.w_store, (st, evs, w) :: rs)) (st0, []) segs in
        let runs = List.rev runs_rev in
        let last_store = (match runs_rev with (_, _, w) :: _ -> w.w_store | [] -> st0) in
        let names = box_names init events in
        let model_outs =
          String.split_on_char ' ' (String.concat " N " (List.map (fun (_, _, w) -> String.concat " " (List.map field_of_reply w.w_out)) runs)) @
          List.map (fun nm -> field_of_dump nm (dump_box last_store (fstr nm))) names in
        (* the oracle on the implementation's observation, connection by connection *)
        let verdict =
          match outs with
          | "PANIC" :: _ -> "fail:server-panic"
          | "WEDGED" :: _ | "WEDGED-AT-END" :: _ -> "fail:server-wedged"
          | "SPIN" :: _ -> "fail:session-keeps-reading-after-read-errors"
          | _ ->
              let rfs = List.filter (fun f -> f <> "" && f.[0] <> 'S') outs in
              let dfs = List.filter (fun f -> f <> "" && f.[0] = 'S') outs in
              (* split the reply fields at the connection markers *)
              let groups =
                let rec go cur acc = function
                  | [] -> List.rev (List.rev cur :: acc)
                  | "N" :: t -> go [] (List.rev cur :: acc) t
                  | f :: t -> go (f :: cur) acc t in
                go [] [] rfs in
              let ds = List.map dump_of_field dfs in
              if List.length groups <> List.length runs then "fail:reply-count"
              else if List.mem None ds || List.length ds <> List.length names then "fail:unparsable-store-dump"
              else begin
                let ds = List.map (function Some d -> d | None -> assert false) ds in
                let nruns = List.length runs in
                let rec check i gs rs =
                  match gs, rs with
                  | g :: gs', (st, evs, _) :: rs' ->
                      let parsed = List.map reply_of_field g in
                      if List.mem None parsed then "fail:unparsable-reply"
                      else begin
                        let parsed = List.map (function Some r -> r | None -> assert false) parsed in
                        match oracle fl' st evs parsed (if i = nruns - 1 then ds else []) with
                        | None -> check (i + 1) gs' rs'
                        | Some why -> "fail:" ^ reason_text why
                      end
                  | _, _ -> "ok" in
                check 0 groups runs
              end in
        (match coq_cases_path, runs with
         | Some _, [(st, evs, _)] when String.length line < 3000 && List.length !coq_cases < coq_cases_max && verdict = "ok" ->
             let rfs = List.filter (fun f -> f <> "" && f.[0] <> 'S') outs in
             let dfs = List.filter (fun f -> f <> "" && f.[0] = 'S') outs in
             let rs = List.filter_map reply_of_field rfs and ds = List.filter_map dump_of_field dfs in
             if List.length rs = List.length rfs && List.length ds = List.length dfs then
               coq_cases := ("(" ^ (match fl' with Mem -> "Mem" | File -> "File") ^ ", " ^ coq_store st ^ ",\n   " ^
                             coq_list coq_event evs ^ ",\n   " ^ coq_list coq_reply rs ^ ",\n   " ^ coq_dump ds ^ ")") :: !coq_cases
         | _ -> ());
        Mlutil.print_model model_outs verdict
    | "overlap", [fl; init; steps] ->
        (* connections open at the same time on one server: they share nothing but the store *)
        let fl' = if fl = "file" then File else Mem in
        let st0 = parse_init 0 init in
        let tbl : (string, world) Hashtbl.t = Hashtbl.create 4 in
        let store = ref st0 in
        let res = ref [] in
        List.iter (fun step ->
          let (k, l) = split2 step in
          let w = (match Hashtbl.find_opt tbl k with
                   | Some w -> w
                   | None -> res := ("G" ^ k ^ field_of_reply r_plus) :: !res; init_world !store) in
          let w = { w with w_store = !store } in
          if (match w.w_sess.s_state with Closed -> true | _ -> false) then begin
            res := ("CLOSED" ^ k) :: !res; Hashtbl.replace tbl k w
          end else begin
            let n = List.length w.w_out in
            let w' = wstep fl' w (ELine (fstr l)) in
            store := w'.w_store;
            Hashtbl.replace tbl k w';
            (match List.nth_opt w'.w_out n with
             | Some r -> res := ("R" ^ k ^ field_of_reply r) :: !res
             | None -> res := ("NOREPLY" ^ k) :: !res)
          end) (if steps = "-" then [] else String.split_on_char ',' steps);
        let verdict =
          if List.exists (fun o -> String.length o >= 7 && String.sub o 0 7 = "BLOCKED") outs then "fail:command-got-no-reply-session-wedged"
          else if List.exists (fun o -> String.length o >= 7 && String.sub o 0 7 = "NOREPLY") outs then "fail:reply-count"
          else (match outs with "PANIC" :: _ -> "fail:server-panic" | _ -> "ok") in
        Mlutil.print_model (List.rev !res) verdict
    | "tls", [en; init; sessions] ->
        (* several connections to ONE server with STLS configured (or not); Coq's tsessions *)
        let tc = { t_enabled = (en = "1"); t_force = false } in
        let st0 = parse_init 0 init in
        let conns = List.map (fun sess ->
            if sess = "-" || sess = "" then [] else
            List.map (fun step -> let (d, hs) = split2 step in (fstr d, hs = "1")) (String.split_on_char ',' sess))
            (String.split_on_char ';' sessions) in
        let tws = tsessions tc Mem st0 false O
            (List.map (List.map (fun (d, hs) -> TChunk (d, hs))) conns) in
        let capa_field r flag =
          let f = field_of_reply r in
          (match r.r_body with BCapa -> f ^ (if flag then "1" else "0") | _ -> f) in
        let sess_outs tw = List.map2 capa_field tw.t_w.w_out tw.t_flags in
        let last_store = (match List.rev tws with tw :: _ -> tw.t_w.w_store | [] -> st0) in
        let names = box_names init "-" in
        let model_outs =
          String.split_on_char ' ' (String.concat " N " (List.map (fun tw -> String.concat " " (sess_outs tw)) tws)) @
          List.map (fun nm -> field_of_dump nm (dump_box last_store (fstr nm))) names in
        (* oracle: the C13 specification on what the implementation answered, connection by
           connection, with the accepted STLS lines (and what was dropped behind them) taken out:
           an upgrade must not change what the session shows or commits *)
        let verdict =
          match outs with
          | "PANIC" :: _ -> "fail:server-panic"
          | "WEDGED" :: _ | "WEDGED-AT-END" :: _ -> "fail:server-wedged"
          | _ when List.exists (fun o -> String.length o > 4 && (String.sub o 0 5 = "EXTRA" || String.sub o 0 5 = "GARBA" || String.sub o 0 5 = "HANDS")) outs ->
              "fail:tls-upgrade-protocol"
          | _ ->
              let rfs = List.filter (fun f -> f <> "" && f.[0] <> 'S') outs in
              let dfs = List.filter (fun f -> f <> "" && f.[0] = 'S') outs in
              let groups =
                let rec go cur acc = function
                  | [] -> List.rev (List.rev cur :: acc)
                  | "N" :: t -> go [] (List.rev cur :: acc) t
                  | f :: t -> go (f :: cur) acc t in
                go [] [] rfs in
              let ds = List.filter_map dump_of_field dfs in
              if List.length groups <> List.length conns then "fail:reply-count"
              else begin
                let strip_capa f =
                  let n = String.length f in
                  if n >= 2 && (String.sub f (n - 2) 2 = "C1" || String.sub f (n - 2) 2 = "C0") then String.sub f 0 (n - 1) else f in
                let nconn = List.length conns in
                let rec check i st gs cs =
                  match gs, cs with
                  | g :: gs', steps :: cs' ->
                      (match g with
                       | [] -> "fail:reply-count"
                       | greet :: toks ->
                           (* walk the lines of the segments, pairing them with the reply tokens *)
                           let evs = ref [] and rs = ref [] and toks = ref toks and stop = ref false and pend = ref [] in
                           List.iter (fun (d, hs) ->
                             if not !stop then begin
                               let (ls, p) = feed (frev !pend) d in
                               pend := p;
                               let dropped = ref false in
                               List.iter (fun l ->
                                 if not !stop && not !dropped then
                                   match !toks with
                                   | [] -> stop := true
                                   | t :: rest ->
                                       toks := rest;
                                       let is_stls = (match parse_line l with CCmd (STLS, _) -> true | _ -> false) in
                                       if is_stls && String.length t > 0 && t.[0] = '+' then begin
                                         dropped := true; pend := [];
                                         (* without a proper handshake: "-ERR" in plaintext, the session is over *)
                                         if not hs then (match !toks with "-/-/-" :: rest' -> toks := rest'; stop := true | _ -> stop := true)
                                       end else begin
                                         evs := ELine l :: !evs; rs := strip_capa t :: !rs
                                       end) ls
                             end) steps;
                           if !toks <> [] then "fail:reply-count" else
                           let parsed = List.map reply_of_field (greet :: List.rev !rs) in
                           if List.mem None parsed then "fail:unparsable-reply" else
                           let parsed = List.filter_map (fun x -> x) parsed in
                           let evs = List.rev !evs in
                           (match oracle Mem st evs parsed (if i = nconn - 1 then ds else []) with
                            | Some why -> "fail:" ^ reason_text why
                            | None ->
                                let w = run Mem (init_world st) (evs @ [EEof]) in
                                check (i + 1) w.w_store gs' cs'))
                  | _, _ -> "ok" in
                check 0 st0 groups conns
              end in
        Mlutil.print_model model_outs verdict
    | "net", [fl; init; chunks; fin] ->
        (* a scripted connection: chunks with pauses between them, three endings; Coq's run_net *)
        let fl' = if fl = "file" then File else Mem in
        let st0 = parse_init 0 init in
        let cs = if chunks = "-" then [] else List.map fstr (String.split_on_char ',' chunks) in
        let f = (match fin with "idle" -> FIdle | "err" -> FErr | _ -> FEof) in
        let (w, evs) = run_net fl' st0 cs f in
        let names = box_names init "-" in
        let model_outs =
          List.map field_of_reply w.w_out @
          List.map (fun nm -> field_of_dump nm (dump_box w.w_store (fstr nm))) names in
        let verdict =
          match outs with
          | "PANIC" :: _ -> "fail:server-panic"
          | "WEDGED" :: _ | "WEDGED-AT-END" :: _ -> "fail:server-wedged"
          | "SPIN" :: _ -> "fail:session-keeps-reading-after-read-errors"
          | _ ->
              let rfs = List.filter (fun f -> f <> "" && f.[0] <> 'S') outs in
              let dfs = List.filter (fun f -> f <> "" && f.[0] = 'S') outs in
              let rs = List.map reply_of_field rfs and ds = List.map dump_of_field dfs in
              if List.mem None rs then "fail:unparsable-reply"
              else if List.mem None ds || List.length ds <> List.length names then "fail:unparsable-store-dump"
              else
                let rs = List.filter_map (fun x -> x) rs and ds = List.filter_map (fun x -> x) ds in
                match oracle fl' st0 evs rs ds with
                | None -> "ok"
                | Some why -> "fail:" ^ reason_text why in
        Mlutil.print_model model_outs verdict
    | "bytes", [fl; init; stream] ->
        (* one raw client byte stream, then EOF: the model side is Coq's run_stream itself *)
        let fl' = if fl = "file" then File else Mem in
        let st0 = parse_init 0 init in
        let wbytes = fstr stream in
        let w = run_stream fl' st0 wbytes in
        let names = box_names init "-" in
        let model_outs =
          List.map field_of_reply w.w_out @
          List.map (fun nm -> field_of_dump nm (dump_box w.w_store (fstr nm))) names in
        let verdict =
          match outs with
          | "PANIC" :: _ -> "fail:server-panic"
          | "WEDGED" :: _ | "WEDGED-AT-END" :: _ -> "fail:server-wedged"
          | "SPIN" :: _ -> "fail:session-keeps-reading-after-read-errors"
          | _ ->
              let rfs = List.filter (fun f -> f <> "" && f.[0] <> 'S') outs in
              let dfs = List.filter (fun f -> f <> "" && f.[0] = 'S') outs in
              let rs = List.map reply_of_field rfs and ds = List.map dump_of_field dfs in
              if List.mem None rs then "fail:unparsable-reply"
              else if List.mem None ds || List.length ds <> List.length names then "fail:unparsable-store-dump"
              else
                let rs = List.filter_map (fun x -> x) rs and ds = List.filter_map (fun x -> x) ds in
                match oracle fl' st0 (List.map (fun l -> ELine l) (read_lines wbytes)) rs ds with
                | None -> "ok"
                | Some why -> "fail:" ^ reason_text why in
        Mlutil.print_model model_outs verdict
    | "stress", _ ->
        (* real interleavings: the driver checked the property on the replies itself *)
        let verdict = match outs with
          | ["ok"] -> "ok"
          | o :: _ -> "fail:stress-" ^ o
          | [] -> "fail:stress-no-answer" in
        Mlutil.print_model ["ok"] verdict
    | _ -> Mlutil.print_model ["UNKNOWN-KIND"] "ok");
  (match coq_cases_path with
   | Some path ->
       let oc = open_out path in
       output_string oc "(* GENERATED by ml/c13_run.ml: sampled cases (what the implementation answered) re-evaluated by the kernel. *)\n";
       output_string oc "From IV Require Import Base.Bytes Model.Pop3Wire Model.Pop3.\nOpen Scope N_scope.\n";
       output_string oc "Definition cases : list (flavour * store * list event * list reply * list (str * list (str * N))) :=\n [";
       output_string oc (String.concat ";\n  " (List.rev !coq_cases));
       output_string oc "].\nDefinition bad := Eval vm_compute in filter (fun c => negb (case_ok c)) cases.\n";
       output_string oc "Lemma all_ok : bad = []. Proof. reflexivity. Qed.\n";
       Printf.fprintf oc "(* %d cases *)\n" (List.length !coq_cases);
       close_out oc
   | None -> ())

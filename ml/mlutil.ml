(* Generic helpers of the model runners: line splitting and hex. *)
let split_on_char = String.split_on_char

let hex_digit c =
  match c with
  | '0'..'9' -> Char.code c - 48
  | 'a'..'f' -> Char.code c - 87
  | 'A'..'F' -> Char.code c - 55
  | _ -> failwith "bad hex digit"

(* field -> OCaml string of raw bytes *)
let unhex (f : string) : string =
  if f = "-" then "" else begin
    let n = String.length f / 2 in
    let b = Bytes.create n in
    for i = 0 to n - 1 do
      Bytes.set b i (Char.chr (hex_digit f.[2*i] * 16 + hex_digit f.[2*i+1]))
    done;
    Bytes.to_string b
  end

let hex (s : string) : string =
  if s = "" then "-" else begin
    let b = Buffer.create (2 * String.length s) in
    String.iter (fun c -> Buffer.add_string b (Printf.sprintf "%02x" (Char.code c))) s;
    Buffer.contents b
  end

(* split an input line "kind f1 f2 ... => o1 o2 ..." *)
let split_case (line : string) : string * string list * string list =
  let parts = split_on_char ' ' line in
  let rec go acc = function
    | [] -> (List.rev acc, [])
    | "=>" :: rest -> (List.rev acc, rest)
    | x :: rest -> go (x :: acc) rest in
  match go [] parts with
  | (kind :: ins, outs) -> (kind, ins, outs)
  | ([], outs) -> ("", [], outs)

let iter_lines (f : string -> unit) : unit =
  (try
    while true do
      let l = input_line stdin in
      if l <> "" then f l
    done
  with End_of_file -> ());
  flush stdout

let print_model (outs : string list) (verdict : string) : unit =
  print_string (String.concat " " outs);
  print_string " ## ";
  print_string verdict;
  print_char '\n'

(* Cases of the assembled-system stream (go/asmsys): the child process states the property's clause on
   what it saw of the whole server; the expected observation is "ok". *)
let asm_case (outs : string list) : unit =
  let verdict = match outs with
    | ["ok"] -> "ok"
    | o :: _ when String.length o > 5 && String.sub o 0 5 = "fail:" -> o
    | o :: _ -> "fail:" ^ o
    | [] -> "fail:no-observation" in
  print_model ["ok"] verdict

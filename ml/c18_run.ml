(* Model runner for C18: the extracted sanitiser model on the parser results the driver
   supplies, and the property oracle (extracted spec functions) on what the implementation
   returned. *)
open C18_model
open Conv

(* element names in verdicts: printable ASCII only (a verdict is a token of the line protocol) *)
let safe_name h =
  String.map (fun c -> if (c >= 'a' && c <= 'z') || (c >= '0' && c <= '9') || c = '-' then c else '_') (Mlutil.unhex h)

let split c s = if s = "-" || s = "" then [] else String.split_on_char c s

(* "ty:hex" *)
let tok_of s =
  match String.index_opt s ':' with
  | Some i -> (n_of_int (int_of_string (String.sub s 0 i)), str_of_field (String.sub s (i+1) (String.length s - i - 1)))
  | None -> failwith ("bad token " ^ s)
let toks_of f = List.map tok_of (split ',' f)

let attr_of s =
  match String.split_on_char '~' s with
  | [k; v; t] -> Attr (str_of_field k, str_of_field v, toks_of t)
  | _ -> failwith ("bad attr " ^ s)

let item_of s =
  match String.split_on_char '.' s with
  | ["r"; h] -> Raw (str_of_field h)
  | "t" :: name :: sc :: attrs -> Tag (str_of_field name, List.map attr_of attrs, sc = "1")
  | _ -> failwith ("bad item " ^ s)

let iv_of s =
  match String.split_on_char '-' s with
  | [a; b] -> (n_of_int (int_of_string a), n_of_int (int_of_string b))
  | _ -> failwith ("bad interval " ^ s)

(* policy tokens: x.<data> | c | d | s/e/z.<name>[.<key>~<val>~<bitmap>~<urlinfo>]* *)
let bits_of s = if s = "-" then [] else List.init (String.length s) (fun i -> s.[i] = '1')
let urlinfo_of s =
  if s = "-" then None else
  match String.split_on_char ':' s with
  | [ok; sch; st; host] -> Some { u_ok = (ok = "1"); u_scheme = str_of_field sch; u_str = str_of_field st; u_host = (host = "1") }
  | _ -> failwith ("bad urlinfo " ^ s)
let hattr_of s =
  match String.split_on_char '~' s with
  | [k; v; bm; ui] -> { a_key = str_of_field k; a_val = str_of_field v; a_match = bits_of bm; a_url = urlinfo_of ui }
  | _ -> failwith ("bad policy attr " ^ s)
let htoken_of s =
  match String.split_on_char '.' s with
  | ["x"; d] -> { t_kind = KText; t_data = str_of_field d; t_attrs = [] }
  | ["c"] -> { t_kind = KComment; t_data = []; t_attrs = [] }
  | ["d"] -> { t_kind = KDoctype; t_data = []; t_attrs = [] }
  | k :: name :: attrs when k = "s" || k = "e" || k = "z" ->
      { t_kind = (if k = "s" then KStart else if k = "e" then KEnd else KSelf);
        t_data = str_of_field name; t_attrs = List.map hattr_of attrs }
  | _ -> failwith ("bad policy token " ^ s)
let kv_of s =
  match String.split_on_char '~' s with
  | [k; v] -> (str_of_field k, str_of_field v)
  | _ -> failwith ("bad kv " ^ s)
(* every start tag of the implementation's final output, judged by the extracted spec *)
let tags_verdict tags =
  let rec go = function
    | [] -> "ok"
    | t :: rest ->
        (match String.split_on_char '.' t with
         | name :: attrs ->
             if tag_inert (str_of_field name) (List.map kv_of attrs) then go rest
             else "fail:tag-not-inert-" ^ safe_name name
         | [] -> go rest) in
  go (split '|' tags)

(* tag-scanning model against the real tokenizer: <raw>.<name>.<sc>[.<key>~<val>]* *)
let tag_agrees t =
  match String.split_on_char '.' t with
  | raw :: name :: sc :: attrs ->
      let rawb = str_of_field raw in
      (match rawb with
       | _lt :: c0 :: s ->
           (match scan_start_tag c0 s with
            | Some (((n, mattrs), msc), rest) ->
                let real = List.map kv_of attrs in
                rest = [] && n = str_of_field name && msc = (sc = "1")
                && List.length mattrs = List.length real
                && List.for_all2 (fun (mk, mv) (rk, rv) ->
                     mk = rk &&
                     (* the real value is entity-decoded and newline-converted: compared exactly when the raw
                        value holds neither an ampersand nor a CR, else up to the first such byte *)
                     (let rec pre a b = match a, b with
                        | [], [] -> true
                        | x :: a', _ when int_of_n x = 38 || int_of_n x = 13 -> true
                        | x :: a', y :: b' -> x = y && pre a' b'
                        | _ -> false in pre mv rv)) mattrs real
            | None -> false)
       | _ -> false)
  | _ -> false
let tags_agree field =
  match List.find_opt (fun t -> not (tag_agrees t)) (split '|' field) with
  | None -> "T1"
  | Some t -> "T0:" ^ (match String.split_on_char '.' t with r :: _ -> r | [] -> "")

let starts_with p s = String.length s >= String.length p && String.sub s 0 (String.length p) = p

let html_verdict rep =
  let rec go = function
    | [] -> "ok"
    | r :: rest ->
        if r = "X" then "fail:style-attribute-does-not-rescan"
        else match String.split_on_char ':' r with
          | "E" :: n :: _ -> "fail:forbidden-element-" ^ safe_name n
          | "A" :: n :: _ -> "fail:event-handler-attribute"
          | "J" :: _ -> "fail:script-url"
          | ["S"; ty; v] ->
              if decl_head_ok (n_of_int (int_of_string ty), str_of_field v) then go rest
              else "fail:style-declaration-off-allow-list"
          | _ -> "fail:bad-report-" ^ r in
  go (split ',' rep)

let () =
  Mlutil.iter_lines (fun line ->
    let (kind, ins, outs) = Mlutil.split_case line in
    match kind, ins, outs with
    | _, _, "PANIC" :: _ -> Mlutil.print_model ["NO-PANIC"] "fail:sanitiser-panicked"
    | "css", [_], [out; toks; retoks] ->
        let m = sanitize_style (toks_of toks) in
        let verdict = if decls_ok true (toks_of retoks) then "ok" else "fail:style-declaration-off-allow-list" in
        ignore out;
        Mlutil.print_model [field_of_str m] verdict
    | "html", [_], [f0; items; final; rep; toks2; tags; _; rawtags] ->
        let its = List.map item_of (split '|' items) in
        let m = style_tag_filter its in
        let t2 = List.map htoken_of (split '|' toks2) in
        let mfinal = html_model its t2 in
        let infos = List.concat_map (fun t -> List.filter_map (fun a -> a.a_url) t.t_attrs) t2 in
        let verdict =
          if f0 = "ERR" || final = "ERR" then "fail:sanitiser-returned-error"
          else
            (* first the end-to-end verdict on the FINAL output (re-tokenised and re-parsed by the driver, judged
               by the extracted spec), whatever the intermediate models say; then the per-case hypotheses *)
            match html_verdict rep with
            | "ok" ->
                (match tags_verdict tags with
                 | "ok" ->
                     if not (List.for_all urlinfo_sound infos) then "fail:url-parse-result-shows-a-browser-another-scheme"
                     else if not (h_tok_style_check its t2) then "fail:tokenizer-reads-back-a-style-value-the-rewriter-did-not-write"
                     else if not (List.for_all otoken_inert (bm_tokens t2)) then "fail:model-emits-a-token-that-is-not-inert"
                     else "ok"
                 | v -> v)
            | v -> v in
        Mlutil.print_model ["S" ^ field_of_str m; "S" ^ field_of_str mfinal; tags_agree rawtags] verdict
    | "text", [t], [out; ivs] ->
        let t = str_of_field t in
        let ivs = List.map iv_of (split ',' ivs) in
        let m = text_to_html t ivs in
        let o = str_of_field (String.sub out 1 (String.length out - 1)) in
        let verdict =
          if not (matches_plain (escape_std t) ivs) then "fail:url-match-empty-or-with-line-break"
          else if text_spec t o then "ok" else "fail:text-not-fully-escaped" in
        Mlutil.print_model ["S" ^ field_of_str m] verdict
    | "msg", [_; _], [out; same; ptext; ivs; rep; tags] ->
        let t = str_of_field ptext in
        let ivs = List.map iv_of (split ',' ivs) in
        let m = text_to_html t ivs in
        let o = str_of_field (String.sub out 1 (String.length out - 1)) in
        let verdict =
          if same = "ERR" then "fail:sanitiser-returned-error"
          else if same <> "1" then "fail:ui-html-member-is-not-the-sanitised-body"
          else if not (matches_plain (escape_std t) ivs) then "fail:url-match-empty-or-with-line-break"
          else if not (text_spec t o) then "fail:text-not-fully-escaped"
          else match html_verdict rep with
            | "ok" -> tags_verdict tags
            | v -> v in
        Mlutil.print_model ["S" ^ field_of_str m] verdict
    | "msg", _, ["UNPARSABLE"] -> Mlutil.print_model ["UNPARSABLE"] "ok"
    | _ -> Mlutil.print_model ["UNKNOWN-KIND"] "fail:unparsable-case")

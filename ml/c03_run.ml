(* Model runner for the SMTP session properties (template: C03 is substituted per property by
   ml/gen_smtp_runners.sh). Evaluates the extracted byte-level session model on the client stream
   of every case and the dialogue specifications (the property oracles) on what the
   IMPLEMENTATION answered and stored. *)
open C03_model
open Conv

let pid = "C03"

let split c s = if s = "-" || s = "" then [] else String.split_on_char c s
let opt_str f = if f = "~" then None else Some (str_of_field f)

let parse_mail_table t =
  List.map (fun e ->
    match String.split_on_char ':' e with
    | [arg; m; hp; pok; size; oa; od] ->
        (str_of_field arg,
         { mf_match = (m = "1"); mf_has_params = (hp = "1"); mf_params_ok = (pok = "1");
           mf_size = opt_str size;
           mf_origin = (match opt_str oa, opt_str od with
                        | Some a, Some d -> Some { o_addr = a; o_domain = d }
                        | _ -> None) })
    | _ -> failwith ("bad mail table entry " ^ e)) (split ',' t)

let parse_rcpt_table t =
  List.map (fun e ->
    match String.split_on_char ':' e with
    | [addr; ok; a; d; mb] ->
        (str_of_field addr,
         if ok = "1" then Some { r_addr = str_of_field a; r_domain = str_of_field d; r_mailbox = str_of_field mb }
         else None)
    | _ -> failwith ("bad rcpt table entry " ^ e)) (split ',' t)

let parse_list f =   (* "[a;b]" *)
  let inner = String.sub f 1 (String.length f - 2) in
  if inner = "" then [] else List.map str_of_field (String.split_on_char ';' inner)

let parse_hdr_table t =
  List.map (fun e ->
    match String.split_on_char ':' e with
    | [body; ok; from; to_; subj] ->
        (str_of_field body,
         if ok = "1" then
           Some { h_from = opt_str from;
                  h_to = (if to_ = "~" then None else Some (parse_list to_));
                  h_subject = str_of_field subj }
         else None)
    | _ -> failwith ("bad hdr table entry " ^ e)) (split ',' t)

(* reply tokens "250-" / "250" / "X" *)
let parse_replies f : rline list =
  List.map (fun t ->
    let more = String.length t > 0 && t.[String.length t - 1] = '-' in
    let digits = if more then String.sub t 0 (String.length t - 1) else t in
    let code = try int_of_string digits with _ -> -1 in
    (z_of_int code, more)) (split ',' f)
let show_replies (r : rline list) =
  if r = [] then "-" else
  String.concat "," (List.map (fun (c, more) -> string_of_int (int_of_z c) ^ (if more then "-" else "")) r)

let ip = str_of_raw "127.0.0.1"
let domain = str_of_raw "inbucket"

let show_store (ds : delivery list) : string =
  let st = store_after [] ds in
  let boxes = List.map (fun (name, ms) ->
    (raw_of_str name,
     String.concat "/" (List.map (fun d ->
       let src = raw_of_str (stored_source d.d_retpath d.d_helo ip domain d.d_mailbox d.d_body) in
       String.concat ":" [ field_of_str d.d_from;
                           "[" ^ String.concat ";" (List.map field_of_str d.d_to) ^ "]";
                           field_of_str d.d_subject;
                           string_of_int (String.length src);
                           Mlutil.hex src ]) ms))) st in
  let boxes = List.sort (fun (a, _) (b, _) -> compare a b) boxes in
  if boxes = [] then "-" else
  String.concat "," (List.map (fun (n, ms) -> Mlutil.hex n ^ "=" ^ ms) boxes)

let handle_smtp (ins : string list) (outs : string list) : bool =
  match ins with
  | [naming; maxr; maxb; da; acc; rej; ds; sto; dis; rejo; store; stream] ->
        let f = str_of_field in
        let pol = load_cfg (bool_of_field da) (f acc) (f rej) (bool_of_field ds) (f sto) (f dis) (f rejo) in
        let c = { pol = pol; max_rcpt = z_of_int (int_of_string maxr); max_bytes = z_of_int (int_of_string maxb);
                  tls_enabled = false } in
        (match outs with
         | [replies; mt; rt; ht; dump; status] ->
             let o = { t_mail = parse_mail_table mt; t_rcpt = parse_rcpt_table rt; t_mail_hook = [];
                       t_rcpt_hook = []; t_hdr = parse_hdr_table ht; t_msg_hook = [] } in
             let ((items, tr), _) = run_bytes c o (f stream) in
             let m_replies = show_replies (replies_of tr) in
             let m_store = show_store (deliveries_of tr) in
             (* the oracles: the specifications applied to the implementation's answers *)
             let dlg = attach items (parse_replies replies) in
             let ent = entitled c None [] [] dlg in
             let v = ref [] in
             if not (seq_ok false false O dlg) then v := "C03:sequencing" :: !v;
             if not (List.for_all reply_ok dlg) then v := "C03:reply-shape" :: !v;
             if List.length (List.concat (List.map snd dlg)) <> List.length (parse_replies replies)
             then v := "C03:reply-count" :: !v;
             if status <> "ok" then v := "C03:session-error" :: !v;
             if show_store ent <> dump then begin
               v := "C01:store-differs-from-what-the-dialogue-entitles" :: !v;
               v := "C03:partial-phantom-or-misrouted-message" :: !v;
               v := "C05:session-store-or-accept-rule" :: !v;
               v := "C06:store-differs-from-what-the-dialogue-entitles" :: !v
             end;
             (* size rule on the implementation's dialogue: an oversize block must be refused and
                must leave nothing behind (the store clause is covered by the entitlement check) *)
             let size_viol = List.exists (fun (it, r) ->
               match it with
               | B (PBlock (body, _, _)) ->
                   List.length body > int_of_string maxb && int_of_z (first_code r) = 250
               | L (Mail (MParsed (SzVal n, _), _)) ->
                   int_of_z n > int_of_string maxb && int_of_z (first_code r) = 250
               | _ -> false) dlg in
             if size_viol then v := "C06:oversize-accepted" :: !v;
             let within_refused = List.exists (fun (it, r) ->
               match it with
               | B (PBlock (body, _, _)) ->
                   List.length body <= int_of_string maxb && int_of_z (first_code r) = 552
               | _ -> false) dlg in
             if within_refused then v := "C06:within-limit-refused" :: !v;
             (* C05: a RCPT answered 250 beyond the recipient limit *)
             let over = ref false in
             let n = ref 0 in
             List.iter (fun (it, r) ->
               let ok = int_of_z (first_code r) = 250 in
               match it with
               | L (Mail (_, _)) -> if ok then n := 0
               | L (Rcpt (_, _)) -> if ok then begin incr n; if !n > max 0 (int_of_string maxr) then over := true end
               | L Rset | L (Helo _) | L (Ehlo _) -> if ok then n := 0
               | B _ -> n := 0
               | _ -> ()) dlg;
             if !over then v := "C05:recipient-limit-exceeded" :: !v;
             let mine = List.filter (fun s -> String.length s > 3 && String.sub s 0 3 = pid) !v in
             let verdict = if mine = [] then "ok" else "fail:" ^ String.concat ";" (List.rev mine) in
             Mlutil.print_model [m_replies; mt; rt; ht; m_store; "ok"] verdict
         | _ -> Mlutil.print_model ["NO-OBSERVATION"] "fail:no-observation"); true
  | _ -> false

let () =
  Mlutil.iter_lines (fun line ->
    let (kind, ins, outs) = Mlutil.split_case line in
    if kind = "smtp" && handle_smtp ins outs then ()
    else Mlutil.print_model ["UNKNOWN-KIND"] "ok")

(* Model runner for C04: evaluates the extracted address model on every case, and the
   property oracle (the clauses of the specification) on what the IMPLEMENTATION answered. *)
open C04_model
open Conv

let modes = [ (Local, "local"); (Full, "full"); (Domain, "domain") ]

(* IP literals: the model has its own parser (Model/IpLit.v, go_parse_ip). The driver still
   sends net.ParseIP's verdict for every literal body occurring in the case ("hex=0/1,...");
   each one is cross-checked against the modelled parser, a difference is a mismatch. *)
let ip_diff = ref ""
let cross_check (f : string) : unit =
  ip_diff := "";
  if f <> "-" && f <> "" then
    List.iter (fun kv ->
      match String.split_on_char '=' kv with
      | [k; v] ->
          let m = go_parse_ip (str_of_field k) in
          if m <> (v = "1") && !ip_diff = "" then ip_diff := "IPDIFF:" ^ k ^ ":model=" ^ field_of_bool m
      | _ -> ()) (String.split_on_char ',' f)

let opt_field = function None -> "NONE" | Some s -> "S" ^ field_of_str s
let mailbox_field = function None -> "NONE" | Some r -> "S" ^ field_of_str r.r_mailbox

(* "S<hex>" / "NONE" -> string option (raw bytes) *)
let impl_opt (f : string) : string option =
  if String.length f >= 1 && f.[0] = 'S' then Some (Mlutil.unhex (String.sub f 1 (String.length f - 1))) else None

let first_fail (l : string list) = match List.filter (fun x -> x <> "") l with [] -> "ok" | x :: _ -> "fail:" ^ x

(* live path: RCPT + DATA on a real SMTP session, then lookups by the address through the
   manager, the REST API and POP3. *)
let rest_all_ok = "200.200.200.200.200.200.L0.200"  (* show, source, ui show, ui source, mark seen, delete; nothing left; purge *)
let live pip iptab ins outs =
  match ins with
  | [mf; a] ->
      let m = (match mf with "0" -> Local | "1" -> Full | _ -> Domain) in
      let a = str_of_field a in
      let impl k = (try List.nth outs k with _ -> "?") in
      let fields =
        match new_recipient pip m a with
        | None -> ["501"]
        | Some r ->
            let name = r.r_mailbox in
            let cnt pre = function Some n when n = name -> pre ^ "1" | Some _ -> pre ^ "0" | None -> pre ^ "NONE" in
            let by_addr = read_name pip m ViaMailboxForAddress a and by_name = read_name pip m ViaMailboxForAddress name in
            let rest_f = if impl 6 = "-" then "-" else
              (match by_addr with
               | Some n when n = name -> "200:1:" ^ field_of_str name ^ ":" ^ rest_all_ok
               | Some _ -> "200:0:-"
               | None -> "500") in
            let pop_a = if impl 7 = "-" then "-" else cnt "P" (read_name pip m pop3_user_flow a) in
            let pop_n = if impl 8 = "-" then "-" else cnt "P" (read_name pip m pop3_user_flow name) in
            ["250"; "250"; "S" ^ field_of_str name; cnt "M" by_addr; cnt "M" by_name; rest_f; pop_a; pop_n] in
      let verdict =
        match outs with
        | [_; rc] when rc <> "250" -> "ok"
        | [_; "250"; "250"; stored; by_addr; by_name; rest_o; pop_a; pop_n] ->
            (match impl_opt stored with
             | None -> "fail:live-message-not-in-exactly-one-mailbox"
             | Some "" -> "fail:live-name-empty"
             | Some n ->
                 if by_addr <> "M1" then "fail:live-not-fetchable-by-address:manager"
                 else if by_name <> "M1" then "fail:live-not-fetchable-by-name:manager"
                 else if rest_o <> "-" && rest_o <> "200:1:" ^ Mlutil.hex n ^ ":" ^ rest_all_ok then "fail:live-not-fetchable-by-address:rest"
                 else if pop_n <> "-" && pop_n <> "P1" then "fail:live-not-fetchable-by-name:pop3"
                 else if pop_a <> "-" && pop_a <> "P1" then "fail:pop3-user-not-canonical:live"
                 else "ok")
        | "PANIC" :: _ -> "fail:panic"
        | _ -> "ok" (* anything else (refused DATA, harness trouble) is left to the comparison *) in
      Mlutil.print_model ((if !ip_diff <> "" then !ip_diff else iptab) :: fields) verdict
  | _ -> Mlutil.print_model ["BAD-LIVE-LINE"] "ok"

let () =
  Mlutil.iter_lines (fun line ->
    let (kind, ins, outs) = Mlutil.split_case line in
    let iptab = match outs with t :: _ -> t | [] -> "-" in
    if kind <> "ip" then cross_check iptab else ip_diff := "";
    let pip = go_parse_ip in
    let finish fields verdict =
      Mlutil.print_model ((if !ip_diff <> "" then !ip_diff else iptab) :: fields) verdict in
    match kind, ins with
    | "addr", [a] ->
        let a = str_of_field a in
        let pe = match parse_email_validated pip a with
          | None -> "NONE"
          | Some (l, d) -> "P:" ^ field_of_str l ^ ":" ^ field_of_str d in
        let per_mode (m, _) =
          let nr = match new_recipient pip m a with
            | None -> "NONE"
            | Some r -> "R:" ^ field_of_str r.r_local ^ ":" ^ field_of_str r.r_domain ^ ":" ^ field_of_str r.r_mailbox ^ ":"
                        ^ field_of_bool (r.r_addr = a) in
          let ex = extract_mailbox pip m a in
          let re = match ex with None -> "-" | Some n -> opt_field (extract_mailbox pip m n) in
          [nr; opt_field ex; re] in
        let fields = pe :: List.concat (List.map per_mode modes) in
        (* oracle on the implementation's outputs *)
        let verdict =
          match outs with
          | [_; _; nl; el; rl; nf; ef; rf; nd; ed; rd] ->
              let check (mname, nr, ex, re) =
                let accepted =
                  if String.length nr > 2 && String.sub nr 0 2 = "R:" then
                    (match String.split_on_char ':' nr with
                     | [_; _; _; mb; eq] -> Some (mb, eq)
                     | _ -> Some ("?", "0"))
                  else None in
                (* independent reading of doc/config.md: an ordinary address is accepted under the documented name *)
                let documented = ordinary_name (match mname with "local" -> Local | "full" -> Full | _ -> Domain) a in
                let doc_fail =
                  match documented, accepted with
                  | Some n, Some (mb, _) when mb <> field_of_str n -> "ordinary-address-name-differs-from-documented:" ^ mname
                  | Some _, None -> "ordinary-address-refused:" ^ mname
                  | _ -> "" in
                if doc_fail <> "" then doc_fail else
                match accepted with
                | Some (mb, eq) ->
                    if mb = "-" then "name-empty:" ^ mname
                    else if eq <> "1" then "recipient-address-altered:" ^ mname
                    else if ex <> "S" ^ mb then "name-of-address-differs-from-rcpt-name:" ^ mname
                    else if re <> "S" ^ mb then "name-not-fixed-point:" ^ mname
                    else ""
                | None ->
                    (* read side only: a name the interfaces derive from what the user typed *)
                    (match impl_opt ex with
                     | Some "" -> "read-name-empty:" ^ mname
                     | Some n -> if re <> "S" ^ Mlutil.hex n then "read-name-not-fixed-point:" ^ mname else ""
                     | None -> "") in
              first_fail (List.map check [("local", nl, el, rl); ("full", nf, ef, rf); ("domain", nd, ed, rd)])
          | "PANIC" :: _ -> "fail:panic"
          | _ -> "fail:no-answer" in
        finish fields verdict
    | ("case" | "plus"), _ ->
        let (a, b, claimed) =
          match kind, ins with
          | "case", [a; b] -> let a = str_of_field a and b = str_of_field b in (a, b, case_variant a b)
          | "plus", [l; e; d] ->
              let l = str_of_field l and e = str_of_field e and d = str_of_field d in
              let at = n_of_int 64 and plus = n_of_int 43 in
              (l @ (at :: d), l @ (plus :: e) @ (at :: d), true)
          | _ -> ([], [], false) in
        let fields = List.concat (List.map (fun (m, _) ->
          [mailbox_field (new_recipient pip m a); mailbox_field (new_recipient pip m b)]) modes) in
        let verdict =
          match outs with
          | [_; al; bl; af; bf; ad; bd] when claimed ->
              (* without a '[' the domain cannot be an IP literal: then acceptance itself is case-blind *)
              let no_literal = kind = "case" && not (List.exists (fun c -> int_of_n c = 91) a) in
              let check (mname, x, y) =
                match impl_opt x, impl_opt y with
                | Some n1, Some n2 when n1 <> n2 ->
                    (if kind = "case" then "case-variants-get-different-names:" else "plus-extension-changes-name:") ^ mname
                | Some _, None | None, Some _ when no_literal -> "case-variant-of-accepted-address-rejected:" ^ mname
                | _ -> "" in
              first_fail (List.map check [("local", al, bl); ("full", af, bf); ("domain", ad, bd)])
          | "PANIC" :: _ -> "fail:panic"
          | [_; _; _; _; _; _; _] -> "ok"
          | _ -> "fail:no-answer" in
        finish fields verdict
    | "pop3", [a] ->
        let a = str_of_field a in
        let fields = List.concat (List.map (fun (m, _) ->
          [mailbox_field (new_recipient pip m a); opt_field (read_name pip m pop3_user_flow a)]) modes) in
        let verdict =
          match outs with
          | [_; cl; pl; cf; pf; cd; pd] ->
              let check (mname, c, p) =
                match impl_opt c with
                | Some _ when p <> c -> "pop3-user-not-canonical:" ^ mname
                | _ -> "" in
              first_fail (List.map check [("local", cl, pl); ("full", cf, pf); ("domain", cd, pd)])
          | "PANIC" :: _ -> "fail:panic"
          | _ -> "fail:no-answer" in
        finish fields verdict
    | "ip", [lit] ->
        (* the modelled literal parser against net.ParseIP, on the literal and on its lower-cased spelling;
           the third field: every byte is a hex digit, '.' or ':' *)
        let l = str_of_field lit in
        let fields = [field_of_bool (go_parse_ip l); field_of_bool (go_parse_ip (lower l));
                      field_of_bool (List.for_all (fun c -> let c = int_of_n c in
                        (c >= 48 && c <= 57) || (c >= 97 && c <= 102) || (c >= 65 && c <= 70) || c = 46 || c = 58) l)] in
        let verdict =
          match outs with
          | [v; vl; alpha] ->
              if v <> vl then "fail:parse-ip-case-sensitive"
              else if v = "1" && alpha <> "1" then "fail:parse-ip-accepts-foreign-byte"
              else "ok"
          | _ -> "fail:no-answer" in
        Mlutil.print_model fields verdict
    | "lower", [f] ->
        let l = str_of_field f in
        let ascii = List.for_all (fun c -> int_of_n c < 128) l in
        let impl = (match outs with [o] -> o | _ -> "?") in
        (* the model of strings.ToLower: ASCII lower-casing on ASCII-only strings, anything otherwise (echo) *)
        let m = if ascii then field_of_str (lower l) else impl in
        Mlutil.print_model [m] (if ascii && impl <> m then "fail:tolower-is-not-ascii-lowering-on-ascii" else "ok")
    | "valid", [f] ->
        let d = str_of_field f in
        finish [field_of_bool (validate_domain pip d)] "ok"
    | "hist", (mf :: els) ->
        (* a history of naming calls in one process: every answer has to be the answer of the pure
           naming function for that call alone (the store only counts what was delivered where) *)
        let m = (match mf with "0" -> Local | "1" -> Full | _ -> Domain) in
        let store : (string, int) Hashtbl.t = Hashtbl.create 8 in
        let count name = (try Hashtbl.find store name with Not_found -> 0) in
        let state () =
          let l = Hashtbl.fold (fun k v acc -> (Mlutil.hex k ^ "=" ^ string_of_int v) :: acc) store [] in
          if l = [] then "-" else String.concat "," (List.sort compare l) in
        let expected = List.map (fun el ->
          match String.index_opt el ':' with
          | None -> "BADELEMENT"
          | Some i ->
              let op = String.sub el 0 i and a = str_of_field (String.sub el (i + 1) (String.length el - i - 1)) in
              (match op with
               | "n" -> mailbox_field (new_recipient pip m a)
               | "x" | "m" -> opt_field (extract_mailbox pip m a)
               | "d" ->
                   (match new_recipient pip m a with
                    | None -> "501/" ^ state ()
                    | Some r -> let n = raw_of_str r.r_mailbox in Hashtbl.replace store n (count n + 1); "250:250/" ^ state ())
               | "r" -> (match extract_mailbox pip m a with None -> "500" | Some n -> "200:" ^ string_of_int (count (raw_of_str n)))
               | "p" -> "P" ^ string_of_int (count (raw_of_str a))
               | _ -> "BADOP")) els in
        let impl = (match outs with _ :: t -> t | [] -> []) in
        let rec first_diff i es is ops =
          match es, is, ops with
          | e :: es', x :: is', o :: ops' -> if e <> x then Some (i, o) else first_diff (i + 1) es' is' ops'
          | _ :: _, [], _ -> Some (i, "missing")
          | _ -> None in
        (* the same stateless call twice in one history has to give the same answer (no model involved) *)
        let rec repeat_diff i = function
          | [] -> None
          | (el, x) :: rest ->
              if String.length el > 0 && (el.[0] = 'n' || el.[0] = 'x' || el.[0] = 'm')
                 && List.exists (fun (el', x') -> el' = el && x' <> x) rest then Some i else repeat_diff (i + 1) rest in
        let pairs = (try List.combine els impl with _ -> []) in
        let verdict =
          match outs with
          | "PANIC" :: _ -> "fail:panic"
          | _ ->
            (match repeat_diff 1 pairs with
             | Some i -> "fail:same-call-different-name-within-one-process:first-at-call" ^ string_of_int i
             | None ->
               (match first_diff 1 expected impl els with
                | Some (i, el) -> "fail:answer-is-not-that-of-the-call-alone:call" ^ string_of_int i ^ ":" ^ String.sub el 0 (min 1 (String.length el))
                | None -> "ok")) in
        finish expected verdict
    | "sweep", [mf; target; _; _] ->
        (* a long history of MailboxForAddress lookups, compressed by the driver: the target's name must never
           change, and every other lookup must be ExtractMailbox of its argument *)
        let m = (match mf with "0" -> Local | "1" -> Full | _ -> Domain) in
        let expected = [opt_field (extract_mailbox pip m (str_of_field target)); "0"; "-"; "0"] in
        let verdict =
          match outs with
          | [_; _; k; _; j] ->
              if k <> "0" then "fail:same-lookup-different-name-within-one-process:after-" ^ k ^ "-other-lookups"
              else if j <> "0" then "fail:mailbox-for-address-differs-from-extract-mailbox:lookup-" ^ j
              else "ok"
          | "PANIC" :: _ -> "fail:panic"
          | _ -> "fail:no-answer" in
        finish expected verdict
    | "live", _ -> live pip iptab ins outs
    | _ -> Mlutil.print_model ["UNKNOWN-KIND"] "ok")

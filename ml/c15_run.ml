(* Model runner for C15: runs the extracted hub model on every history (model observation)
   and the extracted specification-side oracle on what the IMPLEMENTATION showed. *)
open C15_model
open Conv

let split c s = String.split_on_char c s

let msg_of mb id : msg = (str_of_field mb, str_of_field id)

let parse_op (o : string) : dop option =
  let f = split ':' o in
  let num s = nat_of_int (int_of_string (String.sub s 1 (String.length s - 1))) in
  match f with
  | ["d"; mb; id] -> Some (DDispatch (msg_of mb id))
  | ["x"; mb; id] -> Some (DDelete (msg_of mb id))
  | ["s"] -> Some DSync
  | ["g"] -> Some DGate
  | ["u"] -> Some DUngate
  | [a; v; mb] when a.[0] = 'a' -> Some (DNew (num a, (if v = "1" then V1 else V2), str_of_field mb, None))
  | [m; fl] when m.[0] = 'm' ->
      Some (DNew (num m, Mock, [], (if fl = "-" then None else Some (nat_of_int (int_of_string fl)))))
  | [r] when r.[0] = 'r' -> Some (DRemove (num r))
  | [c] when c.[0] = 'c' -> Some (DClose (num c))
  | [w; n] when w.[0] = 'w' -> Some (DTake (num w, nat_of_int (int_of_string n)))
  | _ -> None

let ev_token (e : ev) : string =
  match e with
  | Stored (mb, id) -> "s:" ^ field_of_str mb ^ ":" ^ field_of_str id
  | Deleted (mb, id) -> "x:" ^ field_of_str mb ^ ":" ^ field_of_str id

let obs_token (o : obs) : string =
  match o with
  | ONone -> "."
  | OStuck -> "stuck"
  | OSynced b -> if b then "blocked" else "ok"
  | OEv (b, es) -> (if b then "BT=" else "T=") ^ String.concat ";" (List.map ev_token es)

let parse_ev (t : string) : ev option =
  match split ':' t with
  | ["s"; mb; id] -> Some (Stored (msg_of mb id))
  | ["x"; mb; id] -> Some (Deleted (msg_of mb id))
  | _ -> None

exception Bad

let parse_obs (t : string) : obs =
  let evs s =
    if s = "" then []
    else List.map (fun x -> match parse_ev x with Some e -> e | None -> raise Bad) (split ';' s) in
  let n = String.length t in
  if t = "." then ONone
  else if t = "stuck" then OStuck
  else if t = "ok" then OSynced false
  else if t = "blocked" then OSynced true
  else if n >= 2 && String.sub t 0 2 = "T=" then OEv (false, evs (String.sub t 2 (n - 2)))
  else if n >= 3 && String.sub t 0 3 = "BT=" then OEv (true, evs (String.sub t 3 (n - 3)))
  else raise Bad

let verdict_string (v : verdict) : string =
  match v with
  | VOk -> "ok"
  | VShape -> "fail:observation-does-not-fit-the-history"
  | VStream l -> Printf.sprintf "fail:listener-%d-stream-not-a-prefix-of-its-entitlement(missed/duplicated/reordered/foreign-event)" (int_of_nat l)
  | VIncomplete l -> Printf.sprintf "fail:listener-%d-missed-events-with-the-hub-at-rest" (int_of_nat l)
  | VBlockedSlow -> "fail:hub-blocked-by-slow-listener"
  | VBlocked -> "fail:hub-blocked-with-no-full-open-listener"

let () =
  Mlutil.iter_lines (fun line ->
    let (kind, ins, outs) = Mlutil.split_case line in
    match kind, ins with
    | "hub", [n; ops] ->
        let n = nat_of_int (int_of_string n) in
        let toks = if ops = "-" then [] else split ',' ops in
        let dops = List.map parse_op toks in
        if List.exists (fun x -> x = None) dops then Mlutil.print_model ["BADOPS"] "ok"
        else begin
          let dops = List.map (function Some d -> d | None -> assert false) dops in
          let m = drive_pinned n dops in
          let verdict =
            match outs with
            | "PANIC" :: _ -> "fail:panic"
            | _ ->
              (try verdict_string (oracle_pinned n dops (List.map parse_obs outs))
               with Bad | Failure _ | Invalid_argument _ -> "fail:unreadable-observation") in
          Mlutil.print_model (List.map obs_token m) verdict
        end
    | "asm15", [events; history] ->
        (* the assembled server's hub fed through the real broker: the composed model (Model/HubFed.v) run on
           the case's canonical schedule must itself end quiescent with the two monitors holding the emitted
           sequence resp. its last N; the child process states the same clause about the implementation *)
        let ev = int_of_string events and h = int_of_string history in
        let m = match fed_drive_pinned (nat_of_int ev) (nat_of_int h) [] None with
          | Some ((a, b), true)
            when a = List.map (fun i -> TStored i) (asm_first (nat_of_int ev))
              && b = List.map (fun i -> TStored i) (asm_late (nat_of_int ev) (nat_of_int h)) -> "ok"
          | _ -> "model-disagrees-with-the-case" in
        let verdict = match outs with
          | ["ok"] -> "ok"
          | o :: _ when String.length o > 5 && String.sub o 0 5 = "fail:" -> o
          | o :: _ -> "fail:" ^ o
          | [] -> "fail:no-observation" in
        Mlutil.print_model [m] verdict
    | "ws", [h; ver; filter; pre; burst; dels] ->
        (* the monitor through the real HTTP handlers and a real WebSocket client: expected = the listener's
           entitlement (extracted [expected]) for: pre dispatches, the join, burst dispatches, dels deletes *)
        let hN = int_of_string h and pre = int_of_string pre and burst = int_of_string burst and dels = int_of_string dels in
        let msg i = msg_of (Mlutil.hex (if i mod 3 = 0 then "b" else "a")) (Mlutil.hex (string_of_int i)) in
        let rec range a b = if a >= b then [] else a :: range (a + 1) b in
        let total = pre + burst in
        let ops = List.map (fun i -> ODispatch (msg i)) (range 0 pre) @ [OAdd (nat_of_int 0)]
                  @ List.map (fun i -> ODispatch (msg i)) (range pre total)
                  @ List.map (fun j -> ODelete (msg (total - 1 - j))) (range 0 (min dels total)) in
        let k = if ver = "1" then V1 else V2 in
        let want = expected (nat_of_int hN) k (str_of_field filter) (nat_of_int 0) ops in
        let want_tok = "T=" ^ String.concat ";" (List.map ev_token want) in
        let verdict = match outs with
          | [t; m] ->
              if m <> "multi=0" then "fail:websocket-message-does-not-carry-exactly-one-json-document(" ^ m ^ ")"
              else if t <> want_tok then "fail:monitor-stream-differs-from-its-entitlement"
              else "ok"
          | o :: _ -> "fail:" ^ o
          | [] -> "fail:no-observation" in
        Mlutil.print_model [want_tok; "multi=0"] verdict
    | "wsbad", [_; burst] ->
        (* refused upgrade requests leave nothing in the hub: the healthy listener (joined first, history irrelevant)
           is entitled to every event of the burst and the hub comes to rest *)
        let b = int_of_string burst in
        let rec range a z = if a >= z then [] else a :: range (a + 1) z in
        let want_tok = "T=" ^ String.concat ";" (List.map (fun i -> "s:" ^ Mlutil.hex (if i mod 3 = 0 then "b" else "a") ^ ":" ^ Mlutil.hex (string_of_int i)) (range 0 b)) in
        let verdict = match outs with
          | [r; t; res] ->
              let all_refused = (match String.split_on_char '/' (String.sub r 8 (String.length r - 8)) with [x; y] -> x = y | _ -> false) in
              if not all_refused then "fail:an-invalid-upgrade-request-was-accepted"
              else if res <> "ok" then "fail:hub-blocked-with-no-full-open-listener(after-refused-upgrade-requests)"
              else if t <> want_tok then "fail:healthy-listener-missed-events-after-refused-upgrade-requests"
              else "ok"
          | o :: _ -> "fail:" ^ o
          | [] -> "fail:no-observation" in
        let model_refused = match outs with r :: _ -> r | [] -> "refused=?" in
        Mlutil.print_model [model_refused; want_tok; "ok"] verdict
    | "wslong", [_; seconds; gap] ->
        (* a healthy attached monitor: entitled to every event (history 0, joined first); the connection must be
           kept alive by the pings whatever the event traffic (writer_arms_pinned: one ping per TICK of a ticker) *)
        let secs = int_of_string seconds and g = int_of_string gap in
        let rec count t acc = if t >= secs then acc else count (t + g) (acc + 1) in
        let n = count 0 0 + 1 in
        let rec range a b = if a >= b then [] else a :: range (a + 1) b in
        let want_tok = "T=" ^ String.concat ";" (List.map (fun i -> "s:" ^ Mlutil.hex "a" ^ ":" ^ Mlutil.hex (string_of_int i)) (range 0 n)) in
        let verdict = match outs with
          | [t; a] ->
              if a <> "alive=1" then "fail:healthy-monitor-was-disconnected(keep-alive)"
              else if t <> want_tok then "fail:monitor-stream-differs-from-its-entitlement"
              else "ok"
          | o :: _ -> "fail:" ^ o
          | [] -> "fail:no-observation" in
        Mlutil.print_model [want_tok; "alive=1"] verdict
    | "fedstop", [_] ->
        (* shutdown in the middle of a burst: Props/C15 emit_never_blocks, deliver_after_stop_never_blocks,
           sync_after_stop_returns, stopped_hub_is_frozen say nothing may block; the model's answer is "ok" *)
        let verdict = match outs with
          | ["ok"] -> "ok"
          | ["blocked"] -> "fail:late-operation-blocked-after-the-hub-stopped"
          | ["disorder"] -> "fail:attached-monitor-saw-events-out-of-order-before-the-stop"
          | "PANIC" :: _ -> "fail:panic"
          | _ -> "fail:observation-does-not-fit" in
        Mlutil.print_model ["ok"] verdict
    | "fed", [events; history; dels; fl] ->
        let ev = int_of_string events and h = int_of_string history in
        let dl = if dels = "-" then [] else List.map int_of_string (split ',' dels) in
        let fo = if fl = "-" then None else Some (nat_of_int (int_of_string fl)) in
        let tag = function TStored i -> "s" ^ string_of_int (int_of_nat i) | TDeleted i -> "x" ^ string_of_int (int_of_nat i) in
        let show ts = String.concat ";" (List.map tag ts) in
        let m = match fed_drive_pinned (nat_of_int ev) (nat_of_int h) (List.map nat_of_int dl) fo with
          | Some ((a, b), q) -> ["first=" ^ show a; "late=" ^ show b; (if q then "quiescent" else "busy")]
          | None -> ["MODEL-STUCK"] in
        (* oracle: the case's clause said directly — the attached monitor holds every stored event once, in emit
           order, then every deleted event in emit order; the late joiner holds the last N stored, minus the deleted *)
        let ids = List.map int_of_nat (asm_first (nat_of_int ev)) in
        let late_ids = List.filter (fun i -> not (List.mem i dl)) (List.map int_of_nat (asm_late (nat_of_int ev) (nat_of_int h))) in
        let want_first = "first=" ^ String.concat ";" (List.map (fun i -> "s" ^ string_of_int i) ids @ List.map (fun i -> "x" ^ string_of_int i) dl) in
        let want_late = "late=" ^ String.concat ";" (List.map (fun i -> "s" ^ string_of_int i) late_ids) in
        let verdict = match outs with
          | [a; b; q] ->
              if a <> want_first then "fail:attached-monitor-did-not-see-each-event-once-in-order"
              else if b <> want_late then "fail:late-joiner-history-differs"
              else if q <> "quiescent" then "fail:hub-did-not-settle"
              else "ok"
          | _ -> "fail:observation-does-not-fit" in
        Mlutil.print_model m verdict
    | _ -> Mlutil.print_model ["UNKNOWN-KIND"] "ok")

(* Model runner for C10/C11: the extracted disk model of the file store (Model/FileDisk.v) is run on
   the same histories / crash points as the real store; the verdict is the property oracle evaluated
   on what the IMPLEMENTATION answered. ml/c10_run.ml is this file with the other model module. *)
open C11_model
open Conv

let split c s = if s = "" then [] else String.split_on_char c s
let s2l = str_of_raw
let l2s = raw_of_str
let hexs (s : string) = if s = "" then "" else Mlutil.hex s

(* ---- pool, codec, hash --------------------------------------------------------------- *)
type poolent = { name : string; hash : string }

let parse_pool f =
  List.map (fun e -> match split ':' e with
    | [n; h] -> { name = Mlutil.unhex n; hash = Mlutil.unhex h }
    | _ -> failwith "pool") (split ',' f)

let hashf pool (nm : str) : str =
  let n = l2s nm in
  match List.find_opt (fun e -> e.name = n) pool with
  | Some e -> s2l e.hash
  | None -> s2l ("0000000000unknown" ^ n)

let enc = enc_index
let dec = dec_index

(* ---- operations ---------------------------------------------------------------------- *)
type opd =
  | OAdd of int * string * int * string * int     (* mb tok date seed rep *)
  | OSeen of int * int
  | ORemove of int * int
  | OPurge of int
  | OReopen
  | ORestart
  | OCap of int
  | OVisit
  | OScan

let parse_op s =
  match split '.' s with
  | ["a"; mb; tok; date; seed; rep] -> OAdd (int_of_string mb, tok, int_of_string date, Mlutil.unhex seed, int_of_string rep)
  | ["s"; mb; h] -> OSeen (int_of_string mb, int_of_string h)
  | ["r"; mb; h] -> ORemove (int_of_string mb, int_of_string h)
  | ["p"; mb] -> OPurge (int_of_string mb)
  | ["v"] -> OVisit
  | ["t"] -> OScan
  | ["R"] -> OReopen
  | ["C"; n] -> OCap (int_of_string n)
  | ["X"] -> ORestart
  | _ -> failwith ("op " ^ s)

let parse_ops f = if f = "-" then [] else List.map parse_op (split ',' f)

let body seed rep = String.concat "" (List.init rep (fun _ -> seed))

let info tok date =
  Printf.sprintf "subj %s|F %s<%s@from.example>|<%s@to.example>,Second<x%s@to.example>|%d" tok tok tok tok tok date

let digest (b : string) =
  let n = String.length b in
  if n = 0 then "E"
  else if n <= 32 then Mlutil.hex b
  else begin
    let s = ref 0 in
    String.iteri (fun i c -> s := (!s + ((i mod 251) + 1) * Char.code c) mod 1000003) b;
    Printf.sprintf "L%dS%d" n !s
  end

type ctx = { pool : poolent list; cap : int; hash : str -> str; capn : nat }

(* model state of a run: the disk, the handle table, the id supply *)
type st = { d : disk; tab : str list array; nid : int }

let init_st ctx = { d = []; tab = Array.make (List.length ctx.pool) []; nid = 0 }

let mbname ctx mb = (List.nth ctx.pool mb).name

let id_of st mb h =
  let ids = st.tab.(mb) in
  if h >= 0 && h < List.length ids then List.nth ids h else s2l "nosuchid"

(* the restarted id generator first produces this id again (kind "reissue") *)
let force_reuse : str option ref = ref None
let reissued_log : string list ref = ref []

let mk_op ctx st o : op * int =
  match o with
  | OAdd (mb, tok, date, seed, rep) when !force_reuse <> None ->
      let id = (match !force_reuse with Some x -> x | None -> []) in
      (Add (s2l (mbname ctx mb), s2l (info tok date), s2l (body seed rep), [id; s2l (Printf.sprintf "id%06d" st.nid)]), mb)
  | OAdd (mb, tok, date, seed, rep) ->
      (* candidates: first an id that is already in use in this mailbox (when there is one), so that
         the model's retry loop runs, then a fresh one *)
      let fresh = s2l (Printf.sprintf "id%06d" st.nid) in
      let live = match view dec st.d (ctx.hash (s2l (mbname ctx mb))) with
        | Some v -> List.map (fun ((_, m), _) -> m.m_id) v | None -> [] in
      let nev = int_of_nat (evict_count ctx.capn (nat_of_int (List.length live))) in
      let cands = (match List.rev live with x :: _ when nev < List.length live -> [x] | _ -> []) @ [fresh; s2l (Printf.sprintf "id%06db" st.nid)] in
      (Add (s2l (mbname ctx mb), s2l (info tok date), s2l (body seed rep), cands), mb)
  | OSeen (mb, h) -> (Seen (s2l (mbname ctx mb), id_of st mb h), mb)
  | ORemove (mb, h) -> (Remove (s2l (mbname ctx mb), id_of st mb h), mb)
  | OPurge mb -> (Purge (s2l (mbname ctx mb)), mb)
  | OReopen | ORestart | OCap _ | OVisit | OScan -> failwith "mk_op"

let res_string st mb = function
  | ROk -> "ok"
  | RNotExist -> "notexist"
  | RErr -> "err"
  | RSpin -> "spin"
  | RId _ -> "k" ^ string_of_int (List.length st.tab.(mb))

(* dates: "old" messages (2020) are expired for the 1 h retention period, "young" ones lie in the future *)
let expiry_threshold = 3000000000
let date_of_info (i : string) =
  match List.rev (String.split_on_char '|' i) with d :: _ -> (try int_of_string d with _ -> 0) | [] -> 0

let visit_fwd : (ctx -> st -> string) ref = ref (fun _ _ -> "UNSET")

(* a completed operation on the model *)
let rec do_op ctx st o : string * st =
  match o with
  | OReopen | ORestart | OCap _ -> ("-", st)     (* the state IS the disk: nothing to do *)
  | OVisit -> ("V=" ^ !visit_fwd ctx st, st)
  | OScan ->
      (* RetentionScanner.DoScan: the visit walk, RemoveMessage for every message older than the cutoff *)
      let st = ref st in
      List.iteri (fun mb _ ->
        match view dec !st.d (ctx.hash (s2l (mbname ctx mb))) with
        | Some v ->
            List.iter (fun ((_, m), _) ->
              if date_of_info (l2s m.m_info) < expiry_threshold then begin
                let op = Remove (s2l (mbname ctx mb), m.m_id) in
                match run (steps enc dec ctx.hash ctx.capn op !st.d) !st.d with
                | Some d' -> st := { !st with d = d' }
                | None -> ()
              end) v
        | None -> ()) ctx.pool;
      ("ok", !st)
  | _ ->
    let (op, mb) = mk_op ctx st o in
    let r = result_of dec ctx.hash ctx.capn op st.d in
    let ss = steps enc dec ctx.hash ctx.capn op st.d in
    let rs = res_string st mb r in
    (match run ss st.d with
     | None -> ("MODEL-STEP-FAILS", st)
     | Some d' ->
        let tab = Array.copy st.tab in
        (match r with
         | RId id ->
             let n = List.length tab.(mb) in
             tab.(mb) <- List.mapi (fun j x ->
               if x = id then begin
                 reissued_log := !reissued_log @ [Printf.sprintf "k%d>k%d" j n]; s2l "reissued" @ x end else x) tab.(mb) @ [id]
         | _ -> ());
        (rs, { d = d'; tab; nid = st.nid + 1 }))

(* ---- rendering ------------------------------------------------------------------------ *)
let handle_of st mb id =
  let ids = st.tab.(mb) in
  let r = ref "u" in
  List.iteri (fun j x -> if x = id then r := "k" ^ string_of_int j) ids;
  !r

let render_msgs st mb (v : ((str * meta) * str option) list) =
  if v = [] then "-" else
  String.concat ";" (List.map (fun ((nm, m), c) ->
    String.concat "." [
      (if mb >= 0 then handle_of st mb m.m_id else "u");
      hexs (l2s nm); hexs (l2s m.m_info); string_of_int (int_of_n m.m_size);
      (if m.m_seen then "1" else "0");
      (match c with None -> "NOSRC" | Some b -> digest (l2s b)) ]) v)

let listing ctx st mb =
  match view dec st.d (ctx.hash (s2l (mbname ctx mb))) with
  | None -> "ERR"
  | Some v -> render_msgs st mb v

let state ctx st = String.concat "|" (List.mapi (fun i _ -> listing ctx st i) ctx.pool)

let visit_s ctx st =
  match visit dec st.d with
  | None -> "ERR"
  | Some [] -> "none"
  | Some vs ->
      let one v =
        let mb = match v with
          | ((nm, _), _) :: _ ->
              let n = l2s nm in
              let r = ref (-1) in
              List.iteri (fun i e -> if e.name = n then r := i) ctx.pool; !r
          | [] -> -1 in
        render_msgs st mb v in
      String.concat "|" (List.sort compare (List.map one vs))

let () = visit_fwd := visit_s

let site = function
  | Mkdir _ -> "dir.mkdir"
  | Create (Raw, _) -> "add.create" | Write (Raw, _, _) -> "add.write"
  | Flush (Raw, _, _) -> "add.flush" | Close (Raw, _) -> "add.close"
  | Create (Tmp, _) -> "index.create" | Write (Tmp, _, _) -> "index.write"
  | Flush (Tmp, _, _) -> "index.flush" | Close (Tmp, _) -> "index.close"
  | Rename _ -> "index.rename" | RemoveIdx _ -> "index.remove" | RemoveRaw _ -> "remove.raw"
  | RemoveAll _ -> "dir.removeall" | Rmdir _ -> "dir.rmdir"

(* ---- the property oracle, on implementation observations ----------------------------- *)
let field outs key =
  let p = key ^ "=" in
  let n = String.length p in
  match List.find_opt (fun o -> String.length o >= n && String.sub o 0 n = p) outs with
  | Some o -> String.sub o n (String.length o - n)
  | None -> "MISSING"

let has_sub s sub =
  let n = String.length s and m = String.length sub in
  let rec go i = i + m <= n && (String.sub s i m = sub || go (i + 1)) in
  m = 0 || go 0

let msgs_of l = if l = "-" then [] else split ';' l
let handle_of_msg m = match split '.' m with h :: _ -> h | [] -> "?"
let rec drop n l = if n <= 0 then l else match l with [] -> [] | _ :: r -> drop (n - 1) r

let readable st vis =
  not (List.exists (fun l -> l = "ERR") (split '|' st)) && vis <> "ERR"
  && not (has_sub st "NOSRC") && not (has_sub st "DIFFERS") && not (has_sub st "MISSING")

let new_msg ctx mb nadds =
  let b = "new mail\r\n" in
  String.concat "." [ "k" ^ string_of_int nadds; hexs (mbname ctx mb); hexs (info "zz" 1700000000);
                      string_of_int (String.length b); "0"; digest b ]

(* spec of a delivery on a listing: cap eviction from the front, then append *)
let spec_add ctx l m =
  let n = int_of_nat (evict_count ctx.capn (nat_of_int (List.length l))) in
  drop n l @ [m]

(* checks one recovered state (state, visit, accept) against the implementation's own pre/post *)
let judge ctx o mb ~nadds ~pre ~post ~rec_ ~vis ~acc ~completed =
  let pres = split '|' pre and recs = split '|' rec_ in
  if not (readable rec_ vis) then Some "unreadable"
  else begin
    let rl = msgs_of (List.nth recs mb) and pl = msgs_of (List.nth pres mb) in
    (* untouched messages *)
    let others_ok = List.for_all2 (fun a b -> a = b) (List.mapi (fun i x -> if i = mb then "" else x) pres)
                                                      (List.mapi (fun i x -> if i = mb then "" else x) recs) in
    let touched =
      match o with
      | OAdd _ -> let n = int_of_nat (evict_count ctx.capn (nat_of_int (List.length pl))) in
                  List.map handle_of_msg (List.filteri (fun i _ -> i < n) pl)
      | OSeen (_, h) | ORemove (_, h) -> ["k" ^ string_of_int h]
      | OPurge _ -> List.map handle_of_msg pl
      | _ -> [] in
    let intact = List.for_all (fun m -> List.mem (handle_of_msg m) touched || List.mem m rl) pl in
    let dup = let hs = List.map handle_of_msg rl in List.length (List.sort_uniq compare hs) <> List.length hs in
    (* the visit walk shows exactly the non-empty mailboxes of the recovered state (plus empty directories) *)
    let vis_ne = List.filter (fun x -> x <> "-") (if vis = "none" then [] else split '|' vis) in
    let rec_ne = List.sort compare (List.filter (fun x -> x <> "-") recs) in
    (* new mail is accepted *)
    let nadds' = if completed && (match o with OAdd _ -> true | _ -> false) then nadds + 1 else nadds in
    let acc_exp = "k" ^ string_of_int nadds' ^ "/" ^ String.concat ";" (spec_add ctx rl (new_msg ctx mb nadds')) in
    if not others_ok || not intact || dup then Some "untouched-message-damaged"
    else if vis_ne <> rec_ne then Some "visit-differs-from-listing"
    else if acc <> acc_exp then Some "refuses-mail-after-crash"
    else if rec_ = pre || rec_ = post then None
    else begin
      (* pre minus a non-empty prefix of the messages the cap evicts: the known two-commit window *)
      let n = match o with OAdd _ -> int_of_nat (evict_count ctx.capn (nat_of_int (List.length pl))) | _ -> 0 in
      let rec is_drop j = j <= n && (rl = drop j pl || is_drop (j + 1)) in
      if n > 0 && is_drop 1 then Some "evict-then-append" else Some "not-atomic"
    end
  end

let worst a b =
  (* any unexplained failure outranks the known one *)
  match a, b with
  | None, x | x, None -> x
  | Some "evict-then-append", x -> x
  | x, _ -> x

(* ---- main ------------------------------------------------------------------------------ *)
let mk_ctx capf poolf =
  let pool = parse_pool poolf in
  let cap = int_of_string capf in
  { pool; cap; hash = hashf pool; capn = nat_of_int cap }

(* runs a history; C.<n> items change the configured cap. Returns the state and the final configuration *)
let run_hist ctx0 ops =
  let (st, ctx) = List.fold_left (fun (st, ctx) o ->
    match o with
    | OCap n -> (st, { ctx with cap = n; capn = nat_of_int n })
    | _ -> (snd (do_op ctx st o), ctx)) (init_st ctx0, ctx0) ops in
  (st, ctx)

let acc_op mb = OAdd (mb, "zz", 1700000000, "new mail\r\n", 1)

let after_crash ctx st mb =
  let (r, st') = do_op ctx st (acc_op mb) in
  r ^ "/" ^ listing ctx st' mb

let op_mb = function OAdd (mb, _, _, _, _) | OSeen (mb, _) | ORemove (mb, _) | OPurge mb -> mb | _ -> 0

let () =
  Mlutil.iter_lines (fun line ->
    let (kind, ins, outs) = Mlutil.split_case line in
    (* upg: a fixture in the pinned format holding what <setup> says, opened by the code under test, then <ops>:
       for the model and the ordered map this is the history  <setup>,C.<cap>,<ops>  started without a cap *)
    let (kind, ins) = match kind, ins with
      | "upg", [c; p; setup; ops] -> ("hist", ["0"; p; setup ^ ",C." ^ c ^ "," ^ ops])   (* the fixture was written without a cap *)
      | _ -> (kind, ins) in
    match kind, ins with
    | "plan", [capf; poolf; histf; opf] ->
        let (st, ctx) = run_hist (mk_ctx capf poolf) (parse_ops histf) in
        let o = parse_op opf in
        let (op, mb) = mk_op ctx st o in
        let ss = steps enc dec ctx.hash ctx.capn op st.d in
        let pre = state ctx st in
        let (r, st') = do_op ctx st o in
        let seq = String.concat "," (List.map site ss) in
        let verdict =
          if not (readable (field outs "post") (field outs "vis")) then "fail:unreadable-after-complete-operation" else "ok" in
        (* yield points of the visit walk on the state before the operation: one per directory read *)
        let nv =
          let l1 = children [] st.d in
          let l2 = List.concat_map (fun a -> List.map (fun b -> (a, b)) (children [a] st.d)) l1 in
          let l3 = List.concat_map (fun (a, b) -> children [a; b] st.d) l2 in
          1 + List.length l1 + List.length l2 + List.length l3 in
        Mlutil.print_model ["seq=" ^ seq; "res=" ^ r; "pre=" ^ pre; "post=" ^ state ctx st'; "vis=" ^ visit_s ctx st';
                            "nv=" ^ string_of_int nv] verdict
    | "crash", [capf; poolf; histf; opf; kf] ->
        let (st, ctx) = run_hist (mk_ctx capf poolf) (parse_ops histf) in
        let o = parse_op opf in
        let k = int_of_string kf in
        let (op, mb) = mk_op ctx st o in
        let ss = steps enc dec ctx.hash ctx.capn op st.d in
        let n = List.length ss in
        let pre = state ctx st in
        let (_, stpost) = do_op ctx st o in
        let post = state ctx stpost in
        let completed = k >= n in
        let at = if completed then "done" else site (List.nth ss k) in
        let strec = if completed then stpost else
          (match crash_disk (nat_of_int k) None ss st.d with
           | Some d -> { st with d; nid = st.nid + 1 }
           | None -> { st with d = [(([] : path), File (s2l "MODEL-CRASH-STATE-UNDEFINED"))] }) in
        let triple stx = state ctx stx ^ "/" ^ visit_s ctx stx ^ "/" ^ after_crash ctx stx mb in
        let variant vs =
          let rs = List.map (fun v ->
            match crash_disk (nat_of_int k) (Some v) ss st.d with
            | Some d -> triple { st with d; nid = st.nid + 1 }
            | None -> "MODEL-VARIANT-UNDEFINED") vs in
          (match rs with
           | r :: rest -> if List.for_all (fun x -> x = r) rest then r else "MODEL-DIVERGE"
           | [] -> "na") in
        let (v1, v2) =
          if completed then ("na", "na") else
          match List.nth ss k with
          | Write (_, _, b) ->
              let half = firstn (nat_of_int (int_of_nat (length b) / 2)) b in
              (variant [VJunk []; VJunk half; VJunk b; VJunk (s2l "\255\000junk")], "na")
          | RemoveAll _ ->
              (variant [VKeep (fun p -> (int_of_nat (length (List.nth p (List.length p - 1)))) mod 2 = 0)],
               variant [VKeep (fun _ -> false)])
          | Mkdir _ -> (variant [VDepth (nat_of_int 1)], variant [VDepth (nat_of_int 2)])
          | _ -> ("na", "na") in
        let model = ["at=" ^ at; "pre=" ^ pre; "post=" ^ post; "rec=" ^ state ctx strec; "vis=" ^ visit_s ctx strec;
                     "acc=" ^ after_crash ctx strec mb; "v1=" ^ v1; "v2=" ^ v2; "n=0"] in
        (* oracle on the implementation's fields *)
        let nadds = List.length st.tab.(mb) in
        let ipre = field outs "pre" and ipost = field outs "post" in
        let icompleted = field outs "at" = "done" in
        let main = judge ctx o mb ~nadds ~pre:ipre ~post:ipost ~rec_:(field outs "rec") ~vis:(field outs "vis")
                     ~acc:(field outs "acc") ~completed:icompleted in
        let var f =
          let v = field outs f in
          if v = "na" then None
          else if has_sub v "DIVERGE" then Some "truncation-changes-recovered-state"
          else match split '/' v with
            | [s; vs; a1; a2] -> judge ctx o mb ~nadds ~pre:ipre ~post:ipost ~rec_:s ~vis:vs ~acc:(a1 ^ "/" ^ a2) ~completed:false
            | _ -> Some ("variant-not-run:" ^ v) in
        let verdict =
          match outs with
          | ["POOL-DIFFERS"] -> "fail:hash-of-pool-names-changed"
          | _ ->
            (match worst (worst main (var "v1")) (var "v2") with
             | None -> "ok"
             | Some r -> "fail:" ^ r) in
        Mlutil.print_model model verdict
    | "chist", [capf; poolf; itemsf] ->
        let ctx0 = mk_ctx capf poolf in
        let items = List.map (fun it ->
          match String.index_opt it '@' with
          | Some i -> (parse_op (String.sub it 0 i), int_of_string (String.sub it (i + 1) (String.length it - i - 1)))
          | None -> (parse_op it, -1)) (split ',' itemsf) in
        (* the model: a killed operation leaves crash_disk k; the state IS the disk, so the reopen is nothing *)
        let ctxr = ref ctx0 and st = ref (init_st ctx0) in
        let res = ref [] and cks = ref [] in
        List.iter (fun (o, k) ->
          (match o with OCap n -> ctxr := { !ctxr with cap = n; capn = nat_of_int n } | _ -> ());
          let ctx = !ctxr in
          (if k < 0 then begin let (r, st') = do_op ctx !st o in res := r :: !res; st := st' end
           else begin
             let (op, _) = mk_op ctx !st o in
             let ss = steps enc dec ctx.hash ctx.capn op !st.d in
             if k >= List.length ss then begin let (r, st') = do_op ctx !st o in res := r :: !res; st := st' end
             else match crash_disk (nat_of_int k) None ss !st.d with
               | Some d -> res := "crashed" :: !res; st := { !st with d; nid = !st.nid + 1 }
               | None -> res := "MODEL-CRASH-STATE-UNDEFINED" :: !res
           end);
          cks := (state ctx !st ^ "/" ^ visit_s ctx !st) :: !cks) items;
        let model = ["res=" ^ String.concat "," (List.rev !res); "cks=" ^ String.concat "^" (List.rev !cks)] in
        (* the oracle: crash_reopen_history on what the implementation showed — an ordered map on which every
           killed operation is applied completely, not at all, or (capped delivery) has dropped 1..n oldest *)
        let n = List.length ctx0.pool in
        let ab = Array.make n [] and nadd = Array.make n 0 in
        let sctx = ref ctx0 in
        let render () =
          let ls = Array.to_list (Array.map (fun l -> if l = [] then "-" else String.concat ";" l) ab) in
          let ne = List.sort compare (List.filter (fun x -> x <> "-") ls) in
          String.concat "|" ls ^ "/" ^ (if ne = [] then "none" else String.concat "|" ne) in
        let set_seen m = match split '.' m with
          | [h; a; b; c; _; e] -> String.concat "." [h; a; b; c; "1"; e] | _ -> m in
        (* apply a completed operation to the ordered map; returns its result *)
        let apply o =
          match o with
          | OCap c -> sctx := { !sctx with cap = c; capn = nat_of_int c }; "-"
          | OReopen | ORestart -> "-"
          | OAdd (mb, tok, date, seed, rep) ->
              let b = body seed rep in
              let m = String.concat "." [ "k" ^ string_of_int nadd.(mb); hexs (mbname ctx0 mb); hexs (info tok date);
                                          string_of_int (String.length b); "0"; digest b ] in
              ab.(mb) <- spec_add !sctx ab.(mb) m; nadd.(mb) <- nadd.(mb) + 1; "k" ^ string_of_int (nadd.(mb) - 1)
          | OSeen (mb, h) ->
              let hs = "k" ^ string_of_int h in
              if List.exists (fun m -> handle_of_msg m = hs) ab.(mb) then begin
                ab.(mb) <- List.map (fun m -> if handle_of_msg m = hs then set_seen m else m) ab.(mb); "ok" end
              else "notexist"
          | ORemove (mb, h) ->
              let hs = "k" ^ string_of_int h in
              if List.exists (fun m -> handle_of_msg m = hs) ab.(mb) then begin
                ab.(mb) <- List.filter (fun m -> handle_of_msg m <> hs) ab.(mb); "ok" end
              else "notexist"
          | OPurge mb -> ab.(mb) <- []; "ok"
          | OVisit -> let v = render () in let i = String.index v '/' in "V=" ^ String.sub v (i + 1) (String.length v - i - 1)
          | OScan ->
              let young m = match split '.' m with
                | _ :: _ :: inf :: _ -> date_of_info (Mlutil.unhex inf) >= expiry_threshold | _ -> true in
              Array.iteri (fun i l -> ab.(i) <- List.filter young l) ab; "ok" in
        let ires = Array.of_list (split ',' (field outs "res")) and icks = Array.of_list (split '^' (field outs "cks")) in
        let failure = ref None and known = ref false in
        let fail r = if !failure = None then failure := Some r in
        List.iteri (fun i (o, _) ->
          if !failure = None then begin
            let ir = if i < Array.length ires then ires.(i) else "MISSING" in
            let ick = if i < Array.length icks then icks.(i) else "MISSING" in
            (* after a crash the walk may also pass empty mailbox directories ("-"): they hold no mail *)
            let ick = match String.index_opt ick '/' with
              | Some p ->
                  let stp = String.sub ick 0 p and vp = String.sub ick (p + 1) (String.length ick - p - 1) in
                  let ne = List.filter (fun x -> x <> "-") (if vp = "none" then [] else split '|' vp) in
                  stp ^ "/" ^ (if ne = [] then "none" else String.concat "|" ne)
              | None -> ick in
            let ir = if String.length ir >= 2 && String.sub ir 0 2 = "V=" then begin
                let vp = String.sub ir 2 (String.length ir - 2) in
                let ne = List.filter (fun x -> x <> "-") (if vp = "none" then [] else split '|' vp) in
                "V=" ^ (if ne = [] then "none" else String.concat "|" ne) end else ir in
            if ir = "crashed" then begin
              (* not at all / completely / evicted prefix *)
              let saved = Array.copy ab and saved_n = Array.copy nadd in
              if ick = render () then ()
              else begin
                let mb = op_mb o in
                let pl = ab.(mb) in
                let nev = match o with OAdd _ -> int_of_nat (evict_count (!sctx).capn (nat_of_int (List.length pl))) | _ -> 0 in
                let rec try_drop j = j <= nev && (ab.(mb) <- drop j pl; ick = render () || try_drop (j + 1)) in
                if nev > 0 && try_drop 1 then known := true
                else begin
                  Array.blit saved 0 ab 0 n; Array.blit saved_n 0 nadd 0 n;
                  ignore (apply o);
                  if ick = render () then ()     (* applied completely: its commit step had been passed *)
                  else begin Array.blit saved 0 ab 0 n; Array.blit saved_n 0 nadd 0 n; fail "killed-operation-left-a-state-that-is-neither-old-nor-new" end
                end
              end
            end else begin
              let r = apply o in
              if r <> ir then fail "operation-result-differs-from-ordered-map"
              else if ick <> render () then fail "state-differs-from-ordered-map"
            end;
            if has_sub ick "ERR" || has_sub ick "NOSRC" then fail "unreadable"
          end) items;
        let verdict =
          match outs with
          | ["POOL-DIFFERS"] -> "fail:hash-of-pool-names-changed"
          | _ -> (match !failure with
                  | Some r -> "fail:" ^ r
                  | None -> if !known then "fail:evict-then-append" else "ok") in
        Mlutil.print_model model verdict
    | "big", [capf; poolf; nf; ntof; repf] ->
        (* restart with large on-disk structures. The model does not care about byte sizes: it is run with compact
           stand-ins for the recipients and the body (order, handles, seen flags, cap), the rendered listing puts the
           real recipients / sizes / content digests back; the oracle is the same ordered map on strings. *)
        let ctx = mk_ctx capf poolf in
        let n = int_of_string nf and nto = int_of_string ntof and rep = int_of_string repf in
        let fnv s = let h = ref 2166136261 in
          String.iter (fun c -> h := ((!h lxor Char.code c) * 16777619) land 0xFFFFFFFF) s; !h in
        let short l =
          let cnt = if l = "-" || l = "" then 0 else List.length (split ';' l) in
          Printf.sprintf "%d:%08x" cnt (fnv l) in
        let totext j = String.concat "" (List.init nto (fun i -> Printf.sprintf "R%d<r%dm%d@to.example>," i i j)) in
        let tok j seen =
          let b = String.concat "" (List.init rep (fun _ -> Printf.sprintf "body %08d \r\n" j)) in
          Printf.sprintf "k%d.big%d.%d:%08x.%d.%s.%s" j j nto (fnv (totext j)) (String.length b) (if seen then "1" else "0") (digest b) in
        let cadd j = OAdd (0, "big" ^ string_of_int j, 1600000000 + j, "x", 1) in
        let render st =
          match view dec st.d (ctx.hash (s2l (mbname ctx 0))) with
          | None -> "ERR"
          | Some [] -> "-"
          | Some v -> String.concat ";" (List.map (fun ((_, m), _) ->
              let h = handle_of st 0 m.m_id in
              let j = int_of_string (String.sub h 1 (String.length h - 1)) in tok j m.m_seen) v) in
        let st = ref (init_st ctx) in
        for j = 0 to n - 1 do st := snd (do_op ctx !st (cadd j)) done;
        let l0 = short (render !st) in
        let (r1, st1) = do_op ctx !st (OSeen (0, 0)) in
        let (r2, st2) = do_op ctx st1 (cadd n) in
        let l2 = short (render st2) in
        let model = ["l0=" ^ l0; "l1=" ^ l0; "l2=" ^ l2; "same=1"; "res=" ^ r1 ^ "," ^ r2] in
        (* the ordered map on strings *)
        let ab = ref [] in
        for j = 0 to n - 1 do ab := spec_add ctx !ab (tok j false) done;
        let e0 = short (if !ab = [] then "-" else String.concat ";" !ab) in
        let h0 = "k0." in
        let found = List.exists (fun m -> String.length m >= 3 && String.sub m 0 3 = h0) !ab in
        let ab1 = List.map (fun m -> if String.length m >= 3 && String.sub m 0 3 = h0 then tok 0 true else m) !ab in
        let ab2 = spec_add ctx ab1 (tok n false) in
        let e2 = short (String.concat ";" ab2) in
        let verdict =
          match outs with
          | ["POOL-DIFFERS"] -> "fail:hash-of-pool-names-changed"
          | _ ->
            if field outs "l0" <> e0 then "fail:listing-of-the-large-mailbox-differs-from-ordered-map"
            else if field outs "l1" <> e0 || field outs "same" <> "1" then "fail:large-mailbox-differs-after-reopen"
            else if field outs "res" <> (if found then "ok" else "notexist") ^ ",k" ^ string_of_int n then "fail:operation-result-differs-from-ordered-map"
            else if field outs "l2" <> e2 then "fail:large-mailbox-differs-after-mutation-and-reopen"
            else "ok" in
        Mlutil.print_model model verdict
    | "size", [capf; poolf; nf; mutsf] ->
        (* restart with a mailbox of MANY messages mutated right before the stop. The oracle is the ordered map on
           strings; the Coq model is run next to it for n <= 50 (its index re-encoding per delivery is quadratic in
           Coq's unary/list data), for larger n the model line is the ordered map's. *)
        let ctx = mk_ctx capf poolf in
        let n = int_of_string nf in
        let fnv s = let h = ref 2166136261 in
          String.iter (fun c -> h := ((!h lxor Char.code c) * 16777619) land 0xFFFFFFFF) s; !h in
        let short l =
          let cnt = if l = "-" || l = "" then 0 else List.length (split ';' l) in
          Printf.sprintf "%d:%08x" cnt (fnv l) in
        let tok j seen =
          let b = Printf.sprintf "body %08d \r\n" j in
          Printf.sprintf "k%d.big%d.1:%08x.%d.%s.%s" j j (fnv (Printf.sprintf "R0<r0m%d@to.example>," j)) (String.length b) (if seen then "1" else "0") (digest b) in
        let muts = if mutsf = "-" then [] else List.map (fun m -> match split '.' m with
          | [k; j] -> (k, int_of_string j) | _ -> failwith "size: mutation") (split ',' mutsf) in
        let is j m = let p = "k" ^ string_of_int j ^ "." in
          String.length m >= String.length p && String.sub m 0 (String.length p) = p in
        let ab = ref [] in
        for j = 0 to n - 1 do ab := spec_add ctx !ab (tok j false) done;
        let eres = List.map (fun (k, j) ->
          if not (List.exists (is j) !ab) then "notexist"
          else begin
            (if k = "r" then ab := List.filter (fun m -> not (is j m)) !ab
             else ab := List.map (fun m -> if is j m then tok j true else m) !ab); "ok" end) muts in
        let str l = if l = [] then "-" else String.concat ";" l in
        let e0 = short (str !ab) in
        let ab2 = spec_add ctx !ab (tok n false) in
        let e2 = short (str ab2) in
        let eres = String.concat "," (eres @ ["k" ^ string_of_int n]) in
        let model =
          if n > 50 then ["res=" ^ eres; "l0=" ^ e0; "l1=" ^ e0; "same=1"; "l2=" ^ e2]
          else begin
            let cadd j = OAdd (0, "big" ^ string_of_int j, 1600000000 + j, "x", 1) in
            let render st =
              match view dec st.d (ctx.hash (s2l (mbname ctx 0))) with
              | None -> "ERR"
              | Some [] -> "-"
              | Some v -> String.concat ";" (List.map (fun ((_, m), _) ->
                  let h = handle_of st 0 m.m_id in
                  let j = int_of_string (String.sub h 1 (String.length h - 1)) in tok j m.m_seen) v) in
            let st = ref (init_st ctx) in
            for j = 0 to n - 1 do st := snd (do_op ctx !st (cadd j)) done;
            let rs = List.map (fun (k, j) ->
              if j >= n then "notexist" else begin
                let (r, st') = do_op ctx !st (if k = "r" then ORemove (0, j) else OSeen (0, j)) in st := st'; r end) muts in
            let l0 = short (render !st) in
            let (r2, st2) = do_op ctx !st (cadd n) in
            ["res=" ^ String.concat "," (rs @ [r2]); "l0=" ^ l0; "l1=" ^ l0; "same=1"; "l2=" ^ short (render st2)]
          end in
        let verdict =
          match outs with
          | ["POOL-DIFFERS"] -> "fail:hash-of-pool-names-changed"
          | _ ->
            if field outs "res" <> eres then "fail:operation-result-differs-from-ordered-map"
            else if field outs "l0" <> e0 then "fail:listing-of-the-mailbox-differs-from-ordered-map"
            else if field outs "l1" <> e0 || field outs "same" <> "1" then "fail:mailbox-differs-after-reopen"
            else if field outs "l2" <> e2 then "fail:mailbox-differs-after-delivery-and-reopen"
            else "ok" in
        Mlutil.print_model model verdict
    | "srv", [capf; _poolf; _period; mailsf] ->
        (* the SERVER stopped and started again on the same storage path: the ordered map does not restart, and
           retention with period 0 (disabled) / hours removes nothing within the seconds a case takes *)
        let cap = int_of_string capf in
        let boxes = ["sa"; "sb"; "sc"] in
        let capn = nat_of_int cap in
        let add l x = let n = int_of_nat (evict_count capn (nat_of_int (List.length l))) in drop n l @ [x] in
        let mails = split ',' mailsf in
        (* subjects per mailbox after the first incarnation *)
        let st = ref (List.map (fun b -> (b, [])) boxes) in
        List.iteri (fun i mb -> st := List.map (fun (b, l) -> if b = mb then (b, add l ("s" ^ string_of_int i)) else (b, l)) !st) mails;
        (* handles are issued in order of first appearance in a listing *)
        let seen = ref (List.map (fun b -> (b, [])) boxes) in
        let render () =
          String.concat "|" (List.map (fun (b, l) ->
            if l = [] then "-" else
            String.concat ";" (List.map (fun subj ->
              let known = List.assoc b !seen in
              let rec idx i = function [] -> -1 | x :: r -> if x = subj then i else idx (i + 1) r in
              let h = idx 0 known in
              let h = if h >= 0 then h else begin
                seen := List.map (fun (b', k) -> if b' = b then (b', k @ [subj]) else (b', k)) !seen; List.length known end in
              Printf.sprintf "k%d.%s" h (Mlutil.hex subj)) l)) !st) in
        let l1 = render () in
        let l2 = render () in
        let first = List.hd mails in
        st := List.map (fun (b, l) -> if b = first then (b, add l ("s" ^ string_of_int (List.length mails))) else (b, l)) !st;
        let l3 = render () in
        let model = ["l1=" ^ l1; "l2=" ^ l2; "l3=" ^ l3; "same=1"; "reissued=none"] in
        let verdict =
          match outs with
          | "SETUPERR" :: _ | "CRASH" :: _ | "HANG" :: _ | "NOOUTPUT" :: _ -> "fail:server-incarnation-did-not-run:" ^ String.concat "," outs
          | _ ->
            if field outs "l1" <> l1 then "fail:listing-after-the-deliveries-differs-from-ordered-map"
            else if field outs "l2" <> field outs "l1" || field outs "same" <> "1" then
              "fail:mailboxes-differ-after-server-restart"
            else if field outs "l3" <> l3 then "fail:delivery-after-server-restart-differs-from-ordered-map"
            else if field outs "reissued" <> "none" && field outs "reissued" <> "MISSING" then "fail:id-of-removed-message-reissued"
            else "ok" in
        Mlutil.print_model model verdict
    | "conc", [capf; poolf; nf; kf; trialsf] ->
        (* after each real restart the FIRST accesses to mailbox 0 are k overlapping reads, then one mutation.
           Reads do not change the ordered map (reopen_transparent / ops_refine_ordered_map): every reader must
           see exactly the listing; the overlap itself is not in the model (C09 owns store concurrency). *)
        let ctx = mk_ctx capf poolf in
        let n = int_of_string nf and k = int_of_string kf and trials = int_of_string trialsf in
        let short l =
          let cnt = if l = "-" || l = "" then 0 else List.length (split ';' l) in
          let h = ref 2166136261 in
          String.iter (fun c -> h := ((!h lxor Char.code c) * 16777619) land 0xFFFFFFFF) l;
          Printf.sprintf "%d:%08x" cnt !h in
        let cadd mb j = OAdd (mb, "c" ^ string_of_int j, 1600000000 + j, "c" ^ string_of_int j ^ "\r\n", 1) in
        let setup = List.init n (fun j -> cadd 0 j) @ List.init 3 (fun j -> cadd 3 j) in
        let muts = List.init trials (fun t -> if t mod 2 = 1 then cadd 0 (n + t) else OSeen (0, t)) in
        (* the model *)
        let st = ref (init_st ctx) in
        List.iter (fun o -> st := snd (do_op ctx !st o)) setup;
        let sstate stx = String.concat "|" (List.mapi (fun i _ -> short (listing ctx stx i)) ctx.pool) in
        let model = ref ["init=" ^ sstate !st] in
        List.iteri (fun t o ->
          let rd = short (listing ctx !st 0) in
          let (r, st') = do_op ctx !st o in
          st := st';
          model := !model @ [Printf.sprintf "t%d=%s/%s/%s" t (String.concat "," (List.init k (fun _ -> rd))) r (sstate !st)]) muts;
        (* the oracle: the ordered map on strings *)
        let np = List.length ctx.pool in
        let ab = Array.make np [] and nadd = Array.make np 0 in
        let set_seen m = match split '.' m with
          | [h; a; b; c; _; e] -> String.concat "." [h; a; b; c; "1"; e] | _ -> m in
        let apply o = match o with
          | OAdd (mb, tok, date, seed, rep) ->
              let b = body seed rep in
              let m = String.concat "." [ "k" ^ string_of_int nadd.(mb); hexs (mbname ctx mb); hexs (info tok date);
                                          string_of_int (String.length b); "0"; digest b ] in
              ab.(mb) <- spec_add ctx ab.(mb) m; nadd.(mb) <- nadd.(mb) + 1; "k" ^ string_of_int (nadd.(mb) - 1)
          | OSeen (mb, h) ->
              let hs = "k" ^ string_of_int h in
              if List.exists (fun m -> handle_of_msg m = hs) ab.(mb) then begin
                ab.(mb) <- List.map (fun m -> if handle_of_msg m = hs then set_seen m else m) ab.(mb); "ok" end
              else "notexist"
          | _ -> "-" in
        let lst mb = if ab.(mb) = [] then "-" else String.concat ";" ab.(mb) in
        let ostate () = String.concat "|" (List.init np (fun i -> short (lst i))) in
        List.iter (fun o -> ignore (apply o)) setup;
        let failure = ref None in
        let fail r = if !failure = None then failure := Some r in
        if field outs "init" <> ostate () then fail "state-differs-from-ordered-map-before-the-restarts";
        List.iteri (fun t o ->
          let f = field outs (Printf.sprintf "t%d" t) in
          let rd = short (lst 0) in
          match split '/' f with
          | [readers; mr; stt] ->
              let rs = split ',' readers in
              if List.exists (fun x -> has_sub x "PANIC") rs || has_sub mr "PANIC" then fail "operation-panicked-on-the-reopened-store"
              else if List.length rs <> k || List.exists (fun x -> x <> rd) rs then
                fail "overlapping-first-readers-of-the-reopened-store-do-not-all-see-the-listing"
              else begin
                let r = apply o in
                if mr <> r then fail "operation-result-differs-from-ordered-map"
                else if stt <> ostate () then fail "state-after-restart-differs-from-ordered-map"
              end
          | _ -> fail ("incarnation-died:" ^ f)) muts;
        let verdict = match outs with
          | ["POOL-DIFFERS"] -> "fail:hash-of-pool-names-changed"
          | _ -> (match !failure with Some r -> "fail:" ^ r | None -> "ok") in
        Mlutil.print_model !model verdict
    | "new", [capf; poolf] ->
        (* store construction died at its MkdirAll; a second file.New: an empty store that accepts mail
           (in the model the root mail directory always exists: New is Stat + MkdirAll, idempotent) *)
        let ctx = mk_ctx capf poolf in
        let st = init_st ctx in
        let exp = "new.mkdir/" ^ state ctx st ^ "/" ^ visit_s ctx st ^ "/" ^ after_crash ctx st 0 in
        let model = List.map (fun i -> Printf.sprintf "d%d=%s" i exp) [0; 1; 2] in
        let verdict = if outs = model then "ok" else
          if List.exists (fun o -> has_sub o "no-point") outs then "fail:file.New-has-no-crash-point-at-its-MkdirAll"
          else "fail:store-construction-after-a-crashed-construction-is-not-an-empty-working-store" in
        Mlutil.print_model model verdict
    | "visit", [capf; poolf; histf; opf; kf; jf] ->
        let (st, ctx) = run_hist (mk_ctx capf poolf) (parse_ops histf) in
        let o = parse_op opf in
        let k = int_of_string kf and j = int_of_string jf in
        let (op, mb) = mk_op ctx st o in
        let ss = steps enc dec ctx.hash ctx.capn op st.d in
        let pre = state ctx st in
        let (_, stpost) = do_op ctx st o in
        let post = state ctx stpost in
        (* the walk reads k times, then the operation advances j steps, then the walk finishes *)
        let sched = List.init (k + 1) (fun i -> nat_of_int (if i = k then j else 0)) in
        let mvis = match fst (cvisit dec true ((ss, st.d), sched)) with None -> "ERR" | Some _ -> "OK" in
        let model = ["vis=" ^ mvis; "pre=" ^ pre; "post=" ^ post; "fin=" ^ post] in
        let ivis = field outs "vis" and ipre = field outs "pre" and ipost = field outs "post" in
        let verdict =
          match outs with
          | ["POOL-DIFFERS"] -> "fail:hash-of-pool-names-changed"
          | _ ->
            if ivis = "ERR" then "fail:visit-fails-while-another-operation-runs"
            else begin
              let pres = split '|' ipre and posts = split '|' ipost in
              let pl = msgs_of (List.nth pres mb) in
              let n = match o with OAdd _ -> int_of_nat (evict_count ctx.capn (nat_of_int (List.length pl))) | _ -> 0 in
              let stages = List.init (n + 1) (fun i -> let l = drop i pl in if l = [] then "-" else String.concat ";" l) in
              (* the walking store object does not know the ids issued meanwhile: compare without handles *)
              let nohandle l = if l = "-" then "-" else
                String.concat ";" (List.map (fun m -> match split '.' m with _ :: r -> String.concat "." r | [] -> m) (split ';' l)) in
              let allowed = List.map nohandle (pres @ posts @ stages) in
              let seen = List.map nohandle (if ivis = "none" then [] else split '|' ivis) in
              if has_sub ivis "NOSRC" then "fail:visit-sees-message-without-content"
              else if not (List.for_all (fun l -> l = "-" || List.mem l allowed) seen) then "fail:visit-shows-a-state-that-is-neither-old-nor-new"
              else if field outs "fin" <> ipost then "fail:operation-interleaved-with-visit-ends-in-another-state"
              else "ok"
            end in
        Mlutil.print_model model verdict
    | "hist", (capf :: poolf :: opsf :: _) ->     (* an optional 4th field says how the driver lays out the directory: not the model's business *)
        let ctx0 = mk_ctx capf poolf in
        let ops = parse_ops opsf in
        (* the model: the state IS the disk, a reopen / restart changes nothing (a new cap is configuration) *)
        let ctxr = ref ctx0 in
        let st = ref (init_st ctx0) in
        let res = ref [] and cks = ref [] and same = ref [] in
        List.iter (fun o ->
          (match o with OCap n -> ctxr := { !ctxr with cap = n; capn = nat_of_int n } | _ -> ());
          let ctx = !ctxr in
          match o with
          | OReopen | ORestart | OCap _ ->
              res := "-" :: !res; cks := (state ctx !st ^ "/" ^ visit_s ctx !st) :: !cks; same := "1" :: !same
          | _ -> let (r, st') = do_op ctx !st o in res := r :: !res; st := st') ops;
        let ctx = !ctxr in
        let j sep l = if l = [] then "none" else String.concat sep (List.rev l) in
        let model = ["res=" ^ j "," !res; "cks=" ^ j "^" !cks; "same=" ^ j "," !same;
                     "fin=" ^ state ctx !st ^ "/" ^ visit_s ctx !st; "live=1"; "retries=0"; "reissued=none"] in
        let sctx = ref ctx0 in
        (* the oracle: an ordered map of mailboxes that never restarts, replayed on the history *)
        let n = List.length ctx.pool in
        let ab = Array.make n [] and nadd = Array.make n 0 in
        let sres = ref [] and scks = ref [] in
        let sstate () =
          let ls = Array.to_list (Array.map (fun l -> if l = [] then "-" else String.concat ";" l) ab) in
          let ne = List.sort compare (List.filter (fun x -> x <> "-") ls) in
          String.concat "|" ls ^ "/" ^ (if ne = [] then "none" else String.concat "|" ne) in
        let set_seen m = match split '.' m with
          | [h; a; b; c; _; e] -> String.concat "." [h; a; b; c; "1"; e] | _ -> m in
        List.iter (fun o ->
          match o with
          | OCap c -> sctx := { !sctx with cap = c; capn = nat_of_int c }; sres := "-" :: !sres; scks := sstate () :: !scks
          | OReopen | ORestart -> sres := "-" :: !sres; scks := sstate () :: !scks
          | OAdd (mb, tok, date, seed, rep) ->
              let b = body seed rep in
              let m = String.concat "." [ "k" ^ string_of_int nadd.(mb); hexs (mbname ctx mb); hexs (info tok date);
                                          string_of_int (String.length b); "0"; digest b ] in
              ab.(mb) <- spec_add !sctx ab.(mb) m;
              sres := ("k" ^ string_of_int nadd.(mb)) :: !sres; nadd.(mb) <- nadd.(mb) + 1
          | OSeen (mb, h) ->
              let hs = "k" ^ string_of_int h in
              if List.exists (fun m -> handle_of_msg m = hs) ab.(mb) then begin
                ab.(mb) <- List.map (fun m -> if handle_of_msg m = hs then set_seen m else m) ab.(mb);
                sres := "ok" :: !sres end
              else sres := "notexist" :: !sres
          | ORemove (mb, h) ->
              let hs = "k" ^ string_of_int h in
              if List.exists (fun m -> handle_of_msg m = hs) ab.(mb) then begin
                ab.(mb) <- List.filter (fun m -> handle_of_msg m <> hs) ab.(mb);
                sres := "ok" :: !sres end
              else sres := "notexist" :: !sres
          | OPurge mb -> ab.(mb) <- []; sres := "ok" :: !sres
          | OVisit ->
              let v = sstate () in
              let i = String.index v '/' in
              sres := ("V=" ^ String.sub v (i + 1) (String.length v - i - 1)) :: !sres
          | OScan ->
              let young m = match split '.' m with
                | _ :: _ :: inf :: _ -> date_of_info (Mlutil.unhex inf) >= expiry_threshold | _ -> true in
              Array.iteri (fun i l -> ab.(i) <- List.filter young l) ab; sres := "ok" :: !sres) ops;
        let verdict =
          match outs with
          | ["POOL-DIFFERS"] -> "fail:hash-of-pool-names-changed"
          | _ ->
            let isame = field outs "same" in
            if field outs "res" <> j "," !sres then begin
              (* name the first differing result *)
              let ir = split ',' (field outs "res") and sr = List.rev !sres in
              let rec first a b = match a, b with
                | x :: a', y :: b' -> if x = y then first a' b' else Some x
                | x :: _, [] -> Some x | [], _ -> None in
              match first ir sr with
              | Some x when String.length x >= 2 && String.sub x 0 2 = "V=" ->
                  "fail:visit-differs-from-the-set-of-non-empty-mailboxes"
              | _ -> "fail:operation-result-differs-from-ordered-map"
            end
            else if has_sub isame "0" then "fail:state-differs-before-and-after-reopen"
            else if field outs "cks" <> j "^" !scks then "fail:state-after-reopen-differs-from-ordered-map"
            else if field outs "fin" <> sstate () then "fail:final-state-differs-from-ordered-map"
            else if field outs "live" <> "1" then "fail:fresh-store-sees-another-state-than-the-live-store"
            else if field outs "reissued" <> "none" then "fail:id-of-removed-message-reissued"
            else "ok" in
        Mlutil.print_model model verdict
    | "reissue", [capf; poolf] ->
        let ctx = mk_ctx capf poolf in
        let ops = parse_ops "a.0.w1.1600000001.6f6c64206d61696c0d0a.1,r.0.0,X,a.0.w2.1600000002.6e6577206d61696c0d0a.2" in
        reissued_log := []; force_reuse := None;
        let st = ref (init_st ctx) in
        let res = ref [] in
        List.iter (fun o ->
          match o with
          | ORestart ->
              (* the new process's generator starts again at <second>-0000: the id of the removed message *)
              force_reuse := Some (List.nth !st.tab.(0) 0); res := "-" :: !res
          | _ -> let (r, st') = do_op ctx !st o in res := r :: !res; st := st') ops;
        force_reuse := None;
        let model = ["res=" ^ String.concat "," (List.rev !res); "fin=" ^ state ctx !st ^ "/" ^ visit_s ctx !st;
                     "reissued=" ^ (if !reissued_log = [] then "none" else String.concat "," !reissued_log)] in
        let verdict =
          if field outs "reissued" <> "none" then "fail:id-of-removed-message-reissued"
          else "ok" in
        Mlutil.print_model model verdict
    | _ -> Mlutil.print_model ["UNKNOWN-KIND"] "ok")

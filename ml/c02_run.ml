(* Model runner for C02: the dot decoder model on the wire bytes, and the specification
   (the client's lines joined by LF, behind the server's trace headers) evaluated on what the
   implementation stored and served. *)
open C02_model
open Conv

let s = str_of_raw
let expected payload =
  raw_of_str (stored_source (s "sender@x.org") (s "client.example") (s "127.0.0.1") (s "inbucket") (s "box") payload)

let expected_for mb payload =
  raw_of_str (stored_source (s "sender@x.org") (s "client.example") (s "127.0.0.1") (s "inbucket") (s mb) payload)

(* multi <store> <rcpt mailboxes> <lines>: every RCPT yields one delivery; every copy is the trace headers (with its
   own mailbox) followed by the same payload *)
let handle_multi rcpts ls outs =
  let ls = if ls = "-" then [] else List.map str_of_field (String.split_on_char ',' ls) in
  let payload = joined_lf ls in
  let rc = String.split_on_char ',' rcpts in
  let order = List.fold_left (fun acc mb -> if List.mem mb acc then acc else acc @ [mb]) [] rc in
  let n = List.length rc in
  let replies = String.concat "," (["250"; "250"] @ List.init n (fun _ -> "250") @ ["354"]) in
  match outs with
  | [_; copies; status] ->
      let hdr = List.hd (String.split_on_char ':' status) in
      let st = String.concat ":" (List.tl (String.split_on_char ':' status)) in
      if hdr <> "1" then Mlutil.print_model [replies ^ ",451,221"; "-"; hdr ^ ":ok"] "ok"
      else begin
        let want = List.concat_map (fun mb ->
          let k = List.length (List.filter (fun x -> x = mb) rc) in
          List.init k (fun i ->
            let src = expected_for mb payload in
            let len = string_of_int (String.length src) in
            String.concat ":" [Printf.sprintf "%s.%d" mb (i + 1); Mlutil.hex src; len; "="; "="; "="; len; len])) order in
        let model_copies = if want = [] then "-" else String.concat "," want in
        let got = if copies = "-" then [] else String.split_on_char ',' copies in
        let v = ref [] in
        let add x = if not (List.mem x !v) then v := !v @ [x] in
        if List.length got <> List.length want then add "copies-stored-differ-from-recipients-accepted";
        List.iter2 (fun g w ->
          match String.split_on_char ':' g, String.split_on_char ':' w with
          | [gn; gsrc; gsize; grest; gui; gpop; grs; gps], [wn; wsrc; _; _; _; _; _; _] ->
              if gn <> wn then add "copies-stored-differ-from-recipients-accepted";
              if gsrc <> wsrc then add "stored-source-differs-from-transmitted-bytes";
              if grest <> "=" then add "rest-source-differs-from-store";
              if gui <> "=" then add "webui-source-differs-from-store";
              if gpop <> "=" then add "pop3-retr-differs-from-store";
              let len = if gsrc = "-" then 0 else String.length gsrc / 2 in
              if gsize <> string_of_int len || grs <> gsize || gps <> gsize then add "reported-size-differs-from-source-length"
          | _ -> add "read-interface-error")
          (if List.length got = List.length want then got else []) (if List.length got = List.length want then want else []);
        if st <> "ok" then add "read-interface-error";
        let verdict = if !v = [] then "ok" else "fail:" ^ String.concat ";" !v in
        Mlutil.print_model [replies ^ ",250,221"; model_copies; "1:ok"] verdict
      end
  | _ -> Mlutil.print_model ["NO-OBSERVATION"] "fail:no-observation"

(* seq <store[:cap[:maxkb]]> <k> <lines>: k transactions on one connection to mailbox box; transaction t carries the header
   "X-Seq: t" and the lines without the last t-1; every accepted one is one message, in order; the cap (if any) keeps the
   most recent ones; all are read back after the last one was stored *)
let handle_seq store k ls outs =
  let ls = if ls = "-" then [] else List.map str_of_field (String.split_on_char ',' ls) in
  let k = int_of_string k in
  let cap = match String.split_on_char ':' store with
    | _ :: c :: _ when c <> "" -> int_of_string c | _ -> 0 in
  let rec take n l = if n <= 0 then [] else match l with [] -> [] | x :: r -> x :: take (n - 1) r in
  let body t = joined_lf (s (Printf.sprintf "X-Seq: %d" t) :: take (List.length ls - (t - 1)) ls) in
  match outs with
  | [_; copies; status] ->
      let hdr = List.hd (String.split_on_char ':' status) in
      let st = String.concat ":" (List.tl (String.split_on_char ':' status)) in
      let flags = if hdr = "nocall" then "" else hdr in
      let ok t = t <= String.length flags && flags.[t - 1] = '1' in
      let replies = String.concat "," (["250"] @ List.concat (List.init k (fun i ->
        ["250"; "250"; "354"; (if ok (i + 1) then "250" else "451")])) @ ["221"]) in
      let accepted = List.filter ok (List.init k (fun i -> i + 1)) in
      let kept = if cap > 0 && List.length accepted > cap
        then (let d = List.length accepted - cap in List.filteri (fun i _ -> i >= d) accepted) else accepted in
      let want = List.mapi (fun i t ->
        let src = expected_for "box" (body t) in
        let len = string_of_int (String.length src) in
        String.concat ":" [Printf.sprintf "box.%d" (i + 1); Mlutil.hex src; len; "="; "="; "="; len; len]) kept in
      let model_copies = if want = [] then "-" else String.concat "," want in
      let got = if copies = "-" then [] else String.split_on_char ',' copies in
      let v = ref [] in
      let add x = if not (List.mem x !v) then v := !v @ [x] in
      if String.length flags <> k then add "read-interface-error";
      if List.length got <> List.length want then add "messages-stored-differ-from-transactions-acknowledged";
      if List.length got = List.length want then
        List.iter2 (fun g w ->
          match String.split_on_char ':' g, String.split_on_char ':' w with
          | [gn; gsrc; gsize; grest; gui; gpop; grs; gps], [wn; wsrc; _; _; _; _; _; _] ->
              if gn <> wn then add "messages-stored-differ-from-transactions-acknowledged";
              if gsrc <> wsrc then add "stored-source-differs-from-transmitted-bytes";
              if grest <> "=" then add "rest-source-differs-from-store";
              if gui <> "=" then add "webui-source-differs-from-store";
              if gpop <> "=" then add "pop3-retr-differs-from-store";
              let len = if gsrc = "-" then 0 else String.length gsrc / 2 in
              if gsize <> string_of_int len || grs <> gsize || gps <> gsize then add "reported-size-differs-from-source-length"
          | _ -> add "read-interface-error") got want;
      if st <> "ok" then add "read-interface-error";
      let verdict = if !v = [] then "ok" else "fail:" ^ String.concat ";" !v in
      Mlutil.print_model [replies; model_copies; (if flags = "" then "nocall" else flags) ^ ":ok"] verdict
  | _ -> Mlutil.print_model ["NO-OBSERVATION"] "fail:no-observation"

let () =
  Mlutil.iter_lines (fun line ->
    let (kind, ins, outs) = Mlutil.split_case line in
    match kind, ins with
    | "multi", [_; rcpts; ls] -> handle_multi rcpts ls outs
    | "seq", [store; k; ls] -> handle_seq store k ls outs
    | _ ->
    let wire_spec =
      match kind, ins with
      | ("lines" | "asmsrc"), [_; ls] ->
          let ls = if ls = "-" then [] else List.map str_of_field (String.split_on_char ',' ls) in
          Some (wire ls, Some (joined_lf ls))
      | "raw", [_; w] -> Some (str_of_field w, None)
      | _ -> None in
    match wire_spec, outs with
    | Some (w, spec), [replies; src; size; rest; ui; pop; rsize; psize; status] ->
        let quit = s "QUIT\r\n" in
        (match dec BeginLine (w @ quit) with
         | None -> Mlutil.print_model ["250,250,250,354"; "NOMSG"; "0"; "-"; "-"; "-"; "-"; "-"; "nocall:ok"] "ok"
         | Some (payload, rest_bytes) ->
             let hdr = List.hd (String.split_on_char ':' status) in
             let st = String.concat ":" (List.tl (String.split_on_char ':' status)) in
             let msrc = expected payload in
             let n = string_of_int (String.length msrc) in
             let model =
               if rest_bytes <> quit then ["MODEL-DESYNC"]
               else if hdr = "1" then ["250,250,250,354,250,221"; Mlutil.hex msrc; n; "="; "="; "="; n; n; "1:ok"]
               else ["250,250,250,354,451,221"; "NOMSG"; "0"; "-"; "-"; "-"; "-"; "-"; hdr ^ ":ok"] in
             (* oracle: the property clauses on the implementation's own observations *)
             let v = ref [] in
             if hdr = "1" then begin
               let want = match spec with Some p -> expected p | None -> msrc in
               if src <> Mlutil.hex want then v := "stored-source-differs-from-transmitted-bytes" :: !v;
               if rest <> "=" then v := "rest-source-differs-from-store" :: !v;
               if ui <> "=" then v := "webui-source-differs-from-store" :: !v;
               if pop <> "=" then v := "pop3-retr-differs-from-store" :: !v;
               let len = if src = "-" then 0 else String.length src / 2 in
               if size <> string_of_int len || rsize <> size || psize <> size then v := "reported-size-differs-from-source-length" :: !v;
               if st <> "ok" then v := "read-interface-error" :: !v
             end;
             let verdict = if !v = [] then "ok" else "fail:" ^ String.concat ";" (List.rev !v) in
             Mlutil.print_model model verdict)
    | _ -> Mlutil.print_model ["UNKNOWN-KIND"] "ok")

(* Model runner for C02: the dot decoder model on the wire bytes, and the specification
   (the client's lines joined by LF, behind the server's trace headers) evaluated on what the
   implementation stored and served. *)
open C02_model
open Conv

let s = str_of_raw
let expected payload =
  raw_of_str (stored_source (s "sender@x.org") (s "client.example") (s "127.0.0.1") (s "inbucket") (s "box") payload)

let () =
  Mlutil.iter_lines (fun line ->
    let (kind, ins, outs) = Mlutil.split_case line in
    let wire_spec =
      match kind, ins with
      | "lines", [_; ls] ->
          let ls = if ls = "-" then [] else List.map str_of_field (String.split_on_char ',' ls) in
          Some (wire ls, Some (joined_lf ls))
      | "raw", [_; w] -> Some (str_of_field w, None)
      | _ -> None in
    match wire_spec, outs with
    | Some (w, spec), [replies; src; size; rest; ui; pop; rsize; psize; status] ->
        let quit = s "QUIT\r\n" in
        (match dec BeginLine (w @ quit) with
         | None -> Mlutil.print_model ["250,250,250,354"; "NOMSG"; "0"; "-"; "-"; "-"; "-"; "-"; "nocall:ok"] "ok"
         | Some (payload, rest_bytes) ->
             let hdr = List.hd (String.split_on_char ':' status) in
             let st = String.concat ":" (List.tl (String.split_on_char ':' status)) in
             let msrc = expected payload in
             let n = string_of_int (String.length msrc) in
             let model =
               if rest_bytes <> quit then ["MODEL-DESYNC"]
               else if hdr = "1" then ["250,250,250,354,250,221"; Mlutil.hex msrc; n; "="; "="; "="; n; n; "1:ok"]
               else ["250,250,250,354,451,221"; "NOMSG"; "0"; "-"; "-"; "-"; "-"; "-"; hdr ^ ":ok"] in
             (* oracle: the property clauses on the implementation's own observations *)
             let v = ref [] in
             if hdr = "1" then begin
               let want = match spec with Some p -> expected p | None -> msrc in
               if src <> Mlutil.hex want then v := "stored-source-differs-from-transmitted-bytes" :: !v;
               if rest <> "=" then v := "rest-source-differs-from-store" :: !v;
               if ui <> "=" then v := "webui-source-differs-from-store" :: !v;
               if pop <> "=" then v := "pop3-retr-differs-from-store" :: !v;
               let len = if src = "-" then 0 else String.length src / 2 in
               if size <> string_of_int len || rsize <> size || psize <> size then v := "reported-size-differs-from-source-length" :: !v;
               if st <> "ok" then v := "read-interface-error" :: !v
             end;
             let verdict = if !v = [] then "ok" else "fail:" ^ String.concat ";" (List.rev !v) in
             Mlutil.print_model model verdict)
    | _ -> Mlutil.print_model ["UNKNOWN-KIND"] "ok")

(* Model runner for the SMTP session properties (template: C01 is substituted per property by
   ml/gen_smtp_runners.sh). Evaluates the extracted byte-level session model on the client stream
   of every case and the dialogue specifications (the property oracles) on what the
   IMPLEMENTATION answered and stored. *)
open C01_model
open Conv

let pid = "C01"

let split c s = if s = "-" || s = "" then [] else String.split_on_char c s
let opt_str f = if f = "~" then None else Some (str_of_field f)

let addr_diverged = ref false

(* luareload: the raw rule tables of the Lua host and of the second listener (mail, rcpt), kept for the chain built in handle_smtp *)
let reload_tabs : ((str * hook_ans) list * (str * hook_ans) list * (str * hook_ans) list * (str * hook_ans) list) option ref = ref None
let size_unseen = ref false
let plain_refused = ref false
let parse_mail_table pip t =
  List.map (fun e ->
    match String.split_on_char ':' e with
    | [arg; m; hp; pok; size; oa; od; _g1] ->
        (* the facts are computed by the model (RE2 programs of the two patterns + address model);
           the driver's answers from the real functions are only cross-checked *)
        let impl_origin = (match opt_str oa, opt_str od with
                        | Some a, Some d -> Some { o_addr = a; o_domain = d }
                        | _ -> None) in
        let impl = { mf_match = (m = "1"); mf_has_params = (hp = "1"); mf_params_ok = (pok = "1");
                     mf_size = opt_str size; mf_origin = impl_origin } in
        (* C06: wherever the implementation's parser accepts the command, it must have seen the declared SIZE
           (read without the patterns: Model/SmtpMailParse.v declared_size_spec) *)
        if not (size_seen_ok (str_of_field arg) impl) then size_unseen := true;
        (* C05 / C06: a MAIL argument of the plainest shape (read without the patterns) is not refused for its syntax *)
        if not (plain_mail_ok (str_of_field arg) impl) then plain_refused := true;
        (match mail_facts_of pip (str_of_field arg) with
         | Some f -> if f <> impl then addr_diverged := true; (str_of_field arg, f)
         | None -> addr_diverged := true; (str_of_field arg, impl))
    | _ -> failwith ("bad mail table entry " ^ e)) (split ',' t)

let parse_rcpt_table pip mode t =
  List.map (fun e ->
    match String.split_on_char ':' e with
    | [addr; ok; a; d; mb] ->
        (* NewRecipient is computed by the address model; the driver's answer is cross-checked *)
        let r = rcpt_of pip mode (str_of_field addr) in
        let impl = if ok = "1" then Some { r_addr = str_of_field a; r_domain = str_of_field d; r_mailbox = str_of_field mb }
         else None in
        if r <> impl then addr_diverged := true;
        (str_of_field addr, r)
    | _ -> failwith ("bad rcpt table entry " ^ e)) (split ',' t)

let parse_list f =   (* "[a;b]" *)
  let inner = String.sub f 1 (String.length f - 2) in
  if inner = "" then [] else List.map str_of_field (String.split_on_char ';' inner)

let parse_hdr_table t =
  List.map (fun e ->
    match String.split_on_char ':' e with
    | [body; ok; from; to_; subj] ->
        (str_of_field body,
         if ok = "1" then
           Some { h_from = opt_str from;
                  h_to = (if to_ = "~" then None else Some (parse_list to_));
                  h_subject = str_of_field subj }
         else None)
    | _ -> failwith ("bad hdr table entry " ^ e)) (split ',' t)

(* reply tokens "250-" / "250" / "X" *)
let parse_replies f : rline list =
  List.map (fun t ->
    let more = String.length t > 0 && t.[String.length t - 1] = '-' in
    let digits = if more then String.sub t 0 (String.length t - 1) else t in
    let code = try int_of_string digits with _ -> -1 in
    (z_of_int code, more)) (split ',' f)
let show_replies (r : rline list) =
  if r = [] then "-" else
  String.concat "," (List.map (fun (c, more) -> string_of_int (int_of_z c) ^ (if more then "-" else "")) r)

let ip = str_of_raw "127.0.0.1"
(* the HELO domain of the trace headers: the default of config.SMTP.Domain, regenerated from the source (Gen/ConfigPins.v) *)
let domain = smtp_domain_default

(* mailbox message cap of the case (store field "file:2"), 0 = none *)
let cap_of_case = ref 0
let show_store (ds : delivery list) : string =
  let st = if !cap_of_case = 0 then store_after [] ds else store_after_cap (nat_of_int !cap_of_case) [] ds in
  let boxes = List.map (fun (name, ms) ->
    (raw_of_str name,
     String.concat "/" (List.map (fun d ->
       let src = raw_of_str (stored_source d.d_retpath d.d_helo ip domain d.d_mailbox d.d_body) in
       String.concat ":" [ field_of_str d.d_from;
                           "[" ^ String.concat ";" (List.map field_of_str d.d_to) ^ "]";
                           field_of_str d.d_subject;
                           string_of_int (String.length src);
                           Mlutil.hex src ]) ms))) st in
  let boxes = List.sort (fun (a, _) (b, _) -> compare a b) boxes in
  if boxes = [] then "-" else
  String.concat "," (List.map (fun (n, ms) -> Mlutil.hex n ^ "=" ^ ms) boxes)


(* rule labels: "keyhex=A|F|N|D<code>:<msghex>" *)
let parse_smtp_rules t : (str * hook_ans) list =
  List.map (fun e ->
    match String.index_opt e '=' with
    | None -> failwith ("bad rule " ^ e)
    | Some i ->
        let k = str_of_field (String.sub e 0 i) and v = String.sub e (i + 1) (String.length e - i - 1) in
        (k, (match v.[0] with
             | 'A' -> Allow | 'F' -> Defer | 'N' -> NoAns
             | 'D' -> (match String.split_on_char ':' (String.sub v 1 (String.length v - 1)) with
                       | [c; m] -> Deny (z_of_int (int_of_string c), str_of_field m)
                       | _ -> failwith ("bad deny " ^ v))
             | _ -> failwith ("bad rule value " ^ v)))) (split ',' t)

let opt_list f = if f = "~" then None else
  let inner = String.sub f 1 (String.length f - 2) in
  Some (if inner = "" then [] else List.map str_of_field (String.split_on_char '+' inner))

(* "subjecthex=N" | "subjecthex=O<mb>;<from>;<to>;<subj>"; N rules yield no entry *)
let parse_msg_rules t : (str * overrides) list =
  List.concat (List.map (fun e ->
    match String.index_opt e '=' with
    | None -> failwith ("bad rule " ^ e)
    | Some i ->
        let k = str_of_field (String.sub e 0 i) and v = String.sub e (i + 1) (String.length e - i - 1) in
        if v = "N" then [] else
        (match String.split_on_char ';' (String.sub v 1 (String.length v - 1)) with
         | [mb; from; to_; subj] ->
             [ (k, { ov_mailboxes = opt_list mb; ov_from = opt_str from; ov_to = opt_list to_; ov_subject = opt_str subj }) ]
         | _ -> failwith ("bad msg rule " ^ v))) (split ',' t))

(* the assembled-system stream reads the store through the REST API: subject, size, source *)
let show_store_asm (ds : delivery list) : string =
  let st = store_after [] ds in
  let boxes = List.map (fun (name, ms) ->
    (raw_of_str name,
     String.concat "/" (List.map (fun d ->
       let src = raw_of_str (stored_source d.d_retpath d.d_helo ip domain d.d_mailbox d.d_body) in
       String.concat ":" [ field_of_str d.d_subject; string_of_int (String.length src); Mlutil.hex src ]) ms))) st in
  let boxes = List.sort (fun (a, _) (b, _) -> compare a b) boxes in
  if boxes = [] then "-" else
  String.concat "," (List.map (fun (n, ms) -> Mlutil.hex n ^ "=" ^ ms) boxes)

let sort_within (dump : string) : string =
  if dump = "-" then dump else
  String.concat "," (List.map (fun b ->
    let j = String.index b '=' in
    let ms = List.sort compare (String.split_on_char '/' (String.sub b (j + 1) (String.length b - j - 1))) in
    String.sub b 0 (j + 1) ^ String.concat "/" ms) (String.split_on_char ',' dump))

let hooked (it : item) : bool =
  match it with
  | L (Mail (_, h)) | L (Rcpt (_, h)) -> h <> NoAns
  | B (PBlock (_, _, Some _)) -> true
  | _ -> false

let handle_smtp (kind : string) (ins : string list) (outs : string list) : bool =
  let f = str_of_field in
  (match ins with
   | _ :: _ :: _ :: _ :: _ :: _ :: _ :: _ :: _ :: _ :: store :: _ ->
       cap_of_case := (match String.index_opt store ':' with
                       | Some i -> (try int_of_string (String.sub store (i + 1) (String.length store - i - 1)) with _ -> 0)
                       | None -> 0)
   | _ -> cap_of_case := 0);
  let go naming maxr maxb da acc rej ds sto dis rejo streams rules =
        let pol = load_cfg (bool_of_field da) (f acc) (f rej) (bool_of_field ds) (f sto) (f dis) (f rejo) in
        let c = { pol = pol; max_rcpt = z_of_int (int_of_string maxr); max_bytes = z_of_int (int_of_string maxb);
                  tls_enabled = (kind = "smtptls") } in
        (* lua kinds carry a 7th observation: the raw reply lines (hex, ',' within a session, '|' between sessions) *)
        let (outs, raw_lines) = match outs with
          | [a; b; c; d; e; f; raw] -> ([a; b; c; d; e; f], Some raw)
          | _ -> (outs, None) in
        (match outs with
         | [replies; mt; rt; ht; dump; status] ->
             let (mh, rh, gh) = rules in
             let (status, iptab) = match String.index_opt status ';' with
               | Some i -> (String.sub status 0 i, String.sub status (i + 1) (String.length status - i - 1))
               | None -> (status, "-") in
             let tab = Hashtbl.create 16 in
             List.iter (fun e -> match String.split_on_char '=' e with
               | [k; v] -> Hashtbl.replace tab (Mlutil.unhex k) (v = "1") | _ -> ()) (split ',' iptab);
             let ip_miss = ref false in
             let pip (x : str) = match Hashtbl.find_opt tab (raw_of_str x) with
               | Some v -> v | None -> ip_miss := true; false in
             let mode = match naming with "full" -> Full | "domain" -> Domain | _ -> Local in
             addr_diverged := false;
             size_unseen := false;
             plain_refused := false;
             let rcpt_tab = parse_rcpt_table pip mode rt in
             (* smtpallow: an extension allows every recipient *)
             let rh = if kind = "smtpallow"
               then List.concat (List.map (fun (_, r) -> match r with Some r -> [(r.r_addr, Allow)] | None -> []) rcpt_tab)
               else rh in
             let mail_tab = parse_mail_table pip mt in
             (* smtpallow: ... and every sender *)
             let mh = if kind = "smtpallow"
               then List.concat (List.map (fun (_, f) -> match f.mf_origin with Some og -> [(og.o_addr, Allow)] | None -> []) mail_tab)
               else mh in
             (* luareload: Lua host, second listener, a third one that allows everything - then the script is loaded again:
                EventBroker.AddListener removes the old "lua" entry and appends the new one at the END. The chain is built with
                the extracted Hooks.chain_add (Proofs/HooksChain.v), every address of the dialogue is asked. *)
             let (mh, rh) = match kind, !reload_tabs with
               | "luareload", Some (ml, rl, ml2, rl2) ->
                   let nm x = str_of_raw x in
                   let chain_of first second =
                     chain_add (nm "lua") (table_listener first)
                       (chain_add (nm "third") (fun _ -> Some Allow)
                          (chain_add (nm "second") (table_listener second)
                             (chain_add (nm "lua") (table_listener first) []))) in
                   let cm = chain_of ml ml2 and cr = chain_of rl rl2 in
                   (List.concat (List.map (fun (_, f) -> match f.mf_origin with
                      | Some og -> [(og.o_addr, session_answer (chain_emit cm og.o_addr))] | None -> []) mail_tab),
                    List.concat (List.map (fun (_, r) -> match r with
                      | Some r -> [(r.r_addr, session_answer (chain_emit cr r.r_addr))] | None -> []) rcpt_tab))
               | _ -> (mh, rh) in
             let o = { t_mail = mail_tab; t_rcpt = rcpt_tab; t_mail_hook = mh;
                       t_rcpt_hook = rh; t_hdr = parse_hdr_table ht; t_msg_hook = gh } in
             let impl_replies = String.split_on_char '|' replies in
             let par = kind = "luapar" || kind = "smtppar" || kind = "smtprm" in
             let v = ref [] in
             let add x = if not (List.mem x !v) then v := x :: !v in
             let m_replies = ref [] and m_deliv = ref [] and ent_all = ref [] in
             (* with failing writes: the deliveries of the one block the client had transmitted but not seen acknowledged *)
             let extra_alt = ref None in
             List.iteri (fun idx stream ->
               (* smtprm: another client removes everything the earlier sessions stored: only the last one's deliveries stay *)
               if kind = "smtprm" then begin ent_all := []; m_deliv := [] end;
               (* stream field: hex chunks separated by '~' (a pause longer than the idle timeout), optionally
                  "!idle" / "!err" for how the connection ends; a plain hex field is one chunk ended by EOF *)
               (* "^k": the server's writes fail after k reply lines (greeting included) *)
               let (stream, wl) = match String.index_opt stream '^' with
                 | Some i -> (String.sub stream 0 i,
                              (try Some (nat_of_int (int_of_string (String.sub stream (i + 1) (String.length stream - i - 1)))) with _ -> None))
                 | None -> (stream, None) in
               let (body, fin) = match String.index_opt stream '!' with
                 | Some i -> (String.sub stream 0 i,
                              (match String.sub stream (i + 1) (String.length stream - i - 1) with
                               | "idle" -> FIdle | "err" -> FErr | _ -> FEof))
                 | None -> (stream, FEof) in
               let ((items, tr), seen) =
                 match String.index_opt body '@' with
                 | Some i ->
                     (* "<plain>@<secure>": STARTTLS configured; the client upgrades when it is answered 220 *)
                     let p = f (String.sub body 0 i) and t = f (String.sub body (i + 1) (String.length body - i - 1)) in
                     let ((i, t), _) = run_bytes_tls c o p t in ((i, t), replies_of t)
                 | None ->
                 (* '&': a lock-step hand-over (no pause): the bytes are simply consecutive *)
                 let body = String.concat "" (String.split_on_char '&' body) in
                 let chunks = List.map f (String.split_on_char '~' body) in
                 match chunks, fin, wl with
                 | [w], FEof, None -> let ((i, t), _) = run_bytes c o w in ((i, t), replies_of t)
                 | _ -> run_net_w c o chunks fin wl in
               m_replies := show_replies seen :: !m_replies;
               m_deliv := !m_deliv @ deliveries_of tr;
               let ir = parse_replies (try List.nth impl_replies idx with _ -> "-") in
               (* the oracles: the specifications applied to the implementation's answers *)
               let dlg = attach items ir in
               (* failing writes: the client saw only some reply lines. The black-box rules are evaluated on the items whose
                  replies it saw in full; the store may hold, beyond what those entitle, at most the deliveries of the one
                  block it had completely transmitted (the iteration in which the write failed) *)
               let dlg =
                 if wl = None then dlg else begin
                   let rec keep ds ts = match ds, ts with
                     | (it, r) :: ds', ((_, mr), _) :: ts' when List.length r = List.length mr -> (it, r) :: keep ds' ts'
                     | _ -> [] in
                   let k = keep dlg tr in
                   (match List.rev tr with
                    | ((B (PBlock (_, _, _)), _), d) :: _ when List.length k < List.length tr -> extra_alt := Some d
                    | _ -> ());
                   k
                 end in
               ent_all := !ent_all @ entitled c None [] [] dlg;
               if not (seq_ok false false O dlg) then add "C03:sequencing";
               if not (List.for_all reply_ok dlg) then add "C03:reply-shape";
               (* C05: where the policy decides (no hook answer or an explicit defer), 250 / 550 say what it says *)
               if not (List.for_all (accept_ok c) dlg) then begin
                 add "C05:accept-decision-differs-from-domain-policy";
                 add "C17:defer-did-not-fall-back-to-policy"
               end;
               if wl = None && List.length (List.concat (List.map snd dlg)) <> List.length ir then add "C03:reply-count";
               (* C17: on every line a hook rule applies to, the reply must be the one the hook's answer dictates *)
               List.iteri (fun i (it, r) ->
                 let ((_, mr), _) = List.nth tr i in
                 if hooked it && r <> mr then add "C17:reply-differs-from-hook-answer") dlg;
               (* C17: a denied MAIL / RCPT is refused with the hook's code AND text: the raw line is "%03d <text>" *)
               (match raw_lines with
                | Some raw when wl = None ->
                    let mine = (try List.nth (String.split_on_char '|' raw) idx with _ -> "-") in
                    let lines = if mine = "-" then [] else List.map Mlutil.unhex (String.split_on_char ',' mine) in
                    let pos = ref 0 in
                    List.iter (fun (it, r) ->
                      (match it with
                       | L (Mail (_, Deny (code, text))) | L (Rcpt (_, Deny (code, text))) when List.length r = 1 ->
                           (* the extracted Hooks.deny_line: its format is pinned to the source (Proofs/HooksDenyLine.v) *)
                           let want = raw_of_str (deny_line code text) in
                           (match List.nth_opt lines !pos with
                            | Some l when l = want -> ()
                            | Some _ when int_of_z (first_code r) <> int_of_z code -> ()   (* refused earlier for another reason *)
                            | _ -> add "C17:deny-text-differs-from-hook-answer")
                       | _ -> ());
                      pos := !pos + List.length r) dlg
                | _ -> ());
               (* size rule on the implementation's dialogue *)
               let size_viol = List.exists (fun (it, r) ->
                 match it with
                 | B (PBlock (body, _, _)) ->
                     List.length body > int_of_string maxb && int_of_z (first_code r) = 250
                 | L (Mail (MParsed (SzVal n, _), _)) ->
                     int_of_z_sat n > int_of_string maxb && int_of_z (first_code r) = 250
                 | _ -> false) dlg in
               if size_viol then add "C06:oversize-accepted";
               let within_refused = List.exists (fun (it, r) ->
                 match it with
                 | B (PBlock (body, _, _)) ->
                     List.length body <= int_of_string maxb && int_of_z (first_code r) = 552
                 | L (Mail (MParsed (sz, _), h)) ->
                     (* a MAIL declaring nothing, or a size within the limit, refused for its size
                        (unless a hook denied the sender with that code itself) *)
                     (match h with Deny (_, _) -> false | _ -> true)
                     && (match sz with SzNone -> true | SzVal n -> int_of_z_sat n <= int_of_string maxb | SzBad -> false)
                     && int_of_z (first_code r) = 552
                 | _ -> false) dlg in
               if within_refused then add "C06:within-limit-refused";
               (* a completely transmitted block is answered: refused (5xx) when over the limit, accepted (250) when within it
                  and its header block parses - never left without a reply (the session died on it) *)
               if wl = None then List.iter (fun (it, r) ->
                 match it with
                 | B (PBlock (body, hdr, _)) ->
                     if r = [] then add "C06:data-block-got-no-reply"
                     else if List.length body <= int_of_string maxb && hdr <> None && int_of_z (first_code r) <> 250
                     then add "C06:within-limit-not-accepted"
                 | _ -> ()) dlg;
               (* C05: a RCPT answered 250 beyond the recipient limit *)
               let n = ref 0 in
               List.iter (fun (it, r) ->
                 let ok = int_of_z (first_code r) = 250 in
                 match it with
                 | L (Mail (_, _)) -> if ok then n := 0
                 | L (Rcpt (_, _)) -> if ok then begin incr n; if !n > max 0 (int_of_string maxr) then add "C05:recipient-limit-exceeded" end
                 | L Rset | L (Helo _) | L (Ehlo _) -> if ok then n := 0
                 | B _ -> n := 0
                 | _ -> ()) dlg) streams;
             if status <> "ok" then add "C03:session-error";
             if !size_unseen then add "C06:declared-SIZE-not-seen-by-the-MAIL-parser";
             if !plain_refused then begin
               add "C05:plain-MAIL-command-refused-for-its-syntax";
               add "C06:plain-MAIL-command-refused-for-its-syntax"
             end;
             let norm d = if par then sort_within d else d in
             let show_store = if kind = "asm" || kind = "asmtls" || kind = "asmr" then show_store_asm else show_store in
             let store_ok =
               kind = "asmr" ||     (* replies only: the store of this case has a size limit the session model does not carry *)
               norm (show_store !ent_all) = dump ||
               (match !extra_alt with Some d -> norm (show_store (!ent_all @ d)) = dump | None -> false) in
             if not store_ok then begin
               add "C01:store-differs-from-what-the-dialogue-entitles";
               add "C03:partial-phantom-or-misrouted-message";
               add "C05:session-store-or-accept-rule";
               add "C06:store-differs-from-what-the-dialogue-entitles";
               add "C17:store-differs-from-what-dialogue-and-hook-answers-entitle"
             end;
             let mine = List.filter (fun s -> String.length s > 3 && String.sub s 0 3 = pid) !v in
             let verdict = if mine = [] then "ok" else "fail:" ^ String.concat ";" (List.rev mine) in
             let mstatus = if !ip_miss then "IPMISS" else if !addr_diverged then "ADDRESS-MODEL-DIVERGES-FROM-NewRecipient/ParseOrigin" else "ok" in
             Mlutil.print_model [String.concat "|" (List.rev !m_replies); mt; rt; ht; (if kind = "asmr" then dump else norm (show_store !m_deliv)); mstatus ^ ";" ^ iptab] verdict
         | _ -> Mlutil.print_model ["NO-OBSERVATION"] "fail:no-observation"); true in
  match ins with
  | [naming; maxr; maxb; da; acc; rej; ds; sto; dis; rejo; _store; stream] ->
      go naming maxr maxb da acc rej ds sto dis rejo (String.split_on_char '+' stream) ([], [], [])
  | [naming; maxr; maxb; da; acc; rej; ds; sto; dis; rejo; _store; streams; _script; ml; rl; msl] ->
      go naming maxr maxb da acc rej ds sto dis rejo (String.split_on_char '+' streams)
        (parse_smtp_rules ml, parse_smtp_rules rl, parse_msg_rules msl)
  | [naming; maxr; maxb; da; acc; rej; ds; sto; dis; rejo; _store; streams; _script; ml; rl; msl; ml2; rl2; msl2] ->
      (* as below, plus a second listener on before.message_stored: for the subjects of its table it answers with the
         message as handed to it, redirected to one mailbox; it is consulted only where the Lua handler did not answer *)
      let combine (first : (str * hook_ans) list) (second : (str * hook_ans) list) : (str * hook_ans) list =
        let keys = List.sort_uniq compare (List.map fst first @ List.map fst second) in
        (* the extracted Hooks.table_listener / broker_emit / session_answer: what Proofs/HooksCompose.v is about *)
        List.map (fun a -> (a, session_answer (broker_emit [table_listener first; table_listener second] a))) keys in
      let second_msg : (str * overrides) list =
        if msl2 = "-" then [] else
        List.map (fun e ->
          let i = String.index e '=' in
          let k = str_of_field (String.sub e 0 i) and mb = str_of_field (String.sub e (i + 2) (String.length e - i - 2)) in
          (k, { ov_mailboxes = Some [mb]; ov_from = None; ov_to = None; ov_subject = None })) (split ',' msl2) in
      let first_msg = parse_msg_rules msl in
      let msg_keys = List.sort_uniq compare (List.map fst first_msg @ List.map fst second_msg) in
      reload_tabs := (if kind = "luareload" then Some (parse_smtp_rules ml, parse_smtp_rules rl, parse_smtp_rules ml2, parse_smtp_rules rl2) else None);
      (* luareload: on before.message_stored the reloaded Lua host is asked AFTER the second listener *)
      let msg_chain = if kind = "luareload"
        then [(fun k -> List.assoc_opt k second_msg); (fun k -> List.assoc_opt k first_msg)]
        else [(fun k -> List.assoc_opt k first_msg); (fun k -> List.assoc_opt k second_msg)] in
      let msg_rules = List.concat (List.map (fun k ->
        match broker_emit msg_chain k with
        | Some ov -> [(k, ov)] | None -> []) msg_keys) in
      go naming maxr maxb da acc rej ds sto dis rejo (String.split_on_char '+' streams)
        (combine (parse_smtp_rules ml) (parse_smtp_rules ml2), combine (parse_smtp_rules rl) (parse_smtp_rules rl2), msg_rules)
  | [naming; maxr; maxb; da; acc; rej; ds; sto; dis; rejo; _store; streams; _script; ml; rl; msl; ml2; rl2] ->
      (* two listeners on each SMTP broker, the Lua host first: the answer is EventBroker.Emit's
         (model: Hooks.emit) - the first listener that answers; NoAns = nil result *)
      let combine (first : (str * hook_ans) list) (second : (str * hook_ans) list) : (str * hook_ans) list =
        let keys = List.sort_uniq compare (List.map fst first @ List.map fst second) in
        (* the extracted Hooks.table_listener / broker_emit / session_answer: what Proofs/HooksCompose.v is about *)
        List.map (fun a -> (a, session_answer (broker_emit [table_listener first; table_listener second] a))) keys in
      go naming maxr maxb da acc rej ds sto dis rejo (String.split_on_char '+' streams)
        (combine (parse_smtp_rules ml) (parse_smtp_rules ml2), combine (parse_smtp_rules rl) (parse_smtp_rules rl2),
         parse_msg_rules msl)
  | _ -> false

let () =
  Mlutil.iter_lines (fun line ->
    let (kind, ins, outs) = Mlutil.split_case line in
    if (kind = "smtp" || kind = "smtpallow" || kind = "smtpdefer" || kind = "smtptls" || kind = "smtppar" || kind = "smtprm" || kind = "asm" || kind = "asmtls" || kind = "asmr" || kind = "lua" || kind = "luareload" || kind = "luapar") && handle_smtp kind ins outs then ()
    else Mlutil.print_model ["UNKNOWN-KIND"] "ok")

package rest

import (
	"io"
	"net/http"
	"net/http/httptest"
	"strings"
	"testing"

	"github.com/inbucket/inbucket/v3/pkg/config"
	"github.com/inbucket/inbucket/v3/pkg/extension"
	"github.com/inbucket/inbucket/v3/pkg/message"
	"github.com/inbucket/inbucket/v3/pkg/msghub"
	"github.com/inbucket/inbucket/v3/pkg/policy"
	"github.com/inbucket/inbucket/v3/pkg/rest/client"
	"github.com/inbucket/inbucket/v3/pkg/server/web"
	"github.com/inbucket/inbucket/v3/pkg/storage"
	"github.com/inbucket/inbucket/v3/pkg/storage/file"
	"github.com/inbucket/inbucket/v3/pkg/storage/mem"
)

// Clause under test: "marking seen ... through the HTTP API return[s] and effect[s] exactly what
// the store holds ... on both back-ends".  A PATCH {"seen":true} for an existing message must be
// answered 200 and must set the store's seen flag, however the HTTP client frames the request
// body: with a Content-Length, or -- just as legal in HTTP/1.1, and what Go's own http.Client
// (io.Pipe, json stream, any reader of unknown size), curl -T and Node streams send -- with
// Transfer-Encoding: chunked.
func TestSeedC14N1MarkSeenAnyBodyFraming(t *testing.T) {
	backends := []struct {
		name string
		mk   func(t *testing.T, eh *extension.Host) storage.Store
	}{
		{"memory", func(t *testing.T, eh *extension.Host) storage.Store {
			s, err := mem.New(config.Storage{}, eh)
			if err != nil {
				t.Fatal(err)
			}
			return s
		}},
		{"file", func(t *testing.T, eh *extension.Host) storage.Store {
			s, err := file.New(config.Storage{Params: map[string]string{"path": t.TempDir()}}, eh)
			if err != nil {
				t.Fatal(err)
			}
			return s
		}},
	}

	SetupRoutes(web.Router.PathPrefix("/api/").Subrouter())

	for _, be := range backends {
		t.Run(be.name, func(t *testing.T) {
			conf := &config.Root{
				MailboxNaming: config.LocalNaming,
				SMTP:          config.SMTP{DefaultAccept: true, DefaultStore: true},
				Web:           config.Web{UIDir: "../ui"},
			}
			extHost := extension.NewHost()
			store := be.mk(t, extHost)
			addrPolicy := &policy.Addressing{Config: conf}
			mgr := &message.StoreManager{AddrPolicy: addrPolicy, Store: store, ExtHost: extHost}
			web.NewServer(conf, mgr, &msghub.Hub{})
			srv := httptest.NewServer(web.Router)
			defer srv.Close()

			origin, err := addrPolicy.ParseOrigin("from@example.com")
			if err != nil {
				t.Fatal(err)
			}
			rcpt, err := addrPolicy.NewRecipient("box@example.com")
			if err != nil {
				t.Fatal(err)
			}
			for _, subj := range []string{"one", "two"} {
				src := "From: from@example.com\r\nTo: box@example.com\r\nSubject: " + subj +
					"\r\n\r\nbody " + subj + "\r\n"
				if err := mgr.Deliver(origin, []*policy.Recipient{rcpt}, "Received: x", []byte(src)); err != nil {
					t.Fatal(err)
				}
			}
			held, err := store.GetMessages("box")
			if err != nil || len(held) != 2 {
				t.Fatalf("store holds %d messages (err %v), want 2", len(held), err)
			}

			storeSeen := func(id string) bool {
				t.Helper()
				sm, err := store.GetMessage("box", id)
				if err != nil {
					t.Fatal(err)
				}
				return sm.Seen()
			}
			patch := func(id string, chunked bool) (int, string) {
				t.Helper()
				var body io.Reader = strings.NewReader(`{"seen":true}`)
				if chunked {
					// A reader whose length net/http cannot know: sent with Transfer-Encoding: chunked.
					body = io.NopCloser(body)
				}
				req, err := http.NewRequest(http.MethodPatch, srv.URL+"/api/v1/mailbox/box/"+id, body)
				if err != nil {
					t.Fatal(err)
				}
				if chunked {
					req.ContentLength = -1
				}
				resp, err := http.DefaultClient.Do(req)
				if err != nil {
					t.Fatalf("PATCH: %v", err)
				}
				defer resp.Body.Close()
				b, _ := io.ReadAll(resp.Body)
				return resp.StatusCode, strings.TrimSpace(string(b))
			}

			// Control: the framing every quick test (and the bundled client) uses.
			id1 := held[0].ID()
			if code, body := patch(id1, false); code != http.StatusOK {
				t.Errorf("PATCH seen=true with Content-Length for %s: got %d %q, want 200", id1, code, body)
			}
			if !storeSeen(id1) {
				t.Errorf("after PATCH seen=true with Content-Length the store holds seen=false for %s", id1)
			}

			// The same request with a chunked body.
			id2 := held[1].ID()
			code, body := patch(id2, true)
			if code != http.StatusOK {
				t.Errorf("PATCH seen=true with a chunked body for existing message %s: got %d %q, want 200",
					id2, code, body)
			}
			if !storeSeen(id2) {
				t.Errorf("after PATCH seen=true with a chunked body the store holds seen=false for %s", id2)
			}

			// What the API lists must be what the store holds, both messages are seen now.
			c, err := client.New(srv.URL)
			if err != nil {
				t.Fatal(err)
			}
			hdrs, err := c.ListMailbox("box")
			if err != nil || len(hdrs) != 2 {
				t.Fatalf("ListMailbox returned %d messages (err %v), want 2", len(hdrs), err)
			}
			for _, h := range hdrs {
				if !h.Seen {
					t.Errorf("listing reports seen=false for %s after it was marked seen through the API", h.ID)
				}
			}

			// A chunked PATCH for a message that does not exist is still a plain 404.
			if code, body := patch("9999", true); code != http.StatusNotFound {
				t.Errorf("PATCH seen=true with a chunked body for a missing message: got %d %q, want 404", code, body)
			}
		})
	}
}

package file

import (
	"context"
	"fmt"
	"io"
	"net/mail"
	"os"
	"sort"
	"strings"
	"testing"
	"time"

	"github.com/inbucket/inbucket/v3/pkg/config"
	"github.com/inbucket/inbucket/v3/pkg/extension"
	"github.com/inbucket/inbucket/v3/pkg/extension/event"
	"github.com/inbucket/inbucket/v3/pkg/message"
	"github.com/inbucket/inbucket/v3/pkg/storage"
	"github.com/inbucket/inbucket/v3/pkg/stringutil"
)

// C10 / g1 demonstration.
//
// History: lifetime 1 delivers (already expired) mail to three mailboxes and the server is stopped.
// Lifetime 2 (a freshly constructed Store on the same path; nothing of lifetime 1 is kept) first
// receives a delivery for a mailbox that does not exist yet - which is what a disposable mail
// server does within seconds of coming up, the retention scanner only wakes after a minute - and
// only then walks the store (VisitMailboxes, the retention scan).
//
// C10 demands that the reopened store shows every mailbox with the same messages as before and
// that retention continues to work on it.

func seedC10G1Open(t *testing.T, dir string) storage.Store {
	t.Helper()
	s, err := New(config.Storage{Params: map[string]string{"path": dir}}, extension.NewHost())
	if err != nil {
		t.Fatal(err)
	}
	return s
}

func seedC10G1Deliver(t *testing.T, s storage.Store, mailbox, subject string, date time.Time) string {
	t.Helper()
	body := fmt.Sprintf("To: %s@host\r\nFrom: sender@host\r\nSubject: %s\r\n\r\nBody of %s\r\n",
		mailbox, subject, subject)
	id, err := s.AddMessage(&message.Delivery{
		Meta: event.MessageMetadata{
			Mailbox: mailbox,
			From:    &mail.Address{Name: "Sender", Address: "sender@host"},
			To:      []*mail.Address{{Name: mailbox, Address: mailbox + "@host"}},
			Date:    date,
			Subject: subject,
		},
		Reader: io.NopCloser(strings.NewReader(body)),
	})
	if err != nil {
		t.Fatalf("AddMessage(%s/%s): %v", mailbox, subject, err)
	}
	return id
}

// seedC10G1Visit lists the whole store through VisitMailboxes: "mailbox/id subject" per message.
func seedC10G1Visit(t *testing.T, s storage.Store) []string {
	t.Helper()
	var got []string
	err := s.VisitMailboxes(func(msgs []storage.Message) bool {
		for _, m := range msgs {
			got = append(got, m.Mailbox()+"/"+m.ID()+" "+m.Subject())
		}
		return true
	})
	if err != nil {
		t.Fatalf("VisitMailboxes: %v", err)
	}
	sort.Strings(got)
	return got
}

func TestSeedC10G1ReopenedStoreStillWalksOldMailboxes(t *testing.T) {
	dir, err := os.MkdirTemp("", "inbucket-seed-c10-g1")
	if err != nil {
		t.Fatal(err)
	}
	defer os.RemoveAll(dir)

	old := []string{"alpha", "bravo", "charlie"}
	const fresh = "delta"
	for _, name := range old {
		if stringutil.HashMailboxName(name)[:3] == stringutil.HashMailboxName(fresh)[:3] {
			t.Fatalf("test setup: %q and %q share a first level directory", name, fresh)
		}
	}

	// Lifetime 1: two day old mail in three mailboxes, then the server is stopped.
	expired := time.Now().Add(-48 * time.Hour)
	var want []string
	s1 := seedC10G1Open(t, dir)
	for _, name := range old {
		for _, subj := range []string{"one", "two"} {
			id := seedC10G1Deliver(t, s1, name, subj, expired)
			want = append(want, name+"/"+id+" "+subj)
		}
	}
	sort.Strings(want)
	if got := seedC10G1Visit(t, s1); strings.Join(got, "\n") != strings.Join(want, "\n") {
		t.Fatalf("before the restart the store lists\n%v\nwant\n%v", got, want)
	}
	s1 = nil

	// Lifetime 2 on the same path: a delivery to a new mailbox comes first.
	s2 := seedC10G1Open(t, dir)
	id := seedC10G1Deliver(t, s2, fresh, "hello", time.Now())
	want = append(want, fresh+"/"+id+" hello")
	sort.Strings(want)

	// Clause "every mailbox lists the same messages ... as before".
	if got := seedC10G1Visit(t, s2); strings.Join(got, "\n") != strings.Join(want, "\n") {
		t.Errorf("after the restart VisitMailboxes lists %d messages, want %d\n got: %v\nwant: %v",
			len(got), len(want), got, want)
	}
	// By name the old mail is still there (it is only the walk that lost it).
	for _, name := range old {
		msgs, err := s2.GetMessages(name)
		if err != nil || len(msgs) != 2 {
			t.Fatalf("GetMessages(%s) on the reopened store: %d messages, err %v", name, len(msgs), err)
		}
	}

	// Clause "retention continue[s] to work on the reopened store": a scan with a 24h period has
	// to purge the two day old mail of lifetime 1 and keep today's message.
	rs := storage.NewRetentionScanner(config.Storage{RetentionPeriod: 24 * time.Hour}, s2)
	if err := rs.DoScan(context.Background()); err != nil {
		t.Fatalf("retention scan: %v", err)
	}
	for _, name := range old {
		msgs, err := s2.GetMessages(name)
		if err != nil {
			t.Fatal(err)
		}
		if len(msgs) != 0 {
			t.Errorf("retention on the reopened store left %d expired messages in %q", len(msgs), name)
		}
	}
	if msgs, _ := s2.GetMessages(fresh); len(msgs) != 1 {
		t.Errorf("retention removed today's message from %q", fresh)
	}

	// The loss is not transient: later scans of this lifetime do not find the old mailboxes either.
	if err := rs.DoScan(context.Background()); err != nil {
		t.Fatalf("retention scan: %v", err)
	}
	left := 0
	for _, name := range old {
		msgs, _ := s2.GetMessages(name)
		left += len(msgs)
	}
	if left != 0 {
		t.Errorf("after a second scan %d expired messages of the previous lifetime are still stored", left)
	}
}

package mem

import (
	"fmt"
	"sync"
	"testing"
	"time"

	"github.com/inbucket/inbucket/v3/pkg/config"
	"github.com/inbucket/inbucket/v3/pkg/extension"
	"github.com/inbucket/inbucket/v3/pkg/extension/event"
	"github.com/inbucket/inbucket/v3/pkg/test"
)

// C16: "every message that leaves a mailbox for any reason - explicit delete ... - produces exactly
// one 'deleted' event with the same identity".
//
// History: 120 messages are delivered to one mailbox of a memory store (no limits) and then deleted
// explicitly, one after the other.  48 permanent listeners, registered through the public
// extension.Host API, record every 'deleted' event they are handed.  One more listener ("probe") was
// registered BEFORE them and is unregistered by another goroutine while the deletes are going on,
// the way a short-lived subscriber (extension.AsyncTestListener, a test harness, a reloaded
// extension) does.
//
// Whatever the probe does, each permanent listener must see each of the 120 identities exactly once.
func TestZZSeedC16N1ListenerLeavesWhileMessagesAreDeleted(t *testing.T) {
	const (
		rounds    = 40
		auditors  = 48
		nMessages = 120
		mailbox   = "box"
	)

	for round := 0; round < rounds; round++ {
		extHost := extension.NewHost()
		s, err := New(config.Storage{}, extHost)
		if err != nil {
			t.Fatal(err)
		}
		deleted := &extHost.Events.AfterMessageDeleted

		// Short-lived first listener; tells us when the deletes are under way.
		probeSeen := make(chan struct{}, nMessages)
		deleted.AddListener("probe", func(event.MessageMetadata) {
			probeSeen <- struct{}{}
		})

		// Permanent listeners.
		var mu sync.Mutex
		seen := make([]map[string]int, auditors)
		total := 0
		for i := 0; i < auditors; i++ {
			i := i
			seen[i] = make(map[string]int)
			deleted.AddListener(fmt.Sprintf("audit-%02d", i), func(m event.MessageMetadata) {
				mu.Lock()
				seen[i][m.Mailbox+"/"+m.ID]++
				total++
				mu.Unlock()
			})
		}

		// Deliveries.
		ids := make([]string, 0, nMessages)
		for i := 0; i < nMessages; i++ {
			id, _ := test.DeliverToStore(t, s, mailbox, fmt.Sprintf("subject %d", i), time.Now())
			ids = append(ids, id)
		}

		// Explicit deletes, one after the other.
		done := make(chan struct{})
		go func() {
			defer close(done)
			for _, id := range ids {
				if err := s.RemoveMessage(mailbox, id); err != nil {
					panic(err)
				}
			}
		}()

		// The probe has seen a few events and leaves.
		for i := 0; i < 5; i++ {
			<-probeSeen
		}
		deleted.RemoveListener("probe")
		<-done

		// Quiescence: wait until no further event has arrived for a while.
		last, stable := -1, 0
		for stable < 5 {
			time.Sleep(10 * time.Millisecond)
			mu.Lock()
			cur := total
			mu.Unlock()
			if cur == last {
				stable++
			} else {
				stable = 0
			}
			last = cur
		}

		// Every permanent listener saw every removed message exactly once.
		mu.Lock()
		for i := 0; i < auditors; i++ {
			for _, id := range ids {
				key := mailbox + "/" + id
				if n := seen[i][key]; n != 1 {
					t.Errorf("round %d: listener audit-%02d was handed %d 'deleted' events for %s, "+
						"which left its mailbox exactly once (want 1)", round, i, n, key)
				}
			}
		}
		mu.Unlock()
		if t.Failed() {
			return
		}
	}
}

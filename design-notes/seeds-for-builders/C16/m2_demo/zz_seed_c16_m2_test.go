//go:build verif

package mem

import (
	"io"
	"strings"
	"sync"
	"testing"
	"time"

	"github.com/inbucket/inbucket/v3/pkg/config"
	"github.com/inbucket/inbucket/v3/pkg/extension"
	"github.com/inbucket/inbucket/v3/pkg/extension/event"
	"github.com/inbucket/inbucket/v3/pkg/message"
	"github.com/inbucket/inbucket/v3/pkg/verifhook"
	"github.com/stretchr/testify/require"
)

func seedC16Deliver(t *testing.T, s *Store, mailbox string, size int) string {
	t.Helper()
	body := "Subject: x\r\n\r\n" + strings.Repeat("a", size-16) + "\n"
	id, err := s.AddMessage(&message.Delivery{
		Meta:   event.MessageMetadata{Mailbox: mailbox, Subject: "x", Date: time.Now()},
		Reader: io.NopCloser(strings.NewReader(body)),
	})
	require.NoError(t, err)
	return id
}

// A client deletes the oldest message; before its removal notice reaches the size enforcer, a
// delivery to another mailbox pushes the store over maxkb and the enforcer picks that same
// message for eviction.  The message left its mailbox once, so exactly one deleted event is due.
func TestZZSeedC16M2DeleteRacesSizeEviction(t *testing.T) {
	extHost := extension.NewHost()
	var mu sync.Mutex
	deleted := map[string]int{}
	extHost.Events.AfterMessageDeleted.AddListener("seed", func(m event.MessageMetadata) {
		mu.Lock()
		deleted[m.Mailbox+"/"+m.ID]++
		mu.Unlock()
	})

	st, err := New(config.Storage{Params: map[string]string{"maxkb": "1"}}, extHost)
	require.NoError(t, err)
	s := st.(*Store)

	id1 := seedC16Deliver(t, s, "alice", 400)
	seedC16Deliver(t, s, "alice", 400)

	// Park the deleting client just before it notifies the size enforcer.
	parked := make(chan struct{})
	resume := make(chan struct{})
	var once sync.Once
	verifhook.Set(func(site, arg string) {
		if site == "mem.enfremove" && arg == id1 {
			hit := false
			once.Do(func() { hit = true })
			if hit {
				close(parked)
				<-resume
			}
		}
	})
	defer verifhook.Set(nil)

	done := make(chan error, 1)
	go func() { done <- s.RemoveMessage("alice", id1) }()
	select {
	case <-parked:
	case <-time.After(5 * time.Second):
		t.Fatal("delete did not reach the enforcer notification step")
	}

	// 800 bytes accounted, this delivery makes it 1200 > 1024: the enforcer evicts its oldest.
	seedC16Deliver(t, s, "bob", 400)

	close(resume)
	select {
	case err := <-done:
		require.NoError(t, err)
	case <-time.After(5 * time.Second):
		t.Fatal("delete did not complete")
	}

	// Quiescence of the asynchronous dispatch.
	time.Sleep(300 * time.Millisecond)
	mu.Lock()
	defer mu.Unlock()
	require.Equal(t, map[string]int{"alice/" + id1: 1}, deleted,
		"exactly one deleted event for the one message that left its mailbox")
}

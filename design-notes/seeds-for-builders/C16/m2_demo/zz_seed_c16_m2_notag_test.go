package mem

import (
	"io"
	"strings"
	"sync"
	"testing"
	"time"

	"github.com/inbucket/inbucket/v3/pkg/config"
	"github.com/inbucket/inbucket/v3/pkg/extension"
	"github.com/inbucket/inbucket/v3/pkg/extension/event"
	"github.com/inbucket/inbucket/v3/pkg/message"
	"github.com/stretchr/testify/require"
)

func seedC16DeliverNT(s *Store, mailbox string, size int) (string, error) {
	body := "Subject: x\r\n\r\n" + strings.Repeat("a", size-16) + "\n"
	return s.AddMessage(&message.Delivery{
		Meta:   event.MessageMetadata{Mailbox: mailbox, Subject: "x", Date: time.Now()},
		Reader: io.NopCloser(strings.NewReader(body)),
	})
}

// Same scenario as TestZZSeedC16M2DeleteRacesSizeEviction, without instrumentation points: the
// enforcer is held up (by a busy mailbox) while a delete and a large delivery both queue up for
// it; whichever it serves first is up to the scheduler, so the scenario is repeated.  No schedule
// may produce a second deleted event for the message.
func TestZZSeedC16M2DeleteRacesSizeEvictionNoTag(t *testing.T) {
	for round := 0; round < 60; round++ {
		extHost := extension.NewHost()
		var mu sync.Mutex
		deleted := map[string]int{}
		extHost.Events.AfterMessageDeleted.AddListener("seed", func(m event.MessageMetadata) {
			mu.Lock()
			deleted[m.Mailbox+"/"+m.ID]++
			mu.Unlock()
		})
		st, err := New(config.Storage{Params: map[string]string{"maxkb": "1"}}, extHost)
		require.NoError(t, err)
		s := st.(*Store)

		_, err = seedC16DeliverNT(s, "stall", 400)
		require.NoError(t, err)
		id1, err := seedC16DeliverNT(s, "alice", 400)
		require.NoError(t, err)

		// A long reader keeps mailbox "stall" busy: the enforcer's next eviction has to wait.
		s.Lock()
		stall := s.boxes["stall"]
		s.Unlock()
		stall.RLock()

		var wg sync.WaitGroup
		wg.Add(3)
		go func() { // 1200 > 1024: evicts stall/1, waits for the mailbox.
			defer wg.Done()
			_, _ = seedC16DeliverNT(s, "carol", 400)
		}()
		time.Sleep(5 * time.Millisecond)
		go func() { // Out of its mailbox at once, the enforcer notice queues up.
			defer wg.Done()
			_ = s.RemoveMessage("alice", id1)
		}()
		go func() { // Queues up for the enforcer too; would evict alice/1 and carol/1.
			defer wg.Done()
			_, _ = seedC16DeliverNT(s, "bob", 700)
		}()
		time.Sleep(5 * time.Millisecond)
		stall.RUnlock()
		wg.Wait()

		time.Sleep(20 * time.Millisecond)
		mu.Lock()
		n := deleted["alice/"+id1]
		mu.Unlock()
		require.Equal(t, 1, n, "round %d: deleted events for alice/%s", round, id1)
		close(s.incoming)
	}
}

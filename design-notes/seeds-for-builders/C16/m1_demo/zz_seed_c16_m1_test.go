package extension_test

import (
	"fmt"
	"sync"
	"testing"
	"time"

	"github.com/inbucket/inbucket/v3/pkg/extension"
	"github.com/inbucket/inbucket/v3/pkg/extension/event"
	"github.com/stretchr/testify/require"
)

// A listener that is still busy with an earlier event while bursts of further events are emitted
// must nevertheless see every event exactly once, in emit order.
func TestZZSeedC16M1BurstsWhileListenerBusy(t *testing.T) {
	host := extension.NewHost()

	var mu sync.Mutex
	var got []string
	entered := make(chan string, 64)
	release := make(chan struct{}, 64)
	host.Events.AfterMessageStored.AddListener("seed", func(m event.MessageMetadata) {
		entered <- m.ID
		<-release
		mu.Lock()
		got = append(got, m.Mailbox+"/"+m.ID)
		mu.Unlock()
	})

	waitEntered := func() {
		t.Helper()
		select {
		case <-entered:
		case <-time.After(5 * time.Second):
			t.Fatal("listener was not invoked")
		}
	}

	const total = 11
	var want []string
	next := 1
	emit := func() {
		ev := event.MessageMetadata{Mailbox: "box", ID: fmt.Sprintf("%d", next)}
		want = append(want, "box/"+ev.ID)
		next++
		host.Events.AfterMessageStored.Emit(&ev)
	}

	// First event: the listener is now busy.
	emit()
	waitEntered()
	delivered := 0
	for next <= total {
		// Two more messages are stored while the listener is busy.
		emit()
		emit()
		// The listener finishes one event and starts on the next.
		release <- struct{}{}
		delivered++
		waitEntered()
	}
	// Let the listener finish everything else.
	for delivered < total {
		release <- struct{}{}
		delivered++
		if delivered < total {
			waitEntered()
		}
	}
	// Any surplus invocation (duplicate) would show up here.
	select {
	case id := <-entered:
		release <- struct{}{}
		t.Fatalf("listener invoked more often than events were emitted (extra call for id %s)", id)
	case <-time.After(200 * time.Millisecond):
	}

	mu.Lock()
	defer mu.Unlock()
	require.Equal(t, want, got, "each stored event must reach the listener exactly once, in order")
}

package msghub

import (
	"context"
	"strconv"
	"testing"
	"time"

	"github.com/inbucket/inbucket/v3/pkg/extension"
	"github.com/inbucket/inbucket/v3/pkg/extension/event"
)

// A listener that joins after a delete must not be replayed the deleted message, whichever
// retained message was deleted and however full the history is.
func TestSeedC15M1DeletedMessageNotReplayed(t *testing.T) {
	const historyLen = 4
	for stored := 1; stored <= 2*historyLen+1; stored++ {
		first := 0
		if stored > historyLen {
			first = stored - historyLen
		}
		for victim := first; victim < stored; victim++ {
			name := "stored=" + strconv.Itoa(stored) + "/delete=" + strconv.Itoa(victim)
			t.Run(name, func(t *testing.T) {
				ctx, cancel := context.WithCancel(context.Background())
				defer cancel()
				hub := New(historyLen, extension.NewHost())
				go hub.Start(ctx)

				for i := 0; i < stored; i++ {
					hub.Dispatch(event.MessageMetadata{Mailbox: "box", ID: strconv.Itoa(i)})
				}
				hub.Delete("box", strconv.Itoa(victim))

				want := make([]string, 0, historyLen)
				for i := first; i < stored; i++ {
					if i != victim {
						want = append(want, strconv.Itoa(i))
					}
				}

				l := newTestListener(1000)
				hub.AddListener(l)
				synced := make(chan struct{})
				go func() {
					hub.Sync()
					close(synced)
				}()
				select {
				case <-synced:
				case <-time.After(5 * time.Second):
					t.Fatal("hub did not sync")
				}

				got := make([]string, 0, len(l.messages))
				for _, m := range l.messages {
					got = append(got, m.ID)
				}
				if len(got) != len(want) {
					t.Fatalf("replayed history %v, want %v", got, want)
				}
				for i := range want {
					if got[i] != want[i] {
						t.Fatalf("replayed history %v, want %v", got, want)
					}
				}
			})
		}
	}
}

package rest

import (
	"context"
	"fmt"
	"net/http"
	"net/http/httptest"
	"strconv"
	"strings"
	"sync"
	"testing"
	"time"

	"github.com/gorilla/websocket"
	"github.com/inbucket/inbucket/v3/pkg/extension"
	"github.com/inbucket/inbucket/v3/pkg/extension/event"
	"github.com/inbucket/inbucket/v3/pkg/msghub"
	"github.com/inbucket/inbucket/v3/pkg/rest/model"
	"github.com/inbucket/inbucket/v3/pkg/server/web"
)

// seedN1Witness is a well-behaved monitor that is attached before anything happens; it must see
// every stored event exactly once and in order, whatever other monitors do.
type seedN1Witness struct {
	sync.Mutex
	ids []string
}

func (w *seedN1Witness) Receive(msg event.MessageMetadata) error {
	w.Lock()
	defer w.Unlock()
	w.ids = append(w.ids, msg.ID)
	return nil
}

func (w *seedN1Witness) Delete(mailbox string, id string) error { return nil }

func (w *seedN1Witness) got() []string {
	w.Lock()
	defer w.Unlock()
	return append([]string(nil), w.ids...)
}

func seedN1Sync(hub *msghub.Hub, d time.Duration) bool {
	done := make(chan struct{})
	go func() {
		hub.Sync()
		close(done)
	}()
	select {
	case <-done:
		return true
	case <-time.After(d):
		return false
	}
}

// A real WebSocket monitor connects (through the real v1/v2 web handlers) to a hub whose retained
// history is `retained` messages long (monitor history configured to 150).  C15 demands that the
// client first receives the retained history oldest first, then every later event, and that no
// other monitor misses anything and the hub never blocks.
func TestSeedC15N1MonitorJoinsLongHistory(t *testing.T) {
	const historyLen = 150
	for _, api := range []string{"v1", "v2"} {
		for _, retained := range []int{100, 101, 130} {
			api, retained := api, retained
			t.Run(fmt.Sprintf("%s/retained=%d", api, retained), func(t *testing.T) {
				ctx, cancel := context.WithCancel(context.Background())
				defer cancel()
				hub := msghub.New(historyLen, extension.NewHost())
				go hub.Start(ctx)

				witness := &seedN1Witness{}
				hub.AddListener(witness)

				for i := 0; i < retained; i++ {
					hub.Dispatch(event.MessageMetadata{Mailbox: "box", ID: strconv.Itoa(i)})
				}
				if !seedN1Sync(hub, 5*time.Second) {
					t.Fatal("setup: hub did not process the initial dispatches")
				}

				// The real handler, served over a real socket.
				wctx := &web.Context{MsgHub: hub}
				srv := httptest.NewServer(http.HandlerFunc(
					func(w http.ResponseWriter, r *http.Request) {
						if api == "v1" {
							_ = MonitorAllMessagesV1(w, r, wctx)
						} else {
							_ = MonitorAllMessagesV2(w, r, wctx)
						}
					}))
				defer func() {
					srv.CloseClientConnections()
					go srv.Close()
				}()

				url := "ws" + strings.TrimPrefix(srv.URL, "http")
				conn, _, err := websocket.DefaultDialer.Dial(url, nil)
				if err != nil {
					t.Fatalf("dial: %v", err)
				}
				defer conn.Close()

				readID := func() (string, error) {
					_ = conn.SetReadDeadline(time.Now().Add(3 * time.Second))
					if api == "v1" {
						var h model.JSONMessageHeaderV1
						if err := conn.ReadJSON(&h); err != nil {
							return "", err
						}
						return h.ID, nil
					}
					var ev model.JSONMonitorEventV2
					if err := conn.ReadJSON(&ev); err != nil {
						return "", err
					}
					if ev.Variant != "message-stored" || ev.Header == nil {
						return "", fmt.Errorf("unexpected event %+v", ev)
					}
					return ev.Header.ID, nil
				}

				// Clause 1: retained history, oldest first.
				historyOK := true
				for i := 0; i < retained && historyOK; i++ {
					id, err := readID()
					if err != nil {
						t.Errorf("clause 'first receives the retained history': "+
							"client got only %d of %d retained messages: %v", i, retained, err)
						historyOK = false
					} else if id != strconv.Itoa(i) {
						t.Errorf("history out of order: position %d has id %s", i, id)
						historyOK = false
					}
				}

				// Clause 2: a later event reaches the new client and the old witness; hub not blocked.
				next := strconv.Itoa(retained)
				hub.Dispatch(event.MessageMetadata{Mailbox: "box", ID: next})
				if !seedN1Sync(hub, 5*time.Second) {
					t.Errorf("clause 'without ever blocking the hub': Sync did not return within 5s")
				}
				w := witness.got()
				if len(w) != retained+1 || w[len(w)-1] != next {
					t.Errorf("clause 'no other listener misses an event': the witness monitor saw "+
						"%d events, want %d ending in id %s", len(w), retained+1, next)
				}
				if historyOK {
					id, err := readID()
					if err != nil || id != next {
						t.Errorf("clause 'every subsequent event': client got id=%q err=%v, want %s",
							id, err, next)
					}
				}
			})
		}
	}
}

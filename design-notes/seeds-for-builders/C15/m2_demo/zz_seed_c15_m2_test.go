package rest

import (
	"context"
	"strconv"
	"sync"
	"sync/atomic"
	"testing"
	"time"

	"github.com/inbucket/inbucket/v3/pkg/extension"
	"github.com/inbucket/inbucket/v3/pkg/extension/event"
	"github.com/inbucket/inbucket/v3/pkg/msghub"
)

// seedC15Collector is a well-behaved hub listener that never blocks.
type seedC15Collector struct {
	mu  sync.Mutex
	ids []string
}

func (c *seedC15Collector) Receive(msg event.MessageMetadata) error {
	c.mu.Lock()
	c.ids = append(c.ids, msg.ID)
	c.mu.Unlock()
	return nil
}

func (c *seedC15Collector) Delete(mailbox string, id string) error { return nil }

func (c *seedC15Collector) snapshot() []string {
	c.mu.Lock()
	defer c.mu.Unlock()
	return append([]string(nil), c.ids...)
}

// A WebSocket listener whose peer stopped reading lets its queue fill up during a burst of
// deliveries; when the socket finally fails and the listener is closed, the hub must carry on and
// the other monitor must have seen every event, in order.
func TestSeedC15M2StalledSocketClosedDuringBurst(t *testing.T) {
	type closer interface{ Close() }
	cases := []struct {
		name string
		mk   func(hub *msghub.Hub) (closer, func() (int, int))
	}{
		{"v1", func(hub *msghub.Hub) (closer, func() (int, int)) {
			ml := newMsgListenerV1(hub, "")
			return ml, func() (int, int) { return len(ml.c), cap(ml.c) }
		}},
		{"v2", func(hub *msghub.Hub) (closer, func() (int, int)) {
			ml := newMsgListenerV2(hub, "")
			return ml, func() (int, int) { return len(ml.c), cap(ml.c) }
		}},
	}
	for _, tc := range cases {
		t.Run(tc.name, func(t *testing.T) {
			ctx, cancel := context.WithCancel(context.Background())
			defer cancel()
			hub := msghub.New(10, extension.NewHost())
			go hub.Start(ctx)

			good := &seedC15Collector{}
			hub.AddListener(good)
			// The stalled socket: nobody takes events from its queue (WSWriter is stuck in a write).
			stalled, queue := tc.mk(hub)
			hub.Sync()

			// Burst of deliveries, larger than the listener queue plus the hub's operation queue.
			const total = 1000
			var sent int64
			burstDone := make(chan struct{})
			go func() {
				defer close(burstDone)
				for i := 0; i < total; i++ {
					hub.Dispatch(event.MessageMetadata{Mailbox: "box", ID: strconv.Itoa(i)})
					atomic.AddInt64(&sent, 1)
				}
			}()

			// Wait until the listener queue is full and the burst is making no more progress.
			deadline := time.Now().Add(10 * time.Second)
			last, stable := int64(-1), 0
			for stable < 10 {
				if time.Now().After(deadline) {
					t.Fatal("burst never backed up behind the stalled listener")
				}
				time.Sleep(20 * time.Millisecond)
				n, c := queue()
				cur := atomic.LoadInt64(&sent)
				if n == c && cur == last {
					stable++
				} else {
					stable = 0
				}
				last = cur
			}

			// The write finally times out: WSWriter returns and closes the listener.
			go stalled.Close()

			select {
			case <-burstDone:
			case <-time.After(5 * time.Second):
				t.Fatalf("hub still blocked 5s after the stalled listener was closed (%d/%d dispatched)",
					atomic.LoadInt64(&sent), total)
			}
			synced := make(chan struct{})
			go func() {
				hub.Sync()
				close(synced)
			}()
			select {
			case <-synced:
			case <-time.After(5 * time.Second):
				t.Fatal("hub.Sync did not return within 5s")
			}

			got := good.snapshot()
			if len(got) != total {
				t.Fatalf("healthy listener received %d events, want %d", len(got), total)
			}
			for i, id := range got {
				if id != strconv.Itoa(i) {
					t.Fatalf("healthy listener event %d has id %s", i, id)
				}
			}
		})
	}
}

package mem

import (
	"context"
	"sync"
	"testing"
	"time"

	"github.com/inbucket/inbucket/v3/pkg/config"
	"github.com/inbucket/inbucket/v3/pkg/extension"
	"github.com/inbucket/inbucket/v3/pkg/storage"
	"github.com/inbucket/inbucket/v3/pkg/test"
)

// racingStore lets other clients act in the window between the retention scanner taking its
// snapshot of a mailbox and the scanner's first removal from it.
type racingStore struct {
	storage.Store
	once    sync.Once
	between func()
}

func (r *racingStore) RemoveMessage(mailbox, id string) error {
	r.once.Do(r.between)
	return r.Store.RemoveMessage(mailbox, id)
}

// While the scanner works on a mailbox, a client deletes the expired message itself and fresh mail
// arrives.  The scan must never remove the fresh mail.
func TestSeedC12M1ScanKeepsFreshMailDeliveredDuringScan(t *testing.T) {
	s, err := New(config.Storage{}, extension.NewHost())
	if err != nil {
		t.Fatal(err)
	}
	const mailbox = "racer"
	oldID, _ := test.DeliverToStore(t, s, mailbox, "expired", time.Now().Add(-48*time.Hour))

	rs := storage.NewRetentionScanner(
		config.Storage{RetentionPeriod: 24 * time.Hour, RetentionSleep: 0},
		&racingStore{
			Store: s,
			between: func() {
				// A POP3/REST client deletes the expired message ...
				if err := s.RemoveMessage(mailbox, oldID); err != nil {
					t.Errorf("client delete: %v", err)
				}
				// ... and new mail is delivered to the same mailbox.
				test.DeliverToStore(t, s, mailbox, "fresh", time.Now())
			},
		})
	if err := rs.DoScan(context.Background()); err != nil {
		t.Fatalf("DoScan: %v", err)
	}

	msgs, err := s.GetMessages(mailbox)
	if err != nil {
		t.Fatal(err)
	}
	if len(msgs) != 1 || msgs[0].Subject() != "fresh" {
		t.Fatalf("retention scan removed mail younger than the retention period: %d messages left, want the 1 fresh message", len(msgs))
	}
}

package file

import (
	"context"
	"fmt"
	"sync"
	"testing"
	"time"

	"github.com/inbucket/inbucket/v3/pkg/config"
	"github.com/inbucket/inbucket/v3/pkg/extension"
	"github.com/inbucket/inbucket/v3/pkg/storage"
	"github.com/inbucket/inbucket/v3/pkg/test"
)

// cancelOnRemove requests shutdown the first time the retention scanner purges a message, i.e.
// while the scan is in the middle of its walk.
type cancelOnRemove struct {
	storage.Store
	once   sync.Once
	cancel context.CancelFunc
}

func (c *cancelOnRemove) RemoveMessage(mailbox, id string) error {
	err := c.Store.RemoveMessage(mailbox, id)
	c.once.Do(c.cancel)
	return err
}

// A retention scan over the file store must stop at the mailbox it is working on when shutdown is
// requested; it must not go on purging the rest of the store.
func TestSeedC12M2ScanStopsOnShutdown(t *testing.T) {
	ds, _ := setupDataStore(config.Storage{}, extension.NewHost())
	defer teardownDataStore(ds)

	// Many mailboxes (they hash into different directories), one expired message each.
	const boxes = 40
	for i := 0; i < boxes; i++ {
		test.DeliverToStore(t, ds, fmt.Sprintf("box%03d", i), "old", time.Now().Add(-48*time.Hour))
	}

	ctx, cancel := context.WithCancel(context.Background())
	defer cancel()
	cfg := config.Storage{
		RetentionPeriod: 24 * time.Hour,
		RetentionSleep:  time.Hour, // only shutdown can end the pause between mailboxes
	}
	rs := storage.NewRetentionScanner(cfg, &cancelOnRemove{Store: ds, cancel: cancel})

	done := make(chan error, 1)
	go func() { done <- rs.DoScan(ctx) }()
	select {
	case err := <-done:
		if err != nil {
			t.Fatalf("DoScan: %v", err)
		}
	case <-time.After(10 * time.Second):
		t.Fatal("DoScan did not return after shutdown was requested")
	}

	// Shutdown was requested while the first mailbox was being processed: exactly that mailbox was
	// purged, every other one must be untouched.
	remaining := 0
	for i := 0; i < boxes; i++ {
		msgs, err := ds.GetMessages(fmt.Sprintf("box%03d", i))
		if err != nil {
			t.Fatal(err)
		}
		remaining += len(msgs)
	}
	if remaining != boxes-1 {
		t.Errorf("scan kept purging after shutdown: %d messages left, want %d", remaining, boxes-1)
	}
}

package file_test

import (
	"fmt"
	"os"
	"sync"
	"testing"
	"time"

	"github.com/inbucket/inbucket/v3/pkg/config"
	"github.com/inbucket/inbucket/v3/pkg/extension"
	"github.com/inbucket/inbucket/v3/pkg/storage"
	"github.com/inbucket/inbucket/v3/pkg/storage/file"
	"github.com/inbucket/inbucket/v3/pkg/test"
	"github.com/rs/zerolog"
)

// TestSeedC09M1 overlaps a mark-seen with a delivery and a removal on the same mailbox of the
// file store.  Whatever the interleaving, the three operations commute, so afterwards the mailbox
// must hold exactly: the first message (seen) and the concurrently delivered one; the removed
// message must be gone.  Randomised (no build tag needed); stops at the first violation.
func TestSeedC09M1(t *testing.T) {
	lvl := zerolog.GlobalLevel()
	zerolog.SetGlobalLevel(zerolog.Disabled)
	defer zerolog.SetGlobalLevel(lvl)

	dir, err := os.MkdirTemp("", "seedc09m1")
	if err != nil {
		t.Fatal(err)
	}
	defer os.RemoveAll(dir)
	s, err := file.New(config.Storage{Params: map[string]string{"path": dir}}, extension.NewHost())
	if err != nil {
		t.Fatal(err)
	}

	const rounds = 1000
	for round := 0; round < rounds; round++ {
		mailbox := fmt.Sprintf("seedbox%d", round)
		idA, _ := test.DeliverToStore(t, s, mailbox, "A", time.Now())
		idC, _ := test.DeliverToStore(t, s, mailbox, "C", time.Now())

		start := make(chan struct{})
		var wg sync.WaitGroup
		var idB string
		var errSeen, errRemove error
		wg.Add(3)
		go func() {
			defer wg.Done()
			<-start
			errSeen = s.MarkSeen(mailbox, idA)
		}()
		go func() {
			defer wg.Done()
			<-start
			idB, _ = test.DeliverToStore(t, s, mailbox, "B", time.Now())
		}()
		go func() {
			defer wg.Done()
			<-start
			errRemove = s.RemoveMessage(mailbox, idC)
		}()
		close(start)
		wg.Wait()

		if errSeen != nil {
			t.Fatalf("round %d: MarkSeen(%s) failed: %v", round, idA, errSeen)
		}
		if errRemove != nil {
			t.Fatalf("round %d: RemoveMessage(%s) failed: %v", round, idC, errRemove)
		}
		msgs, err := s.GetMessages(mailbox)
		if err != nil {
			t.Fatalf("round %d: GetMessages failed: %v", round, err)
		}
		got := map[string]storage.Message{}
		for _, m := range msgs {
			got[m.ID()] = m
		}
		if _, ok := got[idB]; !ok {
			t.Fatalf("round %d: delivery returned id %s but the message is not in the mailbox "+
				"(nothing removed it); mailbox holds %d messages", round, idB, len(msgs))
		}
		if _, ok := got[idC]; ok {
			t.Fatalf("round %d: message %s was removed successfully but is listed again", round, idC)
		}
		if a, ok := got[idA]; !ok || !a.Seen() {
			t.Fatalf("round %d: message %s missing or not seen after MarkSeen returned nil", round, idA)
		}
		if len(msgs) != 2 {
			t.Fatalf("round %d: mailbox holds %d messages, want 2", round, len(msgs))
		}
		if err := s.PurgeMessages(mailbox); err != nil {
			t.Fatalf("round %d: purge failed: %v", round, err)
		}
	}
}

package mem_test

import (
	"io"
	"net/mail"
	"os"
	"runtime/pprof"
	"strings"
	"sync"
	"testing"
	"time"

	"github.com/inbucket/inbucket/v3/pkg/config"
	"github.com/inbucket/inbucket/v3/pkg/extension"
	"github.com/inbucket/inbucket/v3/pkg/extension/event"
	"github.com/inbucket/inbucket/v3/pkg/message"
	"github.com/inbucket/inbucket/v3/pkg/storage"
	"github.com/inbucket/inbucket/v3/pkg/storage/mem"
)

func seedC09Deliver(s storage.Store, mailbox string, bodyLen int) (string, error) {
	meta := event.MessageMetadata{
		Mailbox: mailbox,
		To:      []*mail.Address{{Name: "Some Body", Address: "somebody@host"}},
		From:    &mail.Address{Name: "Some B. Else", Address: "somebodyelse@host"},
		Subject: "s",
		Date:    time.Now(),
	}
	body := "Subject: s\r\n\r\n" + strings.Repeat("x", bodyLen) + "\r\n"
	return s.AddMessage(&message.Delivery{Meta: meta, Reader: io.NopCloser(strings.NewReader(body))})
}

// TestSeedC09M2Random runs plain concurrent deliveries against a memory store that has BOTH a
// per-mailbox message cap and a total size limit configured.  Every delivery must complete.
// Randomised, no build tag needed.
func TestSeedC09M2Random(t *testing.T) {
	s, err := mem.New(config.Storage{
		MailboxMsgCap: 1,
		Params:        map[string]string{"maxkb": "1"},
	}, extension.NewHost())
	if err != nil {
		t.Fatal(err)
	}

	const workers = 8
	const perWorker = 3000
	boxes := []string{"alpha", "beta", "gamma", "delta"}

	var wg sync.WaitGroup
	errs := make(chan error, workers)
	for w := 0; w < workers; w++ {
		wg.Add(1)
		go func(w int) {
			defer wg.Done()
			for i := 0; i < perWorker; i++ {
				if _, err := seedC09Deliver(s, boxes[(w+i)%len(boxes)], 400); err != nil {
					errs <- err
					return
				}
			}
		}(w)
	}
	done := make(chan struct{})
	go func() {
		wg.Wait()
		close(done)
	}()
	select {
	case <-done:
	case <-time.After(15 * time.Second):
		_ = pprof.Lookup("goroutine").WriteTo(os.Stderr, 1)
		t.Fatalf("deliveries did not complete within 15s: store is deadlocked")
	}
	select {
	case err := <-errs:
		t.Fatalf("delivery failed: %v", err)
	default:
	}

	// Sanity: the store still answers and respects the cap.
	for _, b := range boxes {
		msgs, err := s.GetMessages(b)
		if err != nil {
			t.Fatal(err)
		}
		if len(msgs) > 1 {
			t.Errorf("mailbox %s holds %d messages, cap is 1", b, len(msgs))
		}
	}
}

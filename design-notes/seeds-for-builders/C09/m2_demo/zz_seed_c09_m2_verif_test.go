//go:build verif

package mem_test

import (
	"os"
	"runtime/pprof"
	"sync"
	"testing"
	"time"

	"github.com/inbucket/inbucket/v3/pkg/config"
	"github.com/inbucket/inbucket/v3/pkg/extension"
	"github.com/inbucket/inbucket/v3/pkg/storage/mem"
	"github.com/inbucket/inbucket/v3/pkg/verifhook"
)

// TestSeedC09M2Forced forces one schedule (build with -tags verif):
//
//	1. a1 is delivered to mailbox A (600 bytes; limit is 1024 bytes, cap is 1 message).
//	2. b1 is delivered to mailbox B; the size enforcer goes over the limit and is parked just
//	   before it evicts the oldest message of the store (a1, in mailbox A).
//	3. a2 is delivered to mailbox A; the cap evicts a1 and the delivery reports that to the
//	   size enforcer.  As soon as the delivery reaches that report, the enforcer is released.
//
// All three deliveries must complete.
func TestSeedC09M2Forced(t *testing.T) {
	s, err := mem.New(config.Storage{
		MailboxMsgCap: 1,
		Params:        map[string]string{"maxkb": "1"},
	}, extension.NewHost())
	if err != nil {
		t.Fatal(err)
	}

	enforcerParked := make(chan struct{})
	releaseEnforcer := make(chan struct{})
	var parkOnce, releaseOnce sync.Once
	armed := false
	var mu sync.Mutex
	verifhook.Set(func(site, arg string) {
		mu.Lock()
		a := armed
		mu.Unlock()
		if !a {
			return
		}
		switch site {
		case "mem.enf.evict":
			parkOnce.Do(func() {
				close(enforcerParked)
				<-releaseEnforcer
			})
		case "mem.enfremove":
			// The delivery to A is about to tell the enforcer about the cap eviction.
			releaseOnce.Do(func() { close(releaseEnforcer) })
		}
	})
	defer verifhook.Set(nil)

	if _, err := seedC09Deliver(s, "A", 600); err != nil {
		t.Fatal(err)
	}
	mu.Lock()
	armed = true
	mu.Unlock()

	var wg sync.WaitGroup
	wg.Add(2)
	go func() {
		defer wg.Done()
		if _, err := seedC09Deliver(s, "B", 600); err != nil {
			t.Error(err)
		}
	}()
	select {
	case <-enforcerParked:
	case <-time.After(5 * time.Second):
		t.Fatal("enforcer never reached the eviction point")
	}
	go func() {
		defer wg.Done()
		if _, err := seedC09Deliver(s, "A", 600); err != nil {
			t.Error(err)
		}
	}()

	done := make(chan struct{})
	go func() {
		wg.Wait()
		close(done)
	}()
	select {
	case <-done:
	case <-time.After(5 * time.Second):
		_ = pprof.Lookup("goroutine").WriteTo(os.Stderr, 1)
		t.Fatal("deliveries to A and B did not complete within 5s: store is deadlocked")
	}

	// The store must still be usable.
	msgs, err := s.GetMessages("A")
	if err != nil {
		t.Fatal(err)
	}
	if len(msgs) > 1 {
		t.Errorf("mailbox A holds %d messages, cap is 1", len(msgs))
	}
}

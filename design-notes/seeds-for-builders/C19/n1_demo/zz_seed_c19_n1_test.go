package pop3

// Demonstration for seeded change C19/n1.
//
// Property C19: "... a session that is already open can complete its dialogue ... pending POP3
// deletions are still applied on QUIT - and the drain calls return after, and only after, those
// sessions have ended."
//
// History played here (POP3 with ForceTLS, i.e. the "pop3s" style listener):
//   1. some client that does not speak TLS (a plain-text POP3 client, a port scanner) connects,
//      sends a line, and is dropped by the server; it is long gone afterwards
//   2. a well-behaved TLS client logs in and marks a message for deletion
//   3. shutdown is requested (context cancelled): the listener must stop accepting
//   4. the open session finishes: QUIT is acknowledged and the deletion is applied
//   5. Drain() must now return, since no session is open any more
//
// With the change step 5 never happens: Drain blocks forever (clause "the drain calls return
// after ... those sessions have ended" fails), because of state left over from connection 1.

import (
	"context"
	"crypto/tls"
	"io"
	"net"
	"net/textproto"
	"os"
	"path"
	"strings"
	"testing"
	"time"

	"github.com/inbucket/inbucket/v3/pkg/config"
	"github.com/inbucket/inbucket/v3/pkg/extension"
	"github.com/inbucket/inbucket/v3/pkg/storage/mem"
	"github.com/inbucket/inbucket/v3/pkg/test"
)

func TestSeedC19N1DrainReturnsAfterSessionsEnded(t *testing.T) {
	// Store with one message for "alice".
	store, err := mem.New(config.Storage{}, extension.NewHost())
	if err != nil {
		t.Fatal(err)
	}
	test.DeliverToStore(t, store, "alice", "hello", time.Now())

	// POP3 server, ForceTLS, ephemeral port.
	cert, key, err := generateCertificate(t)
	if err != nil {
		t.Fatal(err)
	}
	td := t.TempDir()
	certPath, keyPath := path.Join(td, "cert.pem"), path.Join(td, "key.pem")
	if err := os.WriteFile(certPath, certToPem(cert), 0600); err != nil {
		t.Fatal(err)
	}
	if err := os.WriteFile(keyPath, privKeyToPem(key), 0600); err != nil {
		t.Fatal(err)
	}
	srv, err := NewServer(config.POP3{
		Addr:       "127.0.0.1:0",
		Domain:     "inbucket.local",
		Timeout:    5 * time.Second,
		TLSEnabled: true,
		TLSCert:    certPath,
		TLSPrivKey: keyPath,
		ForceTLS:   true,
	}, store)
	if err != nil {
		t.Fatal(err)
	}
	ctx, cancel := context.WithCancel(context.Background())
	defer cancel()
	ready := make(chan struct{})
	startDone := make(chan struct{})
	go func() {
		srv.Start(ctx, func() { close(ready) })
		close(startDone)
	}()
	select {
	case <-ready:
	case <-time.After(5 * time.Second):
		t.Fatal("POP3 server did not become ready")
	}
	addr := srv.listener.Addr().String()

	// 1. A client that does not speak TLS; the server drops it.
	plain, err := net.Dial("tcp4", addr)
	if err != nil {
		t.Fatal(err)
	}
	if _, err := plain.Write([]byte("USER alice\r\n")); err != nil {
		t.Fatal(err)
	}
	_ = plain.SetReadDeadline(time.Now().Add(10 * time.Second))
	if _, err := io.Copy(io.Discard, plain); err != nil {
		t.Fatalf("plain-text client was not disconnected by the server: %v", err)
	}
	_ = plain.Close()

	// 2. A proper TLS client logs in and marks message 1 for deletion.
	raw, err := tls.Dial("tcp4", addr, &tls.Config{InsecureSkipVerify: true})
	if err != nil {
		t.Fatal(err)
	}
	_ = raw.SetDeadline(time.Now().Add(20 * time.Second))
	c := textproto.NewConn(raw)
	expectOK := func(what string) {
		t.Helper()
		line, err := c.ReadLine()
		if err != nil {
			t.Fatalf("%s: %v", what, err)
		}
		if !strings.HasPrefix(line, "+OK") {
			t.Fatalf("%s: got %q", what, line)
		}
	}
	cmd := func(line string) {
		t.Helper()
		if err := c.PrintfLine("%s", line); err != nil {
			t.Fatalf("sending %q: %v", line, err)
		}
		expectOK(line)
	}
	expectOK("greeting")
	cmd("USER alice")
	cmd("PASS x")
	cmd("DELE 1")

	// 3. Shutdown is requested; the listener stops accepting.
	cancel()
	select {
	case <-startDone:
	case <-time.After(5 * time.Second):
		t.Fatal("Start did not return after cancel")
	}
	if late, err := net.DialTimeout("tcp4", addr, time.Second); err == nil {
		_ = late.Close()
		t.Error("a new connection was accepted after shutdown was requested")
	}

	// Drain must not return while the session is open.
	drained := make(chan struct{})
	go func() {
		srv.Drain()
		close(drained)
	}()
	select {
	case <-drained:
		t.Fatal("Drain returned while a session was still open")
	case <-time.After(200 * time.Millisecond):
	}

	// 4. The open session completes its dialogue: QUIT acknowledged, deletion applied.
	cmd("QUIT")
	_, _ = io.Copy(io.Discard, raw) // wait for the server to close the connection
	_ = c.Close()
	test.GetAndCountMessages(t, store, "alice", 0)

	// 5. Every session has ended, so Drain must return.
	select {
	case <-drained:
	case <-time.After(3 * time.Second):
		t.Fatal("Drain did not return although every POP3 session had ended " +
			"(clause: the drain calls return after those sessions have ended)")
	}
}

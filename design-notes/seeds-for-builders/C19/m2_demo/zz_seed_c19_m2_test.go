package pop3

import (
	"context"
	"net"
	"net/textproto"
	"strings"
	"sync"
	"testing"
	"time"

	"github.com/inbucket/inbucket/v3/pkg/config"
	"github.com/inbucket/inbucket/v3/pkg/storage"
)

// seedC19Msg is a minimal stored message.
type seedC19Msg struct {
	storage.Message
	mailbox, id string
}

func (m *seedC19Msg) Mailbox() string { return m.mailbox }
func (m *seedC19Msg) ID() string      { return m.id }
func (m *seedC19Msg) Size() int64     { return 42 }

// seedC19Store is a one-mailbox store whose RemoveMessage is slow: it announces that it was
// entered and then waits for the test to let it proceed (a stand-in for a loaded disk).
type seedC19Store struct {
	storage.Store
	mu      sync.Mutex
	msgs    []storage.Message
	entered chan struct{}
	proceed chan struct{}
}

func (s *seedC19Store) GetMessages(mailbox string) ([]storage.Message, error) {
	s.mu.Lock()
	defer s.mu.Unlock()
	return append([]storage.Message(nil), s.msgs...), nil
}

func (s *seedC19Store) RemoveMessage(mailbox, id string) error {
	s.entered <- struct{}{}
	<-s.proceed
	s.mu.Lock()
	defer s.mu.Unlock()
	for i, m := range s.msgs {
		if m.ID() == id {
			s.msgs = append(s.msgs[:i:i], s.msgs[i+1:]...)
			return nil
		}
	}
	return storage.ErrNotExist
}

func (s *seedC19Store) ids() string {
	s.mu.Lock()
	defer s.mu.Unlock()
	var ids []string
	for _, m := range s.msgs {
		ids = append(ids, m.ID())
	}
	return strings.Join(ids, ",")
}

// Shutdown is requested while a POP3 session holds pending deletions.  The client then QUITs.
// When Drain returns (after which the process exits) the deletions must have been applied.
func TestSeedC19M2DrainCoversPendingDeletes(t *testing.T) {
	ds := &seedC19Store{
		msgs: []storage.Message{
			&seedC19Msg{mailbox: "alice", id: "m1"},
			&seedC19Msg{mailbox: "alice", id: "m2"},
			&seedC19Msg{mailbox: "alice", id: "m3"},
		},
		entered: make(chan struct{}, 10),
		proceed: make(chan struct{}),
	}
	server, err := NewServer(config.POP3{
		Addr:    "127.0.0.1:0",
		Domain:  "inbucket.local",
		Timeout: 10 * time.Second,
	}, ds)
	if err != nil {
		t.Fatal(err)
	}

	ctx, cancel := context.WithCancel(context.Background())
	defer cancel()
	ready := make(chan struct{})
	go server.Start(ctx, func() { close(ready) })
	select {
	case <-ready:
	case err := <-server.Notify():
		t.Fatalf("server failed to start: %v", err)
	case <-time.After(5 * time.Second):
		t.Fatal("server not ready")
	}
	addr := server.listener.Addr().String()

	conn, err := net.Dial("tcp4", addr)
	if err != nil {
		t.Fatal(err)
	}
	defer conn.Close()
	_ = conn.SetDeadline(time.Now().Add(10 * time.Second))
	tp := textproto.NewConn(conn)
	expectOK := func() {
		t.Helper()
		line, err := tp.ReadLine()
		if err != nil {
			t.Fatalf("read: %v", err)
		}
		if !strings.HasPrefix(line, "+OK") {
			t.Fatalf("got %q, want +OK", line)
		}
	}
	cmd := func(line string) {
		t.Helper()
		if err := tp.PrintfLine("%s", line); err != nil {
			t.Fatalf("send %q: %v", line, err)
		}
		expectOK()
	}
	expectOK()
	cmd("USER alice")
	cmd("PASS secret")
	cmd("DELE 1")
	cmd("DELE 3")

	// Shutdown is requested with the session in TRANSACTION state, two deletions pending.
	cancel()
	deadline := time.Now().Add(5 * time.Second)
	for {
		c, err := net.DialTimeout("tcp4", addr, 200*time.Millisecond)
		if err != nil {
			break
		}
		_ = c.Close()
		if time.Now().After(deadline) {
			t.Fatal("listener still accepting after shutdown was requested")
		}
		time.Sleep(10 * time.Millisecond)
	}
	drained := make(chan struct{})
	go func() {
		server.Drain()
		close(drained)
	}()

	// The open session completes its dialogue.
	cmd("QUIT")

	// The store is slow: the first removal has begun but not finished.
	select {
	case <-ds.entered:
	case <-time.After(5 * time.Second):
		t.Fatal("QUIT did not start processing the deletions")
	}
	select {
	case <-drained:
		t.Errorf("Drain returned while the session's deletions were still being applied; "+
			"mailbox holds [%s], want [m2]", ds.ids())
	case <-time.After(500 * time.Millisecond):
	}

	// Let the store finish.
	close(ds.proceed)
	select {
	case <-drained:
	case <-time.After(5 * time.Second):
		t.Fatal("Drain did not return after the session ended")
	}
	// Drain has returned (the process would exit now), so the result must already be in place.
	if got := ds.ids(); got != "m2" {
		t.Errorf("after Drain the mailbox holds [%s], want [m2]", got)
	}
}

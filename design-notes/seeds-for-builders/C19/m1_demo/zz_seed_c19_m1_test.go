package smtp

import (
	"bytes"
	"context"
	"net"
	"net/textproto"
	"sync"
	"testing"
	"time"

	"github.com/inbucket/inbucket/v3/pkg/config"
	"github.com/inbucket/inbucket/v3/pkg/extension"
	"github.com/inbucket/inbucket/v3/pkg/message"
	"github.com/inbucket/inbucket/v3/pkg/policy"
	"github.com/inbucket/inbucket/v3/pkg/storage"
	"github.com/inbucket/inbucket/v3/pkg/test"
	"github.com/rs/zerolog"
	"github.com/rs/zerolog/log"
)

// seedC19Gate is a log sink that parks the goroutine writing the "Starting SMTP session" line
// (the very first thing a freshly accepted session does) until it is released.  It lets the test
// hold an accepted connection in the "accepted, session goroutine not yet under way" state, as a
// busy scheduler or a slow log device would.
type seedC19Gate struct {
	once    sync.Once
	parked  chan struct{}
	release chan struct{}
}

func (g *seedC19Gate) Write(p []byte) (int, error) {
	if bytes.Contains(p, []byte("Starting SMTP session")) {
		g.once.Do(func() { close(g.parked) })
		<-g.release
	}
	return len(p), nil
}

// Shutdown is requested while a connection has been accepted but its session has only just
// begun.  Drain must not return until that session has completed its dialogue.
func TestSeedC19M1DrainWaitsForAcceptedSession(t *testing.T) {
	gate := &seedC19Gate{parked: make(chan struct{}), release: make(chan struct{})}
	oldLogger := log.Logger
	log.Logger = zerolog.New(gate)
	startDone := make(chan struct{})
	defer func() {
		// Restore the global logger only once Start (which logs during shutdown) has returned.
		select {
		case <-startDone:
		case <-time.After(5 * time.Second):
		}
		log.Logger = oldLogger
	}()

	cfg := &config.Root{
		MailboxNaming: config.FullNaming,
		SMTP: config.SMTP{
			Addr:            "127.0.0.1:0",
			Domain:          "inbucket.local",
			MaxRecipients:   5,
			MaxMessageBytes: 5000,
			DefaultAccept:   true,
			DefaultStore:    true,
			Timeout:         10 * time.Second,
		},
	}
	ds := test.NewStore()
	extHost := extension.NewHost()
	server := NewServer(cfg.SMTP,
		&message.StoreManager{Store: ds, ExtHost: extHost},
		&policy.Addressing{Config: cfg}, extHost)

	ctx, cancel := context.WithCancel(context.Background())
	defer cancel()
	ready := make(chan struct{})
	go func() {
		server.Start(ctx, func() { close(ready) })
		close(startDone)
	}()
	select {
	case <-ready:
	case err := <-server.Notify():
		t.Fatalf("server failed to start: %v", err)
	case <-time.After(5 * time.Second):
		t.Fatal("server not ready")
	}
	addr := server.listener.Addr().String()

	// A client connects; the server accepts it and the session goroutine begins.
	conn, err := net.Dial("tcp4", addr)
	if err != nil {
		t.Fatal(err)
	}
	defer conn.Close()
	select {
	case <-gate.parked:
	case <-time.After(5 * time.Second):
		t.Fatal("session never started")
	}

	// Shutdown is requested; wait until the listener really is closed.
	cancel()
	deadline := time.Now().Add(5 * time.Second)
	for {
		c, err := net.DialTimeout("tcp4", addr, 200*time.Millisecond)
		if err != nil {
			break
		}
		_ = c.Close()
		if time.Now().After(deadline) {
			t.Fatal("listener still accepting after shutdown was requested")
		}
		time.Sleep(10 * time.Millisecond)
	}

	drained := make(chan struct{})
	go func() {
		server.Drain()
		close(drained)
	}()
	earlyDrain := false
	select {
	case <-drained:
		earlyDrain = true
	case <-time.After(500 * time.Millisecond):
	}

	// The session now gets to run: it must be able to complete a whole delivery.
	close(gate.release)
	_ = conn.SetDeadline(time.Now().Add(5 * time.Second))
	tp := textproto.NewConn(conn)
	expect := func(code int) {
		t.Helper()
		if _, _, err := tp.ReadResponse(code); err != nil {
			t.Fatalf("expected %d: %v", code, err)
		}
	}
	cmd := func(code int, line string) {
		t.Helper()
		if err := tp.PrintfLine("%s", line); err != nil {
			t.Fatalf("send %q: %v", line, err)
		}
		expect(code)
	}
	expect(220)
	cmd(250, "HELO localhost")
	cmd(250, "MAIL FROM:<john@gmail.com>")
	cmd(250, "RCPT TO:<u1@inbucket.local>")
	cmd(354, "DATA")
	cmd(250, "Subject: seed\r\n\r\nbody\r\n.")
	stored := 0
	_ = ds.VisitMailboxes(func(m []storage.Message) bool {
		stored += len(m)
		return true
	})
	if stored != 1 {
		t.Errorf("stored %d messages, want 1", stored)
	}
	if earlyDrain {
		t.Errorf("Drain returned while an accepted session was still open " +
			"(it went on to greet, accept and store a message afterwards)")
	}
	cmd(221, "QUIT")

	select {
	case <-drained:
	case <-time.After(5 * time.Second):
		t.Fatal("Drain did not return after the last session ended")
	}
}

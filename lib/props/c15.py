ID = "C15"
LEVEL = "proof"
TITLE = "Every monitor sees every message event once, in order; none can stall the rest"
LEVEL_TEXT = ("Coq theorems over ALL schedules of the hub/listener model (history replay, exactly-once in-order delivery to every "
              "healthy listener, isolation from faulty ones, hub progress) + correspondence of the model with the real msghub.Hub and the "
              "real v1/v2 socket listeners on generated histories. *Partial*: 'never blocking the hub' holds only while no open listener's "
              "queue is full (open finding K-C15-slow-listener: refuted by a machine-checked witness).")
LEVEL_NOTE = ("The theorems are about coq/Model/Hub.v (one listener call = one step; Go channels as FIFO lists, select on a closed "
              "listener as a schedule choice, map iteration order fixed — shown irrelevant unless the hub blocks: broadcast_order_diamond). "
              "In Model/HubFed.v the broker's delivery step FDeliver (pop the head of the pending list AND call hub.Dispatch) is ONE atomic step; in the "
              "code the pop happens under the listener's lock and the call after it — harmless because each listener function has a single delivery goroutine. "
              "faulty_listener_isolated is each_event_once_in_order restated (the entitlement ignores ops about other listeners by definition of view_step): "
              "the isolation content is that each_event_once_in_order holds over all schedules INCLUDING the other listeners' failures and closes; "
              "'is dropped' is error_unregisters / remove_unregisters / dropped_listener_never_called_again. "
              "In the hub histories (kind hub) the websocket peer is replaced by the harness (constructor hook pkg/rest/verif_export.go: the harness "
              "plays WSWriter/WSReader); the `ws` stream runs the real WSReader/WSWriter and JSON encoding against a real gorilla/websocket client, "
              "Model/HubWriter.v carries the writer/reader goroutines as far as an executable model does: frames (one text frame per event, pings, close frame), failing writes, deferred Close; "
              "the structure of WSWriter/WSReader, the hub operations, the selects and the Close order are read from the source by the translator (Gen/HubShape.v, Gen/HubWriter.v) and "
              "the model is proved to follow them (exec_op_is_source_program, writer_arms_pinned, …); the bytes of the WebSocket framing and real time are not modelled. "
              "Keep-alive: that pings are sent on a TICKER (not restarted by event traffic) is tied to the source by writer_arms_pinned (a change such as `case <-time.After(pingPeriod)` is reported by the quick tier without a failing input); a failing input needs > 60 s of real time with a real client and is produced only by the thorough tier (kind wslong, 66 s per case) — the periods are Go constants, so no add-only hook can shorten them. "
              "The tie between model and code is sampled (differential testing).")
TECHNIQUE = "machine-checked proof in Coq + model/code correspondence check"
DESIGN_REF = "DESIGN.md §4 C15"
RULE = ("hub: one line = history length N + a history of ops run by one goroutine against a real hub: joins of real v1/v2 listeners "
        "(all/one mailbox) and of harness listeners that fail after f calls, dispatches, deletes (known, unknown, duplicate ids), "
        "RemoveListener, listener Close with events buffered, writer steps, Sync, and a gate that parks the hub goroutine mid-broadcast so "
        "that closes/writer steps happen while ops are queued. Families: mixed, mixed+gate, queue-boundary (exactly full, never waiting), "
        "slow listener (open finding), history longer than the queue. asm15: the hub of the assembled server (server.FullAssembly + Services.Start, child process) fed through the real extension events (ExtHost.Events.AfterMessageStored, i.e. through the asynchronous broker) with a burst of 50-400 events: an attached monitor gets each once in order and a late joiner exactly the retained history. ws: the real HTTP handlers (rest.SetupRoutes on web.Router behind an httptest server) and a real WebSocket client on /api/v1|v2/monitor/messages[/<mailbox>], i.e. the real WSReader/WSWriter: events dispatched before the join (history replay) and in a burst while the client is not reading, then read message by message — every WebSocket message must carry exactly one JSON document and the sequence must be the listener's entitlement. wsbad: requests on the four monitor routes that are not valid WebSocket upgrades (plain GET, foreign Origin, wrong version, HEAD, POST, missing key) followed by a burst of 150–3000 events with a healthy listener attached: the hub must come to rest and the listener hold everything. fed: msghub.New wired to an extension host; <events> stored events (and then a few deleted ones) are emitted on ExtHost.Events, i.e. travel through the asynchronous brokers into hub.Dispatch/hub.Delete; monitor 1 attached before the burst, optionally a monitor that fails after k calls, monitor 2 attached after everything settled; the expected streams are computed by the composed model Model/HubFed.v. distinct = distinct input line; non-trivial = at least one listener "
        "joined and one event dispatched.")
TRUSTED = ["a closed listener's queue is read by nobody (the harness looks at what was buffered only at the end of the case)",
           "Go channels/select/sync.Once behave as modelled (FIFO bounded queue; a send on a full channel waits; select picks any ready branch)",
           "the harness plays the socket reader/writer through pkg/rest/verif_export.go (Take = the writer's receive, Close = what reader/writer call)",
           "timing: 'blocked' is judged by a Sync that does not return within 1 s and again within 2 s more"]
ASSUMPTIONS = ["history_replay (declarative reading): NO (mailbox,id) pair is dispatched twice before the join — NoDup over ALL dispatches that "
               "preceded it, aged-out ones included (store ids are unique per mailbox and never reissued while the process runs); "
               "history_replay_ring (the ring with holes) needs no such assumption"]
NOT_PROVED = ["hub_never_blocks_stmt (full statement: the hub goroutine can always move) — refuted by slow_listener_stall_refuted; "
              "proved as hub_never_blocks_partial under 'no open listener the hub is about to call has a full queue'"]
KNOWN_MUST_REPRODUCE = True


def nontrivial(kind, ins, outs):
    if kind in ("fed", "fedstop", "ws", "wslong", "wsbad"):
        return True
    if kind == "asm15":
        return True
    if kind != "hub" or len(ins) < 2:
        return False
    ops = ins[1].split(",")
    return any(o[0] in "am" for o in ops) and any(o.startswith("d:") for o in ops)


def project(kind, ins, outs):
    # While the hub is blocked mid-broadcast, what the OTHER listeners hold depends on Go's map
    # iteration order: compare only that the hub was blocked, the oracle still checks the content.
    return ["BT" if o.startswith("BT=") else o for o in outs]


def match_known(case_line, reason):
    if reason == "fail:hub-blocked-by-slow-listener":
        return "K-C15-slow-listener"
    return None


def shrink_candidates(inp):
    parts = inp.split(" ")
    if parts[0] != "hub" or len(parts) < 3 or parts[2] == "-":
        return
    ops = parts[2].split(",")
    n = len(ops)
    # drop a chunk, then single ops (from the end)
    size = n // 2
    while size >= 1:
        i = n - size
        while i >= 0:
            cand = ops[:i] + ops[i + size:]
            yield " ".join([parts[0], parts[1], ",".join(cand) if cand else "-"])
            i -= size
        size //= 2

ID = "C16"
LEVEL = "proof"
TITLE = 'Each stored and each removed message produces exactly one event, in causal order'
DESIGN_REF = "DESIGN.md §4 C16"
TECHNIQUE = "machine-checked proof in Coq + model/code correspondence check"
LEVEL_TEXT = 'proof (one clause partial): events_match_history composes, for every history on both back-end models, per-operation events = abstract history, stored sequence = deliveries in order, one deleted event per departed message, silence of failing/reading operations, and deleted-after-stored under the oversize guard; its parts: stored_once and deleted_once (per message: #deleted + #live = #stored, #stored = 1 iff delivered) for every history x limits on both back-end models, every departure path (remove, purge, cap, size limit; retention removes through RemoveMessage); stored_before_deleted_partial under the guard that excludes the open oversize finding (stored_before_deleted_refuted is its witness); listener_serial and delivery_is_emit_order for the per-listener FIFO broker under every schedule; two-broker model: stored_before_deleted_delivery_refuted (open finding K-C16-cross-broker-order) and stored_before_deleted_delivery_partial (a consumer whose stored-queue is empty when deleted(x) is emitted has already seen stored(x)). The theorems about the stores are about SEQUENTIAL histories; interleavings of concurrent operations with each other and the size enforcer are covered by the forced-schedule stream (kind conc) with the event-count oracle, not by a theorem. Tie to /repo: about 530 histories per run through the real StoreManager.Deliver and extension.Host listeners, 12 broker schedules, about 160 forced store schedules.'
LEVEL_NOTE = 'events are attributed to operations by flushing both brokers with a sentinel after every operation; order between the two brokers is observed at operation granularity only; events_match_history clause 2 (stored sequence = deliveries in order) and clause 5 (deleted after stored) equate EMIT order with arrival order for SEQUENTIAL histories only: under concurrent operations StoreManager.Deliver emits stored(x) only after AddMessage(x) has returned while a store emits deleted(x) from inside the removing operation, so deleted(x) can be emitted before stored(x) with no oversize message and two concurrent Delivers can emit stored events against id order (open finding K-C16-concurrent-stored-after-deleted, witness kind cdeliver on both stores); tied to the source by the translator (go/cmd/pins/c07.go -> coq/Gen/StorePins.v, regenerated on every run): the file store id format / counter / path scheme (file_id_format_pinned), the functions that remove messages and those that emit the after-events (removal_paths_emit: every removal path of either store announces what it removes; AfterMessageStored is emitted by StoreManager.Deliver only), the order of the steps of the delivery paths (add_steps_pinned); delivery_events_explained composes the event theorems with the cap / size-limit theorems (which deleted events a delivery emits, in which order, and exactly when)'
RULE = "(1) random operation histories under caps {0,1,2,3} x size limits {0,1,4 KiB} on both stores, 70% through the real StoreManager.Deliver, events observed by listeners registered through extension.Host and attributed to operations by flushing both brokers; (2) kind sched: forced schedules of the async broker (a listener blocks until a later invocation begins); (3) kind conc: forced schedules of 2-3 concurrent memory-store operations (remove / purge / cap-evicting delivery vs. size-evicting delivery) parked at the mem.* verifhook points, every 'victim parked after j steps' prefix plus random schedules, oracle = per-message event counts after quiescence; (2b) kind slow: ONE listener held 6 s inside its first invocation while two more events are emitted behind it (no re-entry, order kept) — in the QUICK tier on purpose (+6 s of 16 s): a per-call time limit inside a broker is a hidden constant that no schedule explores for free, and listener_serial is the central clause; the thorough tier adds a 12 s / 5 event case; (4b) kind mdeliver: one message to 1-4 recipients through the real StoreManager.Deliver with AddMessage failing for a chosen recipient (file store: a plain file where the mailbox directory should be; memory store: a wrapper), every copy that entered a mailbox must have its stored event; (4d) kind sdeliver: one StoreManager.Deliver whose 2-3 recipients map to ONE mailbox (+tags, repeated address, case variants; same content and date) on both stores: k messages, k distinct ids, k stored events each with its own id, then one deleted event per id; (4c) kind churn: listeners removed/re-added during emits; (4) kind xbroker: the witness of K-C16-cross-broker-order on both stores. distinct = distinct input line; non-trivial = (histories) at least one add and one operation on a stored message, (conc) at least two concurrent operations and a non-empty schedule"
TRUSTED = ["handles: messages are named by 'k-th add to this mailbox' / 'latest' / a bogus literal; the driver's id<->handle table (Go map) is modelled by StoreSpecImpl.run_impl", 'message content is abstracted to (date, tag, size, seen): the driver checks that from/to/subject/body/mailbox read back equal what the add with that handle wrote and prints the tag only then', 'VisitMailboxes enumeration order (map / readdir order) is not compared: groups are sorted by mailbox on both sides; empty groups are dropped', 'file store: byte-level disk protocol (tmp+rename, unlink order, gob) is not in this model (C10/C11); I/O errors are not modelled', 'memory store: the size enforcer goroutine is modelled as a synchronous sub-step (callers block on md.done); creation of an empty mailbox record by reads is not modelled (unobservable)', 'Go scheduler/locks: asyncListener.push/deliver are modelled as atomic steps (Events.v)']
ASSUMPTIONS = []
NOT_PROVED = ["stored_before_deleted_delivery_stmt (Proofs/EventsXBroker.v): across the two brokers every consumer sees stored(n) before deleted(n) — refuted (open finding K-C16-cross-broker-order); proved under the guard 'stored-queue empty at the emit of deleted(n)'", "event counts under concurrent interleavings of store operations with each other and with the size enforcer goroutine: no theorem (the store theorems quantify over sequential histories; C09's Conc.v is the interleaving model); checked by forced schedules through the mem.* verifhook points with the conservation-law oracle", 'emission order under CONCURRENT operations: deleted(x) before stored(x) without an oversize message (Deliver emits stored after AddMessage returned; cap/size eviction, delete or retention removal by another operation in between) and stored events against id order for two concurrent Delivers — no theorem (the store models are sequential), open finding K-C16-concurrent-stored-after-deleted, reproduced on the real code by kind cdeliver']


def nontrivial(kind, ins, outs):
    if kind == "conc":      # forced schedule: at least two concurrent operations and a non-empty schedule
        return len(ins) == 5 and "," in ins[3] and ins[4] not in ("-", "")
    if kind == "mdeliver":  # a delivery to several recipients with a failing one that is not the first
        return len(ins) == 4 and 0 < int(ins[2]) < int(ins[1])
    if kind in ("sched", "sched2", "slow", "churn", "xbroker", "cdeliver", "sdeliver"):
        return True
    ops = ins[4].split(",") if len(ins) > 4 else []
    return any(o.startswith("a") for o in ops) and any(o[0] in "gsr" for o in ops)


def shrink_candidates(inp):
    parts = inp.split(" ")
    if len(parts) != 6:
        return
    ops = parts[5].split(",")
    n = len(ops)
    # drop halves, quarters, then single operations
    chunk = n // 2
    while chunk >= 1:
        i = 0
        while i < n:
            cand = ops[:i] + ops[i + chunk:]
            if cand and len(cand) < n:
                yield " ".join(parts[:5] + [",".join(cand)])
            i += chunk
        chunk //= 2


def match_known(case_line, reason):
    # K-C16-cross-broker-order: the consumer of both brokers is handed deleted(m2) before stored(m2)
    # while its stored-handler is busy with m1 (kind xbroker only).
    # K-C16-concurrent-stored-after-deleted: two concurrent deliveries (cap 1); stored(m1) is emitted by
    # Deliver only after AddMessage returned, deleted(m1) from inside the other delivery (kind cdeliver only).
    if case_line.startswith("cdeliver ") and reason == "fail:concurrent-deleted-before-stored":
        return "K-C16-concurrent-stored-after-deleted"
    if case_line.startswith("xbroker ") and reason == "fail:cross-broker-deleted-before-stored":
        return "K-C16-cross-broker-order"
    # K-C16-oversize-order: a message larger than the whole size limit is evicted inside
    # AddMessage, its deleted event precedes its stored event. Key: the failing message was
    # added with a size above maxkb*1024 on the memory store.
    if not reason.startswith("fail:deleted-before-stored:"):
        return None
    parts = case_line.split(" => ")[0].split(" ")
    if parts[0] != "mem" or int(parts[3]) <= 0:
        return None
    mb, k = reason.split(":")[2].split(".")
    n = -1
    for o in parts[5].split(","):
        if o.startswith("a") and o[1:].split(":")[0] == mb:
            n += 1
            if n == int(k):
                return "K-C16-oversize-order" if int(o.split(":")[2]) > int(parts[3]) * 1024 else None
    return None

ID = "C16"
LEVEL = "proof"
TITLE = 'Each stored and each removed message produces exactly one event, in causal order'
DESIGN_REF = "DESIGN.md §4 C16"
TECHNIQUE = "machine-checked proof in Coq + model/code correspondence check"
LEVEL_TEXT = "proof (one clause partial): stored_once and deleted_once (per message: #deleted + #live = #stored, #stored = 1 iff delivered) for every history x limits on both back-end models, every departure path (remove, purge, cap, size limit; retention removes through RemoveMessage); stored_before_deleted_partial under the guard that excludes the open oversize finding (stored_before_deleted_refuted is its witness); listener_serial and delivery_is_emit_order for the per-listener FIFO broker under every schedule. PARTIAL: the order in which a consumer of BOTH events sees a message's stored and deleted is not claimed — the two events travel through separate brokers (replayed on the real code: deleted(m2) before stored(m2), see xbroker). Tie to /repo: about 530 histories per run through the real StoreManager.Deliver and extension.Host listeners + forced broker schedules."
LEVEL_NOTE = 'events are attributed to operations by flushing both brokers with a sentinel after every operation; order between the two brokers is observed at operation granularity only'
RULE = ("random operation histories (4-60 ops, 1-5 mailboxes incl. names sharing a 12-bit SHA-1 prefix, '@' and special "
        "characters; missing / not-yet-issued / bogus / 'latest' handles, double removes, purge-then-latest) on a fresh real "
        "memory store and a fresh real file store; distinct = distinct input line; non-trivial = at least one add and one "
        "operation on a stored message")
TRUSTED = ["handles: messages are named by 'k-th add to this mailbox' / 'latest' / a bogus literal; the driver's id<->handle table (Go map) is modelled by StoreSpecImpl.run_impl", 'message content is abstracted to (date, tag, size, seen): the driver checks that from/to/subject/body/mailbox read back equal what the add with that handle wrote and prints the tag only then', 'VisitMailboxes enumeration order (map / readdir order) is not compared: groups are sorted by mailbox on both sides; empty groups are dropped', 'file store: byte-level disk protocol (tmp+rename, unlink order, gob) is not in this model (C10/C11); I/O errors are not modelled', 'memory store: the size enforcer goroutine is modelled as a synchronous sub-step (callers block on md.done); creation of an empty mailbox record by reads is not modelled (unobservable)', 'Go scheduler/locks: asyncListener.push/deliver are modelled as atomic steps (Events.v)']
ASSUMPTIONS = []
NOT_PROVED = ['cross-broker delivery order: AfterMessageStored and AfterMessageDeleted are separate per-listener FIFOs; a consumer registered on both can be invoked with deleted(m) before stored(m) (reproduced on the real code by go/cmd/c07/sd/xbroker.go; not part of any theorem, not an oracle)']


def nontrivial(kind, ins, outs):
    ops = ins[4].split(",") if len(ins) > 4 else []
    return any(o.startswith("a") for o in ops) and any(o[0] in "gsr" for o in ops)


def shrink_candidates(inp):
    parts = inp.split(" ")
    if len(parts) != 6:
        return
    ops = parts[5].split(",")
    n = len(ops)
    # drop halves, quarters, then single operations
    chunk = n // 2
    while chunk >= 1:
        i = 0
        while i < n:
            cand = ops[:i] + ops[i + chunk:]
            if cand and len(cand) < n:
                yield " ".join(parts[:5] + [",".join(cand)])
            i += chunk
        chunk //= 2


def match_known(case_line, reason):
    # K-C16-cross-broker-order: the consumer of both brokers is handed deleted(m2) before stored(m2)
    # while its stored-handler is busy with m1 (kind xbroker only).
    if case_line.startswith("xbroker ") and reason == "fail:cross-broker-deleted-before-stored":
        return "K-C16-cross-broker-order"
    # K-C16-oversize-order: a message larger than the whole size limit is evicted inside
    # AddMessage, its deleted event precedes its stored event. Key: the failing message was
    # added with a size above maxkb*1024 on the memory store.
    if not reason.startswith("fail:deleted-before-stored:"):
        return None
    parts = case_line.split(" => ")[0].split(" ")
    if parts[0] != "mem" or int(parts[3]) <= 0:
        return None
    mb, k = reason.split(":")[2].split(".")
    n = -1
    for o in parts[5].split(","):
        if o.startswith("a") and o[1:].split(":")[0] == mb:
            n += 1
            if n == int(k):
                return "K-C16-oversize-order" if int(o.split(":")[2]) > int(parts[3]) * 1024 else None
    return None

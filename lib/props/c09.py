"""C09 — stores are safe under concurrent use (partial: protocol proved, runtime sampled)."""
import os
import re

from vcheck import core

ID = "C09"
LEVEL = "proof"
TITLE = "Stores are safe under concurrent use: linearizable, no crash/deadlock/lost mail"
LEVEL_TEXT = ("partial: Coq theorems over a small-step interleaving model of both stores' locking / rendezvous protocol "
              "(no crash incl. the size enforcer, deadlock freedom, linearizability of the memory store — with and without size "
              "limit, evictions as enforcer commits — and of the file store by forward simulation, distinct ids, with the size limit "
              "the enforcer's book never lists a message twice and curSize is exactly its total [+ the message being evicted] and within "
              "the limit outside the eviction loop [mem_book_is_exact, mem_cursize_within_limit], and when everything has finished the "
              "book is exactly the messages in the mailboxes [mem_quiescent_accounting, deliveries = distinct Message objects], any schedule of the "
              "memory-store model makes at most (n+1)*15n+2n productive steps and of the file-store model at most (n(1+n(n+1))+8)n "
              "[mem_step_bound, file_step_bound: every step decreases a measure, no livelock] and, composed with deadlock freedom and "
              "no-crash, every stopped run can be continued to the state where every operation has returned "
              "[mem_/file_every_operation_completes], every "
              "non-walk operation commits exactly once, delivered-stays-unless-removed [memory store WITHOUT cap and size limit "
              "only; for every cap and limit: present-stays-unless-removed-or-evicted; file store, which the model has without cap: "
              "file_delivered_stays_unless_removed]; lock discipline at SOURCE level on synchronisation skeletons regenerated from "
              "both stores' code on every run — no lock acquired while one is held, no rendezvous / foreign callback under a lock, "
              "every path releases — and the memory store's skeleton pinned to the model's program counters) + forced-schedule "
              "correspondence on the real stores; data-race freedom in the Go memory-model sense and runtime deadlocks are "
              "sampled by a -race stress run (thorough tier), not proved; the runner's oracle judges every finished "
              "execution: without size limit by the sequential specification seq_exec, with the size limit by the "
              "sub-action specification qstep (Model/ConcEnfSpec.v)")
LEVEL_NOTE = ("LOCK SKELETONS (translator go/cmd/pins/c09_locks.go -> Gen/StoreLocks.v, type Model/ConcSk.v): per function of "
              "pkg/storage/mem/{store,maxsize}.go and pkg/storage/file/{fstore,mbox,fmessage}.go the lock/unlock calls (receiver "
              "expression = lock name; all mailbox/bucket locks are ONE name, conservative), channel operations, calls inside the "
              "table, calls of function-typed parameters, the memory store's instrumentation points, and the if/switch/select/"
              "loop/defer/return structure around them; everything else is pruned. lock_acquisitions_not_nested evaluates the "
              "discipline on those tables (an abstract run over the locks held, Model/ConcSk.v:disciplined — the checker IS the "
              "definition; sanity examples show it rejects seed C09-q1's nesting, a rendezvous under a lock, a store method "
              "called under the bucket lock, a missing unlock and a non-leaf lock taken under another, and accepts a leaf lock "
              "[released by the very next synchronisation event] taken under the bucket lock); it holds for whatever shape the "
              "source has and fails only when the discipline is broken or the source uses a construct the translator does not "
              "read (goto, labelled break, defer in a branch, go func literal with synchronisation). One named exception: the "
              "file store receives the serial number of a new id from its counter channel under the bucket lock (mbox.newMessage "
              "-> generateID); if that channel is in use the theorem also requires its sender to be a goroutine that only sends. "
              "mem_lock_skeleton_pinned compares EXPANDED skeletons (every helper call and every withMailbox replaced by what it "
              "runs), per store operation / enforcer / constructor: extracting or inlining a helper leaves it true (checked "
              "against seeded/refactors stores/r1-r3 and set2-lifecycle/r2,r4: both theorems stay true; against seed C09-q1: "
              "lock_acquisitions_not_nested fails); a moved lock site, rendezvous or instrumentation point of the memory store "
              "fails it — the model then no longer transcribes the source and has to be revisited. Not covered by the "
              "skeletons: which lock OBJECT an expression denotes (two different mailboxes' locks are one name), lock use in "
              "other packages' callbacks. "
              "SCAN STREAM: the retention scanner is a client of the store, not part of the store models; cases of kind 'scan' are "
              "judged by the clause directly (scan = a walk + removals of the expired messages it saw: at the end every fresh "
              "message, of the prefix or delivered meanwhile, is listed and every expired one is gone; verdicts "
              "fail:retention-scan-removed-unexpired-message / -kept-expired-message). "
              "TIE TO C07 (theorems, not only through the code): Conc.seq_exec — the sequential specification the interleaved "
              "memory store is proved linearizable to — IS C07's MemStore.exec_mem without size limit, hence StoreSpec "
              "(conc_spec_is_storespec / conc_spec_final_is_memstore, every cap); therefore every finished concurrent "
              "execution without size limit is a StoreSpec.run_spec history in commit order (mem_linearizable_to_storespec) and "
              "a run of non-overlapping operations answers exactly as run_mem (conc_sequential_is_memstore). Bridged "
              "differences, visible in the statements: a Conc id is C07's handle Kth(id-1) relative to the COMMIT order (id "
              "allocation under concurrency), mailbox n is the name [n], dates are 0, C07's richer observations are projected "
              "(down_obs), a walk is a sequence of listings. The file side is tied likewise: fseq_exec IS StoreSpec without cap and size limit (file_spec_is_storespec; a Conc id "
              "is the handle of its position in the issued table, deliveries compared up to the id) and the commit order of any "
              "schedule is a run_spec history (file_linearizable_to_storespec). With the size limit, non-overlapping runs of deliveries, reads and mark-seen answer as run_mem "
              "(conc_sequential_is_memstore_limit_partial: eviction timing); not proved (NOT_PROVED): removal notices with the limit. "
              "FAULT FAMILY: the models have no I/O errors. Cases of kind 'fault' (a directory planted at <mailbox dir>/index.gob.tmp "
              "= persistent failure of that mailbox's index rewrite; stands for disk full / read-only / lost permission) are "
              "judged by the clause directly — every operation must RETURN (error or not) and the lock-bucket neighbour must be "
              "served: verdicts fail:operation-never-returns-after-io-failure / fail:bucket-neighbour-blocked (per-operation "
              "deadline; a worker in which something hung is killed) — and their expected observation is simply what the "
              "unchanged file store does, written down in the runner: a rewrite of that index fails with an error and changes "
              "nothing, reads keep working, removing the last message or purging deletes the directory and with it the fault. "
              "WITH the size limit the store is legitimately weaker than the sequential C08 specification and the oracle encodes "
              "exactly this (Model/ConcEnfSpec.v, extracted): an operation is a sequence of atomic sub-actions inside its "
              "call/return interval (delivery: insert+cap | tell the enforcer each cap eviction | register | unlink each victim; "
              "removal: unlink | tell; purge: unlink all | tell each in any order); the enforcer's book changes only at tell / "
              "register, so a message unlinked but not yet told about still counts and a delivered but unregistered one does "
              "not; victims = shortest prefix of the book in REGISTRATION order that makes it fit, fixed at registration and "
              "unlinked one by one while no other tell/register happens. A finished execution must be an interleaving of such "
              "sub-actions consistent with the observed intervals. Executions that a forced schedule leaves unfinished (or that "
              "block unexpectedly) are completed under control and judged too. "
              "The model cuts every operation into the atomic sections between verifhook.Point sites; Go's mutexes, channels and "
              "scheduler are modelled (atomic sections, unbuffered rendezvous), not verified; the file store's message cap is "
              "outside the concurrency model — concrete consequence: with cap 1 a delivery to a non-empty mailbox removes the "
              "index, the mailbox directory and its empty parents and then re-creates them, so a walk can transiently miss a "
              "mailbox that holds mail before and after the delivery; file_visit_sees_stable_mailboxes does not cover that case. ASSUMED by the file model, not observable at hook granularity: an operation holds "
              "its bucket lock from before its index read to after its index commit (there is no hook site between lock "
              "acquisition and the first file-system mutation, so forced schedules cannot enter such a gap). This is CHECKED on "
              "every run by the free-running streams instead: 'burst' (three goroutines, one operation each, on one lock bucket, "
              "real start/end instants, judged round by round by the extracted sequential specification = linearizability "
              "oracle) and 'stress' (4 goroutines x 300 operations on one bucket, conservation checks: a delivery that returned "
              "an id is found and listed until its owner removes it, a set seen flag stays set, a removed message stays removed, "
              "listings are in delivery order without duplicates, ids distinct); what the forced schedules do monitor is that a "
              "party the model says is blocked really makes no progress (lock / rendezvous present)")
TECHNIQUE = "machine-checked proof in Coq + model/code correspondence check (forced schedules)"
DESIGN_REF = "DESIGN.md §4 C09"
RULE = ("combos (store configuration, sequential prefix history, 2-3 concurrent operations) come from the seeded Go generator; the "
        "schedules of each combo are enumerated from the extracted model (preemption-bounded DFS, sampled, plus seeded random walks, "
        "plus probe schedules ending in a pick the model says must block); each schedule is replayed on the real store with every "
        "goroutine parked at verifhook.Point sites; distinct = distinct (combo, schedule); non-trivial = at least two operations "
        "interleave (a context switch between client goroutines or with the enforcer); plus free-running streams on one lock "
        "bucket of both stores: burst (seeded; 250 rounds of 3 concurrent operations per case, each round judged by the "
        "linearizability oracle) and stress (4 goroutines x 300 operations, history conservation checks); plus the fault "
        "family (file store, with and without cap: the index of one mailbox can no longer be rewritten, then 3-13 operations "
        "on it, on its lock-bucket neighbour and on another bucket, each under a 1.5 s deadline) and the scan stream (the real "
        "storage.RetentionScanner.DoScan as a concurrent party, deliveries forced after its p-th scheduling point, p = 0..7 "
        "(0..14 thorough), both stores); every such case is non-trivial")
TRUSTED = [
    "Go runtime: sync.Mutex/RWMutex give mutual exclusion, an unbuffered channel send completes only with a receive, close(done) releases the waiter (modelled, not verified)",
    "the controller's judgement 'blocked' = no progress for 50 ms (unexpected ones are re-run 3x with 500 ms before they are reported)",
    "goroutine identity by runtime.Stack; the enforcer goroutine is the one unregistered goroutine calling mem.* sites",
]
ASSUMPTIONS = [
    "POSIX rename/unlink/mkdir are atomic; one file-system mutation per scheduling point",
    "no two file-store ids collide (C07's id hypothesis); ids in the file model are an abstract fresh counter",
]
NOT_PROVED = [
    "conc_sequential_is_memstore_limit_stmt (Proofs/ConcC07Seq.v): non-overlapping runs WITH the size limit answer as C07's run_mem for ALL histories — proved for histories of deliveries, reads and mark-seen without cap (conc_sequential_is_memstore_limit_partial: the eviction loop against MemStore.evict_loop); missing: the removal notices (RemoveMessage, PurgeMessages, cap evictions with the limit), where the model looks a message up in the enforcer's book by its tag (object identity) and C07's model by (mailbox, id) — needs distinct tags and 'every live message is registered' as invariants; checked meanwhile by forced-schedule correspondence and the qstep oracle",
    "concmem_refines_qstep_stmt (Proofs/ConcStmts.v): ConcMem refines the sub-action specification qstep used by the size-limit oracle — NOT proved; mem_linearizable_with_enforcer says only that evictions are removals committed by the enforcer, it does not constrain WHICH messages are evicted or when",
]
EXEC_TIMEOUT = {"quick": 600, "thorough": 7200}


def _status(outs):
    return outs[0] if outs else ""


def project(kind, ins, outs):
    if outs and outs[0] == "crash":
        return ["crash"]
    if "BYP" in outs:           # controlled completion after a bypassed probe: for the oracle only
        return outs[:outs.index("BYP")]
    return outs


def nontrivial(kind, ins, outs):
    if kind in ("stress", "burst", "fault", "scan"):
        return True
    s = ins[-1].rstrip("!")
    clients = [c for c in s if c != "e"]
    sw = sum(1 for a, b in zip(clients, clients[1:]) if a != b)
    return sw >= 2 or ("e" in s and sw >= 1)


def shrink_candidates(inp):
    parts = inp.split(" ")
    kind = parts[0]
    if kind == "burst" and int(parts[3]) > 20:
        # fewer rounds (the failing round is named in the verdict; timing decides whether it recurs)
        yield " ".join(parts[:3] + [str(int(parts[3]) // 2)])
        return
    if kind not in ("mem", "file"):
        return
    sched = parts[-1]
    ops = parts[-2].split(",")
    # drop one operation (its steps leave the schedule, later threads are renumbered)
    if len(ops) > 1:
        for i in range(len(ops)):
            o2 = ops[:i] + ops[i + 1:]
            s2 = "".join(c if (c in "e!" or int(c) < i) else chr(ord(c) - 1) for c in sched if c in "e!" or int(c) != i)
            yield " ".join(parts[:-2] + [",".join(o2), s2])
    # drop prefix operations
    pre = parts[-3]
    if pre != "-":
        p = pre.split(",")
        for i in range(len(p)):
            q = p[:i] + p[i + 1:]
            yield " ".join(parts[:-3] + [",".join(q) or "-", parts[-2], sched])


def flow(run):
    combos = os.path.join(run.dir, "combos.txt")
    rc, o = run.gen_inputs(combos)
    if rc != 0:
        run.violation("build", {"what": "driver gen failed", "output": o[-3000:]}, False)
        return
    per_full, per_probe, pb = (6, 2, 2) if run.tier == "quick" else (16, 5, 3)
    gen = os.path.join(run.dir, "inputs.gen.txt")
    rc, o = core.sh([run.modelrun, "enum", str(per_full), str(per_probe), str(pb), str(run.seed)],
                    timeout=1800, stdin_path=combos, stdout_path=gen, cwd=run.dir)
    if rc != 0:
        run.violation("build", {"what": "schedule enumeration by the extracted model failed", "output": o[-3000:]}, False)
        return
    corpus = run.corpus_inputs()
    inp = os.path.join(run.dir, "inputs.txt")
    with open(inp, "w") as f:
        for l in corpus:
            f.write(l + "\n")
        for l in open(gen):
            f.write(l)
    st = core.evaluate(run, inp, n_corpus=len(corpus))
    if st is not None:
        n_combos = sum(1 for _ in open(combos))
        status = {}
        for l in open(os.path.join(run.dir, "main.cases.txt")):
            kind, _, outs = core.split_case(l)
            k = re.sub(r"@\d+", "", _status(outs)) if kind in ("mem", "file") else kind
            status[k] = status.get(k, 0) + 1
        run.cov.setdefault("extra", {})["schedules"] = {"combos": n_combos, "per_combo": [per_full, per_probe], "preemption_bound": pb,
                                                        "status_counts": status}


def post(run):
    if run.tier != "thorough" or run.violations:
        return
    # free-running stress with a -race build and the linearizability oracle (supporting search)
    race_bin = run.drive + "_race"
    rc, o, dt = core.go_build("./cmd/c09", race_bin, race=True)
    if rc != 0:
        run.notes.append("race build failed: " + o[-500:])
        run.violation("build", {"what": "-race build of the C09 driver failed", "output": o[-3000:]}, False)
        return
    inp = os.path.join(run.dir, "stress.in.txt")
    rcg, og = core.sh([race_bin, "gen", "-seed", str(run.seed), "-tier", "stress"], timeout=120, stdout_path=inp,
                      env=run.driver_env(), cwd=run.dir)
    if rcg != 0:
        run.violation("build", {"what": "stress gen failed", "output": og[-2000:]}, False)
        return
    saved = run.drive
    run.drive = race_bin
    try:
        core.evaluate(run, inp, label="stress")
    finally:
        run.drive = saved

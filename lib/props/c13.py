ID = "C13"
LEVEL = "proof"
TITLE = "A POP3 session is a stable snapshot whose deletions commit only on QUIT"
LEVEL_TEXT = ("Coq theorems over every history (command lines, parsed or raw bytes, interleaved with deliveries / removals / purges by "
              "others, write failure, EOF anywhere) of an executable model of pkg/server/pop3/handler.go; the model is tied to the "
              "code by running the real pop3.Server session on the real mem and file stores over a scripted connection and comparing "
              "every reply (structure, numbers, ids, bodies byte for byte) and the store afterwards; the extracted specification "
              "(oracle) is evaluated on what the implementation answered.")
LEVEL_NOTE = ("The theorems are about the model; the model/code tie is sampled (differential testing). Modelled, not verified: the two "
              "stores (GetMessages order, RemoveMessage, Source availability), STLS / CAPA as a layer around the session model (Model/Pop3Tls.v; kind tls drives a real handshake; "
              "ForceTLS is in the model but not driven; an STLS arriving while writes already fail is treated as an ordinary lost-reply step), "
              "timeouts (a read times out exactly where the scripted connection pauses; no clocks), true concurrency inside one command "
              "(external store changes happen between commands); a read error in the middle of streaming a message. What RETR/TOP normalise is stated exactly by pop3_norm_pieces (every LF-separated piece comes back with exactly one CR before its LF: 'a LF' -> 'a CR LF', 'a CR LF' and 'a CR CR LF' unchanged, an unterminated last piece is terminated); pop3_norm_only_line_endings alone compares the non-CR/LF bytes and cannot see a moved CR."
              " Composed over ONE abstract store with the other interfaces' models (Proofs/InterfacesRemoval.v, InterfacesRemovalPop3.v, InterfacesSeen.v): removed_message_is_gone_from_every_interface / purged_mailbox_is_empty_in_every_interface (after REST DELETE the store, REST /source, web-UI /source and a second DELETE answer not-there, the listing and the POP3 view lose exactly that message, everything else is untouched), pop3_quit_deletions_reach_every_interface (what a POP3 QUIT commits is gone from the store and REST, what the session did not mark stays), seen_changes_only_the_flag (PATCH seen changes one flag; POP3 view and sources unchanged); removal_premises_hold / quit_instance are kernel-evaluated instances.")
TECHNIQUE = "machine-checked proof in Coq + model/code correspondence check"
DESIGN_REF = "DESIGN.md §4 C13, Appendix C.2"
RULE = ("sess: generated POP3 dialogues (0-8 messages, hostile message sources incl. 70 KB lines, valid/malformed/out-of-range/"
        "overflowing/signed arguments, mixed case and the two non-ASCII runes that upper-case to ASCII, double spaces, LF/CRLF/CRCRLF "
        "line ends, split and pipelined chunks, any order of USER/PASS/APOP, CAPA, QUIT or EOF or unterminated last line, idle timeout, "
        "read error, write failure, reconnects on the same server) interleaved with deliveries/removals/purges by others, mailbox-cap evictions and - memory store with maxkb - size-limit evictions caused by deliveries of 90 B .. 140 KB to any mailbox, "
        " alternating mem and file store; plus an enumeration of all pairs of transaction commands on a 2-message mailbox and a "
        "regression corpus; bytes: raw client byte streams (valid dialogues cut at every byte; garbage with LF/CR/NUL/8-bit/the ToUpper runes over-represented; lines of 5-75 KB) run by Coq's run_stream itself; net: scripted connections (a pause longer than the idle timeout at every byte offset of valid dialogues and at random offsets of dialogues and garbage; endings EOF / silence / read error) run by Coq's run_net; tls: one to three connections to ONE server with STLS configured (or not), real TLS client (proper handshake or plaintext instead of a ClientHello), commands pipelined behind STLS, CAPA before/after, run by Coq's tsessions; overlap: up to four connections open at the same time on one server (two logins to the same mailbox, a third elsewhere, interleaved commands), every command owed a reply within 5 s. distinct = distinct input line; non-trivial = the session logs in and issues at least one further command line.")
TRUSTED = ["command words are compared after Go's strings.ToUpper: modelled for ASCII plus U+0131/U+017F (the only runes whose upper case is ASCII)",
           "the store abstraction of Model/Pop3.v is proved to be C07's StoreSpec read through abs (pop3_over_storespec, storespec_*: for every cap and size limit of StoreSpec), and StoreSpec is what C07 proves the store models refine (pop3_over_store_models: the memory-store model for every cap and size limit, the file-store model only without a size limit, c_max = 0, and under C07's environment hypothesis file_fresh); what stays modelled rather than proved is the one difference between the back-ends that StoreSpec does not speak about: Source() of a message object whose message has been removed fails on the file store and still succeeds on the mem store (sampled by the correspondence run)"]
ASSUMPTIONS = ["the harness's scripted net.Conn hands the server one line per Read and never blocks writes; deadlines are not exercised",
               "kinds sess/bytes/net/stress run with TLS disabled (TLSEnabled=false); kind tls with TLSEnabled=true|false, ForceTLS=false, a self-signed certificate made at run time"]
NOT_PROVED = ["observations about the code, outside the letter of C13 (modelled as coded, proved of the model, seen on the real server by kind tls): Server.tlsState is server-level - after one client upgraded (stls_at_most_once, upgrade_is_for_good) or merely failed its handshake (failed_handshake) no other connection of that server is offered or granted STLS; an accepted STLS keeps state and user name (stls_keeps_session); plaintext pipelined behind STLS in the same segment is dropped (pipelined_behind_stls_dropped)",
              "behaviour under true concurrency inside one command (a store change while RETR is streaming): not modelled (searched by the -race stress stream)",
              "read error while a message is being streamed (handler.go sendMessage/sendMessageTop: scanner.Err() != nil => '.' then '-ERR ...'): not modelled; only the failure of msg.Source() is (BFail). Unreachable with the two stores unless the file is truncated while it is read",
              "line-ending normalisation is exact per hop (pop3_norm_pieces: at most the one CR directly before an LF is read as part of the line ending), but over the two hops SMTP DATA -> POP3 RETR a body line 'a CR CR LF' arrives as 'a CR LF' (Example two_hop_cr_loss): a lost CR that is not strictly a line ending"]


def _events(ins):
    return [] if len(ins) < 3 or ins[2] == "-" else ins[2].split(",")


def nontrivial(kind, ins, outs):
    if kind == "overlap":
        return len(outs) >= 4
    if kind == "tls":
        return any(o.endswith("C1") or o.endswith("C0") for o in outs) or len(outs) > 4
    if kind in ("bytes", "net"):
        return len([o for o in outs if not o.startswith("S")]) >= 2
    if kind != "sess":
        return True
    replies = [o for o in outs if not o.startswith("S")]
    # greeting + login (+/n/-) + at least one more reply
    logged = any(o.startswith("+/") and o.split("/")[1] != "-" and o.endswith("/-") for o in replies[1:3])
    return len(replies) >= 3 and (logged or len(replies) >= 4)


def shrink_candidates(inp):
    parts = inp.split(" ")
    if parts[0] == "bytes" and len(parts) == 4 and parts[3] != "-":
        h = parts[3]
        n = len(h) // 2
        # drop halves, quarters, then single bytes
        step = n // 2
        while step >= 1:
            for i in range(0, n, step):
                cand = h[:2 * i] + h[2 * (i + step):]
                yield " ".join(parts[:3] + [cand or "-"])
            step //= 2
        return
    if parts[0] == "overlap" and len(parts) == 4:
        st = parts[3].split(",")
        for j in range(len(st) - 1, -1, -1):
            if len(st) > 1:
                yield " ".join(parts[:3] + [",".join(st[:j] + st[j + 1:])])
        return
    if parts[0] == "tls" and len(parts) == 4:
        ss = parts[3].split(";")
        for i in range(len(ss)):                       # drop a connection
            if len(ss) > 1:
                yield " ".join(parts[:3] + [";".join(ss[:i] + ss[i + 1:])])
        for i, sx in enumerate(ss):                    # drop a step
            st = [] if sx in ("-", "") else sx.split(",")
            for j in range(len(st)):
                yield " ".join(parts[:3] + [";".join(ss[:i] + [",".join(st[:j] + st[j + 1:]) or "-"] + ss[i + 1:])])
        return
    if parts[0] == "net" and len(parts) == 5 and parts[3] != "-":
        cs = parts[3].split(",")
        for i in range(len(cs)):           # drop a chunk
            yield " ".join(parts[:3] + [",".join(cs[:i] + cs[i + 1:]) or "-", parts[4]])
        for i in range(len(cs) - 1):       # merge two chunks (remove a pause)
            a, b = cs[i], cs[i + 1]
            m = ("" if a == "-" else a) + ("" if b == "-" else b)
            yield " ".join(parts[:3] + [",".join(cs[:i] + [m or "-"] + cs[i + 2:]), parts[4]])
        for i, c in enumerate(cs):         # halve a chunk
            if c != "-" and len(c) > 4:
                h = (len(c) // 4) * 2
                for cut in (c[:h], c[h:]):
                    yield " ".join(parts[:3] + [",".join(cs[:i] + [cut] + cs[i + 1:]), parts[4]])
        return
    if parts[0] != "sess" or len(parts) != 4:
        return
    fl, init, evs = parts[1], parts[2], parts[3]
    ev = [] if evs == "-" else evs.split(",")
    # drop one event (later ones first: keeps the login)
    for i in range(len(ev) - 1, -1, -1):
        e2 = ev[:i] + ev[i + 1:]
        yield " ".join(["sess", fl, init, ",".join(e2) or "-"])
    # drop one initial message / mailbox
    if init != "-":
        boxes = init.split(";")
        for bi, b in enumerate(boxes):
            name, _, srcs = b.partition(":")
            ss = srcs.split(".")
            if len(ss) > 1:
                for si in range(len(ss)):
                    nb = name + ":" + ".".join(ss[:si] + ss[si + 1:])
                    yield " ".join(["sess", fl, ";".join(boxes[:bi] + [nb] + boxes[bi + 1:]), evs])
            elif len(boxes) > 1:
                yield " ".join(["sess", fl, ";".join(boxes[:bi] + boxes[bi + 1:]), evs])
        # halve a long message
        for bi, b in enumerate(boxes):
            name, _, srcs = b.partition(":")
            ss = srcs.split(".")
            for si, s in enumerate(ss):
                if len(s) > 64:
                    h = (len(s) // 4) * 2
                    for cut in (s[:h], s[h:]):
                        nb = name + ":" + ".".join(ss[:si] + [cut] + ss[si + 1:])
                        yield " ".join(["sess", fl, ";".join(boxes[:bi] + [nb] + boxes[bi + 1:]), evs])

EXEC_TIMEOUT = {"quick": 300, "thorough": 5400}
MODEL_TIMEOUT = {"quick": 300, "thorough": 5400}
GEN_TIMEOUT = 120


def post(run):
    """Supporting search (not part of the proof): the session under real concurrency with other
    store clients, driver built with -race; the property is checked on the replies by the driver."""
    import os
    from vcheck import core
    if run.violations:
        return
    racebin = run.drive + "_race"
    rc, o, dt = core.go_build("./cmd/c13", racebin, race=True)
    if rc != 0:
        run.notes.append("race build of the C13 driver failed; stress stream skipped: " + o[-300:])
        return
    n = 6 if run.tier == "quick" else 150
    inp = os.path.join(run.dir, "stress.in.txt")
    with open(inp, "w") as f:
        for i in range(n):
            s = run.seed * 1000 + i
            f.write("stress mem %d 6 300\n" % s)
            f.write("stress file %d 6 300\n" % s)
            f.write("stress mem:3 %d 5 200\n" % s)
            f.write("stress file:4 %d 8 200\n" % s)
    old = run.drive
    run.drive = racebin
    try:
        core.evaluate(run, inp, label="stress")
    finally:
        run.drive = old
    kernel_cross_check(run)
    run.cov.setdefault("extra", {})["stress_note"] = ("stream 'stress': real interleavings with 3 concurrent store clients, "
                                                       "-race build; a data race makes the driver exit non-zero (reported as a violation)")


def kernel_cross_check(run):
    """Secondary path of DESIGN 2.4: up to 150 sampled cases (what the implementation answered) are written as Coq
    terms and re-evaluated with vm_compute by coqc (Model.Pop3.case_ok): cross-checks the extracted OCaml model
    and the runner's parsing against the kernel's evaluation of the same definitions."""
    import os, re
    from vcheck import core
    casesp = os.path.join(run.dir, "main.cases.txt")
    if not os.path.exists(casesp):
        return
    sub = os.path.join(run.dir, "kernel.cases.txt")
    with open(sub, "w") as f:
        for i, l in enumerate(open(casesp)):
            if (i < 16 or i % 7 == 0) and len(l) < 3000:
                f.write(l)
    vfile = os.path.join(run.dir, "cases_C13.v")
    if os.path.exists(vfile):
        os.remove(vfile)
    env = dict(os.environ, C13_COQ_CASES=vfile)
    rc, o = core.sh(["bash", "-c", "ulimit -s unlimited 2>/dev/null; exec %s" % run.modelrun], timeout=300,
                    stdin_path=sub, stdout_path=os.path.join(run.dir, "kernel.model.txt"), env=env, cwd=run.dir)
    info = {"ran": False}
    if rc == 0 and os.path.exists(vfile):
        with core.Lock("coq"):
            rc2, o2 = core.sh(["coqc", "-Q", core.COQ, "IV", vfile], timeout=900, cwd=run.dir)
        m = re.search(r"\(\* (\d+) cases \*\)", open(vfile).read())
        info = {"ran": True, "ok": rc2 == 0, "cases": int(m.group(1)) if m else None}
        if rc2 != 0:
            run.violation("correspondence", {"what": "in-kernel re-evaluation (vm_compute) of sampled C13 cases disagrees with the extracted model / the implementation",
                                             "output": o2[-2000:], "file": vfile}, False)
    else:
        run.notes.append("kernel cross-check not run: modelrun rc=%s %s" % (rc, o[-200:]))
    run.cov.setdefault("extra", {})["kernel_cross_check"] = info

ID = "C18"
LEVEL = "proof"
TITLE = "Message HTML and text shown in the web UI cannot carry active content"
LEVEL_TEXT = ("PARTIAL (hypotheses about two third-party parsers remain). Proved in Coq, for all inputs: "
              "(HTML path, token level: sanitized_html_inert) for EVERY token list and EVERY answer of the attribute pattern matcher, the "
              "modelled bluemonday policy loop (tables read from the real policy object) emits only allowed, non-forbidden elements, no "
              "event-handler attribute on start / self-closing tags (end-tag attributes are passed through by the model as bluemonday would; "
              "the tokenizer never reports any), URL attributes only where validURL ran and only with a scheme on a fixed safe list, text and attribute "
              "values escaped on render; style values are passed through unchanged (style_values_pass_through) and the ones inbucket writes "
              "hold only allow-listed declarations (style_only_allowed, filter_attr_quoted; composed under H-tok in html_style_clause). "
              "(Text path: text_to_html_escaped_and_anchored) every markup "
              "byte of the input is escaped invertibly, anchors stand around exactly the URL match segments, every tag is one of three "
              "generated forms, every href is attribute-safe; the SCHEME of a generated href is NOT restricted (see not_proved). Each model is compared byte for byte with the real function on every case "
              "(sanitizeStyle, sanitizeStyleTags, policy.Sanitize incl. rendering, TextToHTML); the tokenizer's tag scanner is modelled too, compared on every start tag, and proved to read "
              "back what styleTagFilter writes (rewritten_tag_scans_back). The structure of sanitize.HTML (two passes, order, data flow, every "
              "pass unconditional, tokenizer unconfigured) is read from the source on every run and proved to be the model's composition "
              "(html_pipeline_pinned). The text is recoverable from TextToHTML's output (text_recoverable). NOT proved: that the HTML "
              "tokenizer (tag boundaries, entity decoding) and the CSS scanner see what a browser sees.")
LEVEL_NOTE = ("Remaining hypotheses about third-party code (each validated per case, never proved): "
              "(H-tok) x/net/html tokenizer: the token list it reports for a document is what a browser would build from the same bytes, and "
              "re-tokenising a rendered token list gives that list back (checked: the final output is re-tokenised and re-parsed as a tree, "
              "every start tag judged by the extracted spec tag_inert). NARROWED: the tokenizer's tag scanning (name, attribute key / value "
              "spans, self-closing test) is now modelled (Model/SanitizeTag.v), compared with the real tokenizer on the raw bytes of every start "
              "tag of every document and rewritten document, and rewritten_tag_scans_back + scan_gives_wf prove that a tag styleTagFilter wrote "
              "scans back into exactly the attributes it wrote; for style values the hypothesis is evaluated in computable form on every case "
              "(h_tok_style_check, html_style_clause_checked). What remains assumed of the tokenizer: where a tag starts (text / raw-text / "
              "comment states) and its entity decoding; "
              "(H-css) gorilla/css scanner: a browser splits a style value into declarations where the scanner sees ';' tokens (checked: every "
              "style value of the final output is re-scanned, each declaration head must be allow-listed); "
              "(H-url) net/url: the String() of a successfully parsed URL shows a browser the scheme Parse reported (hypothesis of "
              "sanitized_html_inert, checked on every parsed href/src/cite by the extracted browser_scheme); "
              "(H-re) regexp, text path only: URL matches are non-empty and free of CR/LF (hypothesis of text_to_html_escaped_and_anchored, checked per case). "
              "NOT claimed at all: (i) the scheme of the anchors TextToHTML generates: the URL pattern matches javascript:alert(1), data:text/html,... "
              "and the server makes them clickable anchors (target=_blank); the property's clause on plain text (escaped text + server-generated "
              "anchors/line breaks) does not restrict the scheme, the property's TITLE arguably does — shown false of the code by "
              "text_anchor_scheme_not_claimed and observed on the real TextToHTML on every run (evidence: observation_javascript_anchor); "
              "(ii) 'sanitising never fails or panics' has no theorem: the models are total functions over token lists the parsers already "
              "produced; it is tested by the long-token family (each token kind at 32 KiB, 64 KiB +- a few bytes, 150-400 KiB), the mutated and "
              "raw garbage streams, and an oracle that turns any error return, the UI's failure page, or a panic into a violation. "
              "No longer assumed: bluemonday's policy engine (element/attribute filtering, content skipping, URL scheme decision, rel/target "
              "additions) and x/net/html's Token.String rendering are modelled and proved; regexp answers for attribute patterns are universally "
              "quantified in the theorem; both EscapeString tables are obtained by running the functions on all 256 bytes. Policy features the "
              "policy does not use (data attributes, comments, element/style matchers, sandbox, URL rewriter, custom URL policies) make the "
              "translator stop with an alarm instead of being silently ignored.")
TECHNIQUE = "machine-checked proof in Coq + model/code correspondence check"
DESIGN_REF = "DESIGN.md §4 C18"
RULE = ("css: generated declaration lists (allow-listed / other properties, case flips, CSS escapes, Kelvin sign, strings, url(), comments, "
        "at-rules, braces, CDO/CDC, invalid UTF-8, NUL, unterminated strings/comments) + mutated + raw streams over a significant alphabet; "
        "html: generated trees (allowed and forbidden elements, raw-text elements, duplicate/mixed-case/unquoted/unterminated attributes, "
        "event handlers, script URLs with entity/whitespace obfuscation, comments, CDATA, doctype, malformed nesting) + styled single elements "
        "+ linkable elements with their URL attribute and URLs of ~20 schemes incl. data:/javascript:/blob: and obfuscations "
        "+ attribute values (style, href, title, alt, src) with multiply encoded character references (depth 1-3; decimal, hex, named; with and without the terminating semicolon) whose separator / quote / colon only appears after a second entity decoding "
        "+ spliced markup: a stray less-than, then a comment / bogus comment / processing instruction / CDATA / empty end tag, then text that reads like the inside of a start tag (disallowed style, event handler, script URL, forbidden element), also tag text cut by such a token "
        "+ URL-valued attributes other than href/src/cite (background, poster, action, ...) on table and other elements with script-scheme values that also hold cid:/http:// somewhere; code points an NFC normalisation of the output turns into syntax (U+037E, U+1FEF, U+212A; U+0338 and other combining marks right after a greater-than, less-than, equals sign, quote) "
        "+ documents with ONE very long token of every kind (text run, attribute value, raw-text element, comment, unterminated tag, many attributes; 32 KiB, 64 KiB +- a few bytes, 150-400 KiB) in the html and msg kinds: sanitising must not return an error "
        "+ mutated + raw streams; text: words, URLs of many schemes, markup characters, CR/LF combinations, non-ASCII. "
        "distinct = distinct input line; non-trivial = css: the scanner produced >= 3 tokens; html: at least one start tag with attributes "
        "(the rewritten path); text: holds a markup character, a line break or a URL match.")
TRUSTED = [
    "x/net/html tokenizer, gorilla/css scanner, net/url.Parse, regexp: run by the driver, their results are inputs of the models (see level note)",
    "policy tables (go/c18policy, reflection on the real *bluemonday.Policy), escape tables, token kinds/names, ToLower/IsSpace tables: generated by go/cmd/pins from the real packages on every run",
]
ASSUMPTIONS = [
    "H-tok: a browser tokenises the served bytes as x/net/html does (tested: re-tokenise + tree re-parse of every final output, spec tag_inert on every start tag)",
    "H-css: a browser splits style declarations where gorilla/css sees ';' tokens (tested: re-scan of every emitted style value)",
    "H-url: url.Parse(...).String() shows a browser the scheme Parse reported (hypothesis of sanitized_html_inert; checked on every case)",
    "H-re: URL matches of regexp are non-empty and free of CR/LF (hypothesis of text_to_html_escaped_and_anchored; checked on every case)",
]
NOT_PROVED = [
    "text_anchor_scheme_safe_stmt (Proofs/SanitizeTextScheme.v): 'every anchor TextToHTML generates has a scheme on the safe list' — FALSE of the code "
    "(Props/C18/text_anchor_scheme_not_claimed: javascript:alert(1) becomes <a href=\"javascript:alert(1)\" target=\"_blank\">); outside the "
    "plain-text clause of the statement as read here (it restricts markup, not schemes); logged per run as observation_javascript_anchor",
    "'Sanitising never fails or panics on malformed markup': no theorem (the models are total over already-produced token lists; an error can "
    "only come from the tokenizer, e.g. a buffer limit). Covered by testing only: long-token family + mutated/raw streams in html and msg kinds, "
    "oracle verdicts fail:sanitiser-returned-error / fail:sanitiser-panicked",
    "H-tok is narrowed, not discharged: tag boundaries (where a '<' starts a tag) and entity decoding stay assumptions about x/net/html; the tag "
    "scanner itself is modelled and proved to read back what styleTagFilter writes",
    "H-tok, H-css (what a browser sees vs what x/net/html and gorilla/css report): hypotheses, see assumptions; html_style_clause states H-tok explicitly",
]


def _tokcount(f):
    return 0 if f == "-" else f.count(",") + 1


def nontrivial(kind, ins, outs):
    if kind == "css":
        return len(outs) >= 2 and _tokcount(outs[1]) >= 3
    if kind == "html":
        return len(outs) >= 2 and ("|t." in outs[1] or outs[1].startswith("t."))
    if kind == "text":
        b = bytes.fromhex(ins[0]) if ins[0] != "-" else b""
        return any(c in b for c in b"<>&'\"\r\n") or (len(outs) >= 2 and outs[1] != "-")
    if kind == "msg":
        return len(outs) >= 5 and (outs[2] != "-" or outs[4] != "-")
    return True


def project(kind, ins, outs):
    # only the first field is the model's prediction; the others are parser results handed to the
    # model (inputs) and the re-parse report judged by the oracle
    if kind == "html" and len(outs) >= 4:
        # implementation: rewritten document and final document (fields 0 and 2); the model line has exactly these two
        # + the constant T1: the model answers T1 when its tag scanner agrees with the tokenizer on every start tag
        return [outs[0], outs[2], "T1"]
    if kind == "html":
        return outs[:3]
    return outs[:1]


def shrink_candidates(inp):
    parts = inp.split(" ")
    kind, x = parts[0], parts[1]
    if kind == "msg":
        for i in (1, 2):
            y = parts[i]
            if y == "-":
                continue
            n = len(y) // 2
            size = max(1, n // 2)
            while size >= 1:
                for start in range(0, n, size):
                    z = y[:2 * start] + y[2 * (start + size):]
                    q = list(parts)
                    q[i] = z or "-"
                    yield " ".join(q)
                size //= 2
        return
    if x == "-":
        return
    n = len(x) // 2
    size = n // 2
    while size >= 1:
        for start in range(0, n, size):
            y = x[:2 * start] + x[2 * (start + size):]
            yield "%s %s" % (kind, y or "-")
        size //= 2


def post(run):
    """Observation outside the letter of the statement: schemes of the anchors TextToHTML generates."""
    import os
    p = os.path.join(run.dir, "main.cases.txt")
    if not os.path.exists(p):
        return
    schemes = {}
    example = None
    for line in open(p):
        if not line.startswith("text "):
            continue
        f = line.rstrip("\n").split(" => ")
        if len(f) != 2:
            continue
        outs = f[1].split(" ")
        if not outs or not outs[0].startswith("S") or outs[0] == "S-":
            continue
        out = bytes.fromhex(outs[0][1:])
        i = 0
        while True:
            i = out.find(b'<a href="', i)
            if i < 0:
                break
            j = out.find(b'"', i + 9)
            href = out[i + 9:j].lower()
            k = href.find(b":")
            s = href[:k].decode("latin-1") if 0 < k < 12 else "(none)"
            schemes[s] = schemes.get(s, 0) + 1
            if s == "javascript" and example is None:
                example = {"text": bytes.fromhex(f[0].split(" ")[1]).decode("latin-1"), "anchor": out[i:out.find(b">", i) + 1].decode("latin-1")}
            i = j
    run.cov.setdefault("extra", {})["texttohtml_anchor_schemes"] = schemes
    if example:
        run.cov["extra"]["observation_javascript_anchor"] = dict(example, note="outside the letter of C18: TextToHTML makes a clickable anchor of any scheme the URL pattern matches, including javascript:; recorded, not alarmed")

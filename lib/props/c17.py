from props.smtpcommon import nontrivial  # noqa: F401
from props import smtpcommon

ID = "C17"
LEVEL = "proof"
TITLE = "Extension hooks decide exactly what they say; a broken script never loses mail"
LEVEL_TEXT = ("Coq theorems over the session model and the extension layer model: deny refuses MAIL/RCPT with the hook's code and records nothing "
              "(deny_literal_*), allow bypasses the domain policy but not the recipient limit (allow_overrides_policy_*), defer is exactly 'no "
              "answer' (defer_is_policy), only the first answering listener counts (first_answer_wins, silent_listener_is_absent), a replaced "
              "inbound message is delivered to exactly the hook's mailboxes/sender/recipients/subject (replacement_exact, "
              "replacement_mailboxes), a handler that raises or returns the wrong kind of value has not answered and the session is then the "
              "policy-only session of C01 (erroring_*_is_silent, silent_hooks_deliver_as_policy), and no pooled Lua state is ever held by two "
              "callers under any interleaving of get/put (pool_exclusive); composed (Proofs/HooksCompose.v): with any chain of listeners on a broker - the Lua host among "
              "them - the first listener that answers decides the session's reply code for code (first_deny_decides_mail/rcpt, first_allow_decides_rcpt), an explicit "
              "defer is an answer that ends the chain and hands the decision to the policy (explicit_defer_ends_the_chain), a Lua handler that raised or returned "
              "anything but a response is a listener that is not there (broken_lua_handler_is_absent), and the first listener returning a message decides what is "
              "stored (first_replacement_decides); the order of the listeners is the order of registration and survives removal or replacement of one of them "
              "(Proofs/HooksChain.v over chain_add / chain_remove = AddListener / RemoveListener: removal_keeps_the_order_of_the_others, readded_listener_goes_last, "
              "removal_does_not_reorder_answers; the luareload stream loads the script a second time next to two Go listeners); tied to the code by generated Lua scripts whose outcome class is "
              "known by construction, installed with the real luahost and run against real SMTP sessions sequentially and from up to 8 "
              "concurrent sessions. *Partial*: gopher-lua and the script=>outcome mapping are tested, not proved; several theorems (deny_literal_rcpt, erroring_*_is_silent, "
              "replacement_*, defer_is_policy) unfold three-line definitions: that the handlers map a Lua outcome to an answer THIS way is the model's transcription "
              "of lua.go, validated by the correspondence run; the deny TEXT: reply lines of the session model are code x continuation flag, the line itself is Hooks.deny_line - its format "
              "is the source's (Gen/SmtpDeny.v regenerated from the two Sprintf sites; deny_line_is_the_source_format), it starts with the digits of the model's reply code "
              "(deny_line_carries_the_model_code) and carries the text verbatim (deny_line_text_verbatim); the differential run compares the implementation's raw reply line with the "
              "extracted function (verdict deny-text-differs-from-hook-answer)")
LEVEL_NOTE = ("Coq kernel; extraction; the Lua interpreter (gopher-lua) is third-party: the mapping from a script to its outcome class is by "
              "construction of the generator and validated by running it; oracles as in C01 (net.ParseIP, enmime header decoding); data races between concurrent handler "
              "calls are outside a Gallina model (the concurrent stream compares per-session replies and the store multiset); listeners are pure functions in the model: "
              "in the code they receive pointers - that a listener's scribbling on what it was handed leaves no trace for the session or for later listeners holds since "
              "fixes 0021 / 0023 (copies per handler) and is checked by tampering handlers followed by a second Go listener on all three brokers; a handler returning "
              "inbound_message.new() (nil sender, no recipients) is generated and judged by the differential run, the model's overrides cannot express a nil sender")
DESIGN_REF = "DESIGN.md §4 C17"
RULE = ("scripts generated from rule tables over the addresses and subjects of the dialogue: any subset of the five handlers, each rule "
        "realised as allow / deny(code,msg|defaults) / defer / no answer (nil, false, number, string, table, wrong userdata, runtime error, "
        "missing return), a second Go-implemented listener registered after the Lua host on both SMTP brokers with its own allow/defer/deny rules (consulted only when the Lua handler did not answer) / message rewrite of any subset of mailboxes, from, to, subject, optionally abandoned by a late error or wrong-typed "
        "return; distinct = distinct input line; non-trivial = something stored or some 5xx reply")
TRUSTED = ["gopher-lua executes the generated script as the generator intends (outcome class by construction)",
           "net.ParseIP verdicts and enmime header facts are oracles supplied by the driver from the real functions"]
ASSUMPTIONS = ["hooks do not answer Deny with the codes 250 or 354 (a hook lying about acceptance is outside the property)",
               "the text of a hook's deny holds no CR or LF (the code writes it verbatim: a text with line breaks injects reply lines; reply_ok accepts any integer code of a Deny)"]
NOT_PROVED = [
              "listener purity: a listener's writes to its argument are invisible to the session and to later listeners (differential only, fixes 0021/0023)"]


def project(kind, ins, outs):
    if len(outs) >= 6:
        return [outs[0], outs[4], outs[5]]
    return outs


def shrink_candidates(inp):
    parts = inp.split(" ")
    if parts[0] not in ("lua", "luareload") or len(parts) < 17:
        return
    raw = bytes.fromhex(parts[12]) if parts[12] != "-" else b""
    chunks = raw.split(b"\n")
    for i in range(len(chunks) - 1):
        cand = b"\n".join(chunks[:i] + chunks[i + 1:])
        q = list(parts)
        q[12] = cand.hex() or "-"
        yield " ".join(q)


def post(run):
    """Distribution statistics, then the concurrent-session cases once more under the race detector:
    handlers invoked from many sessions at once must not race on shared state."""
    import os
    from vcheck import core
    smtpcommon.post(run)
    racebin = run.drive + "_race"
    rc, o, dt = core.go_build("./cmd/c17", racebin, race=True)
    extra = run.cov.setdefault("extra", {})
    if rc != 0:
        extra["race_stream"] = {"ran": False, "why": "race build failed: " + o[-300:]}
        return
    inp = os.path.join(run.dir, "inputs.txt")
    lines = [l for l in open(inp) if l.startswith("luapar ")] if os.path.exists(inp) else []
    lines = lines[:20 if run.tier == "quick" else 400]
    if not lines:
        return
    rin = os.path.join(run.dir, "race.in.txt")
    with open(rin, "w") as f:
        f.writelines(lines)
    env = run.driver_env()
    env["GORACE"] = "halt_on_error=0"
    rc, err = core.sh([racebin, "exec"], timeout=1800, stdin_path=rin, stdout_path=os.path.join(run.dir, "race.cases.txt"),
                      env=env, cwd=run.dir)
    n = err.count("WARNING: DATA RACE")
    extra["race_stream"] = {"ran": True, "cases": len(lines), "data_races_reported": n, "build_s": round(dt, 1)}
    if n:
        i = err.index("WARNING: DATA RACE")
        run.violation("race", {"what": "the race detector reports a data race while hook handlers run from concurrent SMTP sessions",
                               "first_report": err[i:i + 3000], "cases": [l.rstrip("\n")[:300] for l in lines[:3]],
                               "case": lines[0].rstrip("\n"),
                               "note": "replay: run the luapar cases of this seed with a -race build of go/cmd/c17"}, True)

import os

ID = "C04"
LEVEL = "proof"
TITLE = "Mailbox naming is canonical: mail to an address is fetchable by that address"
LEVEL_TEXT = ("Coq theorems over every address string and each naming mode (non-empty name, fixed point, name of the address, "
              "letter-case and +extension insensitivity for every l/e/d when both variants are accepted -- the +ext variant of an accepted "
              "address need not itself be accepted at the 128/320 limits --, REST/web-UI/monitor interfaces compute the same name) about an "
              "executable model of pkg/policy/address.go; receive side = read side as ONE theorem over the flows the translator reads from the "
              "source (receive_read_agreement: RCPT handler -> NewRecipient -> Deliver against every REST / web-UI / monitor / POP3 entry, exact guard); "
              "an independent reading of doc/config.md proved against the model and used as oracle (ordinary_address_name); "
              "the model is tied to the code by a sampled correspondence check and by pinned call structure (addr_calls_pinned). PARTIAL for "
              "'every read interface': the POP3 clause is REFUTED (open finding K-C04-pop3-user): USER <address> reaches the mailbox iff the "
              "address is its own canonical name, which in local (default) and domain naming is never the case for any accepted address "
              "(pop3_user_by_address_never_local/_domain); logging in with the mailbox NAME works in every mode (pop3_user_by_name)")
LEVEL_NOTE = ("theorems are about the Gallina models coq/Model/Addr.v and coq/Model/IpLit.v (net.ParseIP's literal grammar, "
              "transcribed from netip.ParseAddr of the Go toolchain in use and cross-checked against the real net.ParseIP on every "
              "literal body of every case and on a dedicated stream); the theorems carry no hypothesis about net.ParseIP any more; "
              "Go's Unicode ToLower: theorem unicode_lower_irrelevant shows no non-ASCII string reaches it in any mode; "
              "read side: pins lists the uses of the URL variable and checks they pass through MailboxForAddress")
TECHNIQUE = "machine-checked proof in Coq + model/code correspondence check"
DESIGN_REF = "DESIGN.md §4 C04, §4bis C04 naming"
RULE = ("addr: structured generator (atoms, quoted strings, quoted pairs, routes, IP literals with/without the IPv6 tag, case flips, "
        "'+'/'.' placement, 128/255/320/63 length edges, 6% byte mutations, 1% non-ASCII) plus a naive random stream; each address goes "
        "through ParseEmailAddress and, per naming mode, NewRecipient, ExtractMailbox and ExtractMailbox of the resulting name. "
        "case / plus: pairs (letter-case variant; l@d vs l+e@d) through NewRecipient in each mode. ip: the modelled literal parser against net.ParseIP "
        "(generated IPv4/IPv6 bodies: octet ranges, leading zeros, field counts, group lengths, ellipsis positions, embedded IPv4, zones, mutations). "
        "pop3 / live: RCPT+DATA on a real SMTP session (net.Pipe), then lookup by the address through Manager.MailboxForAddress, every REST v1 and web-UI "
        "handler on the real router (list, show, source, mark-seen, delete, purge) and a real POP3 session (USER <address>). "
        "hist: histories of naming calls (NewRecipient, ExtractMailbox, MailboxForAddress, SMTP delivery, REST list, POP3 USER) executed in order in one process "
        "on one goroutine with GOMAXPROCS(1), refused strings immediately followed by accepted ones; every answer must be that of the call alone. "
        "sweep: long histories of MailboxForAddress (the target re-asked after EVERY one of 7000 distinct other lookups, and after exactly N others "
        "for N around powers of two and ten up to 10 001); the target's name must never change. "
        "lower: strings.ToLower on ASCII-only strings (the go_tolower model). valid: ValidateDomainPart on arbitrary byte strings (multi-byte runes, invalid UTF-8). "
        "addr additionally: every ordinary address (Model/AddrSpec.v) must be accepted under the documented name. "
        "distinct = distinct input line; non-trivial = accepted by NewRecipient in at least one mode (addr, pop3, live), "
        "both variants accepted in at least one mode (case, plus), literal accepted by ParseIP (ip).")
TRUSTED = [
    "Model/IpLit.v is a hand transcription of netip.ParseAddr / parseIPv4Fields / parseIPv6 (acceptance only) of the Go standard library "
    "(go1.23); it is tied to net.ParseIP by differential testing only (ip stream: generated IPv4/IPv6 literals around every rule of the parser; "
    "plus every bracketed-literal body occurring in any other case), not by proof",
    "strings.ToLower is ASCII lower-casing on ASCII-only strings and anything at all otherwise (Model/AddrU.v go_tolower; theorem "
    "unicode_lower_irrelevant_go has no hypothesis; the 'lower' stream samples the ASCII half on the real strings.ToLower); ValidateDomainPart's "
    "rune iteration is proved equal to the byte-wise model on every byte string (validate_runes_irrelevant, with Go's UTF-8 decoder of Base/Regex.v)",
    "Gen/AddrFlows.v: the translator's reading of the RCPT case of the SMTP handler, NewRecipient's Mailbox field, Deliver's mailbox list, "
    "MailboxForAddress, the URL-variable uses and the POP3 s.user assignments, and the call lists of pkg/policy/address.go (syntactic, go/ast); "
    "model_calls in Proofs/AddrFlow.v is the hand-written reading of Model/Addr.v it is compared with",
    "the translator's reading of pkg/rest and pkg/webui: every Vars[\"name\"] expression is listed in Gen/AddrConsts.v with whether it is the "
    "argument of MailboxForAddress, and StoreManager.MailboxForAddress is recognised syntactically as `return s.AddrPolicy.ExtractMailbox(x)`",
]
ASSUMPTIONS = [
    "config.Root.MailboxNaming is one of local/full/domain (config.Process admits nothing else)",
    "no BeforeMessageStored extension (Lua hook) replaces the list of mailboxes a message is stored in: the name fixed at RCPT time is the name delivered to "
    "(hooks that rewrite recipients are the subject of C17)",
    "RCPT hands NewRecipient the address as the client wrote it between the angle brackets (the SMTP handler's own treatment of the argument is the subject of C01/C03; "
    "the live stream goes through the real handler)",
]
NOT_PROVED = [
    "pop3_user_canonical_stmt (Proofs/AddrReadSide.v): 'POP3 USER <address> opens the mailbox the address was delivered to' is FALSE in the model and "
    "in the code (pop3_user_canonical_refuted; universally false in local and domain naming: pop3_user_by_address_never_local/_domain; open finding "
    "K-C04-pop3-user); proved instead: pop3_user_by_address_iff (holds exactly for addresses that are their own canonical name) and pop3_user_by_name",
]
KNOWN_MUST_REPRODUCE = True


def _accepted(field):
    return field.startswith("R:") or (field.startswith("S") and field != "S")


def nontrivial(kind, ins, outs):
    if kind == "addr":
        return len(outs) >= 11 and any(outs[2 + 3 * m].startswith("R:") for m in range(3))
    if kind in ("case", "plus"):
        return len(outs) >= 7 and any(outs[1 + 2 * m].startswith("S") and outs[2 + 2 * m].startswith("S") for m in range(3))
    if kind == "pop3":
        return len(outs) >= 7 and any(outs[1 + 2 * m].startswith("S") for m in range(3))
    if kind == "ip":
        return bool(outs) and outs[0] == "1"
    if kind == "live":
        return len(outs) >= 2 and outs[1] == "250"
    if kind == "sweep":
        return len(outs) >= 2 and outs[1].startswith("S")
    if kind == "hist":
        return any(o.startswith("S") or o.startswith("250") for o in outs[1:])
    if kind == "lower":
        return bool(ins) and ins[0] != "-"
    if kind == "valid":
        return len(outs) >= 2 and outs[1] == "1"
    return True


def match_known(case_line, reason):
    if reason.startswith("fail:pop3-user-not-canonical"):
        return "K-C04-pop3-user"
    return None


def _byte_cuts(x):
    n = len(x) // 2
    cuts = []
    if n > 8:
        cuts += [(0, n // 2), (n // 2, n)]
    cuts += [(c, c + 1) for c in range(n)]
    for a, b in cuts:
        yield x[:2 * a] + x[2 * b:]


def shrink_candidates(inp):
    parts = inp.split(" ")
    kind, f = parts[0], parts[1:]
    if kind == "sweep":
        mode, target, n, dense = f[0], f[1], int(f[2]), f[3]
        for n2 in (n // 2, n - 1000, n - 100, n - 10, n - 1):
            if 1 <= n2 < n:
                yield " ".join([kind, mode, target, str(n2), dense])
        for y in _byte_cuts(target):
            if y:
                yield " ".join([kind, mode, y, str(n), dense])
        return
    if kind == "hist":
        mode, els = f[0], f[1:]
        # fewer calls first (the failing input is the shortest history that still shows the dependence) ...
        if len(els) > 1:
            for k in range(len(els)):
                yield " ".join([kind, mode] + els[:k] + els[k + 1:])
        # ... then simpler operations and shorter strings
        for k, el in enumerate(els):
            op, _, hx = el.partition(":")
            if op in ("d", "r", "m", "n") :
                yield " ".join([kind, mode] + els[:k] + ["x:" + hx] + els[k + 1:])
        for k, el in enumerate(els):
            op, _, hx = el.partition(":")
            if hx and hx != "-":
                for y in _byte_cuts(hx):
                    yield " ".join([kind, mode] + els[:k] + [op + ":" + (y or "-")] + els[k + 1:])
        return
    for i, x in enumerate(f):
        if x == "-" or len(x) < 2 or (kind == "live" and i == 0):
            continue
        try:
            bytes.fromhex(x)
        except ValueError:
            continue
        n = len(x) // 2
        # halves first, then single bytes
        cuts = []
        if n > 8:
            cuts += [(0, n // 2), (n // 2, n)]
        cuts += [(c, c + 1) for c in range(n)]
        for a, b in cuts:
            y = x[:2 * a] + x[2 * b:]
            g = list(f)
            g[i] = y or "-"
            yield " ".join([kind] + g)


def post(run):
    """Generator acceptance ratios (structured vs naive) into the evidence."""
    p = os.path.join(run.dir, "main.cases.txt")
    if not os.path.exists(p):
        return
    st = {"structured": [0, 0, 0, 0], "naive": [0, 0, 0, 0]}
    n_struct = 20000 if run.tier == "quick" else 500000
    seen = 0
    nonascii = 0
    for line in open(p):
        if not line.startswith("addr "):
            continue
        a, _, b = line.rstrip("\n").partition(" => ")
        outs = b.split(" ")
        if len(outs) < 11:
            continue
        seen += 1
        if seen <= run.cov.get("streams", {}).get("main", {}).get("corpus_addr", 0):
            continue
        which = "structured" if seen <= n_struct else "naive"
        st[which][3] += 1
        for m in range(3):
            if outs[2 + 3 * m].startswith("R:"):
                st[which][m] += 1
        try:
            if any(c >= 128 for c in bytes.fromhex(a.split(" ")[1])):
                nonascii += 1
        except ValueError:
            pass
    dist = {}
    for k, (l, f, d, n) in st.items():
        if n:
            dist[k] = {"addresses": n, "accepted_local": round(l / n, 4), "accepted_full": round(f / n, 4), "accepted_domain": round(d / n, 4)}
    dist["addresses_with_non_ascii_bytes"] = nonascii
    # POP3 USER <address> after a live delivery: [sessions that saw the message, deliveries] per naming mode
    pop = {"local": [0, 0], "full": [0, 0], "domain": [0, 0]}
    for line in open(p):
        if not line.startswith("live "):
            continue
        a, _, b = line.rstrip("\n").partition(" => ")
        ins, outs = a.split(" "), b.split(" ")
        if len(outs) >= 9 and outs[1] == "250" and outs[2] == "250" and outs[7] != "-":
            m = {"0": "local", "1": "full", "2": "domain"}.get(ins[1], "domain")
            pop[m][1] += 1
            if outs[7] == "P1":
                pop[m][0] += 1
    dist["pop3_user_by_address_reached_mailbox"] = pop
    run.cov.setdefault("extra", {})["distribution"] = dist

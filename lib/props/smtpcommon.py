"""Shared plug-in code of the SMTP-session properties (C01, C03, C06, C17)."""

def project(kind, ins, outs):
    # compared observables: reply-code structure, store contents, status
    if kind in ("smtp", "cut", "lua") and len(outs) >= 6:
        return [outs[0], outs[4], outs[5]]
    return outs


def stream_of(ins):
    return ins[11] if len(ins) > 11 else "-"


def nontrivial(kind, ins, outs):
    # at least one message was stored or at least one command was refused with 5xx
    if len(outs) < 6:
        return False
    return outs[4] != "-" or any(t.startswith("5") for t in outs[0].split(","))


def shrink_candidates(inp):
    """Drop one LF-terminated chunk of the client stream at a time."""
    parts = inp.split(" ")
    if len(parts) < 13:
        return
    s = parts[12]
    if s == "-":
        return
    raw = bytes.fromhex(s)
    chunks = raw.split(b"\n")
    for i in range(len(chunks) - 1):
        cand = b"\n".join(chunks[:i] + chunks[i + 1:])
        q = list(parts)
        q[12] = cand.hex() or "-"
        yield " ".join(q)

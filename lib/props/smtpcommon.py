"""Shared plug-in code of the SMTP-session properties (C01, C03, C06, C17)."""

def project(kind, ins, outs):
    # compared observables: reply-code structure, store contents, status
    if kind in ("smtp", "asm", "lua", "luapar") and len(outs) >= 6:
        return [outs[0], outs[4], outs[5]]
    return outs


def stream_of(ins):
    return ins[11] if len(ins) > 11 else "-"


def nontrivial(kind, ins, outs):
    # at least one message was stored or at least one command was refused with 5xx
    if len(outs) < 6:
        return False
    return outs[4] != "-" or any(t.startswith("5") for t in outs[0].split(","))


def shrink_candidates(inp):
    """Drop one LF-terminated chunk of the client stream at a time."""
    parts = inp.split(" ")
    if len(parts) < 13:
        return
    s = parts[12]
    if s == "-":
        return
    raw = bytes.fromhex(s)
    chunks = raw.split(b"\n")
    for i in range(len(chunks) - 1):
        cand = b"\n".join(chunks[:i] + chunks[i + 1:])
        q = list(parts)
        q[12] = cand.hex() or "-"
        yield " ".join(q)


def post(run):
    """Input / outcome distribution of the SMTP streams, for the evidence."""
    import collections
    import os
    p = os.path.join(run.dir, "main.cases.txt")
    if not os.path.exists(p):
        return
    codes, naming, stores, sizes, stored, kinds = (collections.Counter() for _ in range(6))
    accepted_tx = 0
    for line in open(p):
        a, _, b = line.rstrip("\n").partition(" => ")
        ins, outs = a.split(" "), b.split(" ")
        kinds[ins[0]] += 1
        if len(ins) < 13 or len(outs) < 6:
            continue
        naming[ins[1]] += 1
        stores[ins[11]] += 1
        n = 0 if ins[12] == "-" else len(ins[12]) // 2
        sizes["<100" if n < 100 else "<1k" if n < 1000 else "<10k" if n < 10000 else "<100k" if n < 100000 else ">=100k"] += 1
        for sess in outs[0].split("|"):
            toks = sess.split(",")
            for i, t in enumerate(toks):
                codes[t] += 1
                if t == "250" and i > 0 and toks[i - 1] == "354":
                    accepted_tx += 1
        stored[str(outs[4].count(":[") if outs[4] != "-" else 0)] += 1
    run.cov.setdefault("extra", {})["distribution"] = {
        "kinds": dict(kinds), "naming_mode": dict(naming), "store": dict(stores), "stream_bytes": dict(sizes),
        "reply_codes": dict(codes.most_common(30)), "transactions_acknowledged_250_after_data": accepted_tx,
        "messages_in_store_after_case": dict(sorted(stored.items(), key=lambda kv: int(kv[0]))[:12]),
    }

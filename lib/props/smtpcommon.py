"""Shared plug-in code of the SMTP-session properties (C01, C03, C06, C17)."""

def project(kind, ins, outs):
    # compared observables: reply-code structure, store contents, status
    if kind in ("smtp", "smtptls", "smtpdefer", "smtpallow", "smtppar", "smtprm", "asm", "asmtls", "asmr", "lua", "luareload", "luapar") and len(outs) >= 6:
        return [outs[0], outs[4], outs[5]]
    return outs


def stream_of(ins):
    return ins[11] if len(ins) > 11 else "-"


def nontrivial(kind, ins, outs):
    # at least one message was stored or at least one command was refused with 5xx
    if len(outs) < 6:
        return False
    return outs[4] != "-" or any(t.startswith("5") for t in outs[0].split(","))


def _parse_net(field):
    fin = ""
    wl = ""
    if "^" in field:
        field, wl = field.split("^", 1)
        wl = "^" + wl
    if "!" in field:
        field, fin = field.split("!", 1)
    chunks = [bytes.fromhex(h) if h != "-" else b"" for h in field.split("~")]
    return chunks, fin + wl


def _net_field(chunks, fin):
    f = "~".join((c.hex() or "-") for c in chunks)
    wl = ""
    if "^" in fin:
        fin, wl = fin.split("^", 1)
        wl = "^" + wl
    return f + ("!" + fin if fin else "") + wl


def shrink_candidates(inp):
    """Drop one LF-terminated line of the client stream at a time; for a scripted connection (chunks separated by
    pauses, '!idle' / '!err' endings) also merge two chunks (drop a pause) and drop the ending."""
    parts = inp.split(" ")
    if len(parts) < 13:
        return
    s = parts[12]
    if s == "-" or "+" in s or "&" in s:
        return
    if "@" in s:
        # "<plain>@<secure>" (STARTTLS): drop one line of either part
        a, b = s.split("@", 1)
        for which, raw in ((0, a), (1, b)):
            data = bytes.fromhex(raw) if raw != "-" else b""
            lines = data.split(b"\n")
            for i in range(len(lines) - 1):
                cand = (b"\n".join(lines[:i] + lines[i + 1:])).hex() or "-"
                q = list(parts)
                q[12] = (cand + "@" + b) if which == 0 else (a + "@" + cand)
                yield " ".join(q)
        return
    chunks, fin = _parse_net(s)

    def emit(cs, fn):
        q = list(parts)
        q[12] = _net_field(cs, fn)
        return " ".join(q)
    if fin:
        yield emit(chunks, "")
        if "^" in fin and not fin.startswith("^"):
            yield emit(chunks, "^" + fin.split("^", 1)[1])
    for i in range(len(chunks) - 1):
        yield emit(chunks[:i] + [chunks[i] + chunks[i + 1]] + chunks[i + 2:], fin)
    for ci, raw in enumerate(chunks):
        lines = raw.split(b"\n")
        for i in range(len(lines) - 1):
            cand = b"\n".join(lines[:i] + lines[i + 1:])
            yield emit(chunks[:ci] + [cand] + chunks[ci + 1:], fin)


def post(run):
    """Input / outcome distribution of the SMTP streams, for the evidence."""
    import collections
    import os
    p = os.path.join(run.dir, "main.cases.txt")
    if not os.path.exists(p):
        return
    codes, naming, stores, sizes, stored, kinds, conn = (collections.Counter() for _ in range(7))
    accepted_tx = 0
    for line in open(p):
        a, _, b = line.rstrip("\n").partition(" => ")
        ins, outs = a.split(" "), b.split(" ")
        kinds[ins[0]] += 1
        if len(ins) < 13 or len(outs) < 6:
            continue
        naming[ins[1]] += 1
        stores[ins[11]] += 1
        n = 0 if ins[12] == "-" else len(ins[12].split("^")[0].split("!")[0].replace("~", "").replace("@", "")) // 2
        conn["pauses=%d" % min(ins[12].count("~"), 3)] += 1
        conn["ends-by-" + (ins[12].split("^")[0].split("!", 1)[1] if "!" in ins[12] else "eof")] += 1
        if "^" in ins[12]:
            conn["writes-fail"] += 1
        sizes["<100" if n < 100 else "<1k" if n < 1000 else "<10k" if n < 10000 else "<100k" if n < 100000 else ">=100k"] += 1
        for sess in outs[0].split("|"):
            toks = sess.split(",")
            for i, t in enumerate(toks):
                codes[t] += 1
                if t == "250" and i > 0 and toks[i - 1] == "354":
                    accepted_tx += 1
        stored[str(outs[4].count(":[") if outs[4] != "-" else 0)] += 1
    run.cov.setdefault("extra", {})["distribution"] = {
        "kinds": dict(kinds), "naming_mode": dict(naming), "store": dict(stores), "stream_bytes": dict(sizes), "connection": dict(conn),
        "reply_codes": dict(codes.most_common(30)), "transactions_acknowledged_250_after_data": accepted_tx,
        "messages_in_store_after_case": dict(sorted(stored.items(), key=lambda kv: int(kv[0]))[:12]),
    }

ID = "C07"
LEVEL = "proof"
TITLE = "Both storage back-ends behave as one ordered-mailbox model under any history"
DESIGN_REF = "DESIGN.md §4 C07"
TECHNIQUE = "machine-checked proof in Coq + model/code correspondence check"
LEVEL_TEXT = "proof: both back-end models refine the abstract ordered-mailbox store on EVERY history, observations and events by handle — the memory-store model for every cap and size limit (cap loop with first/last and the size enforcer as coded; its crash outcome is unreachable), the file-store model for every cap under the id-freshness hypothesis, which is itself derived from the environment assumption 'fewer than 10 000 deliveries per wall-clock second'; hence backends_equivalent for every cap, and list_oldest_first, latest_is_last, ids_not_reused, read_back_as_written, missing_is_not_exist, remove_only_named. The id generation of the file store where fix 0010 lives (hasID loop on taken candidate ids, incl. the counter wrap 9999->0000) is compared with FileStore.gen_loop by the collide stream (ids planted in the on-disk index). The tie of the models to /repo is the correspondence check (1000 histories per run on the real stores; the verdict is the extracted spec applied to what the implementation answered)."
LEVEL_NOTE = "models: coq/Model/MemStore.v, FileStore.v (as coded after fixes 0003 0004 0005 0006 0010), StoreSpec.v; tie to /repo: go/cmd/c07 runs the same histories on the real mem and file stores, the verdict is StoreSpec.run_spec applied to what the implementation answered; list_oldest_first, ids_not_reused, remove_only_named and missing_is_not_exist are facts about the abstract store (StoreSpec) that the refinement theorems carry to both back-end models operation by operation; facts about the back-ends' own state are exported separately: ids_distinct (ids returned by the deliveries to a mailbox are pairwise distinct), missing_is_not_exist_backends, latest_is_last(_file), read_back_as_written(_file), and the kernel-evaluated 21-operation instance backends_equivalent_instance; tied to the source by the translator (go/cmd/pins/c07.go -> coq/Gen/StorePins.v, regenerated on every run): the file store id format / counter / path scheme (file_id_format_pinned), the functions that remove messages and those that emit the after-events (removal_paths_emit: every removal path of either store announces what it removes; AfterMessageStored is emitted by StoreManager.Deliver only), the order of the steps of the delivery paths (add_steps_pinned); ids_are_literal: only the literal rendering of an id names its message (the spelling family of the generator is its check side)" + " Composed over ONE abstract store with the other interfaces' models (Proofs/InterfacesRemoval.v, InterfacesRemovalPop3.v, InterfacesSeen.v): removed_message_is_gone_from_every_interface / purged_mailbox_is_empty_in_every_interface (after REST DELETE the store, REST /source, web-UI /source and a second DELETE answer not-there, the listing and the POP3 view lose exactly that message, everything else is untouched), pop3_quit_deletions_reach_every_interface (what a POP3 QUIT commits is gone from the store and REST, what the session did not mark stays), seen_changes_only_the_flag (PATCH seen changes one flag; POP3 view and sources unchanged); removal_premises_hold / quit_instance are kernel-evaluated instances."
RULE = ("random operation histories (4-60 ops, 1-5 mailboxes incl. names sharing a 12-bit SHA-1 prefix, '@', special characters and spellings that differ only in letter case (different mailboxes); "
        "characters; missing / not-yet-issued / bogus / 'latest' handles and other SPELLINGS of a live id (18 variants: leading zeros, sign, blanks, TAB, letter case, path decorations x/ID ./ID ID/ ../ID ID/. ID/../ID x/latest, NUL or newline appended, the id doubled: they name no message), double removes, purge-then-latest) on a fresh real "
        "memory store and a fresh real file store; distinct = distinct input line; non-trivial = at least one add and one "
        "operation on a stored message; plus 12 file-store histories whose first deliveries straddle the wrap of the id counter within one second (arrival order is not id order; planted in the on-disk index) and the collide cases; plus 33 histories on both stores with content sizes from {0, 1, 100, 4095, 4096, 4097, 65535, 65536, 65537, 200000, ~1 MiB} (content derived from the tag to exactly that size; every Get/listing/visit re-reads and compares the full content of every message it returns, all live messages again at the end); plus 60 histories on both stores ending in a VisitMailboxes whose visitor returns false at its k-th non-empty mailbox (half of them removing the oldest message of each mailbox handed over): exactly min(k, non-empty mailboxes) are handed over, the visitor is never called again; EVERY visit retains the messages it is handed and reads their mailbox, id, size, seen flag and full content only after VisitMailboxes has returned; plus 24 histories on both stores with long and odd METADATA as a function of the tag (subjects of 0..70000 octets, multi-byte characters straddling octets 998/1024/4096, invalid UTF-8, NUL, CR/LF/TAB, long and odd From names, To lists of 0..500 addresses, sub-second parts, non-UTC zones, instants from year 1 to 9999), every field compared with what was written (dates by instant); plus 50 histories on both stores with listings the caller keeps (h) and reads again at the end (c) after later operations on other mailboxes and on their own")
TRUSTED = ["handles: messages are named by 'k-th add to this mailbox' / 'latest' / a bogus literal; the driver's id<->handle table (Go map) is modelled by StoreSpecImpl.run_impl", 'message content is abstracted to (date, tag, size, seen): the driver checks that from/to/subject/body/mailbox read back equal what the add with that handle wrote and prints the tag only then', 'VisitMailboxes enumeration order (map / readdir order) is not compared: groups are sorted by mailbox on both sides; empty groups are dropped', 'file store: byte-level disk protocol (tmp+rename, unlink order, gob) is not in this model (C10/C11); I/O errors are not modelled', 'memory store: the size enforcer goroutine is modelled as a synchronous sub-step (callers block on md.done); creation of an empty mailbox record by reads is not modelled (unobservable)', 'the order of the deleted events of ONE PurgeMessages is not compared (map iteration order in the memory store): the driver sorts them by handle', 'within one operation the driver prints the deleted events before the stored event (two brokers; order across them is observed at operation granularity only)']
ASSUMPTIONS = ["file store: fewer than 10 000 deliveries fall into any one wall-clock second and a single process incarnation issues the ids (env_ok; theorem file_fresh_from_env derives the id-freshness hypothesis file_fresh of file_refines_spec from it). Several incarnations within one second are C10's restart model (fix 0010)"]
NOT_PROVED = []


def nontrivial(kind, ins, outs):
    if kind == "collide":   # at least one candidate id is taken
        return len(ins) == 2 and ins[0] != "0"
    ops = ins[4].split(",") if len(ins) > 4 else []
    return any(o.startswith("a") for o in ops) and any(o[0] in "gsr" for o in ops)


def shrink_candidates(inp):
    parts = inp.split(" ")
    if len(parts) != 6:
        return
    ops = parts[5].split(",")
    tail = []
    if ops and ops[-1].startswith("w"):      # the visit-with-stop stays the last operation
        tail = [ops[-1]]
        ops = ops[:-1]
    n = len(ops)
    # drop halves, quarters, then single operations
    chunk = n // 2
    while chunk >= 1:
        i = 0
        while i < n:
            cand = ops[:i] + ops[i + chunk:]
            if cand and len(cand) < n:
                yield " ".join(parts[:5] + [",".join(cand + tail)])
            i += chunk
        chunk //= 2

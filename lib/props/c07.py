ID = "C07"
LEVEL = "proof"
TITLE = "Both storage back-ends behave as one ordered-mailbox model under any history"
DESIGN_REF = "DESIGN.md §4 C07"
TECHNIQUE = "machine-checked proof in Coq + model/code correspondence check"
LEVEL_TEXT = 'proof (partial): the file-store model refines the abstract ordered-mailbox store on every history (observations and events by handle) for every cap; the memory-store model refines it on every history when no cap/size limit is configured, hence both models are observationally equivalent there; order/uniqueness/no-reuse/NotExist/remove-only-named are theorems of the abstract store. The memory model WITH limits is tied to the abstract store by the correspondence check only (1000 histories per run on the real stores, oracle = extracted spec).'
LEVEL_NOTE = 'models: coq/Model/MemStore.v, FileStore.v (as coded after fixes 0003 0004 0005 0006 0010), StoreSpec.v; tie to /repo: go/cmd/c07 runs the same histories on the real mem and file stores, the verdict is StoreSpec.run_spec applied to what the implementation answered'
RULE = ("random operation histories (4-60 ops, 1-5 mailboxes incl. names sharing a 12-bit SHA-1 prefix, '@' and special "
        "characters; missing / not-yet-issued / bogus / 'latest' handles, double removes, purge-then-latest) on a fresh real "
        "memory store and a fresh real file store; distinct = distinct input line; non-trivial = at least one add and one "
        "operation on a stored message")
TRUSTED = ["handles: messages are named by 'k-th add to this mailbox' / 'latest' / a bogus literal; the driver's id<->handle table (Go map) is modelled by StoreSpecImpl.run_impl", 'message content is abstracted to (date, tag, size, seen): the driver checks that from/to/subject/body/mailbox read back equal what the add with that handle wrote and prints the tag only then', 'VisitMailboxes enumeration order (map / readdir order) is not compared: groups are sorted by mailbox on both sides; empty groups are dropped', 'file store: byte-level disk protocol (tmp+rename, unlink order, gob) is not in this model (C10/C11); I/O errors are not modelled', 'memory store: the size enforcer goroutine is modelled as a synchronous sub-step (callers block on md.done); creation of an empty mailbox record by reads is not modelled (unobservable)']
ASSUMPTIONS = ['file store ids: no add returns an id that an earlier add to the same mailbox returned (file_fresh; true with fewer than 10 000 ids per wall-clock second and no two process incarnations in one second) — hypothesis of file_refines_spec']
NOT_PROVED = ['mem_refines_spec_stmt (Proofs/MemStoreRefine.v): run_mem cfg ops = run_spec cfg spec_init ops for every cap and size limit (cap loop with first/last, enforcer all/curSize); proved only for c_cap = 0 and c_max = 0', 'backends_equivalent_stmt (Proofs/StoreSpecOrder.v): mem and file models equivalent for every cap; proved without cap', 'latest_is_last, read_back_as_written as separate theorems (they are clauses of the refinement statements: Get Latest = last of the listing; get after add returns date/tag/size as written)', "file_fresh from '<10000 adds per second': the arithmetic lemma deriving the freshness hypothesis from the clock model"]


def nontrivial(kind, ins, outs):
    ops = ins[4].split(",") if len(ins) > 4 else []
    return any(o.startswith("a") for o in ops) and any(o[0] in "gsr" for o in ops)


def shrink_candidates(inp):
    parts = inp.split(" ")
    if len(parts) != 6:
        return
    ops = parts[5].split(",")
    n = len(ops)
    # drop halves, quarters, then single operations
    chunk = n // 2
    while chunk >= 1:
        i = 0
        while i < n:
            cand = ops[:i] + ops[i + chunk:]
            if cand and len(cand) < n:
                yield " ".join(parts[:5] + [",".join(cand)])
            i += chunk
        chunk //= 2

ID = "C14"
LEVEL = "proof"
TITLE = "REST/web APIs and the Go client report and change exactly the store's state"
LEVEL_TEXT = ("proof (Coq) about a model of router + escaping + v1/web-UI handlers + StoreManager glue + the Go client over the "
              "abstract store of C07, tied to the code by a correspondence check on a real net/http server, both real stores and "
              "the real client; partial for mailbox names containing '/' or equal to '.'/'..' (open finding K-C14-client-slash); the client theorems further assume "
              "names without a space and with bytes < 256 (no such name can receive mail) and ids / base-path segments of unreserved characters; "
              "json_fields_reflect_store only makes the rendering definitions explicit — each JSON field is tied to the code by the per-field "
              "correspondence run, and to the store's entries by json_answers_are_store_entries")
LEVEL_NOTE = ("modelled handlers (every handler of pkg/rest/routes.go and pkg/webui/routes.go that touches the store; the monitor/websocket "
              "endpoints, greeting and status are not): /api/v1 MailboxListV1, MailboxPurgeV1, MailboxShowV1, MailboxMarkSeenV1, MailboxDeleteV1, "
              "MailboxSourceV1; /serve MailboxMessage, MailboxHTML, MailboxSource, MailboxViewAttach; StoreManager.GetMessage/SourceReader/"
              "MarkSeen/RemoveMessage/PurgeMessages/GetMetadata; every method of pkg/rest/client. "
              "Modelled JSON fields (Model/Rest.v jheader/jmessage/juimessage, compared one by one): header = mailbox, id, from, to, subject, date, "
              "posix-millis, size, seen (JSONMessageHeaderV1 list entries, JSONMessageV1, web-UI jsonMessage); v1 message additionally body.text, "
              "body.html, header (From/To/Subject entries), attachments (filename, content-type, md5, download-link = view-link with host, resolved "
              "mailbox, id as requested, index); web-UI message additionally text (= web.TextToHTML of the part), html (sanitised part, by tag), "
              "header, attachments (id, filename, content-type), errors (count); plain answers: source bytes, html part, attachment content; "
              "status class and Location of redirects. Not compared: other MIME header entries, Content-Type header values of answers beyond the kind. "
              "gorilla/mux matching, net/http request parsing and redirect following, net/url escaping and path.Clean are modelled "
              "(from their source) and validated by the correspondence run, not verified; the mailbox naming function "
              "(MailboxForAddress, property C04) is an arbitrary function in the theorems and is observed from the implementation "
              "in the correspondence run; enmime body/attachment extraction is trusted (message contents are generated per tag and each field is "
              "read back separately)"
              " Composed over ONE abstract store with the other interfaces' models (Proofs/InterfacesRemoval.v, InterfacesRemovalPop3.v, InterfacesSeen.v): removed_message_is_gone_from_every_interface / purged_mailbox_is_empty_in_every_interface (after REST DELETE the store, REST /source, web-UI /source and a second DELETE answer not-there, the listing and the POP3 view lose exactly that message, everything else is untouched), pop3_quit_deletions_reach_every_interface (what a POP3 QUIT commits is gone from the store and REST, what the session did not mark stays), seen_changes_only_the_flag (PATCH seen changes one flag; POP3 view and sources unchanged); removal_premises_hold / quit_instance are kernel-evaluated instances.")
TECHNIQUE = "machine-checked proof in Coq + model/code correspondence check"
DESIGN_REF = "DESIGN.md §4 C14"
RULE = ("hist: a random history (4-33 ops) of deliveries, raw HTTP requests (7 path templates, names escaped in 4 valid ways, "
        "k-th/latest/never-issued ids, right and wrong methods, PATCH bodies (seen true / false / not JSON / empty, each framed with Content-Length, chunked or sent as HTTP/1.0, "
        "with and without unrelated headers — framing and such headers must not matter), attachment numbers incl. zero-padded ones longer than 20 digits, signed spellings (-1, -0, +1) and values around 2^31 / 2^32 / 2^63, "
        "asked for messages that exist, with and without attachments) and calls of every method of "
        "pkg/rest/client, run on the memory and the file store, local/full naming, with and without a base path. "
        "Message metadata: tags from 400 on are stored with EMPTY or long metadata — no recipients, an empty sender address, an empty "
        "subject, one empty recipient, 2 / 60 / 257 / 1025 recipients, and combinations — mixed into the histories (30% of the deliveries) and in a stream of their own "
        "followed by plain listings (no query parameters) through the API and the client and every message fetched by id (API, client, web UI): "
        "a listing is exactly the mailbox, and every field is read back as stored, whatever the metadata looks like. "
        "Source sizes: sources of 0, 1, 257, 4096+-1... 65536+-1, 1 MiB, 10 240 000, 10 256 384+-1 and 12 000 000 bytes (quick: 0 / 1 / 257 / 4097 / 65536 / 1 MiB / 10 256 385 / 12 000 000; "
        "thorough: all of them plus 2^24+-1, 2^25+1 and 64 MiB) are put into both stores and fetched through REST /source, the web UI's /source and the client's "
        "GetMessageSource and MessageHeader.GetSource; the driver compares every byte with what it stored (the token stays the content tag). "
        "A further stream makes message content unavailable — the content file vanishes (file store), or another client's removal "
        "completes between the manager's look-up and its open (a wrapper around the Store the manager sees) — and asks for the message "
        "through every endpoint: any well-formed answer is accepted there, a dropped connection (handler panic) is not. "
        "asm14: the assembled server (config.Process from the environment, server.FullAssembly + Services.Start in a child process, "
        "INBUCKET_WEB_BASEPATH spelled '', '/p', 'p', 'p/', '/a/b/', 'a/b'): deliveries over the real SMTP port, then every method of the Go "
        "client and web-UI fetches against the real http listener under the prefixed base path; model = serve with the normalised base path. "
        "distinct = distinct input line; non-trivial = the history has at least one delivery and one request or client call "
        "that is answered 200.")
TRUSTED = [
    "go/cmd/pins reads the route tables (template, name, method), the mount points and the client's URI prefix from the source on every "
    "run (coq/Gen/RestRoutes.v); route_tables_sound and route_tables_complete prove the model's router against them in both directions",
    "go/cmd/pins reads the json tags of the answer structs, the expression every handler puts into every field, the client's and the "
    "driver's decoding structs, and per handler its 404s / content types / JSON renderings (coq/Gen/RestJson.v); json_fields_pinned and "
    "answer_kinds_pinned prove the rendering model's tables and the handler model's status cases against them",
    "gorilla/mux route matching on the decoded path, net/http server request parsing and client redirect handling, net/url "
    "QueryEscape/JoinPath/EscapedPath and path.Clean: modelled in Model/Rest.v, validated by correspondence only",
    "MailboxForAddress (C04) is a parameter of the model; the runner instantiates it with the table of calls observed on the implementation",
    "enmime parsing of the generated messages (text, html, attachments are checked against the generating tag by the driver)",
    "the store: the server model runs over Model/StoreSpec.v; rest_over_storespec / serve_over_storespec / client_over_storespec / "
    "history_over_storespec prove that every access of a handler is a StoreSpec operation (Lst / Get Kth|Latest|Bogus / Seen / Remove / "
    "Purge) and every answer a function of its observations, and rest_over_store_models composes this with C07's refinement theorems "
    "(run_mem = run_spec for every cap and size limit; run_file = run_spec under c_max = 0 and file_fresh) — what stays trusted is the "
    "tie of the store MODELS to the Go stores (C07's correspondence check)",
    "remaining parameters of the server model: mfa (MailboxForAddress: naming is property C04; arbitrary function, observed from the "
    "implementation in the correspondence run) and srcok (whether the content of a stored message can still be opened when the manager "
    "gets to it: the file store opens the content file after releasing the mailbox lock, which no atomic store operation describes; "
    "arbitrary in the handler theorems, all-true in the client theorems)",
]
ASSUMPTIONS = [
    "client_op_effect / client_convenience_effect: the content of every stored message can be opened (srcok = true everywhere); the "
    "handler theorems (handler_total, missing_is_404, api_reflects_store, content_gone_is_500) hold for every environment srcok",
    "ids issued by a back-end contain only characters that need no URL escaping and are not '.', '..' (mem: decimal, file: timestamp-counter)",
    "canonical mailbox names are fixed points of the naming function (C04) where a theorem says [mfa mb = Some mb]",
    "client_convenience_effect assumes the store invariant SInv (handles unique and increasing within a mailbox; holds in every reachable store: Proofs/StoreSpecFacts.v, C07)",
]
NOT_PROVED = []
KNOWN_MUST_REPRODUCE = True


def _ops(ins):
    # the history is the last input field (hist: store naming base ops; asm14: store basepath ops)
    return [] if ins[-1] == "-" else ins[-1].split(",")


def nontrivial(kind, ins, outs):
    if kind not in ("hist", "asm14"):
        return False
    ops = _ops(ins)
    has_add = any(o.startswith("a:") for o in ops)
    ok = any((o.startswith("r:") and t.startswith("200")) or (o.startswith("c:") and t != "E")
             for o, t in zip(ops, outs))
    return has_add and ok


def project(kind, ins, outs):
    # the observed naming table is an input of the model, not an observation to compare
    return [o for o in outs if not o.startswith("M=")]


def _names(case_line):
    """Decoded mailbox-name strings of the client operations and raw requests of a history."""
    from urllib.parse import unquote_to_bytes
    ins = case_line.split(" => ")[0].split(" ")[1:]
    res = []
    for i, o in enumerate(_ops(ins)):
        p = o.split(":")
        if p[0] == "c":
            res.append((i, b"" if p[2] == "-" else bytes.fromhex(p[2])))
        elif p[0] == "r":
            w = b"" if p[3] == "-" else bytes.fromhex(p[3])
            res.append((i, unquote_to_bytes(w)))
    return res


def _is_slash(name):
    return b"/" in name or name in (b".", b"..")


def _client_ids(case_line):
    """Decoded message-id strings of the client operations that take an id (get / seen / src / del / msrc / mdel)."""
    ins = case_line.split(" => ")[0].split(" ")[1:]
    res = []
    for i, o in enumerate(_ops(ins)):
        p = o.split(":")
        if p[0] == "c" and p[1] in ("get", "seen", "src", "del", "msrc", "mdel"):
            try:
                res.append((i, b"" if p[3] == "-" else bytes.fromhex(p[3])))
            except ValueError:
                pass
    return res


def _is_dotseg(ident):
    # an id with a '.' / '..' path segment: the client puts it into the path as it is, JoinPath cleans it away
    return any(seg in (b".", b"..") for seg in ident.split(b"/"))


def match_known(case_line, reason):
    # fail:<class>@<index of the op>: known only when THAT operation addresses a name with '/' or '.'/'..',
    # or (client operations) gives a message id with a '.' / '..' segment — never for the empty id
    if "@" not in reason:
        return None
    try:
        idx = int(reason.rsplit("@", 1)[1])
    except ValueError:
        return None
    cls = reason.split(":", 1)[1].split("@")[0]
    if cls not in ("client-effect", "api-differs-from-store", "missing-not-404"):
        return None
    for i, n in _names(case_line):
        if i == idx and _is_slash(n):
            return "K-C14-client-slash"
    for i, ident in _client_ids(case_line):
        if i == idx and _is_dotseg(ident):
            return "K-C14-client-slash"
    return None


def shrink_candidates(inp):
    parts = inp.split(" ")
    head, hist = parts[:-1], parts[-1]
    ops = [] if hist == "-" else hist.split(",")
    # halves, then drop one op at a time (later ops first)
    n = len(ops)
    if n > 4:
        yield " ".join(head + [",".join(ops[: n // 2])])
        yield " ".join(head + [",".join(ops[n // 2:])])
    for i in reversed(range(n)):
        rest = ops[:i] + ops[i + 1:]
        yield " ".join(head + [",".join(rest) if rest else "-"])
    if parts[0] == "hist" and parts[3] != "-":
        yield " ".join(parts[:3] + ["-"] + parts[4:])

from props.smtpcommon import post, project, nontrivial, shrink_candidates  # noqa: F401

ID = "C03"
LEVEL = "proof"
TITLE = "SMTP transactions are well-sequenced, isolated from each other and atomic"
LEVEL_TEXT = ("Coq theorems over the SMTP session model for every configuration and every input sequence (item level and byte level): "
              "sequencing (MAIL needs a greeting, RCPT an open transaction, DATA an accepted recipient), envelope reset on "
              "RSET/EHLO/end of DATA, exactly one well-formed reply group per line, no reachable panic, progress; the cut theorem over byte streams (cut_prefix: the deliveries of every byte "
              "prefix are a prefix of the deliveries of the whole stream; cut_trace_prefix / cut_delivers_exactly_the_shared_part: the transcript of the cut connection is a part shared "
              "with the whole stream's transcript followed by a tail of at most two steps that delivers nothing - both bounds; cut_store_is_entitled; truncated_is_none); when the server's writes fail "
              "(write_failure_at_most_one_unseen_block): of the iterations that ran all but the last had every reply line delivered to the client, so at most one "
              "message is stored without the client having seen its 250; tied to the code by byte-level correspondence of random/garbage "
              "dialogues and of valid dialogues cut after every byte, with the sequencing/reply-shape specifications and the C01 "
              "entitlement evaluated on the implementation's answers as oracles; the connection itself is in the model (Proofs/SmtpNet.v): "
              "bytes arriving in chunks separated by pauses longer than the idle timeout, ended by EOF, silence or a read error - for EVERY "
              "such connection the session ends (net_session_always_ends), every item gets its one reply, the store gets exactly what the "
              "dialogue entitles (delivery_exact_net), and how the connection ends changes nothing in the store (how_it_ends_is_irrelevant, "
              "silent_client_is_cut)")
LEVEL_NOTE = ("Coq kernel; extraction; the MAIL patterns (as RE2 programs), the address parser and the policy are modelled and cross-checked per case; net.ParseIP and enmime header decoding are oracles; read "
              "deadlines are modelled as scripted events (a read times out exactly where the client pauses; what bufio/textproto make of a "
              "pending error with a partial line buffered is transcribed and validated by the correspondence run), not as clocks: the single "
              "deadline readDataBlock sets for a whole block and write deadlines are not modelled; the hypothesis 'TLS not configured' of progress / bytes_session_always_ends / net_session_always_ends is gone; write failures are (run_net_w: the server's writes fail "
              "after k reply lines - write_failure_store_is_entitled, write_failure_is_cut, write_failure_replies_prefix); the TLS record layer is not modelled: "
              "STARTTLS IS in the model (Proofs/SmtpTls.v, SmtpTlsWire.v): the session carries the tls flag, STARTTLS is answered 454 / 220 as the code does, after 220 the "
              "session is in GREET again (after_starttls_greeting_is_due), TLS is never negotiated twice nor dropped (starttls_once, tls_never_dropped), EHLO offers it exactly "
              "while it can be started, and plaintext pipelined behind an accepted STARTTLS line is never executed (injected_plaintext_is_never_executed, over run_stream_tls: true by the "
              "definition of the model's switch, tied to the code by the smtptls stream and an own mutant). The plain byte / connection loops (run_bytes, run_net, run_net_w - and so the "
              "cut, pause and write-failure theorems) are the model of a TLS-enabled server only for streams with nothing pipelined behind an accepted STARTTLS "
              "(tls_stream_without_plaintext is the byte-level bridge); TLS together with pauses or failing writes is not modelled; "
              "the TLS record layer and handshake are the transport's and not modelled (TLS is transparent to the lines; a failing handshake, and plaintext behind STARTTLS that was not yet in the "
              "session's 4 KiB read buffer when the connection was wrapped - it reaches the handshake as garbage -, are outside the model); the asmtls stream runs the dialogues through a real TLS listener (SMTP_FORCETLS); the accept loops are modelled "
              "under C19 (LifecycleAccept), here the asmtls stream checks that peers which connect and stay silent do not keep another client from being served; "
              "panics inside third-party parsers are searched for by the garbage stream, not proved absent")
DESIGN_REF = "DESIGN.md §4 C03"
RULE = ("(a) dialogues with 35% garbage/out-of-order lines between steps (mixed case, short, unknown, unimplemented, AUTH PLAIN/LOGIN "
        "sub-dialogues, the two Unicode case folds, binary), SIZE parameters; (b) every byte prefix of valid dialogues; (c) scripted connections: 1-3 pauses at random offsets (line boundaries, inside a "
        "line, inside a DATA block) ended by EOF / silence / a read error, and one pause at every byte offset of valid dialogues; "
        "(d) the server's writes failing after k reply lines, every k for valid dialogues; (e) smtppar: sessions that overlap, the first held inside Deliver "
        "while the others run; (f) asmtls: the assembled server (config.Process, FullAssembly, Services.Start) on a TLS-from-the-first-byte SMTP listener with a "
        "run-time certificate, 1-3 silent peers connected first, the dialogue played by a real TLS client and the result read back through the REST API; "
        "(g) smtptls: a session on a server with STARTTLS configured, the client greets, sends STARTTLS (a third of the cases with plaintext commands pipelined "
        "behind it in the same segment), upgrades with a real TLS handshake whenever it is answered 220 and goes on under TLS (re-greeting or not, a second STARTTLS, transactions); "
        "distinct = distinct input line; non-trivial = something stored or some 5xx reply")
TRUSTED = ["net.ParseIP verdicts and enmime header facts (From/To/Subject, parse error) are oracles supplied by the driver from the real functions",
           "an in-memory half-closeable connection (go/smtpd/bufconn.go) stands for TCP: the client writes, half-closes (or pauses / stays silent / breaks as scripted) and reads every reply"]
ASSUMPTIONS = ["store operations do not fail"]
NOT_PROVED = ["STARTTLS together with pauses / failing writes (run_net, run_net_w have no TLS switch)",
              "plaintext behind STARTTLS beyond the session's 4 KiB read buffer: the session ends in the handshake (outside the model)"]
EXEC_TIMEOUT = {"quick": 900, "thorough": 14400}

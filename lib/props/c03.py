from props.smtpcommon import post, project, nontrivial, shrink_candidates  # noqa: F401

ID = "C03"
LEVEL = "proof"
TITLE = "SMTP transactions are well-sequenced, isolated from each other and atomic"
LEVEL_TEXT = ("Coq theorems over the SMTP session model for every configuration and every input sequence (item level and byte level): "
              "sequencing (MAIL needs a greeting, RCPT an open transaction, DATA an accepted recipient), envelope reset on "
              "RSET/EHLO/end of DATA, exactly one well-formed reply group per line, no reachable panic, progress; the cut theorem over byte streams (cut_prefix: the deliveries of every byte "
              "prefix are a prefix of the deliveries of the whole stream; cut_store_is_entitled; truncated_is_none); tied to the code by byte-level correspondence of random/garbage "
              "dialogues and of valid dialogues cut after every byte, with the sequencing/reply-shape specifications and the C01 "
              "entitlement evaluated on the implementation's answers as oracles")
LEVEL_NOTE = ("Coq kernel; extraction; the MAIL patterns (as RE2 programs), the address parser and the policy are modelled and cross-checked per case; net.ParseIP and enmime header decoding are oracles; idle "
              "timeouts and TLS are not modelled (TLS disabled); panics inside third-party parsers are searched for by the garbage "
              "stream, not proved absent")
DESIGN_REF = "DESIGN.md §4 C03"
RULE = ("(a) dialogues with 35% garbage/out-of-order lines between steps (mixed case, short, unknown, unimplemented, AUTH PLAIN/LOGIN "
        "sub-dialogues, the two Unicode case folds, binary), SIZE parameters; (b) every byte prefix of valid dialogues; "
        "distinct = distinct input line; non-trivial = something stored or some 5xx reply")
TRUSTED = ["net.ParseIP verdicts and enmime header facts (From/To/Subject, parse error) are oracles supplied by the driver from the real functions",
           "loopback TCP with client half-close stands for a client that disconnects after byte k"]
ASSUMPTIONS = ["store operations do not fail", "no idle timeout fires during a case"]
NOT_PROVED = []
EXEC_TIMEOUT = {"quick": 900, "thorough": 14400}

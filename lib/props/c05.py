ID = "C05"
LEVEL = "proof"
RULE = ("wild: random patterns/inputs over a 5-symbol alphabet plus patterns derived from generated domains; "
        "pol: random switch/list configurations loaded through the real config.Process, domains drawn mostly from the lists' pool "
        "with random case flips. distinct = distinct input line; non-trivial = (wild) pattern holds a wildcard and both strings are "
        "non-empty, (pol) at least one list is non-empty.")
TRUSTED = ["strings are ASCII (Go's rune conversion and Unicode ToLower are not modelled; validated domains are ASCII)"]
ASSUMPTIONS = ["envconfig's comma split of list values (modelled, validated by running the real config.Process)"]


def project(kind, ins, outs):
    if kind == "smtp" and len(outs) >= 6:
        return [outs[0], outs[4], outs[5]]
    return outs


def nontrivial(kind, ins, outs):
    if kind == "smtp":
        return len(outs) >= 6 and (outs[4] != "-" or "550" in outs[0] or "552" in outs[0])
    if kind == "wild":
        p = bytes.fromhex(ins[0]) if ins[0] != "-" else b""
        return bool(p) and ins[1] != "-" and (b"*" in p or b"?" in p)
    if kind == "pol":
        return any(ins[i] != "-" for i in (1, 2, 4, 5, 6))
    return True


def shrink_candidates(inp):
    if inp.startswith("smtp "):
        from props import smtpcommon
        yield from smtpcommon.shrink_candidates(inp)
        return
    parts = inp.split(" ")
    kind, f = parts[0], parts[1:]
    for i, x in enumerate(f):
        if x in ("-", "0", "1") or len(x) < 2:
            continue
        n = len(x) // 2
        for cut in range(n):
            y = x[:2 * cut] + x[2 * cut + 2:]
            g = list(f)
            g[i] = y or "-"
            yield " ".join([kind] + g)

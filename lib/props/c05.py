ID = "C05"
LEVEL = "proof"
TITLE = "Accept / reject / store decisions follow the configured policy exactly"
LEVEL_TEXT = ("Coq theorems over the policy model (Model/Policy.v: ShouldAcceptDomain, ShouldStoreDomain, ShouldAcceptOriginDomain, config.Process's "
              "lower-casing, MatchWithWildcards as the row-by-row DP exactly as coded), for every configuration and every domain: accept_domain_rule / "
              "store_rule (iff with the documented sentence, membership up to letter case), wildcard_correct (the DP = the glob relation for every "
              "pattern and every string without '*', induction over the DP rows; wildcard_star_in_input_refuted is the witness that the side "
              "condition is needed), validated_domain_has_no_star (every domain that passed ValidateDomainPart meets it), origin_rule_validated "
              "(a sender is refused exactly when its domain matches a reject-origin pattern - no side condition left), case_blind; at session level, "
              "for every dialogue: rcpt_250_iff and mail_250_iff (a command is answered 250 exactly when syntax, parse, SIZE range, hook answer and "
              "the policy rule say so), plain_mail_commands_are_parsed (SEVEN SAMPLE MAIL commands of the plainest shape, read without the regenerated patterns, are matched by the regenerated parser - "
              "re-evaluated on every run, not a universal statement; the runner applies the same reading to the implementation's parser facts), accept_rule / bytes_accept_rule / net_accept_rule (on every transcript, byte stream and scripted connection the "
              "250/550 answers agree with the policy wherever no extension decided), recipients_bounded; tied to the code by predicate-level "
              "differential runs through the real config.Process and by whole sessions (plain, every hook deferring, assembled server)")
LEVEL_NOTE = ("Coq kernel; extraction; net.ParseIP is an oracle (validated_domain_has_no_star uses of it only that it accepts no string holding '*'); "
              "strings are bytes: Go's rune conversion in MatchWithWildcards and Unicode ToLower are not modelled (validated domains are ASCII; the "
              "two Unicode folds are exercised by the C04 streams); load_is_lowercasing restates the model's definition of config.Process and is "
              "validated by the pol stream, not proved of the Go code")
DESIGN_REF = "DESIGN.md §4 C05"
NOT_PROVED = []
RULE = ("wild: random patterns/inputs over a 5-symbol alphabet plus patterns derived from generated domains; "
        "pol: random switch/list configurations loaded through the real config.Process, domains drawn mostly from the lists' pool "
        "with random case flips. distinct = distinct input line; non-trivial = (wild) pattern holds a wildcard and both strings are "
        "non-empty, (pol) at least one list is non-empty.")
TRUSTED = ["strings are ASCII (Go's rune conversion and Unicode ToLower are not modelled; validated domains are ASCII)"]
ASSUMPTIONS = ["envconfig's comma split of list values (modelled, validated by running the real config.Process)"]


def project(kind, ins, outs):
    if kind in ("smtp", "smtpdefer", "smtpallow", "asm") and len(outs) >= 6:
        return [outs[0], outs[4], outs[5]]
    return outs


def nontrivial(kind, ins, outs):
    if kind in ("smtp", "smtpdefer", "smtpallow", "asm"):
        return len(outs) >= 6 and (outs[4] != "-" or "550" in outs[0] or "552" in outs[0])
    if kind == "wild":
        p = bytes.fromhex(ins[0]) if ins[0] != "-" else b""
        return bool(p) and ins[1] != "-" and (b"*" in p or b"?" in p)
    if kind == "pol":
        return any(ins[i] != "-" for i in (1, 2, 4, 5, 6))
    return True


def shrink_candidates(inp):
    if inp.split(" ", 1)[0] in ("smtp", "smtpdefer", "smtpallow"):
        from props import smtpcommon
        yield from smtpcommon.shrink_candidates(inp)
        return
    parts = inp.split(" ")
    kind, f = parts[0], parts[1:]
    for i, x in enumerate(f):
        if x in ("-", "0", "1") or len(x) < 2:
            continue
        n = len(x) // 2
        for cut in range(n):
            y = x[:2 * cut] + x[2 * cut + 2:]
            g = list(f)
            g[i] = y or "-"
            yield " ".join([kind] + g)

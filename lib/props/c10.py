ID = "C10"
LEVEL = "proof"
TITLE = "The file store is durable: a restart shows exactly the mail that was there"
LEVEL_TEXT = ("Coq theorems over the disk-level model of the file store. THE durability theorem is ops_continue (ops_continue_any_cap "
              "for a cap that may change at every start-up): on every disk the store can ever leave behind — after any history of completed "
              "and killed operations, i.e. after any number of stops and starts, which touch nothing but memory — every operation runs without a "
              "failing step, leaves such a disk again, and acts exactly as the ordered-map operation on the OLD listing (same order, ids, "
              "metadata, seen flags, sizes, content; ops_refine_ordered_map), deliveries keep the cap, the visit walk lists every non-empty "
              "mailbox (visit_complete); filedisk_refines_storespec identifies that ordered map with StoreSpec; composed with C01's delivery_exact: mail acknowledged with 250 "
              "survives a restart (acknowledged_mail_survives_restart: after the dialogue's deliveries and any stops / starts / walks every mailbox "
              "lists exactly the cap most recent of the messages the dialogue entitles it to; killed_delivery_keeps_acknowledged_mail for a process "
              "killed during a further delivery). The property's clause 'after a "
              "restart every mailbox lists the same messages in the same order with the same ids, metadata, flags, sizes and content' is "
              "covered by ops_continue + the correspondence run: the model's state IS the disk, so in the model a reopen is the identity "
              "(reopen_transparent holds by construction — it documents, it does not carry weight); that the REAL store object keeps nothing "
              "else is what the correspondence run samples (state before = after every reopen / real restart, live-vs-fresh after every "
              "operation, visit and retention on the reopened object, overlapping first reads). reopen_transparent_cached states what any "
              "implementation WITH memory (cache, memo, remembered listing) must satisfy to be transparent: memory coherent with the disk after "
              "every start and every item. *partial*: a removed or purged message never reappears PROVIDED no later delivery is issued its id "
              "(removed_stay_gone_partial — the guard is the negation of the only failure mode; always so within one process incarnation: "
              "removed_stay_gone_one_incarnation) — after a restart within the same second the id of a message that is gone IS issued again "
              "(removed_stay_gone_refuted, open finding K-C10-id-reissued-after-restart, observed on the real store on every run).")
LEVEL_NOTE = ("The theorems are about Model/FileDisk.v (hand-written model of pkg/storage/file); that the real Store keeps no mailbox "
              "state between calls is checked by the correspondence run, not proved; encoding/gob is a section variable with the "
              "round-trip hypothesis; the id generator is an input (any candidate list). TWO MODELS, ONE SPEC: the ordered map these "
              "theorems are stated over is StoreSpec's — filedisk_refines_storespec (Proofs/FileDiskSpec*.v): run through the SAME "
              "handle-resolving runner as b-store's Model/FileStore.v (StoreSpecImpl.run_impl), the disk model's answers are run_spec's "
              "(exactly without Visit; Visit as a set of mailboxes) and its final disk is the image of final_spec, so cap_bound, oldest-first "
              "eviction, ids_not_reused, latest_is_last (C07/C08), pop3_over_storespec (C13) and the scan theorems (C12) hold of the disk model; "
              "crash_is_storespec_state extends it to every crash point. Hypotheses under which the two file-store models coincide, all named in "
              "the theorem: hash injective on the names in use (StoreSpec keys mailboxes by name, the disk by SHA-1 directory); disk_fresh = "
              "b-store's file_fresh (the generator offers an id that is neither in the mailbox nor was issued to it before — an input here, a "
              "modelled clock + gen_loop there; it is exactly what the open finding violates); c_max = 0; a round-tripping encoding of the "
              "message descriptor (date, tag, size) into info/body; cap eviction needs none (both evict the mailbox's oldest first). "
              "The conc stream's overlap of readers is NOT in the model (store concurrency is C09's): reads do not change the ordered map "
              "(reopen_transparent, ops_refine_ordered_map), so the stream is judged by the property clause — every reader of the reopened "
              "store sees the listing — on sampled, timing-dependent overlaps.")
TECHNIQUE = "machine-checked proof in Coq + model/code correspondence check"
DESIGN_REF = "DESIGN.md §4 C10"
RULE = ("hist: 5 fixed histories (the deliver / restart / deliver program of finding 14 and variations), 200 (thorough 5000) random "
        "histories of 2-10 operations over 4 mailboxes (two share the level-2 directory), caps 0-3, with in-process reopen points at "
        "random positions, 40 (thorough 1000) histories cut into 2-4 segments each run by its own process (real restart; the first "
        "delivery after a restart usually targets the mailbox the previous process delivered to first, so that the restarted id "
        "counter collides). distinct = distinct input line; non-trivial = the history holds a reopen or restart and at least one "
        "successful delivery. reissue (corpus, every run): deliver / remove / REAL restart / deliver with both processes inside one "
        "wall-clock second (retried if the second rolled over): the witness of the open finding. After EVERY operation a freshly "
        "constructed store's full state is compared with the live store object's (field live). Histories may change the cap at a reopen (C.<n>). "
        "visit (v) and one pass of the real RetentionScanner.DoScan with a 1 h period (t; deliveries are dated 2020 = expired or 2096 = young) are "
        "operations of the histories, run on the store object under test: after most reopen / restart points the history goes on with "
        "'deliver to a mailbox that does not exist yet, below a first-level directory of its own; [t;] v', and v / t also occur at random "
        "positions; the walk must yield exactly the non-empty mailboxes of the ordered-map oracle, the scan must remove exactly the expired "
        "messages of ALL mailboxes. The harness's own views (state before/after a reopen, live-vs-fresh) come from separate freshly "
        "constructed store objects; the object under test is never walked by the harness. "
        "ENVIRONMENT: every hist line carries how the driver lays out the storage directory before file.New — plain (55 % of the random histories), "
        "the storage path itself a symbolic link, <path>/mail a symbolic link to a directory elsewhere (made before the first file.New), every "
        "first-level hash directory moved away and replaced by a symbolic link between two lifetimes (at each R / C / X), a trailing slash, a path "
        "through '..', a path relative to the working directory; the clean store follows all of them (os.Open / Readdirnames / Stat follow links); the "
        "model ignores the field. Read-only leftovers are out of scope. "
        "NAMES: the pool of the histories holds 7 plain names (two sharing the level-2 directory, one more the level-1 directory) and 13 names as the "
        "storage.Store interface accepts them: 'Support-Desk', 'ALICE' next to 'alice' (two mailboxes), 'bob+tag', 'carol@Example.COM', 'two words', "
        "'dot.' next to 'dot', non-ASCII, invalid UTF-8, 'a/b', a NUL byte, a 230-byte name — the file store only ever hashes the name, it refuses "
        "none of them (checked on the clean tree); the ordered map keys by the name as given. "
        "HASH NEIGHBOURHOOD: besides 0/1 and 2 the pool holds a triple (20, 21, 22; found by hashing n<i>) below ONE first-level (3 hex) directory with three "
        "different second-level (6 hex) ones; 10 fixed histories deliver to one of such a group in lifetime 1, stop (R / X), deliver to ANOTHER of the group - a "
        "mailbox that does not exist yet - before any walk, then visit, retention scan, visit, stop, visit; the random histories' after-reopen pattern and mailbox "
        "sets pick such neighbours too (names sharing 6 hex digits but not the hash: only the pair 0/1). "
        "big: restart with LARGE on-disk structures — one mailbox of n messages with nto recipients each (the index entry holds them: 12 x 4000 "
        "recipients = an index.gob of about 1.4 MiB, 4 x 600 = about 70 KiB; thorough also about 4 MiB, 300 x 120 under cap 500, bodies of 1 MiB "
        "and 32 MiB), listed through the live object, through a fresh file.New (must be equal), and again after a MarkSeen + delivery + reopen; "
        "the model does not care about byte sizes and runs with compact stand-ins, the rendered listing (recipients' count and FNV, sizes, content "
        "digests) and the oracle carry the real ones. "
        "size: the mailbox-SIZE dimension of the restart — one mailbox of 1, 2, 15, 16, 17, 50, 100, 101, 128, 130, 300, 1000 messages (thorough also "
        "31 / 33 / 63 / 65 / 99 / 127 / 129 / 255 / 257 / 1025; cap 0, one case under cap 7), then 1-6 (for n >= 100 sometimes 24-27) removals / seen "
        "flags through the live object and NO further delivery, then the stop: the listing through the live object, through a fresh file.New (must be "
        "equal and the ordered map's: removed stay gone, flags kept, every source readable), one more delivery through a fresh object, a fresh listing "
        "again. The oracle is the ordered map; the Coq model runs next to it for n <= 50 (its per-delivery index re-encoding is quadratic), for larger n "
        "the model line is the ordered map's. "
        "upg: the UPGRADE restart — the storage directory the store is opened on was NOT written by the code under test: the driver has its own writer "
        "of the pinned tree's on-disk format (sha1 fan-out directories, index.gob = gob(name string) + gob(entry) per message, <id>.raw files; "
        "go/cmd/c10/upg.go, sharing no code with pkg/storage/file), writes the mailboxes of a setup history with it, and then runs an ordinary history "
        "(list by name, VisitMailboxes with the NAMES, retention scan, deliveries, flags, removals, reopen / restart) whose oracle is the ordered map of "
        "what the fixture holds. Self-test of the writer on every case: the same setup run through the store under test must produce index files that "
        "decode to the same name and entries (bytes=1; projected, a clean tree always shows 1 — a store that changes its format shows 0 there and is "
        "then judged on the history itself: it must still read the old format). 3 fixed + 6 (thorough 300) random cases. "
        "srv: the SERVER, not just the store, is stopped and started again: each incarnation a child process configured through the environment "
        "(file store on one path, INBUCKET_STORAGE_RETENTIONPERIOD 0 = disabled / 24h / 1h, mailbox cap 0/2/3), server.FullAssembly + Services.Start, "
        "mails delivered over the real SMTP port, every mailbox listed through the REST API, cancel + Drain + Join; incarnation 2 only lists, "
        "incarnation 3 delivers once more; ids, subjects, sizes and seen flags after the restart must be those before it (dates are not compared), "
        "and all listings those of the ordered map (4 cases quick, 16 thorough). "
        "conc: a mailbox of n (250, 40; thorough also 100-400) messages, then several incarnations, each a REAL process whose FIRST accesses to the "
        "mailbox are k (2-8) readers released together from a barrier (GetMessages / GetMessage by id and latest / VisitMailboxes; GOMAXPROCS "
        "untouched), then one mutation, then the next restart; every reader must see exactly the ordered map's listing, no operation may panic, "
        "and a fresh store must read the ordered-map state after every incarnation (a garbled index written back is seen there).")
TRUSTED = ["encoding/gob round trip: dec (enc i) = Some i (section hypothesis)",
           "SHA-1 (HashMailboxName) does not collide on the mailbox names in use (hypothesis hash_inj of filedisk_refines_storespec)",
           "the real Store object holds no mailbox state between calls (sampled by the correspondence run: state before = state after every reopen)"]
ASSUMPTIONS = ["no I/O errors",
               "removed_stay_gone_one_incarnation's hypothesis never_generated holds in the code only if the LOCAL wall clock never shows the same second twice within one process (generatePrefix formats local time: a DST fall-back or a clock step backwards can repeat a second) and fewer than 10000 ids are generated per second", "one operation at a time per mailbox (C09 covers interleavings)",
               "fewer than 10000 deliveries per second per process (the id counter wraps at 10000)"]
# Where the open finding K-C10-id-reissued-after-restart can surface (always reported as KNOWN-FINDING, never as a violation, and only
# when the rest of the observation equals the ordered map): the `reissue` corpus case (deterministic, every run), `hist` / `upg` histories
# with a real restart (X) after a removal / purge / cap eviction, and `srv` cases with a cap (the third incarnation's delivery evicts and
# may be issued the evicted id within the same second) - timing-dependent there, so a run may or may not show it. `big` has no process
# restart, `conc` never reports ids (its handles are positions), so neither can.
NOT_PROVED = ["visit_complete is completeness only: that the walk yields each mailbox AT MOST once is not proved (it needs a no-duplicate-keys invariant of the disk map); the correspondence run compares the walk with the set of non-empty mailboxes",
              "removed_stay_gone_stmt (Proofs/FileDiskWitness.v): the unguarded statement 'a removed id never names a message of the mailbox again' is FALSE in the model and in the code (removed_stay_gone_refuted, open finding K-C10-id-reissued-after-restart); proved instead: removed_stay_gone_partial under never_reissued"]


def nontrivial(kind, ins, outs):
    if kind in ("reissue", "conc", "srv", "big", "upg", "size"):
        return True
    return kind == "hist" and ("R" in ins[2].split(",") or "X" in ins[2].split(",")) and any(o.startswith("res=") and "k" in o for o in outs)


def project(kind, ins, outs):
    if kind in ("hist", "upg", "srv"):
        return [o for o in outs if not o.startswith(("retries=", "reissued=", "bytes="))]
    return outs


def match_known(case_line, reason):
    # only the reissue of the id of a message that is gone; every other durability failure stays a VIOLATION
    if reason == "fail:id-of-removed-message-reissued":
        return "K-C10-id-reissued-after-restart"
    return None


def shrink_candidates(inp):
    parts = inp.split(" ")
    if parts[0] != "hist" or parts[3] == "-":
        return
    ops = parts[3].split(",")
    for i in range(len(ops)):
        h = ops[:i] + ops[i + 1:]
        q = list(parts)
        q[3] = ",".join(h) if h else "-"
        yield " ".join(q)

ID = "C19"
LEVEL = "proof"
TITLE = "Shutdown is graceful: open sessions finish, nothing new starts, waiting ends"
LEVEL_TEXT = ("Coq theorems over ALL schedules of the listener/WaitGroup/session model (no accept after close, Drain returns exactly when "
              "no accepted session is alive — SMTP and POP3 as coded now —, sessions are untouched by cancellation, late hub operations "
              "neither block nor panic, the retention scanner stops within a bounded number of its own steps) + correspondence of the "
              "model with real smtp.Server / pop3.Server on ephemeral ports, a real hub, store and retention scanner.")
LEVEL_NOTE = ("The theorems are about coq/Model/Lifecycle.v and Model/Hub.v. Accept+wg.Add of the accept loop is ONE step of the model "
              "(Model/LifecycleAccept.v has them as two steps, with the accept loop itself counted as coded after repair 0022: drain_exact_accept_loop; the harness forces the window by wrapping the loop's listener). "
              "The session's protocol dialogue is abstracted to positions (greeted … DATA in flight / DELE marked / UPDATE); the full dialogues are "
              "C01/C03/C13's. Not modelled: the kernel's listen backlog, timedExit's 15 s. The TLS handshake itself is not modelled, only its "
              "effect on the session count (a client failing the handshake of a ForceTLS POP3 server = accepted, started, ended). The tie between model and code is sampled.")
TECHNIQUE = "machine-checked proof in Coq + model/code correspondence check"
DESIGN_REF = "DESIGN.md §4 C19"
RULE = ("life: one line = a schedule run by one goroutine against real servers started on 127.0.0.1:0 under one context: up to 3 sessions "
        "(SMTP/POP3) parked in a protocol position (greeted, HELO, MAIL, RCPT, DATA accepted, body half sent; USER, PASS, DELE marked), an "
        "SMTP or POP3 session held before it starts (verifhook smtp.session.start / pop3.session.start), a POP3 QUIT whose deletions wait in a gated "
        "store (wrapper around storage.Store handed to pop3.NewServer), cancel, then client activity (advance, finish with QUIT, drop), "
        "fresh connection attempts and Drain calls in a random order; each case in its own process. asm19: the assembled server (server.FullAssembly + Services.Start, child process) with one of the three listeners unable to bind (address occupied) or none: after the failure is notified, what cmd/inbucket/main.go does next (cancel, SMTP drain, POP3 drain, retention Join) must return. scan: one DoScan pass over n mailboxes (some with expired mail, most without) cancelled just before the k-th mailbox callback — promptness judged by the number of callbacks that still run (at most the one under way), not by wall time. ret: retention scanner Start/Join and "
        "DoScan cancelled before / in the middle / never. distinct = distinct input line; non-trivial = a session is open when cancel "
        "happens (life) or the scan is cancelled (ret).")
TRUSTED = ["sync.WaitGroup, net.Listener.Close/Accept and context cancellation behave as modelled (Wait returns iff the counter is zero; "
           "Accept fails for good once the listener is closed)",
           "timing: 'blocked' = Drain has not returned 250 ms after the call while the driver's own books show an open session; everything "
           "expected to happen gets 4 s"]
ASSUMPTIONS = ["Drain is called after cancel (as cmd/inbucket/main.go does)"]
NOT_PROVED = []
EXEC_TIMEOUT = {"quick": 600, "thorough": 7200}


def nontrivial(kind, ins, outs):
    if kind in ("life", "tls"):
        ops = ins[0].split(",")
        if "k" not in ops:
            return False
        k = ops.index("k")
        return any(o[0] in "oOA" for o in ops[:k])
    if kind == "scan":
        return int(ins[2]) < int(ins[0])
    if kind == "boot":
        return "1" in ins[0]
    if kind == "ret":
        return ins[2] != "none"
    return True


def shrink_candidates(inp):
    parts = inp.split(" ")
    if parts[0] not in ("life", "tls") or len(parts) < 2 or parts[1] == "-":
        return
    ops = parts[1].split(",")
    for i in range(len(ops) - 1, -1, -1):
        cand = ops[:i] + ops[i + 1:]
        # dropping the opening of a session drops its later ops too
        if ops[i][0] in "oOA":
            sid = ops[i][1:].split(":")[0]
            cand = [o for o in cand if not (o[0] in "pfaLqe" and o[1:].split(":")[0] == sid)]
        yield parts[0] + " " + (",".join(cand) if cand else "-")

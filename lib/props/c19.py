ID = "C19"
LEVEL = "proof"
TITLE = "Shutdown is graceful: open sessions finish, nothing new starts, waiting ends"
LEVEL_TEXT = ("Coq theorems over ALL schedules of the listener/WaitGroup/session models + correspondence with real smtp.Server / pop3.Server on "
              "ephemeral ports, a real hub, store and retention scanner. Headline, for the code as it is now (accept loop counted, repair 0022; "
              "Accept() and wg.Add two steps): drain_exact_accept_loop — Drain returns exactly when the accept loop has exited and no accepted "
              "session is alive; then nothing is held uncounted and nothing can be accepted any more (drained_is_final). drain_exact is the "
              "SESSION-COUNT part of that (coarse model without the loop's own count; it is the code's Drain only in states where the loop has "
              "exited: coarse_drain_applies_after_loop_exit). No accept from the moment Start has CLOSED the listener (no_accept_after_close; "
              "between cancel() and that close Accept stays possible, in the model as in the code). Drain also waits for a QUIT's deletions; "
              "the assembled server's shutdown sequence terminates for every subset of listeners failing to bind; readyFunc iff all bound. "
              "STRUCTURAL (true by the shape of the model, backed by a reading of the source and by the `life` stream, not independent "
              "evidence): sessions are untouched by cancellation — open_session_unaffected / inflight_completes / drain_waits_for_quit_deletes "
              "hold because the model's session step does not use the shutdown flags (it is GIVEN them and session_step_ignores_shutdown proves "
              "the independence; that the Go handlers mention neither ctx nor the listener is read off handler.go and sampled by `life`); "
              "likewise hub_stop_harmless unfolds the `stopped` branch of the hub's enqueue and retention_stops two steps of the scanner.")
LEVEL_NOTE = ("Models: coq/Model/Lifecycle.v (sessions, coarse accept), Model/LifecycleAccept.v (two-step accept, counted loop — the faithful "
              "one for Drain; the harness forces the window by wrapping the loop's listener), Model/LifecycleAsm.v (Services.Start shape and "
              "main()'s waits pinned from the source), Model/Hub.v. "
              "The session's protocol dialogue is abstracted to positions (greeted … DATA in flight / DELE marked / UPDATE); the full dialogues are "
              "C01/C03/C13's; an SMTP Quit in DATA is DEFINED to store the in-flight message first, a POP3 QUIT in TRANSACTION to pass through UPDATE. "
              "Not modelled: the kernel's listen backlog; timedExit's 15 s, which in the real binary bounds how long an open session 'can complete "
              "its dialogue' after shutdown was requested (main() forces the exit then). The TLS handshake itself is not modelled (STLS is a session-internal step that keeps the protocol position; the `stls` stream performs real handshakes before and after the cancel), only its "
              "effect on the session count (a client failing the handshake of a ForceTLS POP3 server = accepted, started, ended). "
              "The tie between model and code is sampled.")
TECHNIQUE = "machine-checked proof in Coq + model/code correspondence check"
DESIGN_REF = "DESIGN.md §4 C19"
RULE = ("life: one line = a schedule run by one goroutine against real servers started on 127.0.0.1:0 under one context: up to 3 sessions "
        "(SMTP/POP3) parked in a protocol position (greeted, HELO, MAIL, RCPT, DATA accepted, body half sent; USER, PASS, DELE marked), an "
        "SMTP or POP3 session held before it starts (verifhook smtp.session.start / pop3.session.start), a POP3 QUIT whose deletions wait in a gated "
        "store (wrapper around storage.Store handed to pop3.NewServer), cancel, then client activity (advance, finish with QUIT, drop), "
        "fresh connection attempts and Drain calls in a random order; each case in its own process. asm19: the assembled server (server.FullAssembly + Services.Start, child process) with one of the three listeners unable to bind (address occupied) or none: after the failure is notified, what cmd/inbucket/main.go does next (cancel, SMTP drain, POP3 drain, retention Join) must return. early: shutdown requested before (already-cancelled context) / right after Services.Start, or at once after a bind failure was notified — afterwards every port the server bound must be closed (dial refused and bindable again), drains and Join return. One long schedule runs in the THOROUGH tier only (about 35 s of real time): an SMTP and a POP3 session kept talking for 14 s / 16 s after Drain was called — hidden grace periods of Drain up to that length are not explored by the quick tier (its busy sessions last 1.7 s). A second long schedule, also THOROUGH tier only (about 30 s): after the cancel each session sends a command, then every client is completely silent for 9 s and later for 17 s (configured idle timeout: 30 s); the command after each gap must be answered as usual, Drain must stay blocked, the POP3 deletions marked before the cancel must be applied at QUIT — silent gaps of up to that length after the cancel are explored in the thorough tier only (the quick tier's longest silence is about 2 s), longer ones not at all. scan: one DoScan pass (memory store, or the file store with its three nested directory levels) over n mailboxes (some with expired mail, most without) cancelled just before the k-th mailbox callback — promptness judged by the number of callbacks that still run (at most the one under way), not by wall time. ret: retention scanner Start/Join and "
        "DoScan cancelled before / in the middle / never. distinct = distinct input line; non-trivial = a session is open when cancel "
        "happens (life) or the scan is cancelled (ret).")
TRUSTED = ["sync.WaitGroup, net.Listener.Close/Accept and context cancellation behave as modelled (Wait returns iff the counter is zero; "
           "Accept fails for good once the listener is closed)",
           "timing: 'blocked' = Drain has not returned 250 ms after the call while the driver's own books show an open session; everything "
           "expected to happen gets 4 s"]
ASSUMPTIONS = ["Drain is called after cancel (as cmd/inbucket/main.go does)"]
NOT_PROVED = ["the message hub stops UNCONDITIONALLY: hub_stop_not_delayed carries the C15 exception — while an open listener with a full queue "
              "holds the hub goroutine (K-C15-slow-listener) it does not observe the cancellation; harmless for 'without blocking shutdown' "
              "(main() waits for neither the hub nor the web server), but 'the hub stops' is conditional on that"]
EXEC_TIMEOUT = {"quick": 600, "thorough": 7200}


def nontrivial(kind, ins, outs):
    if kind in ("life", "tls", "lifet", "stls"):
        ops = ins[0].split(",")
        if "k" not in ops:
            return False
        k = ops.index("k")
        return any(o[0] in "oOA" for o in ops[:k])
    if kind == "early":
        return True
    if kind == "scan":
        return int(ins[2]) < int(ins[0])
    if kind == "boot":
        return "1" in ins[0]
    if kind == "ret":
        return ins[2] != "none"
    return True


def shrink_candidates(inp):
    parts = inp.split(" ")
    if parts[0] not in ("life", "tls", "lifet", "stls") or len(parts) < 2 or parts[1] == "-":
        return
    ops = parts[1].split(",")
    for i in range(len(ops) - 1, -1, -1):
        cand = ops[:i] + ops[i + 1:]
        # dropping the opening of a session drops its later ops too
        if ops[i][0] in "oOA":
            sid = ops[i][1:].split(":")[0]
            cand = [o for o in cand if not (o[0] in "pfaLqebt" and o[1:].split(":")[0] == sid)]
        yield parts[0] + " " + (",".join(cand) if cand else "-")

ID = "C02"
LEVEL = "proof"
TITLE = "Message content survives byte-for-byte from SMTP DATA to every read interface"
LEVEL_TEXT = ("Coq theorems over the transcribed net/textproto dot decoder: for every list of LF-free lines (NUL/8-bit bytes, leading dots, "
              "lone dots, bare CRs, any length) decoding the dot-stuffed wire gives exactly the lines joined by LF and stops at the "
              "terminator (dot_lines, dot_roundtrip), what the stored copy is line by line (lf_norm_terminated_line: an LF-terminated line loses exactly one trailing CR "
              "and nothing else; lf_norm_last_line; lf_norm_per_line), a truncated block is never a message (truncated_is_none), and the POP3 line writer / "
              "client decoder round-trips every source (pop3_roundtrip, built with C13); tied to the code by sending hostile bodies up to "
              "300 KB lines (MBs in the thorough tier) through a real SMTP session and reading them back through Store.Source, REST /source, "
              "web-UI /source and POP3 RETR on both real stores, sizes through Store.Size, the REST listing and POP3 LIST")
LEVEL_NOTE = ("Coq kernel; extraction; the dotReader state machine is transcribed from Go's source (validated by the correspondence run, "
              "not verified); the trace-header prefix is tied to the source by the translator: the three Sprintf formats, their argument expressions and the io.MultiReader order are "
              "regenerated on every run (Gen/SmtpTrace.v) and trace_headers_are_the_source_formats / stored_pieces_in_source_order prove that the model's stored_source renders exactly "
              "them; the agreement of the read interfaces on a message's content is now a theorem over ONE abstract store (read_interfaces_agree_on_source, Proofs/InterfacesAgree.v, composing C07's StoreSpec, C14's REST / web-UI handler model and C13's POP3 model over that store: GetMessage, REST /source and web-UI /source answer the source of exactly that message, the POP3 view holds the same bytes at the same position, RETR sends pop3_send of them and announces their length; interfaces_agree_instance is a kernel-evaluated instance), and composed once more with the SMTP session and the dot codec (Proofs/EndToEnd.v, smtp_bytes_to_read_interfaces: for any bytes on one SMTP connection, every entry a mailbox holds afterwards is a delivery of that dialogue to that mailbox whose body is the dot-decoding of a block standing in those bytes - delivered_bodies_are_decoded_blocks - and all read interfaces serve its source; e2e_instance evaluates it on a dialogue; any_sessions_to_read_interfaces is the same for any number of connections whose deliveries reach the store in any order; smtp_bytes_to_read_interfaces_with_sizes adds the size clause - on the store that records the length of the stored source the size every listing shows is the length of the bytes every interface serves, Proofs/EndToEndSize.v); what remains covered by the differential run only is the transport glue (the store copy of the bytes, net/http writing the source, the POP3 line writer's connection handling) and size = length on the REAL stores (the models' end-to-end theorem has the clause now) "
              "(the POP3 line writer has theorems: pop3_roundtrip*); lf_norm is not idempotent (a line ending CR CR LF keeps one CR in the store and loses it at POP3's CR trim); the Received "
              "timestamp is masked; POP3 output is compared after CRLF->LF normalisation, which the property allows")
DESIGN_REF = "DESIGN.md §4 C02"
RULE = ("bodies from a grammar of hostile lines (leading/lone dots, NUL, 8-bit, bare CR at start/middle/end, empty lines, random bytes, "
        "repeated runs up to 200 bytes), long-line cases of 4095..300000 bytes, raw wire encodings with bare-LF line ends and LF-only "
        "terminators; seq: 2-4 transactions on one connection to one mailbox, later bodies not longer than earlier ones, EVERY message read back through all four interfaces "
        "after the last one was stored (memory store with and without its size limit, with a cap, file store); multi: one transaction with 2-4 recipients (distinct mailboxes, the same mailbox twice), EVERY stored copy read back "
        "through all four interfaces; asmsrc: the assembled server (FullAssembly + Services.Start in a child process), delivery over the real SMTP port, "
        "reads over the real HTTP listener with Go's default client (gzip offered) and the real POP3 port, stored sizes around multiples of 32 KiB; distinct = distinct input line; non-trivial = the message was stored and has a body beyond the trace headers")
TRUSTED = ["net/textproto dotReader transcribed by hand into Model/Dot.v", "httptest around the real router for REST and web-UI reads"]
ASSUMPTIONS = ["the header block of the payload decides acceptance (451 otherwise): the driver reports enmime's verdict as an oracle"]
NOT_PROVED = []


def nontrivial(kind, ins, outs):
    if kind == "multi":
        return len(outs) >= 3 and outs[2].startswith("1:") and outs[1] != "-"
    if kind == "seq":
        return len(outs) >= 3 and "1" in outs[2].split(":")[0] and outs[1] != "-"
    return len(outs) >= 9 and outs[8].startswith("1:") and ins[1] != "-"


def shrink_candidates(inp):
    parts = inp.split(" ")
    if parts[0] == "multi":
        rc = parts[2].split(",")
        for i in range(len(rc)):
            if len(rc) > 1:
                yield " ".join([parts[0], parts[1], ",".join(rc[:i] + rc[i + 1:]), parts[3]])
        if parts[3] != "-":
            ls = parts[3].split(",")
            for i in range(len(ls)):
                yield " ".join([parts[0], parts[1], parts[2], ",".join(ls[:i] + ls[i + 1:]) or "-"])
        return
    if parts[0] == "seq":
        k = int(parts[2])
        if k > 2:
            yield " ".join([parts[0], parts[1], str(k - 1), parts[3]])
        if parts[3] != "-":
            ls = parts[3].split(",")
            for i in range(len(ls)):
                yield " ".join([parts[0], parts[1], parts[2], ",".join(ls[:i] + ls[i + 1:]) or "-"])
        return
    if parts[0] in ("lines", "asmsrc") and parts[2] != "-":
        ls = parts[2].split(",")
        for i in range(len(ls)):
            q = ls[:i] + ls[i + 1:]
            yield " ".join([parts[0], parts[1], ",".join(q) or "-"])
        for i, l in enumerate(ls):
            if len(l) > 8 and l != "-":
                yield " ".join([parts[0], parts[1], ",".join(ls[:i] + [l[:len(l) // 4 * 2]] + ls[i + 1:])])

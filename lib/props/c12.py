ID = "C12"
LEVEL = "proof"
TITLE = "Retention removes exactly the expired messages and nothing else"
LEVEL_TEXT = ("proof (Coq) about a model of RetentionScanner.DoScan and of Start's run loop as a step machine over (clock, ctx, store) "
              "(over ALL schedules of clock ticks, cancellations, other clients' operations and loop moves: inert for period <= 0, at most one "
              "scan start per minute, after cancel at most one more mailbox callback plus one per select that an already expired timer wins against ctx.Done (exactly one when RetentionSleep's timer has not expired) and Join returns, no young message ever removed, a message "
              "older than the period is gone once a scan started afterwards completes) over the abstract store of C07 — exactness of an "
              "undisturbed scan, no young message removed and every expired one gone under arbitrary interleaving with other "
              "clients, step-bounded stop after cancellation, inert run loop for period <= 0 — tied to the code by running the real "
              "scanner on both real stores with generated age distributions and forced interleavings; promptness is stated in "
              "steps, wall-clock time only enters through generous deadlines")
LEVEL_NOTE = ("the scan and the run loop run over Model/StoreSpec.v; scan_over_storespec / loop_over_storespec prove that a scan is one Lst per "
              "mailbox plus one Remove (Kth k) per expired snapshot entry and that the loop's store is the run of the clients' and the scans' "
              "operations, and scan_over_store_models / loop_over_store_models compose this with C07's refinement theorems (run_mem = run_spec; "
              "run_file = run_spec under c_max = 0 and file_fresh): removals and the listing afterwards are the same over the memory-store model, "
              "the file-store model and StoreSpec (atomicity of store operations: C09); "
              "the order in which a back-end enumerates mailboxes is a parameter of the model and is taken from the observation; "
              "time: message dates are inputs, ages are kept >= 2 s away from the cutoff, the clock is assumed monotone")
TECHNIQUE = "machine-checked proof in Coq + model/code correspondence check"
DESIGN_REF = "DESIGN.md §4 C12"
RULE = ("scan: generated age distributions over 0-5 mailboxes (incl. emptied ones) x periods {0,5,30,60,3600,86400} s on the memory "
        "and the file store; a second stream forces 1-3 operations of other clients (deliver, remove, purge, mark seen) between "
        "the scanner's steps (before a mailbox snapshot, before a RemoveMessage call, between the file store's directory reads); "
        "an id-reuse stream removes every expired message still live (or purges) and delivers fresh mail before the first and between "
        "the scanner's removals; a stream parks a delivery between its mailbox lookup and its mailbox lock across the removal "
        "that empties the mailbox (memory store, verifhook mem.wm.lock); "
        "environment of the file store: the storage path a symbolic link, <path>/mail a symbolic link to a directory elsewhere (made before file.New), "
        "every first-level hash directory moved elsewhere and replaced by a symbolic link after the mail has arrived — scans undisturbed and with forced "
        "interference and a slow delivery on each layout, same oracle (every expired message gone, nothing young touched); "
        "large mailboxes (cap 0): 1100 messages in one mailbox with the oldest 30 / the oldest 1050 expired, next to a small control mailbox "
        "(memory store in the quick tier; the file store and a 2200 / 3000 message mailbox in the thorough tier); "
        "after every scan each message ever delivered is asked for by its own id (GetMessage), so what is still in the store does not depend on what a listing shows; "
        "a stream delivers to a mailbox that is already empty when the pass starts, the delivery parked between its mailbox lookup and its mailbox lock "
        "from before the walk collects the mailboxes until after the first callback (memory store, verifhook mem.wm.lock): the fresh mail must be there afterwards; "
        "a stream removes one of several expired messages of a mailbox between the scanner's snapshot and its first removal call there (a store's batched removal, "
        "if it has one, is forwarded through the wrapper as one removal step); cancellation also INSIDE a mailbox of 37-400 expired messages (<n>r<m>), judged for promptness; "
        "slow: a message is handed to the real Store.AddMessage with a body reader that parks after its first chunk (half way into the store) "
        "while the real DoScan runs on the same store - mostly a mailbox whose listed mail has all expired, so that the scanner's last "
        "removal empties it - and is released when the scan has completed (or after 200 ms if the store makes the scanner wait for the "
        "delivery): afterwards expired mail is gone, young mail and the new message are listed; in every scan / slow case each listed "
        "survivor's Source() must open and hold exactly the bytes delivered (listed-message-content-destroyed otherwise); "
        "a third cancels the context during the n-th callback (RetentionSleep 100 ms), a fourth does so with RetentionSleep 0 / 1 ns where the "
        "select at the callback end is a race (any outcome of the model's alternatives is accepted); dlv: mail delivered through the real StoreManager.Deliver carrying its own Date: header (days / years in the past, in the future, missing, garbled), then DoScan: just-arrived mail must survive whatever the header says, and with a period of 1 s after 3 s of waiting all of it must go — arrival time decides (a real arrival cannot be aged further: the old-arrival half of the clause stays on the direct-store stream); start: the real Start with period <= 0, with cancellation before the first minute and (thorough) after its first scan, judged against the run-loop model. asm12: the assembled server (server.FullAssembly + Services.Start, child process) serves for 1.5 s a file store that already holds messages of mixed ages, with period 0 and positive periods: afterwards no unexpired message (period 0: no message at all) may be missing; the surviving messages are compared with what the run-loop model leaves after the seconds served. "
        "distinct = distinct input line; non-trivial = the store holds at least one message before the scan.")
TRUSTED = [
    "the tie of the store models to the Go stores is C07's correspondence check (scan_over_store_models ties this property's model to those models); store operations are atomic (C09)",
    "the forced interleaving is produced by a wrapper around the storage.Store handed to the real RetentionScanner and by the "
    "verifhook points file.visit.l2/l3 inside VisitMailboxes and mem.wm.lock inside withMailbox",
    "the in-flight delivery of the `slow` cases is an io.Reader that parks after its first chunk, inside the storage.Message handed to the "
    "real Store.AddMessage (no hook); how far into AddMessage the store is at that moment is the store's business",
    "monotone clock: a message delivered after the scan started is younger than the cutoff",
    "the run loop's clock is not fake-able (retention.go reads time.Now / time.After directly and hooks may not touch existing lines): "
    "the loop model is tied to the code through the `start` cases (real Start, real minute in the thorough tier) and the assembled-server cases asm12",
]
ASSUMPTIONS = [
    "message ages are at least 2 s away from the retention cutoff in every generated case",
    "promptness after cancel ('at most one more mailbox callback', 'stops within entries-left + const steps') is proved and checked for "
    "the case in which the ctx case wins the select at a callback end, i.e. RetentionSleep's timer has not expired there (default 50 ms; "
    "the cancel cases use 100 ms). For RetentionSleep 0 / 1 ns the select is a real race in Go (model: timer_first flag); what is promised "
    "and checked there: the scan returns, each further callback is entered only through a timer win, nothing young is deleted, nothing "
    "beyond the mailboxes reached is touched. Each snapshot entry left may cost one RemoveMessage call, so a mailbox with n expired "
    "messages delays shutdown by up to n removals",
]
NOT_PROVED = []
EXEC_TIMEOUT = {"quick": 900, "thorough": 7200}


def nontrivial(kind, ins, outs):
    if kind == "dlv":
        return True
    if kind == "scan":
        return any(b.split(":", 1)[1] for b in ins[2].split(";")) if ins[2] != "-" else False
    if kind == "start":
        return ins[3] != "-"
    if kind == "slow":
        return True
    if kind == "asm12":
        return True
    return False


def shrink_candidates(inp):
    parts = inp.split(" ")
    if parts[0] == "dlv":
        ds = parts[4].split(",")
        for i in range(len(ds)):
            r = ds[:i] + ds[i + 1:]
            if r:
                yield " ".join(parts[:4] + [",".join(r)])
        return
    if parts[0] == "slow":
        kind, store, period, boxes, target = parts
        bl = boxes.split(";")
        for i in range(len(bl)):
            r = bl[:i] + bl[i + 1:]
            if r:
                yield " ".join([kind, store, period, ";".join(r), target])
        for i, b in enumerate(bl):
            mb, ages = b.split(":", 1)
            al = ages.split(",") if ages else []
            if len(al) > 1:
                for j in range(len(al)):
                    r = al[:j] + al[j + 1:]
                    yield " ".join([kind, store, period, ";".join(bl[:i] + [mb + ":" + ",".join(r)] + bl[i + 1:]), target])
        return
    if parts[0] != "scan":
        return
    kind, store, period, boxes, inj, cancel = parts
    bl = [] if boxes == "-" else boxes.split(";")
    il = [] if inj == "-" else inj.split(",")
    for i in range(len(il)):
        r = il[:i] + il[i + 1:]
        yield " ".join([kind, store, period, boxes, ",".join(r) or "-", cancel])
    for i in range(len(bl)):
        r = bl[:i] + bl[i + 1:]
        yield " ".join([kind, store, period, ";".join(r) or "-", inj, cancel])
    for i, b in enumerate(bl):
        mb, ages = b.split(":", 1)
        al = ages.split(",") if ages else []
        if len(al) > 1:
            for j in range(len(al)):
                r = al[:j] + al[j + 1:]
                yield " ".join([kind, store, period, ";".join(bl[:i] + [mb + ":" + ",".join(r)] + bl[i + 1:]), inj, cancel])

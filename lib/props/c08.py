ID = "C08"
LEVEL = "proof"
TITLE = 'Mailbox cap and store size limit evict oldest-first and only what is necessary'
DESIGN_REF = "DESIGN.md §4 C08"
TECHNIQUE = "machine-checked proof in Coq + model/code correspondence check"
LEVEL_TEXT = 'proof (partial): on the abstract store, for every history and every (cap, maxBytes): cap_bound, cap_keeps_newest, size_bound, evict_global_oldest_prefix (incl. minimality); transported to the file-store model by file_refines_spec (cap). For the memory store with limits the link model->spec is the correspondence check (500 histories over caps {0,1,2,5} x limits {0,1,4 KiB}, GetMessage of every id just returned, oracle = extracted spec), not a theorem.'
LEVEL_NOTE = 'accounting_exact and fits_then_retrievable are enforced by the oracle on every run (the spec keeps a fitting message; any drift of curSize shows as a wrong eviction) but are not proved for the memory model'
RULE = ("random histories of deliveries of varying sizes (150 B - 5 KB, incl. oversize) interleaved with get/list/seen/remove/purge/visit under caps {0,1,2,5} x size limits {0,1,4 KiB}, 1-3 mailboxes; both stores for the cap, memory store for the size limit; "
        "characters; missing / not-yet-issued / bogus / 'latest' handles, double removes, purge-then-latest) on a fresh real "
        "memory store and a fresh real file store; distinct = distinct input line; non-trivial = at least one add and one "
        "operation on a stored message")
TRUSTED = ["handles: messages are named by 'k-th add to this mailbox' / 'latest' / a bogus literal; the driver's id<->handle table (Go map) is modelled by StoreSpecImpl.run_impl", 'message content is abstracted to (date, tag, size, seen): the driver checks that from/to/subject/body/mailbox read back equal what the add with that handle wrote and prints the tag only then', 'VisitMailboxes enumeration order (map / readdir order) is not compared: groups are sorted by mailbox on both sides; empty groups are dropped', 'file store: byte-level disk protocol (tmp+rename, unlink order, gob) is not in this model (C10/C11); I/O errors are not modelled', 'memory store: the size enforcer goroutine is modelled as a synchronous sub-step (callers block on md.done); creation of an empty mailbox record by reads is not modelled (unobservable)']
ASSUMPTIONS = ['maxkb is given in KiB (limit = maxkb*1024 bytes), as mem.New computes it']
NOT_PROVED = ['accounting_exact_stmt: in MemStore, en_cur = total of en_all and en_all = live messages in arrival order, after every history (needs mem_refines_spec with limits)', 'fits_then_retrievable_stmt: size m <= max -> get (add m) = m on the abstract store and the memory model', 'mem_refines_spec_stmt with limits (see C07)']


def nontrivial(kind, ins, outs):
    ops = ins[4].split(",") if len(ins) > 4 else []
    return any(o.startswith("a") for o in ops) and any(o[0] in "gsr" for o in ops)


def shrink_candidates(inp):
    parts = inp.split(" ")
    if len(parts) != 6:
        return
    ops = parts[5].split(",")
    n = len(ops)
    # drop halves, quarters, then single operations
    chunk = n // 2
    while chunk >= 1:
        i = 0
        while i < n:
            cand = ops[:i] + ops[i + chunk:]
            if cand and len(cand) < n:
                yield " ".join(parts[:5] + [",".join(cand)])
            i += chunk
        chunk //= 2

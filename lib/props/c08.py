ID = "C08"
LEVEL = "proof"
TITLE = 'Mailbox cap and store size limit evict oldest-first and only what is necessary'
DESIGN_REF = "DESIGN.md §4 C08"
TECHNIQUE = "machine-checked proof in Coq + model/code correspondence check"
LEVEL_TEXT = "proof: cap and size limit TOGETHER are covered explicitly (both_limits_delivery: cap evicts the oldest of the mailbox and only as many as necessary, then the size limit the shortest prefix of the store-wide order, both bounds afterwards, every message accounted for; both_limits_history) and by a dedicated generator family (120 histories per run in which the oldest message of the store sits in the mailbox that overflows its cap, cap and size eviction inside one AddMessage). In general, for every history and every (cap, maxBytes) incl. 0 = disabled: cap_bound, cap_keeps_newest, size_bound, evict_global_oldest_prefix (with minimality) on the abstract store, which the memory-store model (mem_refines_spec, all limits) and the file-store model (file_refines_spec, cap) refine operation by operation; accounting_exact (enforcer list = live messages in global arrival order, curSize = their total) and fits_then_retrievable are theorems about the memory-store model itself. Tie to /repo: correspondence check (about 700 histories per run over caps {0,1,2,5} x limits {0,1,4 KiB}, GetMessage of every id just returned, oracle = extracted spec). ALL C08 theorems quantify over SEQUENTIAL histories (one store operation at a time, the enforcer a synchronous sub-step): accounting_exact says the accounting never drifts along any sequential history; under interleavings of concurrent operations with the enforcer goroutine there is no theorem here that curSize equals the live total or that the limit holds at quiescence — that is C09's (its qstep oracle and forced schedules; the historical drift bug was an interleaving bug)."
LEVEL_NOTE = "cap_bound / size_bound are stated on the abstract final state; by the refinement theorems every listing either model returns is that state's listing; scope: sequential histories only (see LEVEL_TEXT); negative MailboxMsgCap and byte limits that are not multiples of 1024 are not representable in scfg (harmless: mem.New multiplies maxkb by 1024, a negative cap disables the cap loop like 0); tied to the source by the translator (go/cmd/pins/c07.go -> coq/Gen/StorePins.v, regenerated on every run): the file store id format / counter / path scheme (file_id_format_pinned), the functions that remove messages and those that emit the after-events (removal_paths_emit: every removal path of either store announces what it removes; AfterMessageStored is emitted by StoreManager.Deliver only), the order of the steps of the delivery paths (add_steps_pinned); evicts_iff_necessary gives both directions of 'only what is necessary' for the cap and for the size limit"
RULE = ("random histories of deliveries of varying sizes (150 B - 5 KB, incl. oversize) interleaved with get/list/seen/remove/purge/visit under caps {0,1,2,5} x size limits {0,1,4 KiB}, 1-3 mailboxes; both stores for the cap, memory store for the size limit; "
        "characters; missing / not-yet-issued / bogus / 'latest' handles, double removes, purge-then-latest) on a fresh real "
        "memory store and a fresh real file store; distinct = distinct input line; non-trivial = at least one add and one "
        "operation on a stored message; plus 16 file-store histories with the cap on a FULL mailbox whose deliveries straddle the wrap of the id counter (arrival order is not id order); plus 40 file-store histories in which the store is re-opened on the same path with ANOTHER cap (n -> smaller n, 0 -> n, n -> 0 -> n): a mailbox above the new cap keeps its messages until its next delivery, which must leave exactly the newest cap (several evictions at once); plus 12 memory-store histories (limit 4 KiB) in which ONE delivery must displace 1, 10, 32, 33, 60 or all 64 resident small messages; plus 21 histories per run over the CONFIGURATION as an operator can write it, through storage.FromConfig and the real constructors (maxkb present as 0, empty, negative, non-numeric, huge; negative cap; trailing slash on the file path; unknown parameter): 'no limit' spellings behave as no limit, refused ones end with NEWERR; plus 7 file-store histories in which the cap is lowered so that 1, 9, 20, 21, 50, 200, 600 messages must go at the next delivery, checked after each of the next three deliveries")
TRUSTED = ["handles: messages are named by 'k-th add to this mailbox' / 'latest' / a bogus literal; the driver's id<->handle table (Go map) is modelled by StoreSpecImpl.run_impl", 'message content is abstracted to (date, tag, size, seen): the driver checks that from/to/subject/body/mailbox read back equal what the add with that handle wrote and prints the tag only then', 'VisitMailboxes enumeration order (map / readdir order) is not compared: groups are sorted by mailbox on both sides; empty groups are dropped', 'file store: byte-level disk protocol (tmp+rename, unlink order, gob) is not in this model (C10/C11); I/O errors are not modelled', 'memory store: the size enforcer goroutine is modelled as a synchronous sub-step (callers block on md.done); creation of an empty mailbox record by reads is not modelled (unobservable)']
ASSUMPTIONS = ['maxkb values whose *1024 overflows int64 (>= 2^53 KiB) are outside the model: the unchanged constructor then computes a negative limit', 'maxkb is given in KiB (limit = maxkb*1024 bytes), as mem.New computes it']
NOT_PROVED = []


def nontrivial(kind, ins, outs):
    ops = ins[4].split(",") if len(ins) > 4 else []
    return any(o.startswith("a") for o in ops) and any(o[0] in "gsr" for o in ops)


def shrink_candidates(inp):
    parts = inp.split(" ")
    if len(parts) != 6:
        return
    ops = parts[5].split(",")
    n = len(ops)
    # drop halves, quarters, then single operations
    chunk = n // 2
    while chunk >= 1:
        i = 0
        while i < n:
            cand = ops[:i] + ops[i + chunk:]
            if cand and len(cand) < n:
                yield " ".join(parts[:5] + [",".join(cand)])
            i += chunk
        chunk //= 2

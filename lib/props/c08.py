ID = "C08"
LEVEL = "proof"
TITLE = "Both storage back-ends behave as one ordered-mailbox model under any history"
DESIGN_REF = "DESIGN.md §4 C08"
TECHNIQUE = "machine-checked proof in Coq + model/code correspondence check"
LEVEL_TEXT = "placeholder"
LEVEL_NOTE = "placeholder"
RULE = ("random operation histories (4-60 ops, 1-5 mailboxes incl. names sharing a 12-bit SHA-1 prefix, '@' and special "
        "characters; missing / not-yet-issued / bogus / 'latest' handles, double removes, purge-then-latest) on a fresh real "
        "memory store and a fresh real file store; distinct = distinct input line; non-trivial = at least one add and one "
        "operation on a stored message")
TRUSTED = []
ASSUMPTIONS = []
NOT_PROVED = []


def nontrivial(kind, ins, outs):
    ops = ins[4].split(",") if len(ins) > 4 else []
    return any(o.startswith("a") for o in ops) and any(o[0] in "gsr" for o in ops)


def shrink_candidates(inp):
    parts = inp.split(" ")
    if len(parts) != 6:
        return
    ops = parts[5].split(",")
    n = len(ops)
    # drop halves, quarters, then single operations
    chunk = n // 2
    while chunk >= 1:
        i = 0
        while i < n:
            cand = ops[:i] + ops[i + chunk:]
            if cand and len(cand) < n:
                yield " ".join(parts[:5] + [",".join(cand)])
            i += chunk
        chunk //= 2

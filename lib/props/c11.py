import os
from vcheck import core

ID = "C11"
LEVEL = "proof"
TITLE = "A crash at any point of a file-store update leaves every mailbox readable"
LEVEL_TEXT = ("proof + fault enumeration: Coq theorems over the disk-level model of the file store (every prefix of the "
              "primitive file-system steps of every operation, after any history that may itself contain crashes, with "
              "arbitrary content in the file being written, any partial RemoveAll / MkdirAll): every mailbox and the visit "
              "walk stay readable, untouched messages keep their content, new mail is accepted, the abstract state is the "
              "old or the new one — *partial* for deliveries that first evict for the mailbox cap (open finding "
              "K-C11-evict-then-append: pre, pre minus evicted messages, or post). The model is tied to the code by "
              "enumerating every crash point of sampled scenarios on the real store (panic at the k-th verifhook point, "
              "truncation of the file being written at every length <= 512) and comparing site sequence and recovered state. Also proved and "
              "sampled: VisitMailboxes returns no error while ONE other operation runs, for every interleaving of the walk's directory reads "
              "with whole file-system steps of that operation (fix 0012; states inside a step and several concurrent operations: C09).")
LEVEL_NOTE = ("The theorems are about Model/FileDisk.v, a hand-written model of pkg/storage/file (fstore.go, mbox.go, fmessage.go); "
              "encoding/gob is a section variable with the round-trip hypothesis only; the file system is modelled as a path map "
              "with atomic create/rename/unlink/rmdir (POSIX), a process kill (no power loss: written data survives without fsync). "
              "STEP ORDER TIED TO THE SOURCE: go/cmd/pins/c11_steps.go reads, on every run, the order of crash points, mutating os calls and helper "
              "calls inside AddMessage, MarkSeen, RemoveMessage, PurgeMessages, newMessage, removeMessage, purge, writeIndex, createDir, removeDir, "
              "removeDirIfEmpty (coq/Gen/FileSteps.v); file_steps_pinned proves the skeletons the model was written from equal them (conditions by "
              "position, not text) and model_steps_from_skeleton that the model's step lists are assembled from those crash points in that call "
              "order — a reordering in the source makes the theorem fail to re-check. "
              "CRASH POINTS = every mutating os call on the non-error paths of the three files, one verifhook.Point immediately before each, "
              "one model step each: AddMessage os.Create(raw) [add.create], io.Copy into the bufio.Writer [add.write], Writer.Flush [add.flush], "
              "File.Close [add.close]; writeIndex os.Create(index.gob.tmp) [index.create], gob Encode of name+messages [index.write], Flush "
              "[index.flush], Close [index.close], os.Rename(tmp,index) [index.rename], and for an emptied mailbox os.Remove(index) [index.remove]; "
              "createDir os.MkdirAll(mailbox dir) [dir.mkdir]; removeDir os.RemoveAll(mailbox dir) [dir.removeall]; removeDirIfEmpty os.Remove(parent) "
              "[dir.rmdir, twice]; removeMessage os.Remove(raw) [remove.raw]; file.New os.MkdirAll(mail) [new.mkdir, driver case `new`; in the model "
              "the root always exists]. Reached through: AddMessage (incl. the cap-eviction loop = removeMessage of the oldest while adding, "
              "emptying the mailbox at cap 1), MarkSeen (index rewrite), RemoveMessage (non-last: index rewrite + raw unlink; last: index unlink, "
              "RemoveAll, parents level by level), PurgeMessages — the check FAILS when a run has no crash case at one of these (operation, point) "
              "pairs (evidence: crash_point_coverage). Non-atomic calls additionally crash INSIDE: content writes (any bytes / every truncation "
              "<= 512), RemoveAll (subsets), MkdirAll (outer part of the chain). NOT crash points: the read-only calls (os.Stat, os.Open, "
              "Readdirnames) and the four os.Remove(raw) clean-ups of AddMessage that run only after an I/O error — I/O errors (disk full, EACCES) "
              "are not modelled; concurrency is C09's. A killed FIRST delivery to a mailbox leaves an empty mailbox directory (MkdirAll done, no index yet): "
              "by-name listing shows no mail and VisitMailboxes yields it as one extra empty list (the retention scanner ignores it; the next delivery "
              "or purge reuses / removes it) — the model's visit and the driver agree on this. The ordered map of crash_atomic_* / crash_reopen_history is StoreSpec's (C10: "
              "filedisk_refines_storespec, crash_is_storespec_state: every crash state represents a StoreSpec state).")
TECHNIQUE = "machine-checked proof in Coq + model/code correspondence check"
DESIGN_REF = "DESIGN.md §4 C11"
RULE = ("plan: fixed scenarios (add to empty / at cap 1,2,3 / seen / remove one of two / remove last / purge, with sibling mailboxes "
        "sharing the level-1 or level-2 directory) + random histories of 0-6 operations over 4 mailboxes, caps 0-3, bodies from 0 "
        "to >32 KiB; crash: one case per (scenario, k) for EVERY k from 0 to the number of mutation points of the operation "
        "(k = number of completed steps), each with the mid-step variants of step k (content write: the file cut at every "
        "length <= 512 and sampled lengths above; RemoveAll: two subsets of the entries; MkdirAll: outer 1 or 2 directories). "
        "visit: for every scenario, every yield point k of VisitMailboxes (one before each directory read) and j in {0,1,n/2,n-1,n} "
        "(thorough: every j): the walk runs on one store object, the operation starts on another one when the walk is at point k, "
        "completes j file-system steps, and finishes after the walk (forced schedule through verifhook). Histories may change the cap "
        "(C.<n>) so that one delivery evicts several messages. "
        "chist (crash_reopen_history on the real store): 60 (thorough 3000) histories of 3-10 items in which completed operations, "
        "operations killed after k file-system steps (`op@k`, the store is then reopened) and reopens are interleaved — several crashes per "
        "history, their orphans accumulate; after every item a fresh store's state must be the ordered-map state with each killed operation "
        "applied completely, not at all, or (capped delivery, known finding) with 1..n oldest messages dropped. new: file.New killed at its "
        "MkdirAll, then constructed again. "
        "distinct = distinct input line; non-trivial = the operation really died (at != done) resp. the operation has at least one step "
        "resp. the operation started during the walk resp. the history holds a killed operation.")
TRUSTED = ["encoding/gob round trip: dec (enc i) = Some i (section hypothesis; nothing is assumed about partial encodings)",
           "POSIX semantics of create/rename/unlink/rmdir as atomic steps; a killed process loses user-space buffers only",
           "runner-side instance of the codec (Model/FileDiskCodec.v, round trip proved) and SHA-1 values passed in by the driver"]
ASSUMPTIONS = ["no I/O errors during the operation other than the crash itself",
               "one operation at a time per mailbox (the per-mailbox lock; interleavings are C09)"]
NOT_PROVED = ["crash_atomic_stmt (Proofs/FileDiskWitness.v): 'the interrupted operation has happened completely or not at all' for EVERY operation is FALSE for a delivery that evicts for the mailbox cap (crash_atomic_stmt_false, crash_atomic_capped_refuted, open finding K-C11-evict-then-append); proved instead: crash_atomic_uncapped (every operation, store without a cap), crash_atomic_partial (no eviction in this operation) and crash_atomic_capped (old minus 1..evictions oldest, or new)",
              "untouched_intact concludes membership (same entry, same content); the ORDER of the untouched messages follows from crash_atomic_capped (the crash state is a suffix of the old listing or the new listing)"]


_IDX = ["index.create", "index.write", "index.flush", "index.close", "index.rename"]
_EMPTY = ["index.remove", "dir.removeall", "dir.rmdir"]
# (operation, site): every mutating os call on the non-error paths of pkg/storage/file, per operation that reaches it
REQUIRED_CRASH_POINTS = {
    "add": ["dir.mkdir", "add.create", "add.write", "add.flush", "add.close"] + _IDX + ["remove.raw"] + _EMPTY,   # the last four: cap eviction inside AddMessage
    "seen": _IDX,
    "remove": _IDX + ["remove.raw"] + _EMPTY,     # non-last message / last message (directories removed level by level)
    "purge": _EMPTY,
}


def nontrivial(kind, ins, outs):
    if kind == "new":
        return True
    if kind == "chist":
        return any(o.startswith("res=") and "crashed" in o for o in outs)
    if kind == "crash":
        return any(o.startswith("at=") and o != "at=done" for o in outs)
    if kind == "plan":
        return any(o.startswith("seq=") and o != "seq=" for o in outs)
    if kind == "visit":
        return "started=1" in outs
    return True


def project(kind, ins, outs):
    if kind == "visit":
        res = []
        for o in outs:
            if o.startswith("started="):
                continue
            if o.startswith("vis="):
                o = "vis=ERR" if o == "vis=ERR" else "vis=OK"
            res.append(o)
        return res
    return [o for o in outs if not o.startswith("n=")]


def match_known(case_line, reason):
    if reason == "fail:evict-then-append" and case_line.startswith(("crash ", "chist ")):
        return "K-C11-evict-then-append"
    return None


def shrink_candidates(inp):
    parts = inp.split(" ")
    if parts[0] == "chist":
        items = parts[3].split(",")
        for i in range(len(items)):
            h = items[:i] + items[i + 1:]
            if h:
                yield " ".join(parts[:3] + [",".join(h)])
        return
    if parts[0] not in ("plan", "crash"):
        return
    hist = parts[3].split(",") if parts[3] != "-" else []
    for i in range(len(hist)):
        h = hist[:i] + hist[i + 1:]
        q = list(parts)
        q[3] = ",".join(h) if h else "-"
        yield " ".join(q)


def flow(run):
    d = run.dir
    planp = os.path.join(d, "plan.in")
    rc, o = run.gen_inputs(planp + ".gen")
    if rc != 0:
        run.violation("build", {"what": "driver gen failed", "output": o[-3000:]}, False)
        return
    corpus = run.corpus_inputs()
    cplan = [l for l in corpus if l.startswith("plan ")]
    ccrash = [l for l in corpus if l.startswith("crash ")]
    with open(planp, "w") as f:
        for l in cplan:
            f.write(l + "\n")
        for l in open(planp + ".gen"):
            f.write(l)
    st = core.evaluate(run, planp, n_corpus=len(cplan), label="plan")
    if st is None:
        return
    # one crash case per mutation point the IMPLEMENTATION passed (k = number of completed steps)
    crashp = os.path.join(d, "crash.in")
    nstates = 0
    with open(crashp, "w") as f:
        for l in ccrash:
            f.write(l + "\n")
        seen = set()
        for c in open(os.path.join(d, "plan.cases.txt")):
            kind, ins, outs = core.split_case(c)
            seq = [o for o in outs if o.startswith("seq=")]
            if not seq:
                continue
            n = len([s for s in seq[0][4:].split(",") if s])
            key = " ".join(ins)
            if key in seen:
                continue
            seen.add(key)
            for k in range(n + 1):
                f.write("crash %s %d\n" % (key, k))
    st = core.evaluate(run, crashp, n_corpus=len(ccrash), label="crash")
    if st is None:
        return
    # the visit walk interleaved with the operation: it starts at the walk's k-th yield point (every k) and has
    # completed j of its n steps when the walk goes on (j = 0, n/2, n; thorough: every j)
    visitp = os.path.join(d, "visit.in")
    cvisit = [l for l in corpus if l.startswith("visit ")]
    with open(visitp, "w") as f:
        for l in cvisit:
            f.write(l + "\n")
        seen = set()
        for c in open(os.path.join(d, "plan.cases.txt")):
            kind, ins, outs = core.split_case(c)
            seq = [o for o in outs if o.startswith("seq=")]
            nv = [o for o in outs if o.startswith("nv=")]
            if not seq or not nv:
                continue
            n = len([s for s in seq[0][4:].split(",") if s])
            key = " ".join(ins)
            if key in seen or n == 0:
                continue
            seen.add(key)
            js = range(n + 1) if run.tier == "thorough" else sorted(set([0, 1, n // 2, n - 1, n]))
            for k in range(int(nv[0][3:])):
                for j in js:
                    f.write("visit %s %d %d\n" % (key, k, j))
    if core.evaluate(run, visitp, n_corpus=len(cvisit), label="visit") is None:
        return
    # every mutating os call of every operation must have been a crash point in this run
    cover = {}
    for c in open(os.path.join(d, "crash.cases.txt")):
        kind, ins, outs = core.split_case(c)
        at = [o[3:] for o in outs if o.startswith("at=")]
        if not at or at[0] == "done":
            continue
        opk = {"a": "add", "s": "seen", "r": "remove", "p": "purge"}.get(ins[3][0], ins[3][0])
        cover.setdefault(opk, {}).setdefault(at[0], 0)
        cover[opk][at[0]] += 1
    missing = [(o, s) for o, ss in REQUIRED_CRASH_POINTS.items() for s in ss if not cover.get(o, {}).get(s)]
    run.cov.setdefault("extra", {})["crash_point_coverage"] = cover
    if missing:
        run.violation("coverage", {"what": "no crash case at these (operation, mutation point) pairs in this run: %s" % missing}, False)
    # count the crash states actually examined (each truncation length is one state)
    total = 0
    for c in open(os.path.join(d, "crash.cases.txt")):
        kind, ins, outs = core.split_case(c)
        total += 1
        for o in outs:
            if o.startswith("n="):
                total += int(o[2:])
            if o in ("v1=na", "v2=na"):
                continue
            if o.startswith("v2=") or (o.startswith("v1=") and not any(x.startswith("n=") and x != "n=0" for x in outs)):
                total += 1
    run.cov.setdefault("extra", {})["crash_states_examined"] = total

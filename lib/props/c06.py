from props.smtpcommon import post, project, shrink_candidates  # noqa: F401

ID = "C06"
LEVEL = "proof"
TITLE = "No message larger than the configured maximum is ever accepted or stored"
LEVEL_TEXT = ("Coq theorems over the SMTP session model for every limit, every size and every input sequence: a DATA block longer than "
              "the limit gets 552 and delivers nothing (size_rule over all runs, oversize_data_refused), a declared SIZE above the limit "
              "is never answered 250, blocks within the limit are accepted (for a payload whose header block parses: within_limit_accepted has hdr = Some h), and the session is usable "
              "afterwards; the DECLARED size is read without the regenerated patterns (declared_size_spec; size_seen_ok demands that wherever the patterns match the command the parameters "
              "were seen, accepted and the SIZE among them is the declared one): declared_size_is_seen_wherever_it_stands and no_demand_inside_quoted_paths evaluate it with the regenerated "
              "parser on SAMPLE commands on every run (7 + 2 commands - samples, not a universal statement), the runner applies it to the implementation's own parser facts on every case; "
              "tied to the code by "
              "byte-level correspondence with limits 1..65536 and sizes straddling them, the size rule evaluated on the "
              "implementation's own replies and store as the oracle")
LEVEL_NOTE = ("Coq kernel; extraction; the limit is compared with the un-stuffed payload length (LF line ends as ReadDotBytes yields them), "
              "the documented 'size including headers'; oracles as in C01 (net.ParseIP, enmime header decoding)")
DESIGN_REF = "DESIGN.md §4 C06"
RULE = ("limits {1,10,100,1000,5000,65536} x bodies padded to limit-2..limit+2, 2x, 10x, with/without/lying/malformed SIZE parameters, several "
        "transactions per connection; distinct = distinct input line; non-trivial = the case contains a 552 reply or a stored message")
TRUSTED = ["net.ParseIP verdicts and enmime header facts (From/To/Subject, parse error) are oracles supplied by the driver from the real functions"]
ASSUMPTIONS = ["store operations do not fail"]
NOT_PROVED = ["the regenerated MAIL parser sees every declared SIZE (universally): only sample commands are evaluated in Coq, every generated case by the oracle",
              "memory: ReadDotBytes buffers a block of any length before the limit is compared"]


def nontrivial(kind, ins, outs):
    return len(outs) >= 6 and (outs[4] != "-" or "552" in outs[0].split(","))

from props.smtpcommon import project, nontrivial, shrink_candidates  # noqa: F401

ID = "C01"
LEVEL = "proof"
TITLE = "Accepted mail is stored exactly once per accepted recipient, and only then"
LEVEL_TEXT = ("Coq theorems over the SMTP session + Deliver model, for every configuration and every sequence of input items: "
              "the deliveries made equal what the dialogue alone entitles (delivery_exact), only a DATA block answered 250 adds "
              "anything, one message per accepted storable recipient, no other mailbox changes; tied to the code by a byte-level "
              "correspondence check of whole SMTP dialogues against real sessions on both real stores, with the `entitled` "
              "specification evaluated on the implementation's own replies and store contents as the oracle")
LEVEL_NOTE = ("Coq kernel; extraction (ExtrOcamlBasic); the MAIL/RCPT argument parsers, enmime header decoding and the policy "
              "lists enter the session model as oracle tables computed by the driver from the real functions (the address "
              "parser itself is modelled and proved under C04, the policy predicates under C05); store faults are outside the model; "
              "TLS disabled; no extension installed (C17 covers hooks)")
DESIGN_REF = "DESIGN.md §4 C01"
RULE = ("dialogues drawn from a grammar: greeting, 1-4 transactions with valid/rejected/malformed/duplicate/+ext/mixed-case "
        "recipients, RSET/EHLO/garbage/AUTH interleaved, 3 naming modes x random accept/store/origin policies x mem/file store; "
        "distinct = distinct input line; non-trivial = something was stored or some command was refused with 5xx")
TRUSTED = ["oracle tables for MAIL/RCPT argument parsing and header decoding are computed by the driver with the real functions",
           "loopback TCP with client half-close stands for a real client connection"]
ASSUMPTIONS = ["store operations do not fail (store faults are outside the property's quantifier)"]
NOT_PROVED = []

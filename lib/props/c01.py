from props.smtpcommon import post, project, nontrivial, shrink_candidates  # noqa: F401

ID = "C01"
LEVEL = "proof"
TITLE = "Accepted mail is stored exactly once per accepted recipient, and only then"
LEVEL_TEXT = ("Coq theorems over the SMTP session + Deliver model, for every configuration and every sequence of input items: "
              "the deliveries made equal what the dialogue alone entitles (delivery_exact), only a DATA block answered 250 adds "
              "anything, one message per accepted storable recipient, no other mailbox changes; carried to the abstract store of C07 and "
              "through its two refinement theorems to both back-end models (store_holds_what_dialogue_entitles, "
              "both_backends_agree_on_deliveries; with a mailbox cap: deliveries_reach_the_capped_store, capped_store_holds_most_recent_entitled, both_backends_agree_on_capped_deliveries; and the converse direction over any number of connections: every entry a mailbox holds is a delivery of one of the sessions to exactly that mailbox, of a block that stands in that session's bytes - any_sessions_to_read_interfaces, delivered_bodies_are_decoded_blocks - and forward: every delivery of the dialogue is in the mailbox it names and is what REST and POP3 serve, every_delivery_is_readable; Proofs/EndToEnd.v) and to the DISK model of the file store: mail acknowledged with 250 is listed, in order, after any "
              "number of restarts (acknowledged_mail_survives_restart, with C10/C11's filedisk_refines_storespec); tied to the code by a byte-level "
              "correspondence check of whole SMTP dialogues against real sessions on both real stores, with the `entitled` "
              "specification evaluated on the implementation's own replies and store contents as the oracle")
LEVEL_NOTE = ("Coq kernel; extraction (ExtrOcamlBasic); the MAIL argument patterns run as the RE2 programs Go compiles them to (regenerated from the source by pins, "
              "interpreted by Base/Regex.v), NewRecipient/ParseOrigin are computed by the address model (C04) and the policy predicates by "
              "the policy model (C05) - all cross-checked against the real functions on every case; the remaining oracles are net.ParseIP "
              "and enmime's header decoding; store faults are outside the model; "
              "STARTTLS is inside the session model (delivery_exact covers sessions that upgrade; C03), the TLS record layer is not; no extension installed (C17 covers hooks)")
DESIGN_REF = "DESIGN.md §4 C01"
RULE = ("dialogues drawn from a grammar: greeting, 1-4 transactions with valid/rejected/malformed/duplicate/+ext/mixed-case "
        "recipients, RSET/EHLO/garbage/AUTH interleaved, 3 naming modes x random accept/store/origin policies x mem/file store; "
        "plus an assembled-system stream: each case a child process that builds the whole server with server.FullAssembly from the "
        "environment, plays the dialogue over the real SMTP port and reads every addressed mailbox back through the REST API; "
        "distinct = distinct input line; non-trivial = something was stored or some command was refused with 5xx")
TRUSTED = ["net.ParseIP verdicts and enmime header facts (From/To/Subject, parse error) are oracles supplied by the driver from the real functions",
           "loopback TCP with client half-close stands for a real client connection"]
ASSUMPTIONS = ["store operations do not fail (store faults are outside the property's quantifier)"]
NOT_PROVED = []

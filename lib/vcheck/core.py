"""Shared machinery of bin/check (see /verif/FRAMEWORK.md).

One run of `bin/check Cxx`:
  1. pins      : regenerate coq/Gen/*.v from $VERIF_REPO (translator part of the tie)
  2. coq       : make the property's dependencies, then re-check every Props/Cxx/*.v
                 (one theorem per file, Print Assumptions captured)
  3. go        : build the property's driver against $VERIF_REPO with -tags verif
  4. ml        : build the extracted model's runner
  5. run       : corpus + generated inputs -> implementation observations -> model
                 observations + property oracle verdicts -> comparison
  6. decide    : known findings, replays, evidence, exit status
"""
import fcntl
import hashlib
import importlib
import json
import os
import re
import shutil
import subprocess
import sys
import time
from concurrent.futures import ThreadPoolExecutor

ROOT = os.path.dirname(os.path.dirname(os.path.dirname(os.path.abspath(__file__))))
REPO = os.environ.get("VERIF_REPO", "/repo")
WORK = os.environ.get("VERIF_WORK", os.path.join(ROOT, ".work"))
COQ = os.path.join(ROOT, "coq")
LOGICAL = "IV"
COQ_MEM_KB = int(os.environ.get("VERIF_COQ_MEM_KB", "12000000"))

GOENV = dict(os.environ)
GOENV.update({
    "GOFLAGS": "-mod=mod", "GOPROXY": "off", "GOSUMDB": "off", "GOTOOLCHAIN": "local",
    "GONOSUMDB": "*", "GONOSUMCHECK": "1", "GOFLAGS_EXTRA": "",
})

FORBIDDEN = re.compile(
    r"\b(Admitted|admit|Axiom|Axioms|Parameter|Parameters|Conjecture|Conjectures|"
    r"Admit\s+Obligations|bypass_check|native_compute|give_up)\b|"
    r"Unset\s+Guard\s+Checking|Unset\s+Positivity\s+Checking|Unset\s+Universe\s+Checking|"
    r"type-in-type|impredicative-set")

# Axioms of the standard library that may appear under Print Assumptions (none is expected).
STDLIB_AXIOMS = (
    "functional_extensionality_dep", "classic", "proof_irrelevance", "JMeq_eq",
    "eq_rect_eq", "propositional_extensionality", "constructive_indefinite_description",
    "constructive_definite_description", "excluded_middle_informative",
)


def log(msg):
    sys.stderr.write("[check] %s\n" % msg)
    sys.stderr.flush()


def sh(cmd, timeout=600, cwd=None, env=None, stdin=None, stdout_path=None, stdin_path=None):
    """Run a command under a timeout. Returns (rc, stdout+stderr text)."""
    fin = open(stdin_path, "rb") if stdin_path else None
    fout = open(stdout_path, "wb") if stdout_path else None
    try:
        p = subprocess.run(
            cmd, cwd=cwd, env=env, input=stdin if fin is None else None, stdin=fin,
            stdout=fout if fout else subprocess.PIPE,
            stderr=subprocess.PIPE if fout else subprocess.STDOUT,
            timeout=timeout, shell=isinstance(cmd, str))
        out = p.stdout if not fout else p.stderr
        return p.returncode, (out or b"").decode("utf-8", "replace")
    except subprocess.TimeoutExpired as e:
        return 124, "TIMEOUT after %ss: %s" % (timeout, cmd)
    finally:
        if fin:
            fin.close()
        if fout:
            fout.close()


class Lock:
    def __init__(self, name):
        os.makedirs(WORK, exist_ok=True)
        self.path = os.path.join(WORK, name + ".lock")

    def __enter__(self):
        self.f = open(self.path, "w")
        fcntl.flock(self.f, fcntl.LOCK_EX)
        return self

    def __exit__(self, *a):
        fcntl.flock(self.f, fcntl.LOCK_UN)
        self.f.close()


# --------------------------------------------------------------------------- go

def go_modfile():
    """A go.mod outside the source tree whose replace directive points at $VERIF_REPO."""
    os.makedirs(WORK, exist_ok=True)
    tag = hashlib.sha1(REPO.encode()).hexdigest()[:8]
    mod = os.path.join(WORK, "go-%s.mod" % tag)
    tmpl = open(os.path.join(ROOT, "go", "go.mod.tmpl")).read().replace("@REPO@", REPO)
    # requirements follow the repository's own go.mod so that every dependency is in the cache
    req = []
    inreq = False
    for line in open(os.path.join(REPO, "go.mod")):
        s = line.strip()
        if s.startswith("require ("):
            inreq = True
            continue
        if inreq and s == ")":
            inreq = False
            continue
        if inreq and s:
            req.append("\t" + s.split("//")[0].strip())
        elif s.startswith("require ") and "(" not in s:
            req.append("\t" + s[len("require "):].split("//")[0].strip())
    text = tmpl.replace("@REQUIRES@", "\n".join(req))
    if not os.path.exists(mod) or open(mod).read() != text:
        with open(mod, "w") as f:
            f.write(text)
    shutil.copyfile(os.path.join(REPO, "go.sum"), mod[:-4] + ".sum")
    return mod


def go_build(pkg, out, tags="verif", race=False, timeout=900):
    mod = go_modfile()
    os.makedirs(os.path.dirname(out), exist_ok=True)
    cmd = ["go", "build", "-modfile=" + mod, "-tags", tags, "-o", out]
    if race:
        cmd.insert(2, "-race")
    cmd.append(pkg)
    t = time.time()
    with Lock("go"):
        rc, o = sh(cmd, timeout=timeout, cwd=os.path.join(ROOT, "go"), env=GOENV)
    return rc, o, time.time() - t


# -------------------------------------------------------------------------- pins

def run_pins():
    """Regenerate coq/Gen/*.v from the repository. Returns (ok, info dict)."""
    binp = os.path.join(WORK, "bin", "pins")
    rc, o, _ = go_build("./cmd/pins", binp, tags="verif")
    if rc != 0:
        return False, {"error": "pins does not build against the tree:\n" + o[-3000:]}
    gen = os.path.join(COQ, "Gen")
    os.makedirs(gen, exist_ok=True)
    with Lock("coq"):
        rc, o = sh([binp, "-repo", REPO, "-out", gen], timeout=120)
    if rc != 0:
        return False, {"error": "pins failed on the tree:\n" + o[-3000:]}
    try:
        info = json.loads(o[o.index("{"):])
    except Exception:
        info = {"raw": o[-2000:]}
    return True, info


# --------------------------------------------------------------------------- coq

def coq_sources():
    res = []
    for d, _, fs in os.walk(COQ):
        for f in fs:
            if f.endswith(".v"):
                res.append(os.path.relpath(os.path.join(d, f), COQ))
    return sorted(res)


def strip_comments(text):
    out, depth, i = [], 0, 0
    while i < len(text):
        if text.startswith("(*", i):
            depth += 1
            i += 2
        elif text.startswith("*)", i) and depth > 0:
            depth -= 1
            i += 2
        else:
            if depth == 0:
                out.append(text[i])
            i += 1
    return "".join(out)


def dep_closure(roots):
    """Files of the development the given .v files depend on (through `From IV Require`), incl. themselves."""
    seen, todo = set(), list(roots)
    while todo:
        rel = todo.pop()
        if rel in seen or not os.path.exists(os.path.join(COQ, rel)):
            continue
        seen.add(rel)
        txt = strip_comments(open(os.path.join(COQ, rel), errors="replace").read())
        for m in re.finditer(r"From\s+%s\s+Require\s+(?:Import\s+|Export\s+)?(.*?)\.(?:\s|$)" % LOGICAL, txt, re.S):
            for mod in m.group(1).split():
                todo.append(mod.replace(".", "/") + ".v")
        for m in re.finditer(r"Require\s+(?:Import\s+|Export\s+)?(.*?)\.(?:\s|$)", txt, re.S):
            for mod in m.group(1).split():
                if mod.startswith(LOGICAL + "."):
                    todo.append(mod[len(LOGICAL) + 1:].replace(".", "/") + ".v")
    return sorted(seen)


def grep_gate(files=None):
    """Forbidden vernacular (comments stripped) in the given files (default: the whole development)."""
    bad = []
    for rel in (files if files is not None else coq_sources()):
        txt = strip_comments(open(os.path.join(COQ, rel), errors="replace").read())
        for m in FORBIDDEN.finditer(txt):
            bad.append("%s: %s" % (rel, m.group(0)))
    return bad


def coq_project():
    """(Re)write _CoqProject and Makefile when the file list changed."""
    srcs = [s for s in coq_sources()]
    text = "-Q . %s\n-arg -w -arg -notation-overridden,-deprecated-hint-without-locality,-deprecated-syntactic-definition\n%s\n" % (LOGICAL, "\n".join(srcs))
    p = os.path.join(COQ, "_CoqProject")
    if not os.path.exists(p) or open(p).read() != text or not os.path.exists(os.path.join(COQ, "Makefile")):
        with open(p, "w") as f:
            f.write(text)
        rc, o = sh(["coq_makefile", "-f", "_CoqProject", "-o", "Makefile"], cwd=COQ, timeout=60)
        if rc != 0:
            raise RuntimeError("coq_makefile failed: " + o)


def coq_make(targets, timeout=1500, jobs=16):
    """make under the shared lock, with a memory cap per coqc (a proof that blows up must fail
    fast instead of starving every other check)."""
    with Lock("coq"):
        coq_project()
        cmd = "ulimit -v %d; exec make -k -j%d %s" % (COQ_MEM_KB, jobs, " ".join(targets))
        rc, o = sh(["bash", "-c", cmd], cwd=COQ, timeout=timeout)
    return rc, o


def props_files(pid):
    d = os.path.join(COQ, "Props", pid)
    if not os.path.isdir(d):
        return []
    return sorted(os.path.join("Props", pid, f) for f in os.listdir(d) if f.endswith(".v"))


def check_one_prop(rel):
    """Re-check one Props file from scratch; returns dict(name, ok, assumptions, out)."""
    name = os.path.basename(rel)[:-2]
    rc, o = sh(["bash", "-c", "ulimit -v %d; exec coqc -Q . %s -w -notation-overridden,-deprecated-hint-without-locality %s" % (COQ_MEM_KB, LOGICAL, rel)], cwd=COQ, timeout=600)
    res = {"name": name, "file": rel, "ok": rc == 0, "out": o[-1500:], "axioms": []}
    if rc == 0:
        if "Print Assumptions" not in open(os.path.join(COQ, rel)).read():
            res["ok"] = False
            res["out"] = "no Print Assumptions in " + rel
            return res
        closed = o.count("Closed under the global context")
        ax = re.findall(r"^\s*([A-Za-z_][\w.']*)\s*:", o, re.M)
        res["axioms"] = sorted(set(ax))
        res["closed"] = closed
        for a in res["axioms"]:
            if not any(a.endswith(s) for s in STDLIB_AXIOMS):
                res["ok"] = False
                res["out"] = "depends on a non-stdlib axiom: " + a
    return res


def coq_check(pid, extra_targets=(), failed_gen=None):
    """Build deps + re-check each theorem file. Returns dict."""
    props = props_files(pid)
    t = time.time()
    targets = [p + "o" for p in props] + list(extra_targets)
    rc, o = coq_make(targets)
    results = []
    with Lock("coq"):
        with ThreadPoolExecutor(max_workers=8) as ex:
            results = list(ex.map(check_one_prop, props))
    closure = dep_closure(list(props) + [x[:-1] for x in extra_targets])
    # a source whose compiled file is missing or older did not build in this run: every theorem
    # that depends on it is not discharged (make -k leaves old .vo files in place)
    def stale(rel):
        vo = os.path.join(COQ, rel + "o")
        return (not os.path.exists(vo)) or os.path.getmtime(vo) < os.path.getmtime(os.path.join(COQ, rel))
    stale_files = [f for f in closure if not f.startswith("Props/") and stale(f)]
    for g, why in (failed_gen or {}).items():
        rel = "Gen/" + g
        for r in results:
            if rel in dep_closure([r["file"]]) and r["ok"]:
                r["ok"] = False
                r["out"] = "depends on %s, whose constants could not be re-read from the source (%s); the committed baseline was used to keep the model running" % (rel, why)
    if stale_files:
        for r in results:
            bad = [f for f in dep_closure([r["file"]]) if f in stale_files]
            if bad and r["ok"]:
                r["ok"] = False
                r["out"] = "depends on source file(s) that did not compile in this run: %s" % ", ".join(bad)
    gate = grep_gate(closure)
    gate_elsewhere = [h for h in grep_gate() if h not in gate]
    extra_ok = all(os.path.exists(os.path.join(COQ, x)) and
                   os.path.getmtime(os.path.join(COQ, x)) >= os.path.getmtime(os.path.join(COQ, x[:-1]))
                   for x in extra_targets)
    return {
        "make_rc": rc, "make_tail": o[-4000:], "theorems": results, "gate": gate, "gate_elsewhere": gate_elsewhere, "closure": closure,
        "extract_ok": extra_ok, "wall_s": round(time.time() - t, 1),
    }


def coqchk(pid, timeout=2400):
    """Independent re-check of the compiled theorem files (thorough tier)."""
    mods = ["%s.Props.%s.%s" % (LOGICAL, pid, os.path.basename(p)[:-2]) for p in props_files(pid)]
    if not mods:
        return {"ran": False}
    t = time.time()
    with Lock("coq"):
        rc, o = sh(["coqchk", "-silent", "-o", "-Q", ".", LOGICAL] + mods, cwd=COQ, timeout=timeout)
    axioms = []
    m = re.search(r"\* Axioms:(.*?)(\n\* |\Z)", o, re.S)
    if m:
        axioms = [x.strip() for x in m.group(1).strip().split("\n") if x.strip() and "<none>" not in x]
    return {"ran": True, "rc": rc, "wall_s": round(time.time() - t, 1), "axioms": axioms, "tail": o[-1500:]}


# ---------------------------------------------------------------------------- ml

def ml_build(pid):
    """Build .work/bin/modelrun_<pid> from the extracted model and ml/<pid>_run.ml."""
    low = pid.lower()
    src_ml = os.path.join(COQ, low + "_model.ml")
    src_mli = os.path.join(COQ, low + "_model.mli")
    drv = os.path.join(ROOT, "ml", low + "_run.ml")
    util = os.path.join(ROOT, "ml", "mlutil.ml")
    out = os.path.join(WORK, "bin", "modelrun_" + low)
    if not (os.path.exists(src_ml) and os.path.exists(drv)):
        return 1, "missing extracted model %s or driver %s" % (src_ml, drv)
    conv = os.path.join(ROOT, "ml", "conv.inc")
    srcs = [src_mli, src_ml, util, conv, drv]
    if os.path.exists(out) and all(os.path.getmtime(s) <= os.path.getmtime(out) for s in srcs):
        return 0, "up to date"
    bdir = os.path.join(WORK, "ml", low)
    shutil.rmtree(bdir, ignore_errors=True)
    os.makedirs(bdir)
    for s in (src_mli, src_ml, util, drv):
        shutil.copy(s, bdir)
    with open(os.path.join(bdir, "conv.ml"), "w") as f:
        f.write("open %s_model\n" % pid.capitalize())
        f.write(open(conv).read())
    os.makedirs(os.path.dirname(out), exist_ok=True)
    files = [low + "_model.mli", low + "_model.ml", "mlutil.ml", "conv.ml", low + "_run.ml"]
    cmd = ["ocamlfind", "ocamlopt", "-w", "-a", "-package", "str,unix", "-linkpkg", "-o", out + ".tmp"] + files
    with Lock("ml-" + low):
        rc, o = sh(cmd, cwd=bdir, timeout=900)
        if rc == 0:
            os.replace(out + ".tmp", out)
    return rc, o


# ----------------------------------------------------------------- case protocol
# A case line:   <kind> <in1> <in2> ... => <out1> <out2> ...
# A model line:  <out1> <out2> ... ## <verdict>        (alternatives: a || b || c ## verdict)
# Fields are space-free tokens (hex for byte strings, "-" for the empty string).

def split_case(line):
    line = line.rstrip("\n")
    if " => " in line:
        a, b = line.split(" => ", 1)
    elif line.endswith(" =>"):
        a, b = line[:-3], ""
    else:
        a, b = line, ""
    ins = a.split(" ")
    return ins[0], ins[1:], b.split(" ") if b else []


def split_model(line):
    line = line.rstrip("\n")
    if " ## " in line:
        a, v = line.rsplit(" ## ", 1)
    elif line.startswith("## "):
        a, v = "", line[3:]
    else:
        a, v = line, "ok"
    alts = [x.split(" ") if x else [] for x in a.split(" || ")]
    return alts, v


def unhex(s):
    if s == "-":
        return b""
    try:
        return bytes.fromhex(s)
    except ValueError:
        return s.encode()


def pretty_field(s, limit=120):
    if s == "-":
        return '""'
    if re.fullmatch(r"(?:[0-9a-f]{2})+", s) and not re.fullmatch(r"\d{1,9}", s):
        b = bytes.fromhex(s)
        t = repr(b)[1:]
        return t if len(t) <= limit else t[:limit] + "...(%d bytes)" % len(b)
    return s if len(s) <= limit else s[:limit] + "..."


def pretty_case(line):
    kind, ins, outs = split_case(line)
    return {"kind": kind, "in": [pretty_field(x) for x in ins], "impl": [pretty_field(x) for x in outs]}


# ------------------------------------------------------------------------- known

def load_known():
    p = os.path.join(ROOT, "known_findings.json")
    if not os.path.exists(p):
        return []
    return json.load(open(p))["findings"]


# --------------------------------------------------------------------------- run

class Run:
    def __init__(self, pid, tier, seed, replay=None):
        self.pid, self.tier, self.seed, self.replay = pid, tier, seed, replay
        self.low = pid.lower()
        self.t0 = time.time()
        self.dir = os.path.join(WORK, "run", pid + ("-replay" if replay else ""))
        shutil.rmtree(self.dir, ignore_errors=True)
        os.makedirs(self.dir)
        self.mod = importlib.import_module("props." + self.low)
        self.violations = []      # (replay-path, suffix)
        self.known_seen = {}      # finding id -> count
        self.notes = []
        self.cov = {}
        self.drive = os.path.join(WORK, "bin", "drive_" + self.low)
        self.modelrun = os.path.join(WORK, "bin", "modelrun_" + self.low)

    # -- replays ------------------------------------------------------------
    def write_replay(self, kind, payload):
        os.makedirs(os.path.join(ROOT, "replays"), exist_ok=True)
        h = hashlib.sha1(json.dumps(payload, sort_keys=True).encode()).hexdigest()[:10]
        path = os.path.join(ROOT, "replays", "%s-%s-%s.json" % (self.pid, kind, h))
        payload = dict(payload)
        payload.update({"property": self.pid, "kind": kind, "seed": self.seed, "tier": self.tier, "repo": REPO})
        with open(path, "w") as f:
            json.dump(payload, f, indent=1)
        return path

    def violation(self, kind, payload, found_input):
        path = self.write_replay(kind, payload)
        self.violations.append((path, "" if found_input else " no-failing-input-found"))

    # -- driver -------------------------------------------------------------
    def driver_env(self):
        e = dict(os.environ)
        e.update({"VERIF_SEED": str(self.seed), "VERIF_TIER": self.tier, "VERIF_REPO": REPO,
                  "VERIF_ROOT": ROOT, "VERIF_WORKDIR": self.dir})
        return e

    def gen_inputs(self, path, extra_args=()):
        cmd = [self.drive, "gen", "-seed", str(self.seed), "-tier", self.tier] + list(extra_args)
        return sh(cmd, timeout=getattr(self.mod, "GEN_TIMEOUT", 600), stdout_path=path, env=self.driver_env(), cwd=self.dir)

    def exec_inputs(self, inp, outp, single=False):
        to = getattr(self.mod, "EXEC_TIMEOUT", {"quick": 300, "thorough": 7200})[self.tier]
        if single:
            # one case alone: a hang must not eat the budget of the whole run
            to = getattr(self.mod, "SINGLE_TIMEOUT", 180)
        return sh([self.drive, "exec"], timeout=to, stdin_path=inp, stdout_path=outp, env=self.driver_env(), cwd=self.dir)

    def model_eval(self, casesp, outp):
        to = getattr(self.mod, "MODEL_TIMEOUT", {"quick": 900, "thorough": 7200})[self.tier]
        cmd = "ulimit -s unlimited 2>/dev/null; exec %s" % self.modelrun
        return sh(["bash", "-c", cmd], timeout=to, stdin_path=casesp, stdout_path=outp, cwd=self.dir)

    def corpus_inputs(self):
        d = os.path.join(ROOT, "corpus", self.pid)
        lines = []
        if os.path.isdir(d):
            for root, _, fs in sorted(os.walk(d)):
                for f in sorted(fs):
                    if f.endswith(".txt"):
                        for l in open(os.path.join(root, f)):
                            l = l.rstrip("\n")
                            if l and not l.startswith("#"):
                                lines.append(l)
        return lines


def compare(run, cases, models):
    """Compare implementation and model observations; classify failures.
    Returns (mismatches, oracle_failures) as lists of dicts."""
    mod = run.mod
    mism, ofail = [], []
    for i, (c, m) in enumerate(zip(cases, models)):
        kind, ins, outs = split_case(c)
        alts, verdict = split_model(m)
        if hasattr(mod, "project"):
            outs_c = mod.project(kind, ins, outs)
            alts_c = [mod.project(kind, ins, a) for a in alts]
        else:
            outs_c, alts_c = outs, alts
        if verdict != "ok":
            ofail.append({"index": i, "case": c, "model": m, "reason": verdict})
        if outs_c not in alts_c:
            mism.append({"index": i, "case": c, "model": m})
    return mism, ofail


def first_diff(case, model):
    kind, ins, outs = split_case(case)
    alts, _ = split_model(model)
    a = alts[0] if alts else []
    for j in range(max(len(outs), len(a))):
        x = outs[j] if j < len(outs) else "<missing>"
        y = a[j] if j < len(a) else "<missing>"
        if x != y:
            return {"field": j, "impl": pretty_field(x, 300), "model": pretty_field(y, 300)}
    return None


def default_flow(run):
    """corpus + generated inputs -> exec -> model -> compare."""
    mod = run.mod
    inp = os.path.join(run.dir, "inputs.txt")
    rc, o = run.gen_inputs(inp + ".gen")
    if rc != 0:
        run.violation("build", {"what": "driver gen failed", "output": o[-3000:]}, False)
        return
    corpus = run.corpus_inputs()
    with open(inp, "w") as f:
        for l in corpus:
            f.write(l + "\n")
        for l in open(inp + ".gen"):
            f.write(l)
    evaluate(run, inp, n_corpus=len(corpus))


def evaluate(run, inp, n_corpus=0, label="main"):
    mod = run.mod
    casesp = os.path.join(run.dir, label + ".cases.txt")
    modelp = os.path.join(run.dir, label + ".model.txt")
    t = time.time()
    rc, o = run.exec_inputs(inp, casesp)
    t_exec = time.time() - t
    if rc != 0:
        # the implementation side died (a panic in a goroutine of the code under test, a fatal
        # runtime error, a deadlock detected by the runtime): the culprit is the first input without
        # an output line; re-run it alone to confirm
        done = sum(1 for _ in open(casesp)) if os.path.exists(casesp) else 0
        inputs = [l.rstrip("\n") for l in open(inp)]
        culprit = inputs[done] if done < len(inputs) else None
        confirmed = False
        if culprit:
            one = os.path.join(run.dir, label + ".crash.in.txt")
            with open(one, "w") as f:
                f.write(culprit + "\n")
            for _ in range(8):   # crashes that depend on goroutine scheduling may need several attempts
                rc1, o1 = run.exec_inputs(one, os.path.join(run.dir, label + ".crash.out.txt"), single=True)
                if rc1 != 0:
                    confirmed = True
                    o = o1 if rc1 != 124 else "the process hangs on this input alone (no answer within the single-case deadline)\n" + o1
                    break
        run.violation("crash" if confirmed else "driver",
                      {"what": "the process running the implementation died (exit %d)%s" % (rc, " on this input, reproduced in isolation" if confirmed else ""),
                       "case": culprit, "pretty": pretty_case(culprit) if culprit else None, "stderr": o[-4000:],
                       "note": "the property requires that no input/schedule crashes the process" if confirmed else
                               "not reproduced in isolation: first input without an output line is reported"}, confirmed)
        return None
    t = time.time()
    rc, o = run.model_eval(casesp, modelp)
    t_model = time.time() - t
    if rc != 0:
        run.violation("build", {"what": "modelrun exited %d" % rc, "stderr": o[-4000:]}, False)
        return None
    cases = [l.rstrip("\n") for l in open(casesp)]
    models = [l.rstrip("\n") for l in open(modelp)]
    n_in = sum(1 for _ in open(inp))
    if len(cases) != n_in or len(models) != len(cases):
        run.violation("build", {"what": "line counts differ: inputs %d cases %d model %d" % (n_in, len(cases), len(models))}, False)
        return None
    mism, ofail = compare(run, cases, models)
    known = {k["id"]: k for k in load_known() if k["property"] == run.pid and k["status"] == "open"}
    new_ofail = []
    for f in ofail:
        fid = mod.match_known(f["case"], f["reason"]) if hasattr(mod, "match_known") else None
        if fid and fid in known:
            run.known_seen[fid] = run.known_seen.get(fid, 0) + 1
            f["known"] = fid
        else:
            new_ofail.append(f)
    new_mism = []
    for f in mism:
        # a mismatch on a case that is itself a known open finding is explained by it
        fid = mod.match_known_mismatch(f["case"], f["model"]) if hasattr(mod, "match_known_mismatch") else None
        if fid and fid in known:
            run.known_seen[fid] = run.known_seen.get(fid, 0) + 1
        else:
            new_mism.append(f)
    # statistics
    seen, nontriv = set(), 0
    kinds = {}
    for c in cases:
        kind, ins, outs = split_case(c)
        kinds[kind] = kinds.get(kind, 0) + 1
        key = hashlib.sha1(c.split(" => ")[0].encode()).digest()
        if key in seen:
            continue
        seen.add(key)
        nt = mod.nontrivial(kind, ins, outs) if hasattr(mod, "nontrivial") else True
        if nt:
            nontriv += 1
    stats = {"evaluations": len(cases), "distinct": len(seen), "distinct_nontrivial": nontriv,
             "kinds": kinds, "corpus_cases": n_corpus, "mismatches": len(mism), "oracle_failures": len(ofail),
             "exec_s": round(t_exec, 1), "model_s": round(t_model, 1)}
    # samples: spread over the run
    samples = []
    if cases:
        step = max(1, len(cases) // 4)
        for i in list(range(n_corpus, len(cases), step))[:4] or [0]:
            s = pretty_case(cases[i])
            alts, v = split_model(models[i])
            s["model"] = [pretty_field(x) for x in (alts[0] if alts else [])]
            s["oracle"] = v
            samples.append(s)
    stats["samples"] = samples
    run.cov.setdefault("streams", {})[label] = stats
    # violations
    for f in new_ofail[:3]:
        f2 = shrink(run, f)
        run.violation("input", {"case": f2["case"], "pretty": pretty_case(f2["case"]), "oracle": f2["reason"],
                                "model_line": f2["model"],
                                "note": "the property oracle (extracted Coq spec) fails on what the implementation did"}, True)
    if new_mism and not new_ofail:
        f = shrink(run, new_mism[0], mismatch=True)
        run.violation("correspondence", {"case": f["case"], "pretty": pretty_case(f["case"]), "model_line": f["model"],
                                         "first_difference": first_diff(f["case"], f["model"]),
                                         "n_mismatches": len(new_mism),
                                         "what": "model/implementation correspondence of %s no longer checks; the property oracle found no failing input among %d cases" % (run.pid, len(cases))}, False)
    return stats


def rerun_single(run, input_line, label):
    inp = os.path.join(run.dir, label + ".in.txt")
    with open(inp, "w") as f:
        f.write(input_line.split(" => ")[0] + "\n")
    casesp = os.path.join(run.dir, label + ".cases.txt")
    modelp = os.path.join(run.dir, label + ".model.txt")
    rc, o = run.exec_inputs(inp, casesp, single=True)
    if rc != 0:
        return None
    rc, o = run.model_eval(casesp, modelp)
    if rc != 0:
        return None
    cs = [l.rstrip("\n") for l in open(casesp)]
    ms = [l.rstrip("\n") for l in open(modelp)]
    if len(cs) != 1 or len(ms) != 1:
        return None
    return cs[0], ms[0]


def shrink(run, failure, mismatch=False, budget=60):
    """Greedy shrinking with candidates proposed by the property module."""
    mod = run.mod
    if not hasattr(mod, "shrink_candidates"):
        return failure
    cur = dict(failure)
    steps = 0
    progress = True
    # wall-clock budget as well: when every re-run of a failing case costs a time-out (a session that now hangs), sixty
    # steps are hours; the failing input is reported as far as it was minimised
    t_end = time.time() + getattr(mod, "SHRINK_SECONDS", 90)
    while progress and steps < budget and time.time() < t_end:
        progress = False
        for cand in mod.shrink_candidates(cur["case"].split(" => ")[0]):
            steps += 1
            if steps > budget or time.time() > t_end:
                break
            r = rerun_single(run, cand, "shrink")
            if r is None:
                continue
            c, m = r
            mm, of = compare(run, [c], [m])
            still = bool(mm) if mismatch else (bool(of) and of[0]["reason"] == cur.get("reason", of[0]["reason"]))
            if still:
                cur = {"case": c, "model": m, "reason": (of[0]["reason"] if of else "mismatch")}
                progress = True
                break
    return cur


def trusted_base(mod):
    base = [
        "Coq 8.16.1 kernel (coqc; vm_compute used in reflection proofs; no native_compute)",
        "Print Assumptions of every theorem file is captured below (expected: closed under the global context)",
        "extraction to OCaml 4.13.1 with ExtrOcamlBasic only (bool/option/unit/list/prod/sumbool/sumor + andb/orb inlined); nat/N/Z/positive kept as Coq datatypes; no Extract Constant of our own",
        "hand-written OCaml runner ml/%s_run.ml + ml/mlutil.ml (I/O, hex), Python comparer lib/vcheck" % mod.ID.lower(),
        "Go driver go/cmd/%s built with -tags verif against the current tree (differential testing: the model/code tie is sampled, not proved)" % mod.ID.lower(),
        "translator go/cmd/pins (tables/limits/regex programs regenerated from source on every run)",
    ]
    return base + list(getattr(mod, "TRUSTED", []))


def write_evidence(run, coq, pins_info, go_info):
    mod = run.mod
    ths = coq["theorems"] if coq else []
    obligations = len(ths)
    discharged = sum(1 for t in ths if t["ok"])
    streams = run.cov.get("streams", {})
    ev_total = sum(s["evaluations"] for s in streams.values())
    nt_total = sum(s["distinct_nontrivial"] for s in streams.values())
    samples = []
    for s in streams.values():
        samples.extend(s.get("samples", []))
    cov = {
        "obligations": obligations,
        "discharged": discharged,
        "not_discharged": [t["name"] for t in ths if not t["ok"]],
        "checker_cmd": "make -k (coq_makefile, full .vo) + coqc -Q . IV Props/%s/*.v, each re-checked on this run; coqchk -silent -o in the thorough tier" % run.pid,
        "trusted_base": trusted_base(mod),
        "theorems": [{"name": t["name"], "ok": t["ok"], "axioms": t["axioms"] or "Closed under the global context"} for t in ths],
        "evaluations": ev_total,
        "distinct_nontrivial": nt_total,
        "rule": getattr(mod, "RULE", "cases are generated by the Go driver from VERIF_SEED; distinct = distinct input line; non-trivial per lib/props/%s.py:nontrivial" % run.low),
        "samples": samples[:8] if samples else [{"note": "no correspondence cases in this run"}],
        "streams": {k: {kk: vv for kk, vv in v.items() if kk != "samples"} for k, v in streams.items()},
        "known_findings_seen": run.known_seen,
        "pins": pins_info,
        "go": go_info,
        "coq_wall_s": coq["wall_s"] if coq else None,
        "coq_files_depended_on": coq["closure"] if coq else [],
        "notes": run.notes,
        "statements_not_proved": getattr(mod, "NOT_PROVED", []),
    }
    cov.update(run.cov.get("extra", {}))
    ev = {
        "property_id": run.pid, "tier": run.tier, "seed": run.seed, "level": getattr(mod, "LEVEL", "proof"),
        "coverage": cov,
        "assumptions": list(getattr(mod, "ASSUMPTIONS", [])),
        "wall_s": round(time.time() - run.t0, 1),
        "violations": len(run.violations),
    }
    os.makedirs(os.path.join(ROOT, "evidence"), exist_ok=True)
    with open(os.path.join(ROOT, "evidence", run.pid + ".json"), "w") as f:
        json.dump(ev, f, indent=1)


def main(argv=None):
    argv = list(sys.argv[1:] if argv is None else argv)
    if not argv:
        print("usage: bin/check Cxx [--tier quick|thorough] [--replay file]")
        return 2
    pid = argv[0]
    tier = os.environ.get("VERIF_TIER", "quick")
    replay = None
    i = 1
    while i < len(argv):
        if argv[i] == "--tier":
            tier = argv[i + 1]
            i += 2
        elif argv[i] == "--replay":
            replay = argv[i + 1]
            i += 2
        else:
            i += 1
    if tier not in ("quick", "thorough"):
        tier = "quick"
    try:
        seed = int(os.environ.get("VERIF_SEED", "1"))
    except ValueError:
        seed = 1
    sys.path.insert(0, os.path.join(ROOT, "lib"))
    run = Run(pid, tier, seed, replay)
    mod = run.mod
    coq = None
    pins_info, go_info = {}, {}

    # 1 pins
    ok, pins_info = run_pins()
    if not ok:
        run.violation("build", {"what": "translator (pins) no longer runs on the tree", "detail": pins_info.get("error", "")}, False)
    # 2 coq
    if ok:
        extra = ["Extract/Extract%s.vo" % pid] if os.path.exists(os.path.join(COQ, "Extract", "Extract%s.v" % pid)) else []
        coq = coq_check(pid, extra, pins_info.get("failed") if isinstance(pins_info, dict) else None)
        for t in coq["theorems"]:
            if not t["ok"]:
                run.notes.append("theorem %s no longer checks: %s" % (t["name"], t["out"][-400:]))
        if coq["gate"]:
            run.violation("build", {"what": "forbidden vernacular in the files this property depends on", "hits": coq["gate"]}, False)
        if coq["gate_elsewhere"]:
            run.notes.append("forbidden vernacular in files this property does not depend on: %s" % coq["gate_elsewhere"])
        if extra and not coq["extract_ok"]:
            run.violation("build", {"what": "model extraction no longer builds", "make": coq["make_tail"]}, False)
        if tier == "thorough" and not replay and all(t["ok"] for t in coq["theorems"]):
            chk = coqchk(pid)
            run.cov.setdefault("extra", {})["coqchk"] = chk
            if chk.get("ran") and chk["rc"] != 0:
                run.violation("build", {"what": "coqchk rejects the compiled theorem files", "output": chk["tail"]}, False)
    # 3 go driver
    have_driver = os.path.isdir(os.path.join(ROOT, "go", "cmd", run.low))
    if have_driver and not run.violations:
        rc, o, dt = go_build("./cmd/" + run.low, run.drive)
        go_info = {"build_s": round(dt, 1), "tags": "verif"}
        if rc != 0:
            run.violation("build", {"what": "Go driver no longer builds against the tree (-tags verif)", "output": o[-4000:]}, False)
            have_driver = False
    # 4 ml
    if have_driver and not run.violations:
        rc, o = ml_build(pid)
        if rc != 0:
            run.violation("build", {"what": "modelrun does not build", "output": o[-4000:]}, False)
    # 5 run
    if have_driver and not run.violations:
        if replay:
            rp = json.load(open(replay))
            line = rp.get("case")
            if line:
                r = rerun_single(run, line, "replay")
                if r is None:
                    # the driver died on this input (or produced no line): for a crash replay that IS the failure
                    print("replay: the process running the implementation died or produced no observation on this input")
                    print("VIOLATION property=%s replay=%s" % (pid, replay))
                    return 1
                else:
                    c, m = r
                    mm, of = compare(run, [c], [m])
                    print(json.dumps({"impl": pretty_case(c), "model_line": m, "mismatch": bool(mm), "oracle": [f["reason"] for f in of]}, indent=1))
                    if mm or of:
                        print("VIOLATION property=%s replay=%s" % (pid, replay))
                        return 1
                return 0
            print("replay file names no input (kind=%s): %s" % (rp.get("kind"), rp.get("what", "")))
            return 0
        flow = getattr(mod, "flow", default_flow)
        flow(run)
        if hasattr(mod, "post"):
            mod.post(run)
    # theorem failures: after the search (the oracle ran on every case above)
    if coq:
        bad = [t for t in coq["theorems"] if not t["ok"]]
        if bad and not any(s == "" for _, s in run.violations):
            run.violation("theorem", {"what": "theorem(s) no longer check", "theorems": [{"name": t["name"], "file": t["file"], "output": t["out"]} for t in bad],
                                      "search": "the property oracle was evaluated on every implementation observation of this run and found no failing input"}, False)
    # open known findings must have been observed (they are printed because they were seen)
    for k in load_known():
        if k["property"] == pid and k["status"] == "open":
            if run.known_seen.get(k["id"]):
                print("KNOWN-FINDING: property=%s %s" % (pid, k["description"]))
            elif not run.violations and have_driver:
                run.notes.append("open finding %s was not observed in this run" % k["id"])
                if getattr(mod, "KNOWN_MUST_REPRODUCE", True):
                    run.violation("correspondence", {"what": "witness of open known finding %s no longer fails on the implementation: model and code diverged" % k["id"]}, False)
    write_evidence(run, coq, pins_info, go_info)
    for path, suffix in run.violations:
        print("VIOLATION property=%s replay=%s%s" % (pid, path, suffix))
    if run.violations:
        return 1
    log("%s %s: ok (%.1fs)" % (pid, tier, time.time() - run.t0))
    return 0

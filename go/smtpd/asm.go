package smtpd

// The assembled-system stream: one case = one child process that builds the whole server with
// server.FullAssembly from the ENVIRONMENT (as cmd/inbucket does), starts it on ephemeral ports,
// plays a dialogue over the real SMTP port and reads the result back through the REST API
// (the real router) — so that the glue between the components (configuration loading and
// defaults, storage selection, wiring of policy / manager / routes) is inside the check.

import (
	"bufio"
	"bytes"
	"context"
	"crypto/ecdsa"
	"crypto/elliptic"
	"crypto/rand"
	"crypto/tls"
	"crypto/x509"
	"crypto/x509/pkix"
	"encoding/json"
	"errors"
	"encoding/pem"
	"fmt"
	"io"
	"math/big"
	"net"
	"net/http"
	"net/textproto"
	"net/url"
	"os"
	"os/exec"
	"regexp"
	"sort"
	"strings"
	"syscall"
	"time"

	"github.com/inbucket/inbucket/v3/pkg/config"
	"github.com/inbucket/inbucket/v3/pkg/policy"
	"github.com/inbucket/inbucket/v3/pkg/server"
	"github.com/inbucket/inbucket/v3/pkg/storage"
	"github.com/inbucket/inbucket/v3/pkg/storage/file"
	"github.com/inbucket/inbucket/v3/pkg/storage/mem"
	"verifharness/vh"
)

// ExecAsm runs one assembled-system case in a child process (web.Router is a process global).
func ExecAsm(in []string) []string { return execAsm(in, "") }

// ExecAsmTLS is ExecAsm on a listener that speaks TLS from the first byte (INBUCKET_SMTP_FORCETLS, certificate made at
// run time); before the client of the case connects, one to three other peers connect and say nothing at all.
func ExecAsmTLS(in []string) []string { return execAsm(in, "1") }

// The web listener's port is picked by bind-note-release (AsmStart): another process on the machine can take it in
// between. That is the sandbox, not the server: the child is started again (a fresh process, nothing carried over).
func execAsm(in []string, tlsMode string) []string {
	var f []string
	for try := 0; try < 6; try++ {
		f = execAsmOnce(in, tlsMode)
		if len(f) == 2 && f[0] == "SETUPERR" {
			if vh.PortClash(f) {
				time.Sleep(time.Duration(50*(try+1)) * time.Millisecond)
				continue
			}
		}
		break
	}
	return f
}

func execAsmOnce(in []string, tlsMode string) []string {
	cmd := exec.Command(os.Args[0], "asmchild")
	cmd.Stdin = strings.NewReader(strings.Join(in, " ") + "\n")
	var out, errb bytes.Buffer
	cmd.Stdout, cmd.Stderr = &out, &errb
	cmd.Env = append(os.Environ(), "VERIF_ASM_TLS="+tlsMode)
	done := make(chan error, 1)
	if err := cmd.Start(); err != nil {
		return []string{"SETUPERR", vh.HS(err.Error())}
	}
	go func() { done <- cmd.Wait() }()
	select {
	case err := <-done:
		if err != nil {
			return []string{"CRASH", vh.HS(tail(errb.String(), 600))}
		}
	case <-time.After(120 * time.Second):
		cmd.Process.Kill()
		return []string{"HANG", vh.HS(tail(errb.String(), 600))}
	}
	f := strings.Fields(strings.TrimSpace(out.String()))
	if len(f) == 0 {
		return []string{"NOOUTPUT", vh.HS(tail(errb.String(), 600))}
	}
	return f
}

func tail(s string, n int) string {
	if len(s) > n {
		return s[len(s)-n:]
	}
	return s
}

var angleRe = regexp.MustCompile(`<([^<>\r\n]*)>`)

// AsmSys is an assembled server in this process: built by server.FullAssembly from the ENVIRONMENT (as cmd/inbucket
// does) and started on ephemeral ports; everything is reached through its real listeners.
type AsmSys struct {
	Svc     *server.Services
	Conf    *config.Root
	WebAddr string
	TLS     bool // the SMTP listener is a TLS listener
	cancel  context.CancelFunc
	dir     string
	silent  []net.Conn
}

// AsmStart sets the environment an operator would set for c (everything else keeps its default), assembles and
// starts the server. The web listener's port is picked beforehand (bind, note, release) because the web server has
// no address accessor.
func AsmStart(c Cfg) (*AsmSys, error) {
	dir, err := os.MkdirTemp(os.Getenv("VERIF_WORKDIR"), "asm")
	if err != nil {
		return nil, fmt.Errorf("tempdir: %v", err)
	}
	if _, err := c.Load(); err != nil {
		return nil, fmt.Errorf("config: %v", err)
	}
	l, err := net.Listen("tcp4", "127.0.0.1:0")
	if err != nil {
		return nil, err
	}
	webAddr := l.Addr().String()
	l.Close()
	os.Setenv("INBUCKET_SMTP_ADDR", "127.0.0.1:0")
	os.Setenv("INBUCKET_POP3_ADDR", "127.0.0.1:0")
	os.Setenv("INBUCKET_WEB_ADDR", webAddr)
	os.Setenv("INBUCKET_WEB_UIDIR", dir)
	// store field: mem | file, optionally ":<mailbox message cap>" and ":<maxkb>" (memory store size limit)
	sf := strings.Split(c.Store, ":")
	os.Unsetenv("INBUCKET_STORAGE_MAILBOXMSGCAP")
	if len(sf) > 1 && sf[1] != "" {
		os.Setenv("INBUCKET_STORAGE_MAILBOXMSGCAP", sf[1])
	}
	if sf[0] == "file" {
		os.Setenv("INBUCKET_STORAGE_TYPE", "file")
		os.Setenv("INBUCKET_STORAGE_PARAMS", "path:"+dir)
	} else {
		os.Setenv("INBUCKET_STORAGE_TYPE", "memory")
		os.Unsetenv("INBUCKET_STORAGE_PARAMS")
		if len(sf) > 2 && sf[2] != "" {
			os.Setenv("INBUCKET_STORAGE_PARAMS", "maxkb:"+sf[2])
		}
	}
	storage.Constructors["file"] = file.New
	storage.Constructors["memory"] = mem.New
	forceTLS := os.Getenv("VERIF_ASM_TLS") != ""
	for _, k := range []string{"TLSENABLED", "FORCETLS", "TLSCERT", "TLSPRIVKEY"} {
		os.Unsetenv("INBUCKET_SMTP_" + k)
	}
	if forceTLS {
		cert, key, err := SelfSigned(dir)
		if err != nil {
			return nil, fmt.Errorf("certificate: %v", err)
		}
		os.Setenv("INBUCKET_SMTP_TLSENABLED", "true")
		os.Setenv("INBUCKET_SMTP_FORCETLS", "true")
		os.Setenv("INBUCKET_SMTP_TLSCERT", cert)
		os.Setenv("INBUCKET_SMTP_TLSPRIVKEY", key)
	}
	conf, err := config.Process()
	if err != nil {
		return nil, fmt.Errorf("config.Process: %v", err)
	}
	svc, err := server.FullAssembly(conf)
	if err != nil {
		return nil, fmt.Errorf("FullAssembly: %v", err)
	}
	ctx, cancel := context.WithCancel(context.Background())
	ready := make(chan struct{})
	svc.Start(ctx, func() { close(ready) })
	select {
	case <-ready:
	case err := <-svc.Notify():
		cancel()
		return nil, fmt.Errorf("service failed to start: %v", err)
	case <-time.After(20 * time.Second):
		cancel()
		return nil, fmt.Errorf("services not ready")
	}
	a := &AsmSys{Svc: svc, Conf: conf, WebAddr: webAddr, TLS: forceTLS, cancel: cancel, dir: dir}
	// the web listener is started asynchronously: wait until it answers
	for i := 0; i < 200; i++ {
		if c, err := net.DialTimeout("tcp4", webAddr, time.Second); err == nil {
			c.Close()
			break
		}
		time.Sleep(10 * time.Millisecond)
	}
	return a, nil
}

// SMTP plays the client's byte stream over the real SMTP port and returns everything the server sent.
func (a *AsmSys) SMTP(stream []byte) ([]byte, error) {
	addr := a.Svc.SMTPServer.VerifAddr()
	if addr == nil {
		return nil, fmt.Errorf("no SMTP address")
	}
	var conn net.Conn
	conn, err := net.Dial("tcp4", addr.String())
	if err != nil {
		return nil, err
	}
	if a.TLS {
		tc := tls.Client(conn, &tls.Config{InsecureSkipVerify: true})
		conn.SetDeadline(time.Now().Add(4 * time.Second))
		if err := tc.Handshake(); err != nil {
			conn.Close()
			return nil, fmt.Errorf("TLS handshake: %v", err)
		}
		conn.SetDeadline(time.Time{})
		conn = tc
	}
	go func() { conn.Write(stream) }()
	conn.SetReadDeadline(time.Now().Add(60 * time.Second))
	out, rerr := io.ReadAll(conn)
	conn.Close()
	// The server said goodbye (221) and closed while this client was still writing pipelined bytes: the kernel answers
	// the unread data with a reset, which the client sees as a read error AFTER the complete reply stream. That is the
	// transport, not the session (a false alarm of the thorough tier, C06 `asmr`: "QU\u0131T" + 4 KB of body).
	if rerr != nil && errors.Is(rerr, syscall.ECONNRESET) {
		lines := bytes.Split(bytes.TrimSuffix(out, []byte("\r\n")), []byte("\r\n"))
		if n := len(lines); n > 0 && bytes.HasPrefix(lines[n-1], []byte("221")) {
			rerr = nil
		}
	}
	return out, rerr
}

// SilentPeers opens n connections to the SMTP port that never send a byte; they stay open until Shutdown.
func (a *AsmSys) SilentPeers(n int) error {
	addr := a.Svc.SMTPServer.VerifAddr()
	if addr == nil {
		return fmt.Errorf("no SMTP address")
	}
	for i := 0; i < n; i++ {
		c, err := net.Dial("tcp4", addr.String())
		if err != nil {
			return err
		}
		a.silent = append(a.silent, c)
	}
	time.Sleep(30 * time.Millisecond) // let the accept loop see them first
	return nil
}

// SelfSigned writes a fresh self-signed certificate and key as PEM files.
func SelfSigned(dir string) (certFile, keyFile string, err error) {
	key, err := ecdsa.GenerateKey(elliptic.P256(), rand.Reader)
	if err != nil {
		return "", "", err
	}
	tmpl := &x509.Certificate{
		SerialNumber: big.NewInt(1), Subject: pkix.Name{CommonName: "localhost"},
		NotBefore: time.Now().Add(-time.Hour), NotAfter: time.Now().Add(24 * time.Hour),
		KeyUsage: x509.KeyUsageDigitalSignature, ExtKeyUsage: []x509.ExtKeyUsage{x509.ExtKeyUsageServerAuth},
		IPAddresses: []net.IP{net.ParseIP("127.0.0.1")},
	}
	der, err := x509.CreateCertificate(rand.Reader, tmpl, tmpl, &key.PublicKey, key)
	if err != nil {
		return "", "", err
	}
	kb, err := x509.MarshalECPrivateKey(key)
	if err != nil {
		return "", "", err
	}
	certFile, keyFile = dir+"/cert.pem", dir+"/key.pem"
	if err = os.WriteFile(certFile, pem.EncodeToMemory(&pem.Block{Type: "CERTIFICATE", Bytes: der}), 0o600); err != nil {
		return "", "", err
	}
	err = os.WriteFile(keyFile, pem.EncodeToMemory(&pem.Block{Type: "EC PRIVATE KEY", Bytes: kb}), 0o600)
	return certFile, keyFile, err
}

// Get fetches a path through the real HTTP listener with Go's default client (which offers gzip and
// decompresses transparently, like a browser).
func (a *AsmSys) Get(path string) (int, []byte) {
	req, _ := http.NewRequest(http.MethodGet, "http://"+a.WebAddr+path, nil)
	req.Header.Add("Accept", "application/json")
	resp, err := http.DefaultClient.Do(req)
	if err != nil {
		return 0, []byte(err.Error())
	}
	defer resp.Body.Close()
	body, _ := io.ReadAll(resp.Body)
	return resp.StatusCode, body
}

// GetIdentity is Get without content coding.
func (a *AsmSys) GetIdentity(path string) (int, []byte) {
	req, _ := http.NewRequest(http.MethodGet, "http://"+a.WebAddr+path, nil)
	req.Header.Add("Accept", "application/json")
	req.Header.Set("Accept-Encoding", "identity")
	resp, err := http.DefaultClient.Do(req)
	if err != nil {
		return 0, []byte(err.Error())
	}
	defer resp.Body.Close()
	body, _ := io.ReadAll(resp.Body)
	return resp.StatusCode, body
}

// Shutdown does what main() does after the signal and reports whether it all returned.
func (a *AsmSys) Shutdown() bool {
	for _, c := range a.silent {
		c.Close()
	}
	a.cancel()
	drained := make(chan struct{})
	go func() {
		a.Svc.SMTPServer.Drain()
		a.Svc.POP3Server.Drain()
		a.Svc.RetentionScanner.Join()
		close(drained)
	}()
	ok := true
	select {
	case <-drained:
	case <-time.After(20 * time.Second):
		ok = false
	}
	os.RemoveAll(a.dir)
	return ok
}

// AsmChild is the child process: reads the case from stdin, prints the observation fields.
func AsmChild() {
	line, _ := bufio.NewReader(os.Stdin).ReadString('\n')
	in := strings.Fields(line)
	c := ParseCfg(in[:NFields])
	stream := vh.U(in[NFields])
	fail := func(what string, err error) {
		fmt.Printf("SETUPERR %s\n", vh.HS(what+": "+fmt.Sprint(err)))
		os.Exit(0)
	}
	sys, err := AsmStart(c)
	if err != nil {
		fail("assembly", err)
	}
	conf := sys.Conf
	if sys.TLS {
		if err := sys.SilentPeers(1 + len(stream)%3); err != nil {
			fail("silent peers", err)
		}
	}
	out, rerr := sys.SMTP(stream)
	status := "ok"
	if rerr != nil {
		status = "err:" + vh.HS(rerr.Error())
		if sys.TLS && strings.HasPrefix(rerr.Error(), "TLS handshake") {
			status = "wedged-behind-silent-peers:" + vh.HS(rerr.Error())
		}
	}
	// facts (the same oracles as the in-process stream)
	env := &Env{Conf: conf, Policy: &policy.Addressing{Config: conf}}
	mt, rt := env.Facts(stream)
	// header facts for every dot block that follows a DATA line
	var hs []string
	seen := map[string]bool{}
	low := make([]byte, len(stream)) // ASCII lower-casing only: offsets into low must be offsets into stream (bytes.ToLower shortens U+212A)
	for x, c := range stream {
		if 'A' <= c && c <= 'Z' {
			c += 'a' - 'A'
		}
		low[x] = c
	}
	for i := 0; i < len(low); {
		j := bytes.Index(low[i:], []byte("data"))
		if j < 0 {
			break
		}
		k := i + j
		nl := bytes.IndexByte(stream[k:], '\n')
		if nl < 0 {
			break
		}
		body, err := textproto.NewReader(bufio.NewReader(bytes.NewReader(stream[k+nl+1:]))).ReadDotBytes()
		if err == nil && !seen[string(body)] {
			seen[string(body)] = true
			f := HdrFacts(body)
			to := "~"
			if f.To != nil {
				t := make([]string, len(*f.To))
				for x, a := range *f.To {
					t[x] = vh.HS(a)
				}
				to = "[" + strings.Join(t, ";") + "]"
			}
			hs = append(hs, strings.Join([]string{vh.H(f.Body), vh.B(f.HdrOK), optH(f.From), to, vh.HS(f.Subject)}, ":"))
		}
		i = k + 4
	}
	// read the result back through the REST API on the real router: every mailbox an address of
	// the dialogue maps to, plus a few names that must stay empty
	names := map[string]bool{"nobody": true, "postmaster": true}
	for _, m := range angleRe.FindAllSubmatch(stream, -1) {
		if n, err := env.Policy.ExtractMailbox(string(m[1])); err == nil {
			names[n] = true
		}
	}
	var keys []string
	for n := range names {
		keys = append(keys, n)
	}
	sort.Strings(keys)
	var boxes []string
	for _, n := range keys {
		code, body := sys.Get("/api/v1/mailbox/" + url.PathEscape(n))
		if code != 200 {
			boxes = append(boxes, vh.HS(n)+"=HTTP"+fmt.Sprint(code))
			continue
		}
		var hdrs []struct {
			ID      string `json:"id"`
			Subject string `json:"subject"`
			Size    int64  `json:"size"`
		}
		if err := json.Unmarshal(body, &hdrs); err != nil {
			boxes = append(boxes, vh.HS(n)+"=BADJSON")
			continue
		}
		if len(hdrs) == 0 {
			continue
		}
		var ms []string
		for _, h := range hdrs {
			_, src := sys.Get("/api/v1/mailbox/" + url.PathEscape(n) + "/" + url.PathEscape(h.ID) + "/source")
			ms = append(ms, strings.Join([]string{vh.HS(h.Subject), fmt.Sprint(h.Size), vh.H(MaskTimestamp(src, n))}, ":"))
		}
		boxes = append(boxes, vh.HS(n)+"="+strings.Join(ms, "/"))
	}
	if !sys.Shutdown() {
		status = "drain-timeout"
	}
	fmt.Println(strings.Join([]string{join(ReplyTokens(out)), mt, rt, join(hs), join(boxes), status + ";" + env.IPTable()}, " "))
}

package smtpd

import (
	"runtime"
	"strings"
	"sync"
	"time"

	"github.com/inbucket/inbucket/v3/pkg/config"
	"github.com/inbucket/inbucket/v3/pkg/extension/event"
	"github.com/inbucket/inbucket/v3/pkg/storage"
	"github.com/inbucket/inbucket/v3/pkg/verifhook"
	"verifharness/vh"
)

func splitStreams(field string) [][]byte {
	var ss [][]byte
	for _, h := range strings.Split(field, "+") {
		ss = append(ss, vh.U(h))
	}
	return ss
}

func parOutputs(env *Env, streams [][]byte, outs [][]byte, errs []error) []string {
	status := "ok"
	reps := make([]string, len(streams))
	var all []byte
	for i := range streams {
		if errs[i] != nil {
			status = "err:" + vh.HS(errs[i].Error())
		}
		reps[i] = strings.Join(ReplyTokens(outs[i]), ",")
		if reps[i] == "" {
			reps[i] = "-"
		}
		all = append(all, streams[i]...)
		all = append(all, '\n')
	}
	mt, rt := env.Facts(all)
	return []string{strings.Join(reps, "|"), mt, rt, env.HdrTable(), SortWithinBoxes(DumpStore(env.Store)), status + ";" + env.IPTable()}
}

// ExecPar (kind smtppar): sessions that overlap. The first stream's first delivery is held inside
// StoreManager.Deliver (a before.message_stored listener that answers nothing) while all the other sessions run
// from greeting to end, then it goes on: whatever the first session had read from its client must still be what
// it stores. The case runs on one processor so that session goroutines share processor-local caches (sync.Pool).
func ExecPar(in []string) []string {
	c := ParseCfg(in[:NFields])
	streams := splitStreams(in[NFields])
	env, err := NewEnv(c, "", config.Storage{})
	if err != nil {
		return []string{"SETUPERR", vh.HS(err.Error())}
	}
	defer env.Close()
	defer runtime.GOMAXPROCS(runtime.GOMAXPROCS(1))
	held := make(chan struct{})
	othersDone := make(chan struct{})
	var once sync.Once
	env.Host.Events.BeforeMessageStored.AddListener("verif-gate", func(event.InboundMessage) *event.InboundMessage {
		first := false
		once.Do(func() { first = true })
		if first {
			close(held)
			select {
			case <-othersDone:
			case <-time.After(20 * time.Second):
			}
		}
		return nil
	})
	outs := make([][]byte, len(streams))
	errs := make([]error, len(streams))
	firstDone := make(chan struct{})
	go func() {
		defer close(firstDone)
		outs[0], errs[0] = env.Session(streams[0])
	}()
	select { // the first session is inside Deliver, or it ended without delivering anything
	case <-held:
	case <-firstDone:
		once.Do(func() {}) // nothing to hold: the gate stays open for the others
	}
	for i := 1; i < len(streams); i++ {
		outs[i], errs[i] = env.Session(streams[i])
	}
	close(othersDone)
	<-firstDone
	return parOutputs(env, streams, outs, errs)
}

// ExecRemoveRace (kind smtprm): two sessions one after the other on the same store; while the second one delivers,
// another client removes everything the first one had stored — on the memory store exactly between a delivery's
// mailbox lookup and its mailbox lock (verifhook point mem.wm.lock), otherwise right after the second session. The
// store must end up holding exactly what the second dialogue entitles it to.
func ExecRemoveRace(in []string) []string {
	c := ParseCfg(in[:NFields])
	streams := splitStreams(in[NFields])
	env, err := NewEnv(c, "", config.Storage{})
	if err != nil {
		return []string{"SETUPERR", vh.HS(err.Error())}
	}
	defer env.Close()
	outs := make([][]byte, len(streams))
	errs := make([]error, len(streams))
	outs[0], errs[0] = env.Session(streams[0])
	type ref struct{ mb, id string }
	var old []ref
	env.Store.VisitMailboxes(func(ms []storage.Message) bool {
		for _, m := range ms {
			old = append(old, ref{m.Mailbox(), m.ID()})
		}
		return true
	})
	var once sync.Once
	removeOld := func() {
		once.Do(func() {
			for _, r := range old {
				env.Manager.RemoveMessage(r.mb, r.id)
			}
		})
	}
	if len(streams) > 1 {
		inDeliver := false
		var mu sync.Mutex
		verifhook.Set(func(site, arg string) {
			if site != "mem.wm.lock" {
				return
			}
			mu.Lock()
			fire := inDeliver
			inDeliver = false
			mu.Unlock()
			if fire {
				removeOld()
			}
		})
		// only deliveries (not the harness' own store reads) trigger the removal: armed by the manager wrapper
		env.Manager.BeforeDeliver = func() { mu.Lock(); inDeliver = true; mu.Unlock() }
		outs[1], errs[1] = env.Session(streams[1])
		verifhook.Set(nil)
		env.Manager.BeforeDeliver = nil
	}
	removeOld()
	return parOutputs(env, streams, outs, errs)
}

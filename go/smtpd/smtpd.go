// Package smtpd drives one real inbucket SMTP session (startSession via the verif hook) over a
// loopback TCP connection against a real StoreManager + real store, and reports what a client
// and a store reader can observe, together with the parser facts the Coq session model takes
// as oracles. Shared by the drivers of C01, C02, C03, C06 and C17.
package smtpd

import (
	"crypto/tls"
	"bytes"
	"fmt"
	"io"
	"net"
	"net/mail"
	"os"
	"sort"
	"strconv"
	"strings"
	"sync"
	"time"

	"github.com/inbucket/inbucket/v3/pkg/config"
	"github.com/inbucket/inbucket/v3/pkg/extension"
	"github.com/inbucket/inbucket/v3/pkg/extension/event"
	"github.com/inbucket/inbucket/v3/pkg/extension/luahost"
	"github.com/inbucket/inbucket/v3/pkg/message"
	"github.com/inbucket/inbucket/v3/pkg/policy"
	"github.com/inbucket/inbucket/v3/pkg/server/smtp"
	"github.com/inbucket/inbucket/v3/pkg/storage"
	"github.com/inbucket/inbucket/v3/pkg/storage/file"
	"github.com/inbucket/inbucket/v3/pkg/storage/mem"
	"github.com/jhillyerd/enmime/v2"
	"github.com/rs/zerolog"
	"verifharness/vh"
)

func init() { zerolog.SetGlobalLevel(zerolog.Disabled) }

// Cfg is the configuration of one case (11 fields on the input line).
type Cfg struct {
	Naming            string // local | full | domain
	MaxRcpt, MaxBytes int
	DA                bool
	Acc, Rej          string
	DS                bool
	Sto, Dis, RejO    string
	Store             string // mem | file
}

// NFields is the number of line fields a Cfg occupies.
const NFields = 11

// Fields encodes the configuration.
func (c Cfg) Fields() []string {
	return []string{c.Naming, vh.I(c.MaxRcpt), vh.I(c.MaxBytes), vh.B(c.DA), vh.HS(c.Acc), vh.HS(c.Rej),
		vh.B(c.DS), vh.HS(c.Sto), vh.HS(c.Dis), vh.HS(c.RejO), c.Store}
}

// ParseCfg decodes the configuration.
func ParseCfg(f []string) Cfg {
	return Cfg{Naming: f[0], MaxRcpt: vh.AtoI(f[1]), MaxBytes: vh.AtoI(f[2]), DA: f[3] == "1", Acc: vh.US(f[4]),
		Rej: vh.US(f[5]), DS: f[6] == "1", Sto: vh.US(f[7]), Dis: vh.US(f[8]), RejO: vh.US(f[9]), Store: f[10]}
}

func setenv(k, v string) {
	if v == "" {
		os.Unsetenv(k)
	} else {
		os.Setenv(k, v)
	}
}

// Load builds the real configuration through config.Process (so that list values are split
// and lower-cased by the code under test).
func (c Cfg) Load() (*config.Root, error) {
	tf := map[bool]string{true: "true", false: "false"}
	setenv("INBUCKET_MAILBOXNAMING", c.Naming)
	setenv("INBUCKET_SMTP_MAXRECIPIENTS", strconv.Itoa(c.MaxRcpt))
	setenv("INBUCKET_SMTP_MAXMESSAGEBYTES", strconv.Itoa(c.MaxBytes))
	setenv("INBUCKET_SMTP_DEFAULTACCEPT", tf[c.DA])
	setenv("INBUCKET_SMTP_ACCEPTDOMAINS", c.Acc)
	setenv("INBUCKET_SMTP_REJECTDOMAINS", c.Rej)
	setenv("INBUCKET_SMTP_DEFAULTSTORE", tf[c.DS])
	setenv("INBUCKET_SMTP_STOREDOMAINS", c.Sto)
	setenv("INBUCKET_SMTP_DISCARDDOMAINS", c.Dis)
	setenv("INBUCKET_SMTP_REJECTORIGINDOMAINS", c.RejO)
	// an operator's setting, not the default of 300 s: no generated dialogue waits on purpose (pauses are scripted
	// events of the connection, not clock time), so the only thing this shortens is how long a server that has begun to
	// wait for something keeps a case busy before its answer can be compared
	setenv("INBUCKET_SMTP_TIMEOUT", "30s")
	return config.Process()
}

// Env is a live server side: store, manager, SMTP server.
type Env struct {
	Conf    *config.Root
	Policy  *policy.Addressing
	Host    *extension.Host
	Store   storage.Store
	Manager *RecManager
	Server  *smtp.Server
	dir     string
	ips     map[string]bool
}

// DeliverCall is one call of Manager.Deliver as seen by the recording wrapper.
type DeliverCall struct {
	Body    []byte
	HdrOK   bool
	From    *string
	To      *[]string
	Subject string
}

// RecManager records Deliver calls and the header facts of their payload, then delegates.
type RecManager struct {
	message.Manager
	mu            sync.Mutex
	Calls         []DeliverCall
	BeforeDeliver func() // harness callback at the start of every Deliver (may be nil)
}

// dumpAddr: a stored message without a sender (an extension answered with a message it built itself) is dumped
// with the empty address.
func dumpAddr(a *mail.Address) string {
	if a == nil {
		return ""
	}
	return a.Address
}

// AddrStr is the projection of a mail.Address that is compared.
func AddrStr(a *mail.Address) string {
	if a == nil {
		return "<nil>"
	}
	return a.Address
}

// HdrFacts computes what Deliver derives from the payload's header block.
func HdrFacts(source []byte) DeliverCall {
	c := DeliverCall{Body: append([]byte(nil), source...)}
	header, err := enmime.DecodeHeaders(source)
	if err != nil {
		return c
	}
	c.HdrOK = true
	if l, err := enmime.ParseAddressList(header.Get("From")); err == nil && len(l) > 0 {
		s := AddrStr(l[0])
		c.From = &s
	}
	if l, err := enmime.ParseAddressList(header.Get("To")); err == nil {
		t := make([]string, len(l))
		for i, a := range l {
			t[i] = AddrStr(a)
		}
		c.To = &t
	}
	c.Subject = header.Get("Subject")
	return c
}

// Deliver implements message.Manager.
func (m *RecManager) Deliver(from *policy.Origin, rcpts []*policy.Recipient, recvd string, source []byte) error {
	f := HdrFacts(source)
	m.mu.Lock()
	m.Calls = append(m.Calls, f)
	cb := m.BeforeDeliver
	m.mu.Unlock()
	if cb != nil {
		cb()
	}
	return m.Manager.Deliver(from, rcpts, recvd, source)
}

// NewEnv builds the server side for one case. lua may be empty.
func NewEnv(c Cfg, lua string, storeCfg config.Storage) (*Env, error) {
	conf, err := c.Load()
	if err != nil {
		return nil, err
	}
	e := &Env{Conf: conf}
	e.Policy = &policy.Addressing{Config: conf}
	if lua != "" {
		h, err := luahost.NewFromReader(zerolog.Nop(), e.Host0(), strings.NewReader(lua), "verif.lua")
		if err != nil {
			return nil, fmt.Errorf("lua: %v", err)
		}
		_ = h
	} else {
		e.Host = extension.NewHost()
	}
	// Store: "mem" | "file", optionally ":<n>" = storage mailbox message cap
	kind := c.Store
	if i := strings.IndexByte(kind, ':'); i >= 0 {
		if n, err := strconv.Atoi(kind[i+1:]); err == nil && storeCfg.MailboxMsgCap == 0 {
			storeCfg.MailboxMsgCap = n
		}
		kind = kind[:i]
	}
	switch kind {
	case "file":
		dir, err := os.MkdirTemp(os.Getenv("VERIF_WORKDIR"), "fstore")
		if err != nil {
			return nil, err
		}
		e.dir = dir
		if storeCfg.Params == nil {
			storeCfg.Params = map[string]string{}
		}
		storeCfg.Params["path"] = dir
		e.Store, err = file.New(storeCfg, e.Host)
		if err != nil {
			return nil, err
		}
	default:
		e.Store, err = mem.New(storeCfg, e.Host)
		if err != nil {
			return nil, err
		}
	}
	if TLSMode {
		cert, key, err := tlsFiles()
		if err != nil {
			return nil, fmt.Errorf("certificate: %v", err)
		}
		conf.SMTP.TLSEnabled, conf.SMTP.TLSCert, conf.SMTP.TLSPrivKey = true, cert, key
	}
	sm := &message.StoreManager{AddrPolicy: e.Policy, Store: e.Store, ExtHost: e.Host}
	e.Manager = &RecManager{Manager: sm}
	e.Server = smtp.NewServer(conf.SMTP, e.Manager, e.Policy, e.Host)
	return e, nil
}

// TLSMode: the next NewEnv configures STARTTLS (INBUCKET_SMTP_TLSENABLED with a certificate made at run time).
var TLSMode bool

var (
	tlsOnce          sync.Once
	tlsCert, tlsKey  string
	tlsErr           error
)

func tlsFiles() (string, string, error) {
	tlsOnce.Do(func() {
		dir, err := os.MkdirTemp(os.Getenv("VERIF_WORKDIR"), "tlscert")
		if err != nil {
			tlsErr = err
			return
		}
		tlsCert, tlsKey, tlsErr = SelfSigned(dir)
	})
	return tlsCert, tlsKey, tlsErr
}

// SessionTLS plays a client that sends plain, waits for the server's "220 STARTTLS" (giving up after a second of
// silence), upgrades the connection with a real TLS handshake if it came, sends secure (under TLS if upgraded, in
// plaintext otherwise), ends its side and reads every reply. Returned: the replies received in plaintext followed by
// the (decrypted) replies received afterwards - what the client saw, in order.
func (e *Env) SessionTLS(plain, secure []byte) ([]byte, error) {
	client, server0 := net.Pipe()
	server := &addrConn{Conn: server0, l: &net.TCPAddr{IP: net.IPv4(127, 0, 0, 1), Port: 25},
		r: &net.TCPAddr{IP: net.IPv4(127, 0, 0, 1), Port: 40000}}
	done := make(chan struct{})
	go func() {
		defer close(done)
		e.Server.VerifServe(server)
	}()
	var out bytes.Buffer
	var conn net.Conn = client
	upgraded := false
	// awaitTLS reads reply lines until "220 STARTTLS" (then upgrades with a real handshake) or a second of silence
	awaitTLS := func() error {
		var line []byte
		one := make([]byte, 1)
		for {
			conn.SetReadDeadline(time.Now().Add(time.Second))
			n, err := conn.Read(one)
			if n == 1 {
				out.WriteByte(one[0])
				line = append(line, one[0])
				if one[0] == '\n' {
					if string(line) == "220 STARTTLS\r\n" {
						break
					}
					line = line[:0]
				}
			}
			if err != nil {
				conn.SetReadDeadline(time.Time{})
				return nil
			}
		}
		conn.SetReadDeadline(time.Time{})
		tc := tls.Client(client, &tls.Config{InsecureSkipVerify: true})
		client.SetDeadline(time.Now().Add(10 * time.Second))
		if err := tc.Handshake(); err != nil {
			return fmt.Errorf("TLS handshake: %v", err)
		}
		client.SetDeadline(time.Time{})
		conn, upgraded = tc, true
		return nil
	}
	fail := func(err error) ([]byte, error) {
		client.Close()
		<-done
		return out.Bytes(), err
	}
	// the plaintext part is ONE segment (whatever is pipelined behind a STARTTLS line travels with it)
	if len(plain) > 0 {
		go func(c net.Conn) { c.Write(plain) }(conn)
		if err := awaitTLS(); err != nil {
			return fail(err)
		}
	}
	// the rest: while not upgraded, a segment ends with each STARTTLS line and the client waits for its answer
	rest := secure
	lastWrite := make(chan struct{})
	close(lastWrite)
	for len(rest) > 0 {
		seg := rest
		if !upgraded {
			off := 0
			for off < len(rest) {
				nl := bytes.IndexByte(rest[off:], '\n')
				if nl < 0 {
					off = len(rest)
					break
				}
				ln := rest[off : off+nl+1]
				off += nl + 1
				if len(ln) >= 8 && strings.EqualFold(string(ln[:8]), "starttls") {
					break
				}
			}
			seg = rest[:off]
		}
		rest = rest[len(seg):]
		wasUp := upgraded
		wd := make(chan struct{})
		lastWrite = wd
		go func(c net.Conn, b []byte) { c.Write(b); close(wd) }(conn, seg)
		if !wasUp && len(rest) > 0 {
			if err := awaitTLS(); err != nil {
				return fail(err)
			}
		}
	}
	if tc, ok := conn.(*tls.Conn); ok {
		go func() { <-lastWrite; tc.CloseWrite() }()
		conn.SetReadDeadline(time.Now().Add(20 * time.Second))
		tail, _ := io.ReadAll(conn)
		out.Write(tail)
	} else {
		// net.Pipe has no half-close: read until the server closes (QUIT) or stays silent for a second, then close
		buf := make([]byte, 4096)
		for {
			conn.SetReadDeadline(time.Now().Add(time.Second))
			n, err := conn.Read(buf)
			out.Write(buf[:n])
			if err != nil {
				break
			}
		}
	}
	conn.Close()
	select {
	case <-done:
	case <-time.After(60 * time.Second):
		return out.Bytes(), fmt.Errorf("session did not end")
	}
	return out.Bytes(), nil
}

type addrConn struct {
	net.Conn
	l, r net.Addr
}

func (c *addrConn) LocalAddr() net.Addr  { return c.l }
func (c *addrConn) RemoteAddr() net.Addr { return c.r }

// Host0 creates the extension host (needed before the Lua host is attached to it).
func (e *Env) Host0() *extension.Host {
	if e.Host == nil {
		e.Host = extension.NewHost()
	}
	return e.Host
}

// Close removes the file store's directory.
func (e *Env) Close() {
	if e.dir != "" {
		os.RemoveAll(e.dir)
	}
}

// Session plays the client bytes (then half-closes) against a real session and returns every
// byte the server sent. The connection is an in-memory pair (see bufconn.go).
func (e *Env) Session(stream []byte) ([]byte, error) {
	return e.SessionNet([][]byte{stream}, "eof")
}

// WriteLimit: when >= 0 the next SessionNet lets only that many reply lines (greeting included) through; the
// server's later writes fail. Reset after the session.
var WriteLimit = -1

// ParseNet decodes a stream field: hex chunks separated by '~' (a pause longer than the idle timeout between
// two chunks), optionally followed by "!idle" (the client stays silent at the end) or "!err" (the connection
// breaks); a plain hex field is one chunk ended by EOF.
func ParseNet(field string) ([][]byte, string) {
	fin := "eof"
	WriteLimit = -1
	if i := strings.IndexByte(field, '^'); i >= 0 { // "^k": the server's writes fail after k reply lines
		if n, err := strconv.Atoi(field[i+1:]); err == nil {
			WriteLimit = n
		}
		field = field[:i]
	}
	if i := strings.IndexByte(field, '!'); i >= 0 {
		fin, field = field[i+1:], field[:i]
	}
	var chunks [][]byte
	NetQuiet = nil
	for _, part := range strings.Split(field, "~") {
		// "&" inside a part: the client hands the next bytes over only when the server has read everything so far
		// (a lock-step client: no pause, no time-out - just not pipelined)
		for j, h := range strings.Split(part, "&") {
			chunks = append(chunks, vh.U(h))
			if len(chunks) > 1 {
				NetQuiet = append(NetQuiet, j > 0)
			}
		}
	}
	return chunks, fin
}

// NetQuiet[i] says that chunk i+1 of the last ParseNet follows chunk i without a pause (see ParseNet).
var NetQuiet []bool

// JoinForLines joins chunks as the session's line reader sees them: a pause makes the bytes before it a line of
// their own, a lock-step boundary does not.
func JoinForLines(chunks [][]byte, quiet []bool) []byte {
	var b []byte
	for i, c := range chunks {
		if i > 0 && !(i-1 < len(quiet) && quiet[i-1]) {
			b = append(b, '\n')
		}
		b = append(b, c...)
	}
	return b
}

// NetField is the inverse of ParseNet.
func NetField(chunks [][]byte, fin string) string {
	hs := make([]string, len(chunks))
	for i, c := range chunks {
		hs[i] = vh.H(c)
	}
	f := strings.Join(hs, "~")
	if fin != "eof" && fin != "" {
		f += "!" + fin
	}
	return f
}

// SessionNet runs one session over a scripted connection (see BufConn.Finish).
func (e *Env) SessionNet(chunks [][]byte, fin string) ([]byte, error) {
	return e.SessionNetQ(chunks, nil, fin)
}

// SessionNetQ is SessionNet with lock-step boundaries: quiet[i] says chunk i+1 follows chunk i without a pause.
func (e *Env) SessionNetQ(chunks [][]byte, quiet []bool, fin string) ([]byte, error) {
	if len(chunks) == 0 {
		chunks = [][]byte{nil}
	}
	stream := chunks[0]
	client, server := NewBufConnPair()
	if WriteLimit >= 0 {
		client.FailPeerWritesAfter(WriteLimit)
		WriteLimit = -1
	}
	done := make(chan struct{})
	go func() {
		defer close(done)
		e.Server.VerifServe(server)
	}()
	go func() {
		client.Write(stream)
		client.FinishQ(chunks[1:], quiet, fin)
	}()
	type res struct {
		out []byte
		err error
	}
	rc := make(chan res, 1)
	go func() {
		out, err := io.ReadAll(client)
		rc <- res{out, err}
	}()
	select {
	case <-done:
	case <-time.After(120 * time.Second):
		return nil, fmt.Errorf("session did not end")
	}
	select {
	case r := <-rc:
		client.Close()
		return r.out, r.err
	case <-time.After(30 * time.Second):
		return nil, fmt.Errorf("reply stream did not end")
	}
}

// ReplyTokens turns the server's output into "250-" / "250" style tokens (the greeting is dropped).
func ReplyTokens(out []byte) []string {
	lines := strings.Split(string(out), "\r\n")
	var toks []string
	for i, l := range lines {
		if i == len(lines)-1 && l == "" {
			break
		}
		j := 0
		if j < len(l) && l[j] == '-' {
			j++
		}
		k := j
		for k < len(l) && l[k] >= '0' && l[k] <= '9' {
			k++
		}
		if k == j {
			toks = append(toks, "X")
			continue
		}
		t := l[:k]
		if n, err := strconv.Atoi(t); err == nil {
			t = strconv.Itoa(n) // "%03d" pads: compare the number
		}
		if k < len(l) && l[k] == '-' {
			t += "-"
		}
		toks = append(toks, t)
	}
	if len(toks) > 0 {
		toks = toks[1:] // greeting
	}
	return toks
}

// ArgOf mirrors how a command line is cut into word and argument.
func ArgOf(chunk string) (word, arg string) {
	line := strings.TrimRight(chunk, "\r\n")
	l := strings.IndexByte(line, ' ')
	if l == -1 {
		return line, ""
	}
	return line[:l], strings.Trim(line[l+1:], " ")
}

func optH(s *string) string {
	if s == nil {
		return "~"
	}
	return vh.HS(*s)
}

// ipInners records net.ParseIP's verdict for every string ValidateDomainPart could hand it
// when x is (the tail of) an address with a bracketed domain literal.
func ipInners(x string, tab map[string]bool) {
	if len(x) == 0 || x[len(x)-1] != ']' {
		return
	}
	for p := 0; p < len(x); p++ {
		if x[p] != '[' {
			continue
		}
		d := x[p:]
		for _, s := range []int{1, 6} {
			if s <= len(d)-1 {
				in := d[s : len(d)-1]
				tab[in] = net.ParseIP(in) != nil
				tab[strings.ToLower(in)] = net.ParseIP(strings.ToLower(in)) != nil
			}
		}
	}
}

// IPTable encodes the recorded net.ParseIP verdicts.
func (e *Env) IPTable() string {
	keys := make([]string, 0, len(e.ips))
	for k := range e.ips {
		keys = append(keys, k)
	}
	sort.Strings(keys)
	parts := make([]string, len(keys))
	for i, k := range keys {
		parts[i] = vh.HS(k) + "=" + vh.B(e.ips[k])
	}
	return join(parts)
}

// Facts computes the MAIL / RCPT parser oracles for every line-like chunk of the stream.
func (e *Env) Facts(stream []byte) (mailT, rcptT string) {
	if e.ips == nil {
		e.ips = map[string]bool{}
	}
	seenM, seenR := map[string]bool{}, map[string]bool{}
	var ms, rs []string
	for _, chunk := range bytes.Split(stream, []byte("\n")) {
		if len(chunk) > 4096 {
			continue
		}
		word, arg := ArgOf(string(chunk))
		if len(word) < 4 || len(word) > 8 {
			continue
		}
		if !seenM[arg] {
			seenM[arg] = true
			m := smtp.VerifMailRegex(arg)
			f := []string{vh.HS(arg), vh.B(m != nil), "0", "0", "~", "~", "~", "~"}
			if m != nil {
				f[7] = vh.HS(m[1])
				ipInners(m[1], e.ips)
				if m[2] != "" {
					f[2] = "1"
					args, ok := smtp.VerifParseArgs(m[2])
					if ok {
						f[3] = "1"
						if args["SIZE"] != "" {
							f[4] = vh.HS(args["SIZE"])
						}
					}
				}
				if o, err := e.Policy.ParseOrigin(m[1]); err == nil {
					f[5] = vh.HS(o.Address.Address)
					f[6] = vh.HS(o.Domain)
				}
			}
			ms = append(ms, strings.Join(f, ":"))
		}
		if len(arg) >= 3 {
			addr := strings.Trim(arg[3:], "<> ")
			if !seenR[addr] {
				seenR[addr] = true
				f := []string{vh.HS(addr), "0", "~", "~", "~"}
				ipInners(addr, e.ips)
				if r, err := e.Policy.NewRecipient(addr); err == nil {
					f = []string{vh.HS(addr), "1", vh.HS(r.Address.Address), vh.HS(r.Domain), vh.HS(r.Mailbox)}
				}
				rs = append(rs, strings.Join(f, ":"))
			}
		}
	}
	return join(ms), join(rs)
}

func join(xs []string) string {
	if len(xs) == 0 {
		return "-"
	}
	return strings.Join(xs, ",")
}

// HdrTable encodes the recorded Deliver calls' header facts.
func (e *Env) HdrTable() string {
	var hs []string
	seen := map[string]bool{}
	for _, c := range e.Manager.Calls {
		k := string(c.Body)
		if seen[k] {
			continue
		}
		seen[k] = true
		to := "~"
		if c.To != nil {
			t := make([]string, len(*c.To))
			for i, a := range *c.To {
				t[i] = vh.HS(a)
			}
			to = "[" + strings.Join(t, ";") + "]"
		}
		hs = append(hs, strings.Join([]string{vh.H(c.Body), vh.B(c.HdrOK), optH(c.From), to, vh.HS(c.Subject)}, ":"))
	}
	return join(hs)
}

// MaskTimestamp replaces the 37-byte timestamp of the generated Received header by '?'.
func MaskTimestamp(src []byte, mailbox string) []byte {
	marker := []byte("\r\n  for <" + mailbox + ">; ")
	i := bytes.Index(src, marker)
	if i < 0 || i+len(marker)+37 > len(src) {
		return src
	}
	out := append([]byte(nil), src...)
	for j := 0; j < 37; j++ {
		out[i+len(marker)+j] = '?'
	}
	return out
}

// DumpStore lists every mailbox with its messages in listing order.
func DumpStore(s storage.Store) string {
	type box struct {
		name string
		msgs []string
	}
	var boxes []box
	names := map[string]bool{}
	err := s.VisitMailboxes(func(ms []storage.Message) bool {
		if len(ms) == 0 {
			return true
		}
		names[ms[0].Mailbox()] = true
		return true
	})
	if err != nil {
		return "VISITERR:" + vh.HS(err.Error())
	}
	for name := range names {
		ms, err := s.GetMessages(name)
		if err != nil {
			return "LISTERR:" + vh.HS(err.Error())
		}
		b := box{name: name}
		for _, m := range ms {
			r, err := m.Source()
			var src []byte
			if err == nil {
				src, _ = io.ReadAll(r)
				r.Close()
			}
			to := make([]string, len(m.To()))
			for i, a := range m.To() {
				to[i] = vh.HS(AddrStr(a))
			}
			b.msgs = append(b.msgs, strings.Join([]string{vh.HS(dumpAddr(m.From())), "[" + strings.Join(to, ";") + "]",
				vh.HS(m.Subject()), strconv.FormatInt(m.Size(), 10), vh.H(MaskTimestamp(src, name))}, ":"))
		}
		boxes = append(boxes, b)
	}
	sort.Slice(boxes, func(i, j int) bool { return boxes[i].name < boxes[j].name })
	var parts []string
	for _, b := range boxes {
		parts = append(parts, vh.HS(b.name)+"="+strings.Join(b.msgs, "/"))
	}
	return join(parts)
}

// SortWithinBoxes sorts the messages of every mailbox of a dump (for concurrent runs, where
// the arrival order within a mailbox is a schedule choice).
func SortWithinBoxes(dump string) string {
	if dump == "-" || strings.Contains(dump, "ERR:") {
		return dump
	}
	boxes := strings.Split(dump, ",")
	for i, b := range boxes {
		j := strings.IndexByte(b, '=')
		ms := strings.Split(b[j+1:], "/")
		sort.Strings(ms)
		boxes[i] = b[:j+1] + strings.Join(ms, "/")
	}
	return strings.Join(boxes, ",")
}

// Exec runs one case: fields = cfg (NFields) + stream. Returns the observation fields:
// replies, mail table, rcpt table, hdr table, store dump, status.
// ExecDefer is Exec with two Go listeners installed that answer every MAIL and RCPT with an explicit defer
// (event.ActionDefer): by the property (and theorem defer_is_policy) the session must then behave exactly as
// with no extension at all, the domain policy decides.
func ExecDefer(in []string) []string { return execWith(in, true) }

func Exec(in []string) []string { return execWith(in, false) }

// AllowRcpt: the next execWith registers a listener that allows every recipient.
var AllowRcpt bool

// ExecAllow is Exec with an extension listener that answers every RCPT with an explicit allow.
func ExecAllow(in []string) []string {
	AllowRcpt = true
	defer func() { AllowRcpt = false }()
	return execWith(in, false)
}

func execWith(in []string, deferAll bool) []string {
	c := ParseCfg(in[:NFields])
	// "<plain hex>@<secure hex>": a server with STARTTLS configured; the client sends the first part in plaintext,
	// upgrades the connection if the server answered "220 STARTTLS", and sends the second part (under TLS if upgraded)
	var plain, secure []byte
	tlsCase := strings.Contains(in[NFields], "@")
	var chunks [][]byte
	var quiet []bool
	fin := "eof"
	if tlsCase {
		f := strings.SplitN(in[NFields], "@", 2)
		plain, secure = vh.U(f[0]), vh.U(f[1])
		chunks = [][]byte{plain, secure}
		WriteLimit = -1
	} else {
		chunks, fin = ParseNet(in[NFields])
		quiet, NetQuiet = NetQuiet, nil
	}
	// parser facts for every line the session can see: a pause makes the bytes before it a line of their own
	stream := JoinForLines(chunks, quiet)
	TLSMode = tlsCase
	env, err := NewEnv(c, "", config.Storage{MailboxMsgCap: 0})
	TLSMode = false
	if err != nil {
		return []string{"SETUPERR", vh.HS(err.Error())}
	}
	defer env.Close()
	if AllowRcpt {
		// an extension that explicitly allows every recipient: the accept policy is overridden, the store policy is not
		env.Host.Events.BeforeRcptToAccepted.AddListener("verif-allow", func(event.SMTPSession) *event.SMTPResponse {
			return &event.SMTPResponse{Action: event.ActionAllow}
		})
		// ... and every sender: the reject-origin list is overridden too; what is stored is still the store policy's
		env.Host.Events.BeforeMailFromAccepted.AddListener("verif-allow", func(event.SMTPSession) *event.SMTPResponse {
			return &event.SMTPResponse{Action: event.ActionAllow}
		})
	}
	if deferAll {
		env.Host.Events.BeforeMailFromAccepted.AddListener("verif-defer", func(event.SMTPSession) *event.SMTPResponse {
			return &event.SMTPResponse{Action: event.ActionDefer}
		})
		env.Host.Events.BeforeRcptToAccepted.AddListener("verif-defer", func(event.SMTPSession) *event.SMTPResponse {
			return &event.SMTPResponse{Action: event.ActionDefer}
		})
	}
	var out []byte
	if tlsCase {
		out, err = env.SessionTLS(plain, secure)
	} else {
		out, err = env.SessionNetQ(chunks, quiet, fin)
	}
	status := "ok"
	if err != nil {
		status = "err:" + vh.HS(err.Error())
	}
	mt, rt := env.Facts(stream)
	return []string{join(ReplyTokens(out)), mt, rt, env.HdrTable(), DumpStore(env.Store), status + ";" + env.IPTable()}
}

package smtpd

import (
	"bytes"
	"fmt"
	"strconv"
	"strings"

	"verifharness/vh"
)

// Opts steers the dialogue generator.
type Opts struct {
	Garbage    float64 // probability of a garbage / out-of-order line between steps
	Hostile    bool    // hostile body fragments (C02)
	MaxBody    int     // upper bound for generated body sizes
	SizeParams bool    // add SIZE= parameters (truthful, lying, malformed)
	SmallLimit bool    // pick small MaxMessageBytes so that bodies straddle it (C06)
	Caps       bool    // 30 % of the configurations carry a mailbox message cap of 1-3 (store field "file:1")
}

var labels = []string{"a", "b", "ab", "x-y", "example", "com", "org", "mail", "Ex", "COM", "m1"}
var locals = []string{"alice", "Bob", "carol+tag", "d.e", "alice", "ALICE", "alice+x", "x/y", "o'neil", "u_v", "\"q x\"", "a!b", "bob"}
var badAddrs = []string{"no-at", "a@@b", "@x.com", "x@", "x@-bad.com", "x@a..b", ".a@b.com", "a..b@c.com", "+x@b.com", "", "a b@c.com", "x@[1.2.3]", "x@[300.1.1.1]"}

func genDomain(g *vh.Gen) string {
	n := 1 + g.Intn(3)
	parts := make([]string, n)
	for i := range parts {
		parts[i] = g.Pick(labels...)
	}
	return strings.Join(parts, ".")
}

func flipCase(g *vh.Gen, s string, p float64) string {
	b := []byte(s)
	for i, c := range b {
		if g.Chance(p) {
			if 'a' <= c && c <= 'z' {
				b[i] = c - 32
			} else if 'A' <= c && c <= 'Z' {
				b[i] = c + 32
			}
		}
	}
	return string(b)
}

func genList(g *vh.Gen, pool []string, wild bool) string {
	n := g.Intn(3)
	if n == 0 {
		return ""
	}
	xs := make([]string, n)
	for i := range xs {
		d := g.Pick(pool...)
		if wild && g.Chance(0.5) {
			switch g.Intn(7) {
			case 5: // begins like a LOCAL part, ends like the domain: matches domains only, never a whole address
				lp := g.Pick("alice", "bob", "carol", "d.e", "u_v", "a!b")
				d = lp[:1+g.Intn(len(lp))] + "*" + d[g.Intn(len(d)):]
			case 6: // stars around a piece of a local part; a run of '?' as long as a local part
				if g.Chance(0.5) {
					d = "*" + g.Pick("lic", "ob", ".e", "tag", "_") + "*"
				} else {
					d = strings.Repeat("?", 3+g.Intn(3)) + g.Pick("*", "?*", "@*")
				}
			case 0, 1:
				if i := strings.IndexByte(d, '.'); i >= 0 {
					d = "*" + d[i:]
				} else {
					d = d + "*"
				}
			case 2: // one character replaced by '?'
				if k := g.Intn(len(d)); d[k] != '[' && d[k] != ']' {
					d = d[:k] + "?" + d[k+1:]
				}
			case 3: // a star in the middle or at the end of a label
				k := 1 + g.Intn(len(d))
				d = d[:k] + "*"
			default: // prefix star without a dot, and a '?' label
				if i := strings.IndexByte(d, '.'); i >= 0 {
					d = "*" + d[i+1:]
				} else {
					d = "?" + d
				}
			}
		}
		xs[i] = flipCase(g, d, 0.2)
	}
	return strings.Join(xs, ",")
}

// GenCfg draws a configuration and the domain pool its lists are built from.
func GenCfg(g *vh.Gen, o Opts) (Cfg, []string) {
	pool := make([]string, 4)
	for j := range pool {
		pool[j] = genDomain(g)
	}
	pool = append(pool, "[127.0.0.1]", "[IPv6:2001:db8::25]")
	c := Cfg{Naming: g.Pick("local", "full", "domain"), MaxRcpt: g.Pick2(200, 200, 200, 200, 3, 2, 1, 0), MaxBytes: 10240000,
		DA: g.Chance(0.85), DS: g.Chance(0.85), Store: g.Pick("mem", "file")}
	c.Acc, c.Rej = genList(g, pool, false), genList(g, pool, false)
	c.Sto, c.Dis = genList(g, pool, false), genList(g, pool, false)
	c.RejO = genList(g, pool, true)
	if o.SmallLimit {
		c.MaxBytes = g.Pick2(1, 10, 100, 1000, 5000, 65536)
	}
	if o.Caps && g.Chance(0.3) {
		c.Store += ":" + g.Pick("1", "1", "2", "3")
	}
	return c, pool
}

func genAddr(g *vh.Gen, pool []string) string {
	if g.Chance(0.08) {
		return g.Pick(badAddrs...)
	}
	d := g.Pick(pool...)
	if g.Chance(0.1) {
		d = genDomain(g)
	}
	return g.Pick(locals...) + "@" + flipCase(g, d, 0.15)
}

func cmdCase(g *vh.Gen, s string) string {
	switch g.Intn(4) {
	case 0:
		return strings.ToLower(s)
	case 1:
		return flipCase(g, s, 0.5)
	}
	return s
}

var garbageLines = []string{"", " ", "HEL", "QUI", "FOO bar", "HELLO", "SEND x", "SOML", "EXPN list", "HELP", "TURN", "VRFY bob", "NOOP", "noop  ",
	"DATA now", "RCPT", "RCPT T", "RCPT TO", "RCPT FROM:<a@b.com>", "MAIL", "MAIL TO:<a@b.com>", "MAIL FROM:a@b.com", "MAIL FROM:<a@b.com> SIZE=",
	"MAIL FROM:<a@b.com> FOO", "STARTTLS", "AUTH PLAIN", "AUTH PLAIN abc", "AUTH PLAIN a b", "AUTH CRAM-MD5", "AUTH plain x",
	"EHLO \t", "HELO \t \t", "ehlo \v", "HELO \f", "\xc5\xbfEND x", "QU\xc4\xb1T", "MA\xc4\xb1L FROM:<a@b.com>", "\xff\xfe\x00\x01binary", "RSET", "RSET extra", "HELO", "EHLO", "HELO  two words",
	"   leading", "DATA", "QUIT now",
	"MAIL FROM:<\"a>b\"@c.org>", "MAIL FROM:<a\\>b@c.org>", "MAIL FROM:<a@b.org> AUTH=<>", "MAIL FROM:<a@b.org> SIZE=<>", "MAIL FROM:<a@b.org> SIZE=5 SIZE=99999999",
	"MAIL FROM:<a@b.org> size=7 Size=8", "MAIL FROM:<a@b.org>  SIZE=5", "MAIL FROM:<a@b.org> SIZE=5 ", "MAIL FROM:<a@b.org> X", "MAIL FROM:<a@b.org> X=1 garbage",
	"MAIL FROM:<a@b.org>>", "MAIL FROM:<<a@b.org>", "MAIL FROM:<a@b.org", "MAIL FROM:\t <a@b.org>", "MAIL FROM:<\u212a@b.org>", "MAIL \u017from:<a@b.org>",
	"MAIL FROM:<\"q\"@b.org> BODY=8BITMIME SIZE=12", "MAIL FROM:<a@b.org> =<>", "MAIL FROM:<> SIZE=0", "MAIL FROM:<@r1,@r2:u@h.org>", "MAIL FROM:<a@[127.0.0.1]>",
	"MAIL FROM:<a@[IPv6:::1]>", "MAIL FROM:<a@b.org> K\u212a=1", "MAIL FROM:<a b@c.org>", "MAIL FROM:<\xff\xfe@b.org>", "MAIL FROM:<a@b.org> SIZE=2147483647", "MAIL FROM:<a@b.org> SIZE=-1"}

func genBody(g *vh.Gen, o Opts, from string, tos []string) []string {
	var ls []string
	if g.Chance(0.85) {
		if g.Chance(0.012) {
			// a long header block: trace fields ABOVE the main fields, 1 KB .. 300 KB of them (whatever reads "the header"
			// with a size in mind meets From / To / Subject beyond it)
			for i, n := 0, g.Pick2(10, 200, 1100, 3000); i < n; i++ {
				ls = append(ls, "X-Trace-"+strconv.Itoa(i)+": "+strings.Repeat(g.Pick("h", "t"), 80))
			}
		}
		switch g.Intn(6) {
		case 0: // no From header
		case 1:
			ls = append(ls, "From: Someone Else <other@elsewhere.org>")
		case 2:
			ls = append(ls, "From: not an address")
		case 3: // encoded-words in display names, in charsets beyond UTF-8; quoted names with a comma
			ls = append(ls, "From: "+g.Pick("=?koi8-r?B?8NLJ18XU?= <hdr@from.example>", "=?windows-1252?Q?Ren=E9e?= <hdr@from.example>",
				"=?iso-8859-15?Q?J=FCrgen_=A4?= <hdr@from.example>", "=?utf-8?q?Doe=2C_John?= <hdr@from.example>",
				"\"Doe, John\" <hdr@from.example>", "=?gb2312?B?1tDOxA==?= <hdr@from.example>", "=?x-unknown?Q?abc?= <hdr@from.example>"))
		default:
			ls = append(ls, "From: <"+from+">")
		}
		switch g.Intn(5) {
		case 0:
		case 1:
			ls = append(ls, "To: List A <lista@x.org>, b@y.org")
		case 2:
			ls = append(ls, g.Pick("To: ;;broken", "To: =?koi8-r?B?8NLJ18XU?= <to1@hdr.example>, =?iso-8859-1?Q?Andr=E9?= <to2@hdr.example>",
				"To: to1@hdr.example to2@hdr.example", "To: Team: to1@hdr.example, to2@hdr.example;", "To: undisclosed-recipients:;",
				"To: =?windows-1252?Q?Ren=E9e?= <to1@hdr.example>"))
		default:
			ls = append(ls, "To: "+strings.Join(tos, ", "))
		}
		if g.Chance(0.8) {
			ls = append(ls, "Subject: "+g.Pick("hello", "Re: test 1", "=?utf-8?q?caf=C3=A9?=", "", "=?koi8-r?B?8NLJ18XU?=", "=?iso-8859-1?Q?caf=E9?= au lait",
				"=?windows-1252?Q?=80uro?=", "=?utf-8?B?4pyT?= =?utf-8?B?4pyT?=", "=?x-unknown?Q?abc?="))
		}
		if g.Chance(0.05) {
			ls = append(ls, "Broken header without colon")
		}
		ls = append(ls, "")
	}
	n := g.Intn(6)
	for i := 0; i < n; i++ {
		if o.Hostile {
			ls = append(ls, hostileLine(g, o))
		} else {
			ls = append(ls, g.Pick("line one", "", ".", "..dots", "text with . dot", "x"))
		}
	}
	return ls
}

func hostileLine(g *vh.Gen, o Opts) string {
	switch g.Intn(12) {
	case 0:
		return "."
	case 1:
		return ".."
	case 2:
		return "...leading"
	case 3:
		return "\x00nul\x00"
	case 4:
		return "caf\xe9 \xff\xfe 8bit"
	case 5:
		return "bare\rcr\rinside"
	case 6:
		return "\rstarts with cr"
	case 7:
		return "ends with cr\r"
	case 8:
		return ""
	case 9:
		n := 1 + g.Intn(max1(o.MaxBody))
		return strings.Repeat(g.Pick("a", ".", "xy", "\r"), n)
	case 10:
		return ".\r"
	}
	return "plain text line"
}

func max1(n int) int {
	if n < 1 {
		return 1
	}
	return n
}

// StuffLines renders body lines as an RFC client does (dot-stuffing, CRLF, terminator).
func StuffLines(ls []string) string {
	var b strings.Builder
	for _, l := range ls {
		if strings.HasPrefix(l, ".") {
			b.WriteByte('.')
		}
		b.WriteString(l)
		b.WriteString("\r\n")
	}
	b.WriteString(".\r\n")
	return b.String()
}

// GenDialogue draws one client byte stream.
func GenDialogue(g *vh.Gen, c Cfg, pool []string, o Opts) []byte {
	var b strings.Builder
	line := func(s string) { b.WriteString(s); b.WriteString(g.Pick2s("\r\n", "\r\n", "\r\n", "\n")) }
	garbage := func() {
		for g.Chance(o.Garbage) {
			l := g.Pick(garbageLines...)
			line(l)
			if strings.HasPrefix(l, "AUTH LOGIN") {
				line("dXNlcg==")
				line("cGFzcw==")
			}
		}
	}
	if g.Chance(0.03) {
		line("RSET")
	}
	if g.Chance(0.92) {
		line(cmdCase(g, g.Pick("HELO", "EHLO")) + " " + g.Pick("client.example", "[10.0.0.1]", "host extra words", "h", "client.example", "[10.0.0.1]", "h", "\t", "\t \t", "\v", "\f x", "x\ty"))
	}
	if g.Chance(0.1) {
		line("AUTH LOGIN")
		line("dXNlcg==")
		line("cGFzcw==")
	}
	ntx := 1 + g.Intn(4)
	if g.Chance(0.04) {
		ntx = 9 + g.Intn(30) // a long-lived connection: whatever a session accumulates shows only after many transactions
		if g.Chance(0.15) {
			ntx = g.Pick2(64, 100, 129, 250)
		}
	}
	for t := 0; t < ntx; t++ {
		garbage()
		from := genAddr(g, pool)
		if g.Chance(0.08) {
			from = ""
		}
		mail := cmdCase(g, "MAIL") + " " + cmdCase(g, "FROM:") + g.Pick2s("", "", " ") + "<" + from + ">"
		var bodyLines []string
		if o.SizeParams && g.Chance(0.5) {
			mail += " " + g.Pick("SIZE", "size") + "=" + g.Pick("10", "100", "1000", "5000", "70000", "99999999", "2147483648", "12ab", "0",
				"4294967296", "4294967297", "9223372036854775807", "9223372036854775808", "12345678901234567890", "18446744073709551615",
				"18446744073709551616", "18446744073709551626", "340282366920938463463374607431768211456", "00000000000000000000000000000000005")
		}
		if g.Chance(0.15) {
			mail += " BODY=8BITMIME"
		}
		line(mail)
		garbage()
		nr := g.Intn(5)
		if g.Chance(0.03) && (ntx <= 8 || t == 0) { // (in a long session only the first transaction: the model's cost grows faster than the stream)
			nr = g.Pick2(8, 9, 16, 17, 33, 64, 129, 200, 201, 257) // recipient lists across the growth steps of a slice and the default limit
		}
		var tos []string
		for i := 0; i < nr; i++ {
			a := genAddr(g, pool)
			if i > 0 && g.Chance(0.2) {
				a = tos[g.Intn(len(tos))] // duplicate recipient
			}
			tos = append(tos, a)
			rl := cmdCase(g, "RCPT") + " " + cmdCase(g, "TO:") + g.Pick2s("", "", " ") + "<" + a + ">"
			if g.Chance(0.06) { // ESMTP parameters behind the forward-path (one reply is owed, whatever they are)
				for k := 1 + g.Intn(3); k > 0; k-- {
					rl += " " + g.Pick("NOTIFY=NEVER", "NOTIFY=SUCCESS,FAILURE", "ORCPT=rfc822;x@y.org", "SIZE=1024", "BODY=8BITMIME", "X=1", "FOO", "=", "")
				}
			}
			line(rl)
			if g.Chance(0.05) {
				garbage()
			}
		}
		switch {
		case g.Chance(0.1):
			line(cmdCase(g, "RSET"))
			continue
		case g.Chance(0.05):
			line("EHLO again.example")
			continue
		case g.Chance(0.05):
			continue // abandon: next MAIL is out of sequence
		}
		line(cmdCase(g, "DATA"))
		bodyLines = genBody(g, o, from, tos)
		if o.SmallLimit && g.Chance(0.6) && (ntx <= 8 || c.MaxBytes <= 1000) { // long sessions stay small: many big bodies are megabytes
			// pad the body to straddle the limit
			target := c.MaxBytes + g.Pick2(-2, -1, 0, 1, 2, c.MaxBytes, 9*c.MaxBytes)
			cur := 0
			for _, l := range bodyLines {
				cur += len(l) + 1
			}
			if target > cur+1 && target < 3000000 {
				bodyLines = append(bodyLines, strings.Repeat("p", target-cur-1))
			}
		}
		b.WriteString(StuffLines(bodyLines))
	}
	garbage()
	if g.Chance(0.7) {
		line(cmdCase(g, "QUIT"))
	}
	return []byte(b.String())
}

// Describe renders a stream for evidence samples.
func Describe(stream []byte) string {
	s := fmt.Sprintf("%q", string(stream))
	if len(s) > 400 {
		s = s[:400] + "..."
	}
	return s
}

// GenStorm: one long session in which k transactions in a row are refused for their size at the end of DATA (no
// SIZE parameter, or one that lies), followed by transactions that fit. Whatever a server keeps per refusal (a
// counter, a slot, a buffer) and forgets to give back shows only after many refusals on the same server. The
// configuration is made permissive (every RCPT accepted) so that each transaction reaches its DATA block.
func GenStorm(g *vh.Gen, c *Cfg, pool []string, k int) []byte {
	c.DA, c.DS = true, true
	c.Acc, c.Rej, c.Sto, c.Dis, c.RejO = "", "", "", "", ""
	c.MaxRcpt = 200
	c.MaxBytes = g.Pick2(10, 100, 1000)
	var b strings.Builder
	line := func(s string) { b.WriteString(s); b.WriteString("\r\n") }
	line(g.Pick("HELO", "EHLO") + " storm.example")
	tx := func(n int, lie bool) {
		from := "s" + strconv.Itoa(n) + "@" + pool[0]
		mail := "MAIL FROM:<" + from + ">"
		if lie {
			mail += " SIZE=" + strconv.Itoa(1+g.Intn(c.MaxBytes))
		}
		line(mail)
		line("RCPT TO:<" + g.Pick(locals...) + "@" + pool[g.Intn(2)] + ">")
		line("DATA")
	}
	for i := 0; i < k; i++ {
		tx(i, g.Chance(0.3))
		b.WriteString(StuffLines([]string{"Subject: big " + strconv.Itoa(i), "", strings.Repeat("p", c.MaxBytes+g.Pick2(1, 2, 7, c.MaxBytes))}))
		if g.Chance(0.1) {
			line("NOOP")
		}
	}
	for i := 0; i < 1+g.Intn(2); i++ {
		tx(k+i, false)
		b.WriteString(StuffLines([]string{"x"}))
	}
	line("QUIT")
	return []byte(b.String())
}

// GenErrorStorm: one session with k faulty lines in a row (unknown words, commands out of sequence, bad arguments,
// refused recipients), each of which is owed exactly one 5xx, followed by an ordinary transaction that is owed its
// replies and its delivery. Whatever a server counts per error shows only after many errors on one connection.
func GenErrorStorm(g *vh.Gen, c *Cfg, pool []string, k int) []byte {
	c.DA, c.DS = true, true
	c.Acc, c.Rej, c.Sto, c.Dis, c.RejO = "", "", "", "", ""
	c.MaxRcpt = 200
	var b strings.Builder
	line := func(s string) { b.WriteString(s); b.WriteString("\r\n") }
	line("HELO errors.example")
	for i := 0; i < k; i++ {
		l := g.Pick("FOO bar", "HELP", "TURN", "SEND x", "EXPN list", "RCPT TO:<a@" + pool[0] + ">", "DATA", "MAIL", "MAIL TO:<a@b.com>",
			"MAIL FROM:a@b.com", "RCPT", "HELLO", "QUI", "AUTH CRAM-MD5", "MAIL FROM:<a b@c.org>", "DATA now")
		line(l)
	}
	line("MAIL FROM:<s@" + pool[0] + ">")
	line("RCPT TO:<" + g.Pick("alice", "bob", "carol") + "@" + pool[g.Intn(2)] + ">")
	line("DATA")
	b.WriteString(StuffLines([]string{"Subject: after the errors", "", "x"}))
	line("NOOP")
	line("QUIT")
	return []byte(b.String())
}

// LockStepField renders a stream as a connection field in which the client is NOT pipelining at some points: it
// hands the bytes after such a point over only when the server has read everything before it ("&" boundaries, see
// ParseNet). mode 0: after every DATA command (the classic client: wait for the 354, then send the block AND whatever
// it has queued behind it); 1: after every line that is not inside a block; 2: after a random half of the lines.
func LockStepField(g *vh.Gen, stream []byte, mode int) string {
	var parts []string
	var cur []byte
	inData := false
	flush := func() {
		if len(cur) > 0 {
			parts = append(parts, vh.H(cur))
			cur = nil
		}
	}
	for _, l := range bytes.SplitAfter(stream, []byte("\n")) {
		if len(l) == 0 {
			continue
		}
		cur = append(cur, l...)
		t := strings.ToUpper(strings.TrimRight(string(l), "\r\n"))
		if inData {
			if t == "." {
				inData = false
			}
			continue
		}
		isData := t == "DATA"
		if isData {
			inData = true
		}
		switch {
		case mode == 0 && isData, mode == 1, mode == 2 && g.Chance(0.5):
			flush()
		}
	}
	flush()
	if len(parts) == 0 {
		return "-"
	}
	return strings.Join(parts, "&")
}

// GenCollision: recipients of ONE transaction that name the same destination mailbox through different domains
// (local naming: alice@a, ALICE@b, alice+tag@b), under a store policy that treats those domains differently - one is
// stored, the other discarded - in every order. Whatever a server remembers "per destination" instead of per
// recipient (a decision, a counter, a buffer) shows only here: with one recipient, with distinct local parts or with a
// policy that treats all domains alike nothing differs.
func GenCollision(g *vh.Gen, c *Cfg, pool []string) []byte {
	a, b := "kept.example", "dropped.example"
	if g.Chance(0.5) {
		a, b = pool[0], pool[1]
		if a == b || strings.HasPrefix(a, "[") || strings.HasPrefix(b, "[") {
			a, b = "kept.example", "dropped.example"
		}
	}
	c.Naming = g.Pick("local", "local", "local", "full", "domain")
	c.DA, c.Acc, c.Rej, c.RejO = true, "", "", ""
	c.MaxRcpt = 200
	if g.Chance(0.5) {
		c.DS, c.Sto, c.Dis = true, "", b
	} else {
		c.DS, c.Sto, c.Dis = false, a, ""
	}
	var sb strings.Builder
	line := func(s string) { sb.WriteString(s); sb.WriteString("\r\n") }
	line(g.Pick("HELO", "EHLO") + " collide.example")
	for t := 0; t < 1+g.Intn(3); t++ {
		base := g.Pick("alice", "bob", "d.e", "u_v")
		other := g.Pick("carol", "zed")
		vs := []string{base + "@" + a, base + "@" + b, strings.ToUpper(base) + "@" + b, base + "+tag@" + a, base + "+z@" + b,
			other + "@" + b, other + "@" + a, base + "@" + strings.ToUpper(b)}
		for i := len(vs) - 1; i > 0; i-- {
			j := g.Intn(i + 1)
			vs[i], vs[j] = vs[j], vs[i]
		}
		vs = vs[:2+g.Intn(4)]
		line("MAIL FROM:<s" + strconv.Itoa(t) + "@" + a + ">")
		for _, v := range vs {
			line("RCPT TO:<" + v + ">")
		}
		line("DATA")
		sb.WriteString(StuffLines([]string{"Subject: collide " + strconv.Itoa(t), "", "body " + strconv.Itoa(g.Intn(1000))}))
	}
	line("QUIT")
	return []byte(sb.String())
}

package smtpd

import (
	"io"
	"net"
	"sync"
	"time"
)

// An in-memory, buffered, half-closeable connection pair. It stands for a TCP connection whose
// client writes its whole byte stream, half-closes, and reads every reply until the server
// closes; unlike loopback TCP it cannot lose replies to a RST when the server closes while
// unread client bytes are still queued (e.g. data pipelined after QUIT).

type halfPipe struct {
	mu      sync.Mutex
	cond    *sync.Cond
	buf     []byte
	later   [][]byte // chunks the writer sends after a pause each (see Pause)
	quiet   []bool   // quiet[i]: later[i] follows WITHOUT a pause - the writer sent it once the reader had read everything before it (a lock-step client)
	wclosed bool     // the writer closed: the reader sees EOF after draining
	rclosed bool     // the reader closed: writes fail, buffered data is dropped
	fin     string   // how the stream ends once drained and closed: "" / "eof", "idle", "err"
	wlimit  int      // > 0: writes fail once wlimit-1 lines have been written (the reader is gone); 0 = never
	wlines  int
}

// timeoutErr is what a read returns when its deadline passes (net.Error with Timeout() true).
type timeoutErr struct{}

func (timeoutErr) Error() string   { return "i/o timeout" }
func (timeoutErr) Timeout() bool   { return true }
func (timeoutErr) Temporary() bool { return true }

// brokenErr is a read error that is neither EOF nor a timeout.
type brokenErr struct{}

func (brokenErr) Error() string   { return "read: connection reset by peer" }
func (brokenErr) Timeout() bool   { return false }
func (brokenErr) Temporary() bool { return false }

func newHalfPipe() *halfPipe {
	p := &halfPipe{}
	p.cond = sync.NewCond(&p.mu)
	return p
}

func (p *halfPipe) write(b []byte) (int, error) {
	p.mu.Lock()
	defer p.mu.Unlock()
	if p.wclosed || p.rclosed {
		return 0, io.ErrClosedPipe
	}
	if p.wlimit > 0 {
		if p.wlines >= p.wlimit-1 {
			return 0, brokenErr{}
		}
		for _, c := range b {
			if c == '\n' {
				p.wlines++
			}
		}
	}
	p.buf = append(p.buf, b...)
	p.cond.Broadcast()
	return len(b), nil
}

func (p *halfPipe) read(b []byte) (int, error) {
	p.mu.Lock()
	defer p.mu.Unlock()
	for len(p.buf) == 0 && !p.wclosed && !p.rclosed {
		p.cond.Wait()
	}
	if p.rclosed {
		return 0, io.ErrClosedPipe
	}
	for len(p.buf) == 0 && len(p.later) > 0 {
		q := len(p.quiet) > 0 && p.quiet[0]
		p.buf, p.later = p.later[0], p.later[1:]
		if len(p.quiet) > 0 {
			p.quiet = p.quiet[1:]
		}
		if !q {
			// the writer pauses here for longer than the reader's deadline: this read times out (once),
			// the next chunk is there for the read after it
			return 0, timeoutErr{}
		}
		// a lock-step client: it wrote the next chunk only now that the reader has consumed everything before it
	}
	if len(p.buf) == 0 {
		switch p.fin {
		case "idle":
			return 0, timeoutErr{} // the writer stays silent for good: every read times out
		case "err":
			return 0, brokenErr{}
		}
		return 0, io.EOF
	}
	n := copy(b, p.buf)
	p.buf = p.buf[n:]
	return n, nil
}

func (p *halfPipe) closeWrite() {
	p.mu.Lock()
	p.wclosed = true
	p.cond.Broadcast()
	p.mu.Unlock()
}

// finish: the writer has sent everything (first chunk already written, the others follow a pause each).
func (p *halfPipe) finish(later [][]byte, fin string) { p.finishQ(later, nil, fin) }

func (p *halfPipe) finishQ(later [][]byte, quiet []bool, fin string) {
	p.mu.Lock()
	p.later, p.quiet, p.fin, p.wclosed = later, quiet, fin, true
	p.cond.Broadcast()
	p.mu.Unlock()
}

func (p *halfPipe) closeRead() {
	p.mu.Lock()
	p.rclosed = true
	p.buf = nil
	p.cond.Broadcast()
	p.mu.Unlock()
}

// BufConn is one end of the pair.
type BufConn struct {
	r, w          *halfPipe
	local, remote net.Addr
}

// NewBufConnPair returns the (client, server) ends.
func NewBufConnPair() (*BufConn, *BufConn) {
	a, b := newHalfPipe(), newHalfPipe()
	ca := &net.TCPAddr{IP: net.IPv4(127, 0, 0, 1), Port: 40000}
	sa := &net.TCPAddr{IP: net.IPv4(127, 0, 0, 1), Port: 2500}
	return &BufConn{r: a, w: b, local: ca, remote: sa}, &BufConn{r: b, w: a, local: sa, remote: ca}
}

func (c *BufConn) Read(b []byte) (int, error)  { return c.r.read(b) }
func (c *BufConn) Write(b []byte) (int, error) { return c.w.write(b) }

// Close closes both directions.
func (c *BufConn) Close() error {
	c.w.closeWrite()
	c.r.closeRead()
	return nil
}

// CloseWrite half-closes: the peer reads EOF after the data already written.
func (c *BufConn) CloseWrite() error { c.w.closeWrite(); return nil }

// FailPeerWritesAfter makes the peer's writes fail from its (k+1)-th line on (k lines get through, the
// greeting included): the peer's reader has gone away.
func (c *BufConn) FailPeerWritesAfter(k int) {
	c.r.mu.Lock()
	c.r.wlimit = k + 1
	c.r.mu.Unlock()
}

// Finish ends the writer's side: the chunks in later arrive after a pause each (one timed-out read of the
// peer per pause), then the stream ends by EOF ("eof"), by silence ("idle": every further read of the peer
// times out) or by a connection error ("err"). Deadlines are not clocks here: a read "times out" exactly
// where the script says the client pauses.
func (c *BufConn) Finish(later [][]byte, fin string) { c.w.finish(later, fin) }

// FinishQ is Finish with quiet[i] saying that later[i] follows without a pause (lock-step hand-over).
func (c *BufConn) FinishQ(later [][]byte, quiet []bool, fin string) { c.w.finishQ(later, quiet, fin) }

func (c *BufConn) LocalAddr() net.Addr                { return c.local }
func (c *BufConn) RemoteAddr() net.Addr               { return c.remote }
func (c *BufConn) SetDeadline(t time.Time) error      { return nil }
func (c *BufConn) SetReadDeadline(t time.Time) error  { return nil }
func (c *BufConn) SetWriteDeadline(t time.Time) error { return nil }

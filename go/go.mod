module verifharness

go 1.21

// Root marker only: every build uses -modfile=.work/go-<hash>.mod generated from go.mod.tmpl
// (replace => $VERIF_REPO, requirements copied from the repository go.mod).

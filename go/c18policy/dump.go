// Package c18policy reads the tables of a bluemonday policy by reflection (the fields are
// unexported; reflect may read them, only Interface()/Set are refused). Used by the translator
// (go/cmd/pins/c18.go -> coq/Gen/SanitizePolicy.v) and by the C18 driver (which re-compiles the
// attribute patterns to supply the per-attribute match results the model takes as input).
package c18policy

import (
	"fmt"
	"reflect"
	"sort"

	"github.com/microcosm-cc/bluemonday"
)

// Dump is the part of a policy the token-level model (coq/Model/SanitizePolicy.v) uses.
type Dump struct {
	Flags       map[string]bool
	Patterns    []string                    // distinct attribute value patterns, sorted; index = id
	ElAttrs     map[string]map[string][]int // element -> attribute -> pattern ids (-1: no pattern)
	GlobalAttrs map[string][]int
	NoAttrsOK   []string
	SkipContent []string
	Schemes     []string
	Unsupported []string // policy features in use that the model does not cover
}

var flagNames = []string{"addSpaces", "requireNoFollow", "requireNoFollowFullyQualifiedLinks", "requireNoReferrer",
	"requireNoReferrerFullyQualifiedLinks", "requireCrossOriginAnonymous", "addTargetBlankToFullyQualifiedLinks",
	"requireParseableURLs", "allowRelativeURLs", "allowComments", "allowUnsafe", "allowDataAttributes"}

// fields that must be empty / nil for the model to apply
var mustBeEmpty = []string{"elsMatchingAndAttrs", "elsAndStyles", "elsMatchingAndStyles", "globalStyles",
	"allowURLSchemeRegexps", "setOfElementsMatchingAllowedWithoutAttrs", "requireSandboxOnIFrame"}
var mustBeNil = []string{"srcRewriter"}

func keys(m reflect.Value) []string {
	var out []string
	for _, k := range m.MapKeys() {
		out = append(out, k.String())
	}
	sort.Strings(out)
	return out
}

func patternOf(ap reflect.Value) string {
	r := ap.FieldByName("regexp")
	if r.IsNil() {
		return ""
	}
	return r.Elem().FieldByName("expr").String()
}

// Read dumps p. It fails on a bluemonday whose Policy has not the expected fields.
func Read(p *bluemonday.Policy) (d *Dump, err error) {
	defer func() {
		if r := recover(); r != nil {
			err = fmt.Errorf("bluemonday.Policy has not the expected shape: %v", r)
		}
	}()
	// make sure the lazily built maps exist
	p.Sanitize("<p>x</p>")
	v := reflect.ValueOf(p).Elem()
	d = &Dump{Flags: map[string]bool{}, ElAttrs: map[string]map[string][]int{}, GlobalAttrs: map[string][]int{}}
	known := map[string]bool{"initialized": true}
	for _, f := range flagNames {
		d.Flags[f] = v.FieldByName(f).Bool()
		known[f] = true
	}
	if d.Flags["allowDataAttributes"] {
		d.Unsupported = append(d.Unsupported, "allowDataAttributes")
	}
	if d.Flags["allowComments"] {
		d.Unsupported = append(d.Unsupported, "allowComments")
	}
	for _, f := range mustBeEmpty {
		known[f] = true
		if v.FieldByName(f).Len() != 0 {
			d.Unsupported = append(d.Unsupported, f)
		}
	}
	for _, f := range mustBeNil {
		known[f] = true
		if !v.FieldByName(f).IsNil() {
			d.Unsupported = append(d.Unsupported, f)
		}
	}
	for _, f := range []string{"elsAndAttrs", "globalAttrs", "allowURLSchemes", "setOfElementsAllowedWithoutAttrs", "setOfElementsToSkipContent"} {
		known[f] = true
	}
	// a field this reader does not know about is a feature the model does not cover
	for i := 0; i < v.NumField(); i++ {
		if n := v.Type().Field(i).Name; !known[n] {
			fv := v.Field(i)
			zero := false
			switch fv.Kind() {
			case reflect.Bool:
				zero = !fv.Bool()
			case reflect.Map, reflect.Slice:
				zero = fv.Len() == 0
			case reflect.Func, reflect.Ptr, reflect.Interface:
				zero = fv.IsNil()
			}
			if !zero {
				d.Unsupported = append(d.Unsupported, "unknown field "+n)
			}
		}
	}
	pats := map[string]bool{}
	collect := func(apl reflect.Value) []string {
		var out []string
		for i := 0; i < apl.Len(); i++ {
			s := patternOf(apl.Index(i))
			out = append(out, s)
			if s != "" {
				pats[s] = true
			}
		}
		return out
	}
	raw := map[string]map[string][]string{}
	ea := v.FieldByName("elsAndAttrs")
	for _, el := range ea.MapKeys() {
		raw[el.String()] = map[string][]string{}
		am := ea.MapIndex(el)
		for _, a := range am.MapKeys() {
			raw[el.String()][a.String()] = collect(am.MapIndex(a))
		}
	}
	rawG := map[string][]string{}
	ga := v.FieldByName("globalAttrs")
	for _, a := range ga.MapKeys() {
		rawG[a.String()] = collect(ga.MapIndex(a))
	}
	for s := range pats {
		d.Patterns = append(d.Patterns, s)
	}
	sort.Strings(d.Patterns)
	id := map[string]int{"": -1}
	for i, s := range d.Patterns {
		id[s] = i
	}
	conv := func(xs []string) []int {
		out := make([]int, len(xs))
		for i, s := range xs {
			out[i] = id[s]
		}
		return out
	}
	for el, am := range raw {
		d.ElAttrs[el] = map[string][]int{}
		for a, xs := range am {
			d.ElAttrs[el][a] = conv(xs)
		}
	}
	for a, xs := range rawG {
		d.GlobalAttrs[a] = conv(xs)
	}
	d.NoAttrsOK = keys(v.FieldByName("setOfElementsAllowedWithoutAttrs"))
	d.SkipContent = keys(v.FieldByName("setOfElementsToSkipContent"))
	us := v.FieldByName("allowURLSchemes")
	d.Schemes = keys(us)
	for _, k := range us.MapKeys() {
		if us.MapIndex(k).Len() != 0 {
			d.Unsupported = append(d.Unsupported, "custom URL policy for scheme "+k.String())
		}
	}
	return d, nil
}

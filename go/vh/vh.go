// Package vh holds what every property driver shares: the line protocol, hex fields, the
// deterministic generator, and the gen/exec command dispatch.
//
// A driver is `drive_cxx gen -seed N -tier quick|thorough` (prints input lines) and
// `drive_cxx exec` (reads input lines on stdin, runs each against the real code and prints
// `<input line> => <observation fields>`). Fields are space-free tokens.
package vh

import (
	"bufio"
	"encoding/hex"
	"flag"
	"fmt"
	"math/rand"
	"os"
	"runtime/debug"
	"strconv"
	"strings"
)

// H encodes a byte string as a field ("-" when empty).
func H(b []byte) string {
	if len(b) == 0 {
		return "-"
	}
	return hex.EncodeToString(b)
}

// HS encodes a string as a field.
func HS(s string) string { return H([]byte(s)) }

// U decodes a hex field.
func U(f string) []byte {
	if f == "-" {
		return nil
	}
	b, err := hex.DecodeString(f)
	if err != nil {
		panic("bad hex field: " + f)
	}
	return b
}

// US decodes a hex field to a string.
func US(f string) string { return string(U(f)) }

// I formats an integer field.
func I(i int) string { return strconv.Itoa(i) }

// AtoI parses an integer field.
func AtoI(f string) int {
	i, err := strconv.Atoi(f)
	if err != nil {
		panic("bad int field: " + f)
	}
	return i
}

// B formats a boolean field.
func B(b bool) string {
	if b {
		return "1"
	}
	return "0"
}

// Gen is the single random stream of a driver.
type Gen struct {
	*rand.Rand
	Tier string
	Seed int64
	w    *bufio.Writer
}

// Side is a second stream for one family of cases, derived from the run's seed and the family's name: a family
// added later draws from its own stream, so the cases of every other family stay what they were.
func (g *Gen) Side(name string) *Gen {
	h := int64(1469598103934665603)
	for i := 0; i < len(name); i++ {
		h = (h ^ int64(name[i])) * 1099511628211
	}
	return &Gen{Rand: rand.New(rand.NewSource(g.Seed ^ h)), Tier: g.Tier, Seed: g.Seed, w: g.w}
}

// Emit prints one input line.
func (g *Gen) Emit(kind string, fields ...string) {
	g.w.WriteString(kind)
	for _, f := range fields {
		g.w.WriteByte(' ')
		g.w.WriteString(f)
	}
	g.w.WriteByte('\n')
}

// Pick returns one of the strings.
func (g *Gen) Pick(xs ...string) string { return xs[g.Intn(len(xs))] }

// Pick2 returns one of the ints.
func (g *Gen) Pick2(xs ...int) int { return xs[g.Intn(len(xs))] }

// Pick2s is Pick (kept for call sites that weight by repetition).
func (g *Gen) Pick2s(xs ...string) string { return xs[g.Intn(len(xs))] }

// Chance is true with probability p.
func (g *Gen) Chance(p float64) bool { return g.Float64() < p }

// N scales a count by tier.
func (g *Gen) N(quick, thorough int) int {
	if g.Tier == "thorough" {
		return thorough
	}
	return quick
}

// Main dispatches gen / exec.
func Main(gen func(g *Gen), exec func(kind string, in []string) []string) {
	if len(os.Args) < 2 {
		fmt.Fprintln(os.Stderr, "usage: gen -seed N -tier T | exec")
		os.Exit(2)
	}
	switch os.Args[1] {
	case "gen":
		fs := flag.NewFlagSet("gen", flag.ExitOnError)
		seed := fs.Int64("seed", 1, "seed")
		tier := fs.String("tier", "quick", "tier")
		fs.Parse(os.Args[2:])
		w := bufio.NewWriterSize(os.Stdout, 1<<20)
		g := &Gen{Rand: rand.New(rand.NewSource(*seed)), Tier: *tier, Seed: *seed, w: w}
		gen(g)
		w.Flush()
	case "exec":
		sc := bufio.NewScanner(os.Stdin)
		sc.Buffer(make([]byte, 1<<20), 1<<30)
		w := bufio.NewWriterSize(os.Stdout, 1<<20)
		defer w.Flush()
		for sc.Scan() {
			line := sc.Text()
			if line == "" {
				continue
			}
			parts := strings.Split(line, " ")
			outs := safeExec(exec, parts[0], parts[1:])
			w.WriteString(line)
			w.WriteString(" =>")
			for _, o := range outs {
				w.WriteByte(' ')
				w.WriteString(o)
			}
			w.WriteByte('\n')
			w.Flush() // one case per flush: if the code under test kills the process, the culprit is the next input
		}
	default:
		fmt.Fprintln(os.Stderr, "unknown mode", os.Args[1])
		os.Exit(2)
	}
}

// safeExec turns a panic of the code under test into an observation.
func safeExec(exec func(string, []string) []string, kind string, in []string) (outs []string) {
	defer func() {
		if r := recover(); r != nil {
			fmt.Fprintf(os.Stderr, "panic in case %s: %v\n%s\n", kind, r, debug.Stack())
			outs = []string{"PANIC", HS(fmt.Sprint(r))}
		}
	}()
	return exec(kind, in)
}

// PortClash reports whether an outcome is the SETUPERR of a listener that found its port taken: a port picked by
// bind-note-release can be taken by another process of the machine in between. That is the sandbox, not the
// implementation: callers start the case again in a fresh child process.
func PortClash(f []string) bool {
	if len(f) < 2 || f[0] != "SETUPERR" || f[1] == "-" {
		return false
	}
	b, err := hex.DecodeString(f[1])
	return err == nil && strings.Contains(string(b), "address already in use")
}

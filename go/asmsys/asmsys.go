// Assembled-system stream shared by C12, C15 and C19: each case is a child process that builds
// the whole server with server.FullAssembly from the environment and starts it with
// Services.Start exactly as cmd/inbucket does, so that the wiring in pkg/server/lifecycle.go and
// the event plumbing between the components are inside the checks. The verdict of a case is
// computed here from the property's own clause (stated next to each kind); `ok` or `fail:<why>`.
//
//	asm12 <period> <n>        C12: retention wiring; a file store already holding n messages of mixed ages is
//	                          served for 1.5 s with the given retention period ("0s", "-1h", "24h"): a period
//	                          <= 0 never deletes anything, and no scan may run before the scanner's first minute
//	asm15 <events> <history>  C15: the hub fed through the real extension events (not hub.Dispatch): a burst of
//	                          stored events; an attached monitor sees each once, in order; a late joiner gets the
//	                          retained history
//	asm19 <busy>              C19: one listener cannot bind (busy = smtp|pop3|web|none): after the failure is
//	                          notified and shutdown requested, both drains and the retention Join return
package asmsys

import (
	"context"
	"fmt"
	"net"
	"net/mail"
	"os"
	"os/exec"
	"sort"
	"strconv"
	"strings"
	"sync"
	"time"

	"bytes"

	"github.com/inbucket/inbucket/v3/pkg/config"
	"github.com/inbucket/inbucket/v3/pkg/extension"
	"github.com/inbucket/inbucket/v3/pkg/extension/event"
	"github.com/inbucket/inbucket/v3/pkg/message"
	"github.com/inbucket/inbucket/v3/pkg/server"
	"github.com/inbucket/inbucket/v3/pkg/storage"
	"github.com/inbucket/inbucket/v3/pkg/storage/file"
	"github.com/inbucket/inbucket/v3/pkg/storage/mem"
	"github.com/rs/zerolog"
	"verifharness/vh"
)

// Gen emits the assembled-system cases of one property ("asm12", "asm15" or "asm19").
func Gen(g *vh.Gen, kind string) {
	switch kind {
	case "asm12":
		for _, p := range []string{"0s", "0s", "24h", "1h", "0s"} {
			g.Emit("asm12", p, vh.I(3+g.Intn(7)))
		}
	case "asm15":
		for i := 0; i < g.N(4, 40); i++ {
			g.Emit("asm15", vh.I(g.Pick2(50, 200, 400)), vh.I(g.Pick2(0, 5, 30, 150)))
		}
	case "asm19":
		for _, b := range []string{"smtp", "pop3", "web", "none"} {
			g.Emit("asm19", b)
		}
	}
}

// Is reports whether a case kind belongs to this stream.
func Is(kind string) bool { return strings.HasPrefix(kind, "asm1") }

// Exec runs one case in a child process of the same binary.
func Exec(kind string, in []string) []string {
	cmd := exec.Command(os.Args[0], append([]string{"asmchild", kind}, in...)...)
	var out, errb bytes.Buffer
	cmd.Stdout, cmd.Stderr = &out, &errb
	if err := cmd.Start(); err != nil {
		return []string{"fail:cannot-start-child"}
	}
	done := make(chan error, 1)
	go func() { done <- cmd.Wait() }()
	select {
	case err := <-done:
		if err != nil {
			t := errb.String()
			if len(t) > 400 {
				t = t[len(t)-400:]
			}
			return []string{"fail:process-died", vh.HS(t)}
		}
	case <-time.After(90 * time.Second):
		cmd.Process.Kill()
		return []string{"fail:hang"}
	}
	f := strings.Fields(out.String())
	if len(f) == 0 {
		return []string{"fail:no-output"}
	}
	return f
}

func baseEnv(dir string) {
	for _, kv := range os.Environ() {
		if strings.HasPrefix(kv, "INBUCKET_") {
			os.Unsetenv(strings.SplitN(kv, "=", 2)[0])
		}
	}
	os.Setenv("INBUCKET_SMTP_ADDR", "127.0.0.1:0")
	os.Setenv("INBUCKET_POP3_ADDR", "127.0.0.1:0")
	os.Setenv("INBUCKET_WEB_ADDR", "127.0.0.1:0")
	os.Setenv("INBUCKET_WEB_UIDIR", dir)
	storage.Constructors["file"] = file.New
	storage.Constructors["memory"] = mem.New
}

func assemble() (*server.Services, context.CancelFunc, chan struct{}, error) {
	conf, err := config.Process()
	if err != nil {
		return nil, nil, nil, err
	}
	svc, err := server.FullAssembly(conf)
	if err != nil {
		return nil, nil, nil, err
	}
	ctx, cancel := context.WithCancel(context.Background())
	ready := make(chan struct{})
	svc.Start(ctx, func() { close(ready) })
	return svc, cancel, ready, nil
}

func within(d time.Duration, f func()) bool {
	done := make(chan struct{})
	go func() { f(); close(done) }()
	select {
	case <-done:
		return true
	case <-time.After(d):
		return false
	}
}

func shutdown(svc *server.Services, cancel context.CancelFunc) string {
	cancel()
	var r []string
	if !within(5*time.Second, svc.SMTPServer.Drain) {
		r = append(r, "smtp-drain-did-not-return")
	}
	if !within(5*time.Second, svc.POP3Server.Drain) {
		r = append(r, "pop3-drain-did-not-return")
	}
	if !within(5*time.Second, svc.RetentionScanner.Join) {
		r = append(r, "retention-join-did-not-return")
	}
	return strings.Join(r, ",")
}

type delivery struct {
	meta event.MessageMetadata
	body string
}

func child12(period string, n int) {
	dir, _ := os.MkdirTemp(os.Getenv("VERIF_WORKDIR"), "asm12")
	defer os.RemoveAll(dir)
	baseEnv(dir)
	// a previous run left mail of mixed ages
	st, err := file.New(config.Storage{Params: map[string]string{"path": dir}}, extension.NewHost())
	if err != nil {
		fmt.Println("fail:setup")
		return
	}
	ages := []time.Duration{72 * time.Hour, 30 * time.Minute, 26 * time.Hour, 2 * time.Second, 500 * time.Hour, time.Minute, 49 * time.Hour, 10 * time.Hour, 3 * time.Hour}
	for i := 0; i < n; i++ {
		body := fmt.Sprintf("Subject: m%d\r\n\r\nbody %d\r\n", i, i)
		d := &message.Delivery{Meta: event.MessageMetadata{Mailbox: fmt.Sprintf("box%d", i%3), From: &mail.Address{Address: "a@b.org"},
			To: []*mail.Address{{Address: "c@d.org"}}, Date: time.Now().Add(-ages[i%len(ages)]), Subject: fmt.Sprintf("m%d", i), Size: int64(len(body))},
			Reader: strings.NewReader(body)}
		if _, err := st.AddMessage(d); err != nil {
			fmt.Println("fail:setup-add")
			return
		}
	}
	os.Setenv("INBUCKET_STORAGE_TYPE", "file")
	os.Setenv("INBUCKET_STORAGE_PARAMS", "path:"+dir)
	os.Setenv("INBUCKET_STORAGE_RETENTIONPERIOD", period)
	os.Setenv("INBUCKET_STORAGE_RETENTIONSLEEP", "1ms")
	svc, cancel, ready, err := assemble()
	if err != nil {
		fmt.Println("fail:assembly:" + vh.HS(err.Error()))
		return
	}
	select {
	case <-ready:
	case <-time.After(20 * time.Second):
		fmt.Println("fail:not-ready")
		return
	}
	time.Sleep(1500 * time.Millisecond)
	if r := shutdown(svc, cancel); r != "" {
		fmt.Println("fail:" + r)
		return
	}
	st2, _ := file.New(config.Storage{Params: map[string]string{"path": dir}}, extension.NewHost())
	// a period of zero never deletes anything; a positive period never deletes a message younger than it
	// (whether the expired ones are already gone after 1.5 s is the scanner's business: it may wait a minute)
	pd, _ := time.ParseDuration(period)
	must := 0
	for i := 0; i < n; i++ {
		if pd <= 0 || ages[i%len(ages)] < pd-time.Minute {
			must++
		}
	}
	left, young := 0, 0
	now := time.Now()
	var surv []int
	st2.VisitMailboxes(func(ms []storage.Message) bool {
		for _, m := range ms {
			left++
			if i, err := strconv.Atoi(strings.TrimPrefix(m.Subject(), "m")); err == nil {
				surv = append(surv, i)
			}
			if pd <= 0 || now.Sub(m.Date()) < pd-time.Minute {
				young++
			}
		}
		return true
	})
	if young != must {
		fmt.Printf("fail:retention-deleted-%d-of-%d-unexpired-messages-in-the-served-store(period=%s,left=%d-of-%d)\n", must-young, must, period, left, n)
		return
	}
	// the survivors (message numbers), the ages in seconds and the seconds served: the C12 runner compares
	// them with what the run-loop model (Model/RetentionLoop.v) says must be there
	sort.Ints(surv)
	ss := make([]string, len(surv))
	for i, v := range surv {
		ss[i] = strconv.Itoa(v)
	}
	as := make([]string, n)
	for i := 0; i < n; i++ {
		as[i] = strconv.Itoa(int(ages[i%len(ages)] / time.Second))
	}
	fmt.Printf("ok S=%s A=%s T=1\n", strings.Join(ss, ","), strings.Join(as, ","))
}

type recListener struct {
	mu   sync.Mutex
	seen []string
}

func (l *recListener) Receive(m event.MessageMetadata) error {
	l.mu.Lock()
	l.seen = append(l.seen, m.ID)
	l.mu.Unlock()
	return nil
}
func (l *recListener) Delete(mailbox, id string) error { return nil }
func (l *recListener) snapshot() []string {
	l.mu.Lock()
	defer l.mu.Unlock()
	return append([]string(nil), l.seen...)
}

func child15(events, history int) {
	dir, _ := os.MkdirTemp(os.Getenv("VERIF_WORKDIR"), "asm15")
	defer os.RemoveAll(dir)
	baseEnv(dir)
	os.Setenv("INBUCKET_STORAGE_TYPE", "memory")
	os.Setenv("INBUCKET_WEB_MONITORHISTORY", fmt.Sprint(history))
	svc, cancel, ready, err := assemble()
	if err != nil {
		fmt.Println("fail:assembly:" + vh.HS(err.Error()))
		return
	}
	<-ready
	first := &recListener{}
	svc.MsgHub.AddListener(first)
	svc.MsgHub.Sync()
	// the server's own path: stores emit through the extension host, the hub listens there
	want := make([]string, events)
	for i := 0; i < events; i++ {
		want[i] = fmt.Sprint(100 + i)
		svc.ExtHost.Events.AfterMessageStored.Emit(&event.MessageMetadata{Mailbox: "box", ID: want[i], From: &mail.Address{Address: "a@b.org"},
			To: []*mail.Address{{Address: "c@d.org"}}, Date: time.Now(), Subject: "s", Size: 10})
	}
	// quiescence: the async broker and the hub have nothing pending any more
	deadline := time.Now().Add(10 * time.Second)
	for time.Now().Before(deadline) {
		svc.MsgHub.Sync()
		if len(first.snapshot()) >= events {
			break
		}
		time.Sleep(5 * time.Millisecond)
	}
	time.Sleep(50 * time.Millisecond)
	svc.MsgHub.Sync()
	got := first.snapshot()
	if strings.Join(got, ",") != strings.Join(want, ",") {
		fmt.Printf("fail:attached-monitor-did-not-see-each-event-once-in-order(got=%d,want=%d,first-diff=%s)\n", len(got), len(want), firstDiff(got, want))
		shutdown(svc, cancel)
		return
	}
	late := &recListener{}
	svc.MsgHub.AddListener(late)
	svc.MsgHub.Sync()
	time.Sleep(20 * time.Millisecond)
	svc.MsgHub.Sync()
	h := history
	if h > events {
		h = events
	}
	wantLate := want[events-h:]
	if strings.Join(late.snapshot(), ",") != strings.Join(wantLate, ",") {
		fmt.Printf("fail:late-joiner-history-differs(got=%d,want=%d,first-diff=%s)\n", len(late.snapshot()), len(wantLate), firstDiff(late.snapshot(), wantLate))
		shutdown(svc, cancel)
		return
	}
	if r := shutdown(svc, cancel); r != "" {
		fmt.Println("fail:" + r)
		return
	}
	fmt.Println("ok")
}

func firstDiff(a, b []string) string {
	for i := 0; i < len(a) && i < len(b); i++ {
		if a[i] != b[i] {
			return fmt.Sprintf("at%d:%s/%s", i, a[i], b[i])
		}
	}
	return fmt.Sprintf("len%d/%d", len(a), len(b))
}

func child19(busy string) {
	dir, _ := os.MkdirTemp(os.Getenv("VERIF_WORKDIR"), "asm19")
	defer os.RemoveAll(dir)
	baseEnv(dir)
	os.Setenv("INBUCKET_STORAGE_TYPE", "memory")
	var hold net.Listener
	if busy != "none" {
		l, err := net.Listen("tcp4", "127.0.0.1:0")
		if err != nil {
			fmt.Println("fail:setup")
			return
		}
		hold = l
		defer hold.Close()
		os.Setenv("INBUCKET_"+strings.ToUpper(busy)+"_ADDR", l.Addr().String())
	}
	svc, cancel, ready, err := assemble()
	if err != nil {
		fmt.Println("fail:assembly:" + vh.HS(err.Error()))
		return
	}
	if busy == "none" {
		select {
		case <-ready:
		case <-time.After(20 * time.Second):
			fmt.Println("fail:not-ready")
			return
		}
	} else {
		select {
		case <-svc.Notify():
		case <-time.After(20 * time.Second):
			fmt.Println("fail:bind-failure-not-notified")
			return
		}
	}
	// what main() does next: cancel, drain SMTP, drain POP3, join the retention scanner
	if r := shutdown(svc, cancel); r != "" {
		fmt.Println("fail:" + r)
		return
	}
	fmt.Println("ok")
}

// ChildMain must be called first thing in main(): it runs a case when this process is the child
// of Exec and reports whether it did.
func ChildMain() bool {
	if len(os.Args) > 3 && os.Args[1] == "asmchild" {
		zerolog.SetGlobalLevel(zerolog.Disabled)
		a := os.Args[3:]
		switch os.Args[2] {
		case "asm12":
			child12(a[0], vh.AtoI(a[1]))
		case "asm15":
			child15(vh.AtoI(a[0]), vh.AtoI(a[1]))
		case "asm19":
			child19(a[0])
		}
		return true
	}
	return false
}

package main

import (
	"bytes"
	"net/http"
	"context"
	"encoding/json"
	"fmt"
	"io"
	"net/http/httptest"
	"strconv"
	"strings"
	"sync"
	"time"

	"github.com/gorilla/websocket"
	"github.com/inbucket/inbucket/v3/pkg/config"
	"github.com/inbucket/inbucket/v3/pkg/extension"
	"github.com/inbucket/inbucket/v3/pkg/extension/event"
	"github.com/inbucket/inbucket/v3/pkg/message"
	"github.com/inbucket/inbucket/v3/pkg/msghub"
	"github.com/inbucket/inbucket/v3/pkg/policy"
	"github.com/inbucket/inbucket/v3/pkg/rest"
	"github.com/inbucket/inbucket/v3/pkg/server/web"
	"github.com/inbucket/inbucket/v3/pkg/storage"
	"github.com/inbucket/inbucket/v3/pkg/storage/mem"
	"verifharness/vh"
)

// ws <H> <ver> <filter|-> <pre> <burst> <dels>
//
// The monitor as a browser reaches it: the real HTTP handlers (rest.SetupRoutes on web.Router, served by an
// httptest server), a real WebSocket client on /api/v<ver>/monitor/messages[/<filter>], the real WSReader /
// WSWriter goroutines. <pre> events are dispatched before the client connects (history replay, H slots), then
// <burst> events are dispatched in one go — the client does not read meanwhile, so events queue for the socket
// writer — followed by <dels> deletes of the most recent ids. Then the client reads message by message:
//
//	field 1  T=<events in the order received>   (same notation as kind hub)
//	field 2  multi=<number of WebSocket messages that did not carry exactly ONE JSON document>
//
// The protocol is one event per WebSocket message (a browser's JSON.parse / gorilla's ReadJSON keep only the
// first document of a message and lose the rest).

var routesOnce sync.Once

func wsMsg(i int) (string, string) {
	mb := "a"
	if i%3 == 0 {
		mb = "b"
	}
	return mb, strconv.Itoa(i)
}

// docsOf splits one WebSocket text message into its JSON documents.
func docsOf(b []byte) []json.RawMessage {
	dec := json.NewDecoder(bytes.NewReader(b))
	var out []json.RawMessage
	for {
		var r json.RawMessage
		if err := dec.Decode(&r); err != nil {
			if err != io.EOF {
				out = append(out, json.RawMessage("null"))
			}
			return out
		}
		out = append(out, r)
	}
}

func eventOf(ver string, doc json.RawMessage) (evt, bool) {
	if ver == "1" {
		var h struct {
			Mailbox string `json:"mailbox"`
			ID      string `json:"id"`
		}
		if json.Unmarshal(doc, &h) != nil || h.ID == "" {
			return evt{}, false
		}
		return evt{false, h.Mailbox, h.ID}, true
	}
	var e struct {
		Variant    string `json:"variant"`
		Identifier *struct {
			Mailbox string `json:"mailbox"`
			ID      string `json:"id"`
		} `json:"identifier"`
		Header *struct {
			Mailbox string `json:"mailbox"`
			ID      string `json:"id"`
		} `json:"header"`
	}
	if json.Unmarshal(doc, &e) != nil {
		return evt{}, false
	}
	switch {
	case e.Variant == "message-deleted" && e.Identifier != nil:
		return evt{true, e.Identifier.Mailbox, e.Identifier.ID}, true
	case e.Variant == "message-stored" && e.Header != nil:
		return evt{false, e.Header.Mailbox, e.Header.ID}, true
	}
	return evt{}, false
}

func runWS(h int, ver, filter string, pre, burst, dels int) []string {
	ctx, cancel := context.WithCancel(context.Background())
	defer cancel()
	host := extension.NewHost()
	hub := msghub.New(h, host)
	go hub.Start(ctx)
	storage.Constructors["memory"] = mem.New
	st, err := mem.New(config.Storage{MailboxMsgCap: 10}, host)
	if err != nil {
		return []string{"SETUP-FAILED"}
	}
	conf := &config.Root{MailboxNaming: config.LocalNaming}
	mm := &message.StoreManager{AddrPolicy: &policy.Addressing{Config: conf}, Store: st, ExtHost: host}
	routesOnce.Do(func() { rest.SetupRoutes(web.Router.PathPrefix("/api/").Subrouter()) })
	web.NewServer(conf, mm, hub) // points the handlers' context at THIS hub
	srv := httptest.NewServer(web.Router)
	defer srv.Close()

	n := 0
	dispatch := func(k int) {
		for i := 0; i < k; i++ {
			mb, id := wsMsg(n)
			n++
			hub.Dispatch(event.MessageMetadata{Mailbox: mb, ID: id, Date: time.Now()})
		}
	}
	dispatch(pre)
	if !syncWait(hub, syncDeadline) {
		return []string{"SETUP-BLOCKED"}
	}
	url := "ws" + strings.TrimPrefix(srv.URL, "http") + "/api/v" + ver + "/monitor/messages"
	if filter != "-" {
		url += "/" + vh.US(filter)
	}
	conn, _, err := websocket.DefaultDialer.Dial(url, nil)
	if err != nil {
		return []string{"DIAL-FAILED", vh.HS(err.Error())}
	}
	defer conn.Close()
	// the listener is constructed by the handler after the upgrade: wait until its join has run
	time.Sleep(30 * time.Millisecond)
	syncWait(hub, syncDeadline)
	// the burst, while the client is not reading
	dispatch(burst)
	for i := 0; i < dels && i < n; i++ {
		mb, id := wsMsg(n - 1 - i)
		hub.Delete(mb, id)
	}
	syncWait(hub, 3*syncDeadline)
	var got []evt
	multi, maxdocs := 0, 0
	for {
		conn.SetReadDeadline(time.Now().Add(400 * time.Millisecond))
		mt, data, err := conn.ReadMessage()
		if err != nil {
			break
		}
		if mt != websocket.TextMessage {
			continue
		}
		docs := docsOf(data)
		if len(docs) != 1 {
			multi++
		}
		if len(docs) > maxdocs {
			maxdocs = len(docs)
		}
		// what a real client keeps: the first document only
		if len(docs) > 0 {
			if e, ok := eventOf(ver, docs[0]); ok {
				got = append(got, e)
			}
		}
	}
	return []string{fmtEvents(false, got), fmt.Sprintf("multi=%d", multi)}
}

// wslong <ver> <seconds> <gap>   (thorough tier only: it takes <seconds> of real time)
//
// A healthy monitor stays attached: a real v<ver> WebSocket client that keeps reading (and so answers pings)
// while an event is dispatched every <gap> seconds for <seconds> seconds — longer than the reader's pong
// deadline. The keep-alive (ping every pingPeriod < pongWait) must keep the connection up whatever the event
// traffic: the client must still be connected at the end and hold every event.
//
//	field 1  T=<events received>     field 2  alive=<0|1> (the connection was still up when the last event was sent)
func runWSLong(ver string, seconds, gap int) []string {
	ctx, cancel := context.WithCancel(context.Background())
	defer cancel()
	host := extension.NewHost()
	hub := msghub.New(0, host)
	go hub.Start(ctx)
	storage.Constructors["memory"] = mem.New
	st, err := mem.New(config.Storage{MailboxMsgCap: 10}, host)
	if err != nil {
		return []string{"SETUP-FAILED"}
	}
	conf := &config.Root{MailboxNaming: config.LocalNaming}
	mm := &message.StoreManager{AddrPolicy: &policy.Addressing{Config: conf}, Store: st, ExtHost: host}
	routesOnce.Do(func() { rest.SetupRoutes(web.Router.PathPrefix("/api/").Subrouter()) })
	web.NewServer(conf, mm, hub)
	srv := httptest.NewServer(web.Router)
	defer srv.Close()
	url := "ws" + strings.TrimPrefix(srv.URL, "http") + "/api/v" + ver + "/monitor/messages"
	conn, _, err := websocket.DefaultDialer.Dial(url, nil)
	if err != nil {
		return []string{"DIAL-FAILED"}
	}
	defer conn.Close()
	var mu sync.Mutex
	var got []evt
	dead := make(chan struct{})
	go func() { // the client keeps reading; gorilla answers pings from inside ReadMessage
		defer close(dead)
		for {
			_, data, err := conn.ReadMessage()
			if err != nil {
				return
			}
			docs := docsOf(data)
			if len(docs) > 0 {
				if e, ok := eventOf(ver, docs[0]); ok {
					mu.Lock()
					got = append(got, e)
					mu.Unlock()
				}
			}
		}
	}()
	time.Sleep(50 * time.Millisecond)
	n := 0
	for t := 0; t < seconds; t += gap {
		hub.Dispatch(event.MessageMetadata{Mailbox: "a", ID: strconv.Itoa(n), Date: time.Now()})
		n++
		time.Sleep(time.Duration(gap) * time.Second)
	}
	alive := "1"
	select {
	case <-dead:
		alive = "0"
	default:
	}
	hub.Dispatch(event.MessageMetadata{Mailbox: "a", ID: strconv.Itoa(n), Date: time.Now()})
	time.Sleep(300 * time.Millisecond)
	mu.Lock()
	defer mu.Unlock()
	return []string{fmtEvents(false, got), "alive=" + alive}
}

// wsbad <n> <burst>
//
// Requests that hit the monitor routes (v1 and v2, all-mailboxes and per-mailbox) WITHOUT being valid WebSocket
// upgrades — plain GET, upgrade headers with a foreign Origin, wrong Sec-WebSocket-Version, HEAD, POST —, <n> rounds of
// them; none may leave anything behind in the hub. Then <burst> events are dispatched with a healthy harness listener
// attached and the hub must come to rest.
//
//	field 1  refused=<requests answered with something other than 101>/<requests made>
//	field 2  T=<events the healthy listener got>      field 3  ok | blocked
func runWSBad(n, burst int) []string {
	ctx, cancel := context.WithCancel(context.Background())
	defer cancel()
	host := extension.NewHost()
	hub := msghub.New(5, host)
	go hub.Start(ctx)
	storage.Constructors["memory"] = mem.New
	st, err := mem.New(config.Storage{MailboxMsgCap: 10}, host)
	if err != nil {
		return []string{"SETUP-FAILED"}
	}
	conf := &config.Root{MailboxNaming: config.LocalNaming}
	mm := &message.StoreManager{AddrPolicy: &policy.Addressing{Config: conf}, Store: st, ExtHost: host}
	routesOnce.Do(func() { rest.SetupRoutes(web.Router.PathPrefix("/api/").Subrouter()) })
	web.NewServer(conf, mm, hub)
	srv := httptest.NewServer(web.Router)
	defer srv.Close()
	healthy := &mock{fail: -1}
	hub.AddListener(healthy)
	syncWait(hub, syncDeadline)

	paths := []string{"/api/v1/monitor/messages", "/api/v1/monitor/messages/a", "/api/v2/monitor/messages", "/api/v2/monitor/messages/a"}
	type shape struct {
		method string
		hdr    map[string]string
	}
	up := map[string]string{"Connection": "Upgrade", "Upgrade": "websocket", "Sec-WebSocket-Key": "dGhlIHNhbXBsZSBub25jZQ==", "Sec-WebSocket-Version": "13"}
	with := func(k, v string) map[string]string {
		m := map[string]string{}
		for a, b := range up {
			m[a] = b
		}
		m[k] = v
		return m
	}
	shapes := []shape{
		{"GET", nil},                                      // a browser navigating to the URL
		{"GET", with("Origin", "http://evil.example")},    // cross-origin upgrade: refused by the upgrader
		{"GET", with("Sec-WebSocket-Version", "8")},       // unsupported protocol version
		{"HEAD", nil}, {"POST", nil},
		{"GET", map[string]string{"Connection": "Upgrade", "Upgrade": "websocket"}}, // no key
	}
	client := &http.Client{Timeout: 2 * time.Second}
	made, refused := 0, 0
	for r := 0; r < n; r++ {
		for _, p := range paths {
			for _, sh := range shapes {
				req, err := http.NewRequest(sh.method, srv.URL+p, nil)
				if err != nil {
					continue
				}
				for k, v := range sh.hdr {
					req.Header.Set(k, v)
				}
				made++
				resp, err := client.Do(req)
				if err != nil {
					refused++
					continue
				}
				if resp.StatusCode != 101 {
					refused++
				}
				resp.Body.Close()
			}
		}
	}
	for i := 0; i < burst; i++ {
		mb, id := wsMsg(i)
		if !within(syncDeadline, func() { hub.Dispatch(event.MessageMetadata{Mailbox: mb, ID: id, Date: time.Now()}) }) {
			break
		}
	}
	res := "ok"
	if !syncWait(hub, syncDeadline) {
		res = "blocked"
	}
	healthy.mu.Lock()
	t := fmtEvents(false, healthy.rec)
	healthy.mu.Unlock()
	return []string{fmt.Sprintf("refused=%d/%d", refused, made), t, res}
}

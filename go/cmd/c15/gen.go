package main

import (
	"fmt"
	"strings"

	"verifharness/asmsys"
	"verifharness/vh"
)

// Generators of hub histories. Message ids are per-mailbox counters (as the stores issue them);
// a small share of cases re-dispatches an id or deletes an unknown one on purpose.

var mailboxes = []string{"a", "b", "c"}

type sc struct {
	g       *vh.Gen
	ops     []string
	nextID  map[string]int
	live    [][2]string // dispatched (mb,id), for deletes
	ls      []int       // listener ids created
	open    map[int]bool
	real    map[int]bool
	pending map[int]int // upper bound of events buffered for a real listener
	nextL   int
	capQ    int
}

func newSc(g *vh.Gen) *sc {
	return &sc{g: g, nextID: map[string]int{}, open: map[int]bool{}, real: map[int]bool{}, pending: map[int]int{}, capQ: 100}
}

func (s *sc) add(o string) { s.ops = append(s.ops, o) }

func (s *sc) bump(n int) {
	for k := range s.pending {
		if s.open[k] {
			s.pending[k] += n
		}
	}
}

func (s *sc) dispatch() {
	mb := s.g.Pick(mailboxes...)
	var id string
	if len(s.live) > 0 && s.g.Chance(0.04) {
		p := s.live[s.g.Intn(len(s.live))]
		mb, id = p[0], p[1]
	} else {
		s.nextID[mb]++
		id = fmt.Sprint(s.nextID[mb])
	}
	s.live = append(s.live, [2]string{mb, id})
	s.add("d:" + vh.HS(mb) + ":" + vh.HS(id))
	s.bump(1)
}

func (s *sc) del() {
	if len(s.live) == 0 || s.g.Chance(0.1) {
		s.add("x:" + vh.HS(s.g.Pick(mailboxes...)) + ":" + vh.HS("zz"))
	} else {
		i := s.g.Intn(len(s.live))
		if s.g.Chance(0.5) { // recent ones are more likely to be in the history
			i = len(s.live) - 1 - s.g.Intn(min(len(s.live), 4))
		}
		p := s.live[i]
		s.add("x:" + vh.HS(p[0]) + ":" + vh.HS(p[1]))
	}
	s.bump(1)
}

func (s *sc) newListener(hist int) int {
	k := s.nextL
	s.nextL++
	s.ls = append(s.ls, k)
	s.open[k] = true
	if s.g.Chance(0.22) {
		f := "-"
		if s.g.Chance(0.6) {
			f = fmt.Sprint(s.g.Intn(6))
		}
		s.add(fmt.Sprintf("m%d:%s", k, f))
		return k
	}
	s.real[k] = true
	s.pending[k] = hist
	mb := ""
	if s.g.Chance(0.5) {
		mb = s.g.Pick(mailboxes...)
	}
	s.add(fmt.Sprintf("a%d:%s:%s", k, s.g.Pick("1", "2", "2"), vh.HS(mb)))
	return k
}

func (s *sc) pickOpenReal() (int, bool) {
	var c []int
	for _, k := range s.ls {
		if s.open[k] && s.real[k] {
			c = append(c, k)
		}
	}
	if len(c) == 0 {
		return 0, false
	}
	return c[s.g.Intn(len(c))], true
}

func (s *sc) line(n int) (string, string) { return fmt.Sprint(n), strings.Join(s.ops, ",") }

// mixed: joins, leaves, closes, writer steps and syncs at random moments; never near capacity.
func genMixed(g *vh.Gen, withGate bool) (string, string) {
	s := newSc(g)
	n := []int{0, 0, 1, 2, 3, 5, 8}[g.Intn(7)]
	steps := 8 + g.Intn(40)
	gated := false
	gateLeft := 0
	for i := 0; i < steps; i++ {
		r := g.Float64()
		switch {
		case r < 0.42:
			s.dispatch()
		case r < 0.54:
			s.del()
		case r < 0.66 && len(s.ls) < 5:
			s.newListener(n)
		case r < 0.72:
			if k, ok := s.pickOpenReal(); ok {
				s.add(fmt.Sprintf("c%d", k))
				s.open[k] = false
			}
		case r < 0.76 && len(s.ls) > 0:
			k := s.ls[g.Intn(len(s.ls))]
			s.add(fmt.Sprintf("r%d", k))
		case r < 0.88:
			if k, ok := s.pickOpenReal(); ok {
				s.add(fmt.Sprintf("w%d:%d", k, 1+g.Intn(6)))
			}
		case r < 0.93 && !gated:
			s.add("s")
		case withGate && !gated && r < 0.99:
			s.add("g")
			gated = true
			gateLeft = 2 + g.Intn(8)
			s.bump(1)
		}
		if gated {
			gateLeft--
			if gateLeft <= 0 {
				s.add("u")
				gated = false
			}
		}
	}
	if gated && g.Chance(0.7) {
		s.add("u")
	}
	return s.line(n)
}

// boundary: one real listener is filled to exactly its capacity (or one below) without ever
// making the hub wait, drained in part, filled again; a second listener must see everything.
func genBoundary(g *vh.Gen) (string, string) {
	s := newSc(g)
	n := g.Intn(4)
	s.add("a0:2:-")
	s.add(fmt.Sprintf("a1:%s:-", g.Pick("1", "2")))
	s.ls, s.nextL = []int{0, 1}, 2
	fill := 100 - g.Intn(2)
	for i := 0; i < fill; i++ {
		s.nextID["a"]++
		s.add("d:" + vh.HS("a") + ":" + vh.HS(fmt.Sprint(s.nextID["a"])))
	}
	s.add("s")
	k := 1 + g.Intn(100)
	s.add(fmt.Sprintf("w0:%d", k))
	s.add(fmt.Sprintf("w1:%d", 100))
	for i := 0; i < k; i++ {
		s.nextID["b"]++
		s.add("d:" + vh.HS("b") + ":" + vh.HS(fmt.Sprint(s.nextID["b"])))
	}
	if g.Chance(0.5) {
		s.add("c0")
	}
	return s.line(n)
}

// slow: a listener that is never drained; once more than its capacity is on its way the hub
// waits for it (the open finding). Closing it, or a writer step, lets the hub go on.
func genSlow(g *vh.Gen) (string, string) {
	s := newSc(g)
	n := g.Intn(3)
	s.add(fmt.Sprintf("a0:%s:-", g.Pick("1", "2")))
	s.add("a1:2:-")
	s.add("m2:-")
	extra := 1 + g.Intn(4)
	for i := 0; i < 100+extra; i++ {
		if i == 50 {
			s.add("w1:100")
		}
		s.nextID["a"]++
		s.add("d:" + vh.HS("a") + ":" + vh.HS(fmt.Sprint(s.nextID["a"])))
	}
	s.add("s")
	switch g.Intn(3) {
	case 0:
		s.add("c0")
	case 1:
		s.add(fmt.Sprintf("w0:%d", 5+g.Intn(20)))
	}
	return s.line(n)
}

// replay: a history longer than the listener queue. The constructor (what the web handler calls BEFORE
// it starts the socket writer) must return at once — AddListener only submits an op —; the replay then
// fills the queue and waits for the writer (slow-listener-like stall), proceeds as the writer drains, and a
// witness listener and Sync keep working.
func genReplay(g *vh.Gen) (string, string) {
	s := newSc(g)
	n := 101 + []int{0, 49, g.Intn(30)}[g.Intn(3)]
	s.add("m1:-")
	for i := 0; i < n+g.Intn(5); i++ {
		s.nextID["a"]++
		s.add("d:" + vh.HS("a") + ":" + vh.HS(fmt.Sprint(s.nextID["a"])))
	}
	s.add(fmt.Sprintf("a0:%s:-", g.Pick("1", "2")))
	s.add("s")
	s.add("w0:100")
	s.add("s")
	s.nextID["b"]++
	s.add("d:" + vh.HS("b") + ":" + vh.HS(fmt.Sprint(s.nextID["b"])))
	s.add("s")
	return s.line(n)
}

// closeUnderLoad: listener 0 is never drained; its queue (100) fills, the hub waits for it holding one
// more event, and the op queue (100) fills behind it. THEN listener 0 is closed with everything still
// buffered. The hub must go on: Sync returns and listener 1 (one mailbox only, so that it never fills)
// has every event of its mailbox. (Close = close(done) BEFORE RemoveListener: with the order swapped the
// RemoveListener submission waits for room in the op queue, done is never closed, the hub stays stuck.)
func genCloseUnderLoad(g *vh.Gen) (string, string) {
	s := newSc(g)
	n := g.Intn(3)
	s.add(fmt.Sprintf("a0:%s:-", g.Pick("1", "2")))
	s.add("a1:2:" + vh.HS("b"))
	disp := func(k int) {
		for i := 0; i < k; i++ {
			mb := "a"
			if i%4 == 3 {
				mb = "b"
			}
			s.nextID[mb]++
			s.add("d:" + vh.HS(mb) + ":" + vh.HS(fmt.Sprint(s.nextID[mb])))
		}
	}
	disp(100) // queue of listener 0 exactly full, nobody waits
	s.add("s")
	disp(101) // one in the hub's hand (blocked on listener 0) + a full op queue
	s.add("c0")
	s.add("s")
	disp(3 + g.Intn(5))
	return s.line(n)
}

func gen(g *vh.Gen) {
	// the assembled system (server.FullAssembly + Services.Start), one child process per case
	asmsys.Gen(g, "asm15")
	// requests on the monitor routes that are not valid WebSocket upgrades must leave nothing behind in the hub
	for _, c := range [][2]int{{1, 150}, {3, 260}, {1, 1200}} {
		g.Emit("wsbad", fmt.Sprint(c[0]), fmt.Sprint(c[1]))
	}
	for i := 0; i < g.N(0, 20); i++ {
		g.Emit("wsbad", fmt.Sprint(1+g.Intn(4)), fmt.Sprint([]int{101, 150, 400, 3000}[g.Intn(4)]))
	}
	// thorough tier only (66 s of real time each): a healthy monitor with steady events stays attached beyond the pong deadline
	for i := 0; i < g.N(0, 1); i++ {
		g.Emit("wslong", "1", "66", "20")
		g.Emit("wslong", "2", "66", "20")
	}
	// the monitor through the real HTTP handlers and a real WebSocket client: one event per WebSocket message
	for _, c := range [][6]string{{"0", "2", "-", "0", "150", "3"}, {"60", "2", "-", "60", "10", "0"}, {"150", "2", "-", "150", "120", "5"},
		{"5", "1", "-", "8", "130", "2"}, {"100", "1", "-", "100", "3", "0"}, {"30", "2", vh.HS("a"), "40", "140", "4"}} {
		g.Emit("ws", c[0], c[1], c[2], c[3], c[4], c[5])
	}
	for i := 0; i < g.N(10, 300); i++ {
		h := []int{0, 3, 30, 52, 80, 150}[g.Intn(6)]
		filter := "-"
		if g.Chance(0.3) {
			filter = vh.HS(g.Pick("a", "b"))
		}
		g.Emit("ws", fmt.Sprint(h), g.Pick("1", "2", "2"), filter, fmt.Sprint(g.Intn(160)), fmt.Sprint(3+g.Intn(148)), fmt.Sprint(g.Intn(6)))
	}
	for i := 0; i < g.N(6, 200); i++ {
		g.Emit("fedstop", fmt.Sprint([]int{2, 10, 60, 200}[g.Intn(4)]))
	}
	// the hub fed through the asynchronous brokers (stored, then deleted), with and without a failing monitor
	for i := 0; i < g.N(60, 3000); i++ {
		events := []int{1, 5, 20, 60, 200, 400}[g.Intn(6)]
		history := []int{0, 1, 5, 30, 150}[g.Intn(5)]
		dels, fail := "-", "-"
		if g.Chance(0.5) {
			var ds []string
			seen := map[int]bool{}
			for j := 0; j < 1+g.Intn(6); j++ {
				back := g.Intn(min(events, max(history, 1)+3))
				id := 100 + events - 1 - back
				if !seen[id] {
					seen[id] = true
					ds = append(ds, fmt.Sprint(id))
				}
			}
			dels = strings.Join(ds, ",")
		}
		if g.Chance(0.4) {
			fail = fmt.Sprint(g.Intn(events + 2))
		}
		g.Emit("fed", fmt.Sprint(events), fmt.Sprint(history), dels, fail)
	}
	for i := 0; i < g.N(2, 40); i++ {
		n, ops := genCloseUnderLoad(g)
		g.Emit("hub", n, ops)
	}
	for i := 0; i < g.N(1500, 60000); i++ {
		n, ops := genMixed(g, false)
		g.Emit("hub", n, ops)
	}
	for i := 0; i < g.N(1500, 60000); i++ {
		n, ops := genMixed(g, true)
		g.Emit("hub", n, ops)
	}
	for i := 0; i < g.N(40, 1500); i++ {
		n, ops := genBoundary(g)
		g.Emit("hub", n, ops)
	}
	for i := 0; i < g.N(3, 60); i++ {
		n, ops := genSlow(g)
		g.Emit("hub", n, ops)
	}
	for i := 0; i < g.N(2, 30); i++ {
		n, ops := genReplay(g)
		g.Emit("hub", n, ops)
	}
}

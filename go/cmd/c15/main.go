// Driver for C15 (message hub and its real WebSocket listeners).
//
//	hub <N> <op,op,…>  =>  one field per op, the final Sync, one field per listener
//
// ops (performed by ONE goroutine, in order, against a real msghub.Hub with history N):
//
//	a<k>:<1|2>:<mailbox>  construct the real v1/v2 socket listener k (constructor hook; it calls hub.AddListener)
//	m<k>:<f>              register harness listener k (abstract Listener contract); f = "-" never fails, else it
//	                      returns an error from its (f+1)-th call on
//	d:<mb>:<id>           hub.Dispatch          x:<mb>:<id>  hub.Delete
//	r<k>                  hub.RemoveListener(k)
//	c<k>                  listener k's Close() — what the socket reader/writer do when the peer goes away —
//	                      with whatever is still buffered for it (read off only at the end of the case)
//	w<k>:<n>              the socket writer takes up to n events from k's queue
//	s                     hub.Sync() with a deadline
//	g / u                 park the hub goroutine inside the broadcast of a gate message (a harness listener
//	                      blocks in Receive) / let it go on. Ops submitted in between stay queued in the hub,
//	                      so a Close or a writer step happens "while events are on their way".
//
//	fed <events> <history> <dels> <fail>  the hub as the server feeds it: msghub.New registers itself on the
//	                      extension host; stored (and then deleted) events are EMITTED on ExtHost.Events, i.e. go
//	                      through the asynchronous broker into hub.Dispatch / hub.Delete; monitor 1 attached before,
//	                      (a monitor failing after <fail> calls,) monitor 2 attached after everything settled
//
// Before c, w, g and at the end the driver brings the hub to rest with Sync (deadline); a Sync that does
// not return in time is the observation "blocked".
package main

import (
	"context"
	"errors"
	"os"
	"strconv"
	"strings"
	"sync"
	"time"

	"github.com/inbucket/inbucket/v3/pkg/extension"
	"github.com/inbucket/inbucket/v3/pkg/extension/event"
	"github.com/inbucket/inbucket/v3/pkg/msghub"
	"github.com/inbucket/inbucket/v3/pkg/rest"
	"github.com/rs/zerolog"
	"verifharness/asmsys"
	"verifharness/vh"
)

const gateMailbox = "zz-gate"

var syncDeadline = 1000 * time.Millisecond

var gateTimeouts int

// stuckCalls counts submitting calls that did not return; after a few the tree is evidently broken in a way
// that makes them hang and the driver stops spending a full deadline on each.
var stuckCalls int

func callWait() time.Duration {
	if stuckCalls >= 10 {
		return 50 * time.Millisecond
	}
	return syncDeadline
}

type evt struct {
	del    bool
	mb, id string
}

func (e evt) String() string {
	k := "s"
	if e.del {
		k = "x"
	}
	return k + ":" + vh.HS(e.mb) + ":" + vh.HS(e.id)
}

func fmtEvents(blocked bool, es []evt) string {
	parts := make([]string, 0, len(es))
	for _, e := range es {
		if e.mb == gateMailbox {
			continue
		}
		parts = append(parts, e.String())
	}
	p := "T="
	if blocked {
		p = "BT="
	}
	return p + strings.Join(parts, ";")
}

// mock is the abstract Listener: records, and from its (fail+1)-th call on returns an error.
type mock struct {
	mu   sync.Mutex
	rec  []evt
	fail int // -1: never
}

func (m *mock) call(e evt) error {
	m.mu.Lock()
	defer m.mu.Unlock()
	if m.fail == 0 {
		return errors.New("mock listener failed")
	}
	if m.fail > 0 {
		m.fail--
	}
	m.rec = append(m.rec, e)
	return nil
}
func (m *mock) Receive(msg event.MessageMetadata) error {
	return m.call(evt{false, msg.Mailbox, msg.ID})
}
func (m *mock) Delete(mailbox string, id string) error { return m.call(evt{true, mailbox, id}) }

// gate parks the hub goroutine inside the broadcast of a message to gateMailbox.
type gate struct {
	entered chan struct{}
	release chan struct{}
}

func (g *gate) Receive(msg event.MessageMetadata) error {
	if msg.Mailbox == gateMailbox {
		g.entered <- struct{}{}
		<-g.release
	}
	return nil
}
func (g *gate) Delete(mailbox string, id string) error { return nil }

type lstn struct {
	real     *rest.VerifListener
	mock     *mock
	closed   bool
	buffered int // events in the queue when it was closed
}

func syncWait(hub *msghub.Hub, d time.Duration) bool {
	done := make(chan struct{})
	go func() {
		hub.Sync()
		close(done)
	}()
	select {
	case <-done:
		return true
	case <-time.After(d):
	}
	// On doubt wait again, twice as long, before judging "blocked".
	select {
	case <-done:
		return true
	case <-time.After(2 * d):
		return false
	}
}

func within(d time.Duration, f func()) bool {
	done := make(chan struct{})
	go func() {
		f()
		close(done)
	}()
	select {
	case <-done:
		return true
	case <-time.After(d):
		return false
	}
}

func runHub(n int, ops []string) []string {
	ctx, cancel := context.WithCancel(context.Background())
	hub := msghub.New(n, extension.NewHost())
	go hub.Start(ctx)
	g := &gate{entered: make(chan struct{}, 1), release: make(chan struct{})}
	if !within(syncDeadline, func() { hub.AddListener(g) }) {
		cancel()
		return []string{"SETUP-STUCK"}
	}
	var order []int
	ls := map[int]*lstn{}
	gated := false
	knownBlocked := false
	outs := make([]string, 0, len(ops)+8)

	// rest brings the hub to rest unless it is parked at the gate; true = blocked.
	rest_ := func() bool {
		if gated {
			return false
		}
		if knownBlocked {
			return true
		}
		if !syncWait(hub, syncDeadline) {
			knownBlocked = true
			return true
		}
		return false
	}
	takeN := func(l *lstn, n int) []evt {
		var es []evt
		avail := l.real.QueueLen()
		cnt := 0
		for i := 0; i < avail && cnt < n; i++ {
			del, mb, id, ok := l.real.Take()
			if !ok {
				break
			}
			es = append(es, evt{del, mb, id})
			if mb != gateMailbox {
				cnt++
			}
		}
		return es
	}

	defer func() {
		// Leave nothing parked: release the gate, close every listener, stop the hub.
		if gated {
			close(g.release)
		}
		for _, k := range order {
			if l := ls[k]; l.real != nil && !l.closed {
				lr := l.real
				go lr.Close()
			}
		}
		cancel()
	}()

	for _, o := range ops {
		f := strings.Split(o, ":")
		switch {
		case f[0] == "d":
			msg := event.MessageMetadata{Mailbox: vh.US(f[1]), ID: vh.US(f[2])}
			if !within(syncDeadline, func() { hub.Dispatch(msg) }) {
				outs = append(outs, "stuck")
				continue
			}
			outs = append(outs, ".")
		case f[0] == "x":
			mb, id := vh.US(f[1]), vh.US(f[2])
			if !within(syncDeadline, func() { hub.Delete(mb, id) }) {
				outs = append(outs, "stuck")
				continue
			}
			outs = append(outs, ".")
		case f[0] == "s":
			if gated {
				outs = append(outs, "blocked")
			} else if rest_() {
				outs = append(outs, "blocked")
			} else {
				outs = append(outs, "ok")
			}
		case f[0] == "g":
			if rest_() {
				outs = append(outs, "blocked")
				continue
			}
			hub.Dispatch(event.MessageMetadata{Mailbox: gateMailbox, ID: "g"})
			wait := syncDeadline
			if gateTimeouts >= 10 { // the tree is broken in a way that defeats the gate: do not spend minutes on it
				wait = 50 * time.Millisecond
			}
			select {
			case <-g.entered:
				gated = true
				outs = append(outs, "ok")
			case <-time.After(wait):
				gateTimeouts++
				outs = append(outs, "blocked")
			}
		case f[0] == "u":
			if gated {
				g.release <- struct{}{}
				gated = false
			}
			outs = append(outs, ".")
		case o[0] == 'a':
			k := vh.AtoI(f[0][1:])
			if _, dup := ls[k]; dup {
				outs = append(outs, ".")
				continue
			}
			var l *rest.VerifListener
			mb := vh.US(f[2])
			ok := within(callWait(), func() {
				if f[1] == "1" {
					l = rest.VerifNewListenerV1(hub, mb)
				} else {
					l = rest.VerifNewListenerV2(hub, mb)
				}
			})
			if !ok {
				stuckCalls++
				outs = append(outs, "stuck")
				continue
			}
			ls[k] = &lstn{real: l}
			order = append(order, k)
			outs = append(outs, ".")
		case o[0] == 'm':
			k := vh.AtoI(f[0][1:])
			if _, dup := ls[k]; dup {
				outs = append(outs, ".")
				continue
			}
			m := &mock{fail: -1}
			if f[1] != "-" {
				m.fail = vh.AtoI(f[1])
			}
			// AddListener only submits an op: it must return without waiting for the hub.
			if !within(callWait(), func() { hub.AddListener(m) }) {
				stuckCalls++
				outs = append(outs, "stuck")
				continue
			}
			ls[k] = &lstn{mock: m}
			order = append(order, k)
			outs = append(outs, ".")
		case o[0] == 'r':
			k := vh.AtoI(f[0][1:])
			if l, ok := ls[k]; ok {
				if l.real != nil {
					hub.RemoveListener(l.real.Listener())
				} else {
					hub.RemoveListener(l.mock)
				}
			}
			outs = append(outs, ".")
		case o[0] == 'w':
			k := vh.AtoI(f[0][1:])
			n := vh.AtoI(f[1])
			b := rest_()
			l, ok := ls[k]
			if !ok || l.real == nil || l.closed {
				outs = append(outs, ".")
				continue
			}
			if gated {
				n = 1 << 30
			}
			es := takeN(l, n)
			knownBlocked = false
			outs = append(outs, fmtEvents(b, es))
		case o[0] == 'c':
			k := vh.AtoI(f[0][1:])
			b := rest_()
			l, ok := ls[k]
			if !ok || l.real == nil || l.closed {
				outs = append(outs, ".")
				continue
			}
			// Close with the events still buffered. Nobody reads the queue from now on (the socket
			// writer is gone); what was buffered is read off at the end of the case.
			l.buffered = l.real.QueueLen()
			lr := l.real
			within(syncDeadline, func() { lr.Close() })
			l.closed = true
			knownBlocked = false
			outs = append(outs, fmtEvents(b, nil))
		default:
			outs = append(outs, "?")
		}
	}
	if gated {
		g.release <- struct{}{}
		gated = false
	}
	b := rest_()
	if b {
		outs = append(outs, "blocked")
	} else {
		outs = append(outs, "ok")
	}
	for _, k := range order {
		l := ls[k]
		switch {
		case l.closed:
			var es []evt
			for i := 0; i < l.buffered; i++ {
				del, mb, id, ok := l.real.Take()
				if !ok {
					break
				}
				es = append(es, evt{del, mb, id})
			}
			outs = append(outs, fmtEvents(b, es))
		case l.real != nil:
			outs = append(outs, fmtEvents(b, takeN(l, 1<<30)))
		default:
			l.mock.mu.Lock()
			outs = append(outs, fmtEvents(b, l.mock.rec))
			l.mock.mu.Unlock()
		}
	}
	return outs
}

func fmtTags(es []evt) string {
	parts := make([]string, len(es))
	for i, e := range es {
		k := "s"
		if e.del {
			k = "x"
		}
		parts[i] = k + e.id
	}
	return strings.Join(parts, ";")
}

func (m *mock) count() int {
	m.mu.Lock()
	defer m.mu.Unlock()
	return len(m.rec)
}

func runFed(events, history int, dels []string, fail int) []string {
	ctx, cancel := context.WithCancel(context.Background())
	defer cancel()
	host := extension.NewHost()
	hub := msghub.New(history, host)
	go hub.Start(ctx)
	first := &mock{fail: -1}
	if !within(syncDeadline, func() { hub.AddListener(first) }) || !syncWait(hub, syncDeadline) {
		return []string{"fail:setup"}
	}
	if fail >= 0 {
		hub.AddListener(&mock{fail: fail})
		syncWait(hub, syncDeadline)
	}
	settle := func(want int) bool {
		deadline := time.Now().Add(10 * time.Second)
		for time.Now().Before(deadline) {
			if first.count() >= want {
				break
			}
			time.Sleep(2 * time.Millisecond)
		}
		time.Sleep(20 * time.Millisecond) // anything beyond what is wanted would show up now
		return syncWait(hub, syncDeadline)
	}
	for i := 0; i < events; i++ {
		host.Events.AfterMessageStored.Emit(&event.MessageMetadata{Mailbox: "box", ID: strconv.Itoa(100 + i)})
	}
	ok := settle(events)
	for _, d := range dels {
		host.Events.AfterMessageDeleted.Emit(&event.MessageMetadata{Mailbox: "box", ID: d})
	}
	ok = settle(events+len(dels)) && ok
	late := &mock{fail: -1}
	if !within(syncDeadline, func() { hub.AddListener(late) }) {
		return []string{"fail:late-join-stuck"}
	}
	ok = syncWait(hub, syncDeadline) && ok
	time.Sleep(10 * time.Millisecond)
	ok = syncWait(hub, syncDeadline) && ok
	first.mu.Lock()
	a := fmtTags(first.rec)
	first.mu.Unlock()
	late.mu.Lock()
	b := fmtTags(late.rec)
	late.mu.Unlock()
	q := "quiescent"
	if !ok {
		q = "busy"
	}
	return []string{"first=" + a, "late=" + b, q}
}

// runFedStop: the hub stops (context cancelled) in the middle of a burst; the stores keep emitting, the
// delivery goroutines keep calling hub.Dispatch / hub.Delete, a late Sync and a late join arrive: none of it
// may block or panic, and what the attached monitor got before the stop is a prefix of the burst.
func runFedStop(events int) []string {
	ctx, cancel := context.WithCancel(context.Background())
	host := extension.NewHost()
	hub := msghub.New(5, host)
	stopped := make(chan struct{})
	go func() { hub.Start(ctx); close(stopped) }()
	first := &mock{fail: -1}
	hub.AddListener(first)
	syncWait(hub, syncDeadline)
	emit := func(from, to int) bool {
		return within(3*syncDeadline, func() {
			for i := from; i < to; i++ {
				host.Events.AfterMessageStored.Emit(&event.MessageMetadata{Mailbox: "box", ID: strconv.Itoa(100 + i)})
				if i%3 == 0 {
					host.Events.AfterMessageDeleted.Emit(&event.MessageMetadata{Mailbox: "box", ID: strconv.Itoa(100 + i)})
				}
			}
		})
	}
	ok := emit(0, events/2)
	cancel()
	<-stopped
	ok = emit(events/2, events+150) && ok // more than the op queue holds
	ok = within(syncDeadline, hub.Sync) && ok
	ok = within(syncDeadline, func() { hub.AddListener(&mock{fail: -1}); hub.RemoveListener(first) }) && ok
	time.Sleep(50 * time.Millisecond) // the delivery goroutines have consumed what was pending (or are stuck: next case would show)
	first.mu.Lock()
	rec := append([]evt(nil), first.rec...)
	first.mu.Unlock()
	// stored events seen: a prefix of 100, 101, …
	n := 0
	inOrder := true
	for _, e := range rec {
		if !e.del {
			if e.id != strconv.Itoa(100+n) {
				inOrder = false
			}
			n++
		}
	}
	r := "ok"
	if !ok {
		r = "blocked"
	}
	if !inOrder {
		r = "disorder"
	}
	return []string{r}
}

func exec(kind string, in []string) []string {
	if kind == "wsbad" {
		return runWSBad(vh.AtoI(in[0]), vh.AtoI(in[1]))
	}
	if kind == "wslong" {
		return runWSLong(in[0], vh.AtoI(in[1]), vh.AtoI(in[2]))
	}
	if kind == "ws" {
		return runWS(vh.AtoI(in[0]), in[1], in[2], vh.AtoI(in[3]), vh.AtoI(in[4]), vh.AtoI(in[5]))
	}
	if kind == "fedstop" {
		return runFedStop(vh.AtoI(in[0]))
	}
	if kind == "fed" {
		var dels []string
		if in[2] != "-" {
			dels = strings.Split(in[2], ",")
		}
		fail := -1
		if in[3] != "-" {
			fail = vh.AtoI(in[3])
		}
		return runFed(vh.AtoI(in[0]), vh.AtoI(in[1]), dels, fail)
	}
	if asmsys.Is(kind) {
		return asmsys.Exec(kind, in)
	}
	switch kind {
	case "hub":
		n, err := strconv.Atoi(in[0])
		if err != nil {
			return []string{"BADINPUT"}
		}
		var ops []string
		if in[1] != "-" {
			ops = strings.Split(in[1], ",")
		}
		return runHub(n, ops)
	}
	return []string{"UNKNOWN-KIND"}
}

func main() {
	if asmsys.ChildMain() {
		return
	}
	zerolog.SetGlobalLevel(zerolog.Disabled)
	if d := os.Getenv("VERIF_C15_DEADLINE_MS"); d != "" {
		if v, err := strconv.Atoi(d); err == nil {
			syncDeadline = time.Duration(v) * time.Millisecond
		}
	}
	vh.Main(gen, exec)
}

package main

// UPGRADE dimension: a store directory in the format of the PINNED tree, produced independently of the code
// under test, then opened by the code under test.
//
//	upg <cap> <pool> <setup> <ops>   => as hist for the history  <setup>,R,<ops>   plus bytes=
//
// <setup> (deliveries and seen marks only) defines what the fixture holds. The fixture is written by the writer
// below — sha1 fan-out, index.gob = gob(mailbox name) followed by gob(entry) per message with the pinned field
// names, <id>.raw files — not by pkg/storage/file. For the ids (and as a self-test of the writer) the same setup is
// first run on the store under test in another directory: the writer uses the ids that run issued, and `bytes=`
// says whether the index files the store under test wrote decode, as the pinned format, to the same values
// (informational: on a tree whose format moved on they do not; only the READ-BACK of the fixture is judged). Then the code under test opens
// the fixture: state and visit through a fresh file.New (the R of the history), then <ops> (visits, retention
// scans, deliveries, removals, reopens, restarts) exactly as in a hist line.
import (
	"bufio"
	"crypto/sha1"
	"encoding/gob"
	"encoding/hex"
	"io"
	"net/mail"
	"os"
	"path/filepath"
	"strconv"
	"strings"
	"time"

	"verifharness/cmd/c11/fsd"
	"verifharness/vh"
)

// Message has the exported fields (and the type name: gob transmits it) of pkg/storage/file.Message in the pinned tree.
type Message struct {
	Fid      string
	Fdate    time.Time
	Ffrom    *mail.Address
	Fto      []*mail.Address
	Fsubject string
	Fsize    int64
	Fseen    bool
}

type fixMsg struct {
	op   fsd.Op
	id   string
	seen bool
}

func pinnedDir(path, name string) string {
	sum := sha1.Sum([]byte(name))
	h := hex.EncodeToString(sum[:])
	return filepath.Join(path, "mail", h[0:3], h[0:6], h)
}

func writeFixture(path string, boxes map[int][]fixMsg) error {
	if err := os.MkdirAll(filepath.Join(path, "mail"), 0o770); err != nil {
		return err
	}
	for mb, msgs := range boxes {
		if len(msgs) == 0 {
			continue
		}
		name := fsd.Pool()[mb].Name
		dir := pinnedDir(path, name)
		if err := os.MkdirAll(dir, 0o770); err != nil {
			return err
		}
		f, err := os.Create(filepath.Join(dir, "index.gob"))
		if err != nil {
			return err
		}
		w := bufio.NewWriter(f)
		enc := gob.NewEncoder(w)
		if err := enc.Encode(name); err != nil {
			return err
		}
		for _, m := range msgs {
			d := fsd.Delivery(mb, m.op)
			body := fsd.Body(m.op.Seed, m.op.Rep)
			e := &Message{Fid: m.id, Fdate: d.Meta.Date, Ffrom: d.Meta.From, Fto: d.Meta.To, Fsubject: d.Meta.Subject,
				Fsize: int64(len(body)), Fseen: m.seen}
			if err := enc.Encode(e); err != nil {
				return err
			}
			if err := os.WriteFile(filepath.Join(dir, m.id+".raw"), body, 0o660); err != nil {
				return err
			}
		}
		if err := w.Flush(); err != nil {
			return err
		}
		if err := f.Close(); err != nil {
			return err
		}
	}
	return nil
}

// decodeIndex reads an index file as the pinned format: the mailbox name, then the entries.
func decodeIndex(p string) (string, []Message, bool) {
	f, err := os.Open(p)
	if err != nil {
		return "", nil, false
	}
	defer f.Close()
	dec := gob.NewDecoder(bufio.NewReader(f))
	name := ""
	if err := dec.Decode(&name); err != nil {
		return "", nil, false
	}
	var ms []Message
	for {
		var m Message
		if err := dec.Decode(&m); err != nil {
			if err == io.EOF {
				return name, ms, true
			}
			return "", nil, false
		}
		ms = append(ms, m)
	}
}

// sameIndex: do the writer's file and the file the store under test wrote hold the same thing in the pinned
// format? (Byte equality is not available inside one process: gob numbers types in order of first use.)
func sameIndex(a, b string) bool {
	na, ma, oka := decodeIndex(a)
	nb, mb, okb := decodeIndex(b)
	if !oka || !okb || na != nb || len(ma) != len(mb) {
		return false
	}
	for i := range ma {
		x, y := ma[i], mb[i]
		if x.Fid != y.Fid || !x.Fdate.Equal(y.Fdate) || x.Fsubject != y.Fsubject || x.Fsize != y.Fsize || x.Fseen != y.Fseen ||
			(x.Ffrom == nil) != (y.Ffrom == nil) || len(x.Fto) != len(y.Fto) {
			return false
		}
		if x.Ffrom != nil && *x.Ffrom != *y.Ffrom {
			return false
		}
		for j := range x.Fto {
			if *x.Fto[j] != *y.Fto[j] {
				return false
			}
		}
	}
	return true
}

func upgCase(cap int, setupField, opsField string) []string {
	root := fsd.Scratch("c10u")
	if os.Getenv("VERIF_C10_KEEP") == "" {
		defer os.RemoveAll(root)
	}
	layout, layoutRoot = "plain", root
	os.Setenv("VERIF_C10_LAYOUT", "plain")
	os.Setenv("VERIF_C10_ROOT", root)
	setup := fsd.ParseOps(setupField)
	// the store under test runs the setup elsewhere: ids, and the bytes to compare the writer with
	dirB := filepath.Join(root, "reference")
	_ = os.MkdirAll(dirB, 0o770)
	ref := fsd.Open(dirB, 0, nil)
	boxes := map[int][]fixMsg{}
	var res []string
	for _, o := range setup {
		switch o.Kind {
		case "a":
			r := ref.Do(o)
			res = append(res, "k"+strconv.Itoa(len(boxes[o.Mb])))
			id := "20200101T000000-" + strconv.Itoa(1000+len(boxes[o.Mb])) // when the store under test cannot even deliver
			if strings.HasPrefix(r, "k") {
				id = ref.Tab[o.Mb][len(ref.Tab[o.Mb])-1]
			}
			boxes[o.Mb] = append(boxes[o.Mb], fixMsg{op: o, id: id})
		case "s":
			ref.Do(o)
			if o.Handle >= 0 && o.Handle < len(boxes[o.Mb]) {
				boxes[o.Mb][o.Handle].seen = true
				res = append(res, "ok")
			} else {
				res = append(res, "notexist")
			}
		default:
			return []string{"BAD-SETUP"}
		}
	}
	dirA := filepath.Join(root, "store")
	if err := writeFixture(dirA, boxes); err != nil {
		return []string{"WRITER-FAILED", vh.HS(err.Error())}
	}
	same := true
	tab := make([][]string, len(fsd.Pool()))
	for mb, msgs := range boxes {
		for _, m := range msgs {
			tab[mb] = append(tab[mb], m.id)
		}
		if !sameIndex(filepath.Join(pinnedDir(dirA, fsd.Pool()[mb].Name), "index.gob"),
			filepath.Join(pinnedDir(dirB, fsd.Pool()[mb].Name), "index.gob")) {
			same = false
		}
	}
	// the code under test opens the fixture
	f := fsd.Open(dirA, cap, fsd.CopyTab(tab))
	res = append(res, "-")
	cks := []string{f.State() + "/" + f.Visit()}
	sames := []string{"1"}
	h, e := runHistFrom(dirA, cap, opsField, false, tab)
	if e != nil {
		return e
	}
	res = append(res, h.res...)
	cks = append(cks, h.cks...)
	sames = append(sames, h.same...)
	return []string{"res=" + jn(res, ","), "cks=" + jn(cks, "^"), "same=" + jn(sames, ","), "fin=" + h.fin,
		"live=" + h.live, "retries=" + strconv.Itoa(h.retries), "reissued=" + jn(h.reissued, ","), "bytes=" + vh.B(same)}
}

package main

// Restart of the SERVER, not just of the store:
//
//	srv <cap> <pool> <period> <mails>   => l1= l2= l3= same=
//
// Each incarnation is a child process (web.Router is a process global): configuration from the ENVIRONMENT
// through config.Process (file store on one path for all incarnations, INBUCKET_STORAGE_RETENTIONPERIOD =
// <period>, mailbox cap), server.FullAssembly + Services.Start on ephemeral ports, the mails of <mails>
// (mailbox per mail, "a,b,a") delivered over the real SMTP port, every mailbox listed through the REST API,
// then cancel + Drain + Join. Incarnation 1 delivers and lists (l1); incarnation 2 only lists (l2);
// incarnation 3 delivers one more mail to the first mailbox and lists (l3). A listing is, per mailbox, the
// messages as handle.subject (handle = position of the id among the ids issued so far); `same` says whether
// ids, subjects, sizes and seen flags of l2 are exactly those of l1.
import (
	"bufio"
	"bytes"
	"context"
	"encoding/json"
	"fmt"
	"io"
	"net"
	"net/http"
	"os"
	osexec "os/exec"
	"strconv"
	"strings"
	"time"

	"github.com/inbucket/inbucket/v3/pkg/config"
	"github.com/inbucket/inbucket/v3/pkg/server"
	"github.com/inbucket/inbucket/v3/pkg/storage"
	"github.com/inbucket/inbucket/v3/pkg/storage/file"
	"github.com/inbucket/inbucket/v3/pkg/storage/mem"
	"verifharness/cmd/c11/fsd"
	"verifharness/vh"
)

var srvBoxes = []string{"sa", "sb", "sc"}

type srvMsg struct {
	ID, Subject string
	Size        int64
	Seen        bool
}

type srvOut struct {
	Err   string
	Boxes map[string][]srvMsg
}

func srvFreePort() string {
	l, err := net.Listen("tcp", "127.0.0.1:0")
	if err != nil {
		return "127.0.0.1:0"
	}
	a := l.Addr().String()
	l.Close()
	return a
}

func srvDeliver(addr, mb, subject string) error {
	conn, err := net.DialTimeout("tcp", addr, 5*time.Second)
	if err != nil {
		return err
	}
	defer conn.Close()
	_ = conn.SetDeadline(time.Now().Add(20 * time.Second))
	r := bufio.NewReader(conn)
	expect := func(code string) error {
		for {
			line, err := r.ReadString('\n')
			if err != nil {
				return err
			}
			if len(line) < 4 || line[:3] != code {
				return fmt.Errorf("smtp: want %s, got %q", code, line)
			}
			if line[3] == ' ' {
				return nil
			}
		}
	}
	if err := expect("220"); err != nil {
		return err
	}
	for _, s := range []struct{ cmd, code string }{
		{"HELO verif.example\r\n", "250"},
		{"MAIL FROM:<sender@src.example>\r\n", "250"},
		{"RCPT TO:<" + mb + "@dst.example>\r\n", "250"},
		{"DATA\r\n", "354"},
		{"Subject: " + subject + "\r\nFrom: sender@src.example\r\nTo: " + mb + "@dst.example\r\n\r\nbody of " + subject + "\r\n.\r\n", "250"},
		{"QUIT\r\n", "221"},
	} {
		_, _ = conn.Write([]byte(s.cmd))
		if err := expect(s.code); err != nil {
			return err
		}
	}
	return nil
}

// srvChildMain: srvchild <dir> <cap> <period> <mails|-> <firstSubjectNumber>
func srvChildMain() {
	out := srvOut{Boxes: map[string][]srvMsg{}}
	emit := func() {
		b, _ := json.Marshal(out)
		os.Stdout.Write(b)
		os.Exit(0)
	}
	fail := func(what string) { out.Err = what; emit() }
	dir, cap, period, mails, first := os.Args[2], vh.AtoI(os.Args[3]), os.Args[4], os.Args[5], vh.AtoI(os.Args[6])
	for _, kv := range os.Environ() {
		if strings.HasPrefix(kv, "INBUCKET_") {
			os.Unsetenv(strings.SplitN(kv, "=", 2)[0])
		}
	}
	webAddr := srvFreePort()
	os.Setenv("INBUCKET_SMTP_ADDR", "127.0.0.1:0")
	os.Setenv("INBUCKET_POP3_ADDR", "127.0.0.1:0")
	os.Setenv("INBUCKET_WEB_ADDR", webAddr)
	os.Setenv("INBUCKET_WEB_UIDIR", dir)
	os.Setenv("INBUCKET_STORAGE_TYPE", "file")
	os.Setenv("INBUCKET_STORAGE_PARAMS", "path:"+dir)
	os.Setenv("INBUCKET_STORAGE_RETENTIONPERIOD", period)
	os.Setenv("INBUCKET_STORAGE_RETENTIONSLEEP", "0")
	if cap > 0 {
		os.Setenv("INBUCKET_STORAGE_MAILBOXMSGCAP", strconv.Itoa(cap))
	}
	storage.Constructors["file"] = file.New
	storage.Constructors["memory"] = mem.New
	conf, err := config.Process()
	if err != nil {
		fail("config.Process: " + err.Error())
	}
	svc, err := server.FullAssembly(conf)
	if err != nil {
		fail("FullAssembly: " + err.Error())
	}
	ctx, cancel := context.WithCancel(context.Background())
	ready := make(chan struct{})
	svc.Start(ctx, func() { close(ready) })
	select {
	case <-ready:
	case err := <-svc.Notify():
		fail("service failed to start: " + fmt.Sprint(err))
	case <-time.After(20 * time.Second):
		fail("services not ready")
	}
	smtpAddr := svc.SMTPServer.VerifAddr()
	if smtpAddr == nil {
		fail("no SMTP address")
	}
	if mails != "-" {
		for i, mb := range strings.Split(mails, ",") {
			if err := srvDeliver(smtpAddr.String(), mb, "s"+strconv.Itoa(first+i)); err != nil {
				fail("delivery: " + err.Error())
			}
		}
	}
	hc := &http.Client{Timeout: 20 * time.Second}
	for _, mb := range srvBoxes {
		resp, err := hc.Get("http://" + webAddr + "/api/v1/mailbox/" + mb)
		if err != nil {
			fail("list: " + err.Error())
		}
		body, _ := io.ReadAll(resp.Body)
		resp.Body.Close()
		if resp.StatusCode != 200 {
			fail("list: HTTP " + strconv.Itoa(resp.StatusCode))
		}
		var hs []struct {
			ID      string `json:"id"`
			Subject string `json:"subject"`
			Size    int64  `json:"size"`
			Seen    bool   `json:"seen"`
		}
		if err := json.Unmarshal(body, &hs); err != nil {
			fail("list: bad JSON")
		}
		for _, h := range hs {
			out.Boxes[mb] = append(out.Boxes[mb], srvMsg{h.ID, h.Subject, h.Size, h.Seen})
		}
	}
	cancel()
	drained := make(chan struct{})
	go func() { svc.SMTPServer.Drain(); svc.POP3Server.Drain(); svc.RetentionScanner.Join(); close(drained) }()
	select {
	case <-drained:
	case <-time.After(20 * time.Second):
		fail("shutdown did not finish")
	}
	emit()
}

func srvIncarnation(dir string, cap int, period, mails string, first int) (srvOut, []string) {
	for try := 0; ; try++ {
		cmd := osexec.Command(os.Args[0], "srvchild", dir, vh.I(cap), period, mails, vh.I(first))
		var ob, eb bytes.Buffer
		cmd.Stdout, cmd.Stderr = &ob, &eb
		done := make(chan error, 1)
		if err := cmd.Start(); err != nil {
			return srvOut{}, []string{"SETUPERR", vh.HS(err.Error())}
		}
		go func() { done <- cmd.Wait() }()
		select {
		case err := <-done:
			if err != nil {
				t := eb.String()
				if len(t) > 300 {
					t = t[len(t)-300:]
				}
				return srvOut{}, []string{"CRASH", vh.HS(t)}
			}
		case <-time.After(90 * time.Second):
			cmd.Process.Kill()
			return srvOut{}, []string{"HANG"}
		}
		var out srvOut
		if err := json.Unmarshal(ob.Bytes(), &out); err != nil {
			return srvOut{}, []string{"NOOUTPUT"}
		}
		if out.Err != "" {
			f := []string{"SETUPERR", vh.HS(out.Err)}
			if vh.PortClash(f) && try < 6 {
				time.Sleep(time.Duration(50*(try+1)) * time.Millisecond)
				continue
			}
			return out, f
		}
		return out, nil
	}
}

func srvCase(cap int, period, mails string) []string {
	dir := fsd.Scratch("c10s")
	defer os.RemoveAll(dir)
	// per mailbox: (id, subject) in order of first appearance. An id seen again under ANOTHER subject is a new
	// message that was issued the id of one that is gone (open finding K-C10-id-reissued-after-restart: the
	// child's id counter restarts, the cap evicted the old holder within the same second): it gets a handle of
	// its own and is reported in `reissued`.
	issued := map[string][]string{}
	var reissued []string
	render := func(o srvOut) string {
		var parts []string
		for _, mb := range srvBoxes {
			var xs []string
			for _, m := range o.Boxes[mb] {
				key := m.ID + "\x00" + m.Subject
				h := -1
				for j, k := range issued[mb] {
					if k == key {
						h = j
					} else if strings.HasPrefix(k, m.ID+"\x00") && h < 0 {
						if r := fmt.Sprintf("%s:k%d", mb, j); !strings.Contains(","+strings.Join(reissued, ",")+",", ","+r+",") {
							reissued = append(reissued, r)
						}
					}
				}
				if h < 0 {
					issued[mb] = append(issued[mb], key)
					h = len(issued[mb]) - 1
				}
				xs = append(xs, fmt.Sprintf("k%d.%s", h, vh.HS(m.Subject)))
			}
			if len(xs) == 0 {
				parts = append(parts, "-")
			} else {
				parts = append(parts, strings.Join(xs, ";"))
			}
		}
		return strings.Join(parts, "|")
	}
	n := len(strings.Split(mails, ","))
	o1, e := srvIncarnation(dir, cap, period, mails, 0)
	if e != nil {
		return e
	}
	l1 := render(o1)
	o2, e := srvIncarnation(dir, cap, period, "-", 0)
	if e != nil {
		return e
	}
	l2 := render(o2)
	b1, _ := json.Marshal(o1.Boxes)
	b2, _ := json.Marshal(o2.Boxes)
	o3, e := srvIncarnation(dir, cap, period, strings.Split(mails, ",")[0], n)
	if e != nil {
		return e
	}
	l3 := render(o3)
	ri := "none"
	if len(reissued) > 0 {
		ri = strings.Join(reissued, ",")
	}
	return []string{"l1=" + l1, "l2=" + l2, "l3=" + l3, "same=" + vh.B(bytes.Equal(b1, b2)), "reissued=" + ri}
}

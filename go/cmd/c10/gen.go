package main

import (
	"encoding/hex"
	"fmt"
	"strconv"
	"strings"

	"verifharness/cmd/c11/fsd"
	"verifharness/vh"
)

type genState struct {
	g    *vh.Gen
	adds [24]int
	ntok int
}

// young dates are far in the future (never expired), old ones in 2020 (expired for every period)
const youngBase = 4000000000

// afterReopen is the pattern a restarted server usually sees before its first retention pass: a
// delivery to a mailbox that does not exist yet, below a first-level directory of its own, then a walk
// (visit or a retention scan, which is driven by the walk).
func (s *genState) afterReopen() []string {
	g := s.g
	var fresh []int
	for mb := 3; mb < 7; mb++ {
		if s.adds[mb] == 0 {
			fresh = append(fresh, mb)
		}
	}
	// hash neighbours: a NEW mailbox below a first-level directory that already holds an old one (0/1 and 2; 20, 21, 22)
	for _, grp := range [][]int{{0, 1, 2}, {20, 21, 22}} {
		old := 0
		for _, mb := range grp {
			old += s.adds[mb]
		}
		for _, mb := range grp {
			if old > 0 && s.adds[mb] == 0 && (mb != 1 || s.adds[0] == 0) {
				fresh = append(fresh, mb, mb)
			}
		}
	}
	if len(fresh) == 0 || g.Chance(0.3) {
		if g.Chance(0.5) {
			return []string{"v"}
		}
		return nil
	}
	mb := fresh[g.Intn(len(fresh))]
	ops := []string{s.addDated(mb, true)}
	if g.Chance(0.3) {
		ops = append(ops, "t")
	}
	return append(ops, "v")
}

func (s *genState) add(mb int) string { return s.addDated(mb, s.g.Chance(0.3)) }

func (s *genState) addDated(mb int, young bool) string {
	g := s.g
	s.ntok++
	seed := []byte(fmt.Sprintf("m%d line\r\n", s.ntok))
	rep := 1 + g.Intn(3)
	switch {
	case g.Chance(0.06):
		rep = 500 + g.Intn(200)
	case g.Chance(0.04):
		rep = 0
	}
	s.adds[mb]++
	date := 1600000000 + s.ntok*3600
	if young {
		date = youngBase + s.ntok
	}
	return fmt.Sprintf("a.%d.t%d.%d.%s.%d", mb, s.ntok, date, hex.EncodeToString(seed), rep)
}

func (s *genState) handle(mb int) int {
	if s.adds[mb] == 0 || s.g.Chance(0.07) {
		return 99
	}
	return s.g.Intn(s.adds[mb])
}

func (s *genState) op(mbs []int) string {
	g := s.g
	mb := mbs[g.Intn(len(mbs))]
	x := g.Float64()
	switch {
	case x < 0.06:
		return "v"
	case x < 0.09:
		return "t"
	case x < 0.55:
		return s.add(mb)
	case x < 0.70:
		return fmt.Sprintf("s.%d.%d", mb, s.handle(mb))
	case x < 0.93: // also what retention does: RemoveMessage of old messages
		return fmt.Sprintf("r.%d.%d", mb, s.handle(mb))
	default:
		return fmt.Sprintf("p.%d", mb)
	}
}

func gen(g *vh.Gen) {
	pool := fsd.PoolField()
	lay := "plain"
	emit := func(cap int, ops []string) {
		f := "-"
		if len(ops) > 0 {
			f = strings.Join(ops, ",")
		}
		g.Emit("hist", vh.I(cap), pool, f, lay)
	}
	layouts := []string{"pathlink", "maillink", "bucketlink", "trailing", "dotdot", "relative"}
	pickLayout := func() string {
		if g.Chance(0.55) {
			return "plain"
		}
		return layouts[g.Intn(len(layouts))]
	}
	a := func(mb, n int) string {
		return fmt.Sprintf("a.%d.f%d.%d.%s.1", mb, n, 1600000000+n, hex.EncodeToString([]byte(fmt.Sprintf("fixed %d\r\n", n))))
	}
	// the two-line program of the design: deliver, restart, deliver to the same mailbox (same second:
	// the counter restarts at 0000), and variations
	emit(0, []string{a(0, 1), "X", a(0, 2)})
	emit(0, []string{a(0, 1), "X", a(0, 2), "X", a(0, 3), "s.0.0", "X", "r.0.1"})
	emit(2, []string{a(0, 1), a(0, 2), "X", a(0, 3), "R", a(0, 4)})
	emit(0, []string{a(0, 1), a(1, 2), "R", "r.0.0", "R", a(0, 3), "p.1", "R"})
	emit(0, []string{"R", "X", a(3, 1), "p.3", "X", "R"})
	// restart, delivery to a mailbox that does not exist yet (first-level directory of its own), THEN the
	// first walk / retention pass of the new store object: it must still see the previous lifetime's mail
	y := func(mb, n int) string {
		return fmt.Sprintf("a.%d.y%d.%d.%s.1", mb, n, youngBase+n, hex.EncodeToString([]byte(fmt.Sprintf("young %d\r\n", n))))
	}
	emit(0, []string{a(0, 1), a(1, 2), a(2, 3), a(3, 4), "X", y(4, 5), "v"})
	emit(0, []string{a(0, 1), a(1, 2), a(2, 3), a(3, 4), "R", y(4, 5), "v"})
	emit(0, []string{a(0, 1), a(0, 2), y(0, 3), a(3, 4), "X", y(5, 5), "t", "v", "X", "v"})
	emit(0, []string{a(0, 1), a(2, 2), "R", y(6, 3), "t", "v", "R", "t"})
	emit(2, []string{a(0, 1), y(3, 2), "t", "v", "R", "v"})
	// HASH NEIGHBOURHOOD: lifetime 1 delivers to one name, lifetime 2 delivers to a NEW mailbox whose directory shares the
	// first-level (3 hex) directory with it but not the second-level one, before any walk; then walk, retention scan,
	// walk, stop, walk (pool 0/1 and 2; the triple 20, 21, 22)
	for i, pr := range [][]int{{0, 2}, {2, 0}, {2, 1}, {20, 21}, {21, 22}, {22, 20}, {20, 22, 21}, {0, 1, 2}} {
		x, yv := pr[0], pr[len(pr)-1]
		stop := []string{"R", "X"}[i%2]
		ops := []string{a(x, 1), y(x, 2)}
		if len(pr) == 3 {
			ops = append(ops, a(pr[1], 3))
		}
		ops = append(ops, stop, y(yv, 4), "v", "t", "v", stop, "v", a(x, 5), "v")
		emit(0, ops)
	}
	emit(0, []string{a(20, 1), "R", a(21, 2), "t", "R", "v", a(22, 3), "v"})
	emit(2, []string{a(21, 1), a(21, 2), a(21, 3), "X", y(22, 4), y(20, 5), "v", "r.21.2", "v", "R", "t", "v"})
	// the same across the layouts of the storage directory (symlinked path / mail directory / hash buckets, odd paths)
	for _, l := range layouts {
		lay = l
		emit(0, []string{a(0, 1), a(1, 2), a(2, 3), a(3, 4), "X", "v", y(4, 5), "t", "v", "R", "r.1.0", "v", "X", a(3, 6), "v"})
	}
	lay = "plain"
	// the cap shrinks between runs: the next delivery evicts several messages at once
	emit(0, []string{a(0, 1), a(0, 2), a(0, 3), a(0, 4), "C.2", a(0, 5), "R"})
	emit(3, []string{a(1, 1), a(1, 2), a(1, 3), "X", "C.1", a(1, 4), "C.0", a(1, 5)})
	// odd mailbox names across restarts: names differing only in case ("ALICE" = 8, "alice" = 9) are two mailboxes
	emit(0, []string{a(7, 1), a(8, 2), a(9, 3), a(8, 4), "X", "v", "r.8.0", a(7, 5), "t", "v", "R", a(9, 6), "s.9.0", "X", "v"})
	emit(2, []string{a(13, 1), a(14, 2), a(13, 3), a(13, 4), "R", a(14, 5), "v", "X", "r.13.2", "p.14", "v"})
	emit(0, []string{a(15, 1), a(16, 2), a(17, 3), a(18, 4), a(19, 5), a(10, 6), a(11, 7), a(12, 8), "X", "v", "t", "v", "R", a(19, 9), "r.19.0", "v"})
	// UPGRADE: a directory in the pinned tree's format, written by the driver's own writer, opened by the code under test
	o := func(mb, n int) string { // an old (expired) message
		return fmt.Sprintf("a.%d.u%d.%d.%s.2", mb, n, 1500000000+n, hex.EncodeToString([]byte(fmt.Sprintf("old %d\r\n", n))))
	}
	upg := func(cap int, setup, ops []string) {
		g.Emit("upg", vh.I(cap), pool, strings.Join(setup, ","), strings.Join(ops, ","))
	}
	upg(0, []string{a(0, 1), a(0, 2), a(3, 3), "s.0.0", a(8, 4), a(9, 5)}, []string{"v", a(0, 6), "r.3.0", "R", "v", "t", "v", "X", "v"})
	upg(0, []string{o(0, 1), y(0, 2), o(1, 3), o(4, 4), y(4, 5), "s.4.1"}, []string{"t", "v", "R", y(5, 6), "v"})
	upg(2, []string{a(7, 1), a(7, 2), a(7, 3), a(13, 4)}, []string{"v", a(7, 5), "X", "v", "s.7.2", "R"})
	for i := 0; i < g.N(6, 300); i++ {
		s := &genState{g: g}
		mbs := [][]int{{0, 1}, {0, 2, 3}, {7, 8, 9}, {3, 4, 5, 12}}[g.Intn(4)]
		var setup []string
		for j, n := 0, 1+g.Intn(6); j < n; j++ {
			mb := mbs[g.Intn(len(mbs))]
			setup = append(setup, s.add(mb))
			if g.Chance(0.2) {
				setup = append(setup, fmt.Sprintf("s.%d.%d", mb, g.Intn(s.adds[mb])))
			}
		}
		ops := []string{"v"}
		if g.Chance(0.5) {
			ops = append(ops, "t", "v")
		}
		for j, n := 0, g.Intn(5); j < n; j++ {
			ops = append(ops, s.op(mbs))
			if g.Chance(0.2) {
				ops = append(ops, []string{"R", "X"}[g.Intn(2)])
			}
		}
		ops = append(ops, "R", "v")
		upg([]int{0, 0, 2, 3}[g.Intn(4)], setup, ops)
	}
	// restart with large on-disk structures: an index of about 1.4 MiB (12 messages x 4000 recipients), one of about
	// 70 KiB; thorough: about 4 MiB, many plain messages, bodies of 1 MiB and 32 MiB
	g.Emit("big", "0", pool, "12", "4000", "4")
	g.Emit("big", "0", pool, "4", "600", "4096")
	if g.Tier == "thorough" {
		g.Emit("big", "0", pool, "12", "12000", "1")
		g.Emit("big", "500", pool, "300", "120", "1")
		g.Emit("big", "0", pool, "3", "2", "65536")
		g.Emit("big", "0", pool, "2", "2", "2097152")
		g.Emit("big", "2", pool, "5", "3000", "16")
	}
	// the mailbox-SIZE dimension: mailboxes of 1 message to 1000 (orders of magnitude and the neighbours of powers of
	// two / of round numbers), a few removals / seen flags through the live object right before the stop, no further
	// delivery; then a fresh store on the path
	sizes := []int{1, 2, 15, 16, 17, 50, 100, 101, 128, 130, 300}
	if g.Tier == "thorough" {
		sizes = append(sizes, 31, 33, 63, 65, 99, 127, 129, 255, 257, 1000, 1025)
	} else {
		sizes = append(sizes, 1000)
	}
	for _, n := range sizes {
		var ms []string
		k := 1 + g.Intn(6)
		if n >= 100 && g.Chance(0.3) {
			k = 24 + g.Intn(4)
		}
		for i := 0; i < k; i++ {
			ms = append(ms, []string{"r", "r", "s"}[g.Intn(3)]+"."+strconv.Itoa(g.Intn(n+1)))
		}
		g.Emit("size", "0", pool, strconv.Itoa(n), strings.Join(ms, ","))
	}
	g.Emit("size", "0", pool, "120", "r.0,s.1,r.119")
	g.Emit("size", "0", pool, "300", "-")
	g.Emit("size", "7", pool, "130", "r.125,s.129,r.3")
	// the SERVER is stopped and started again on the same storage path (retention disabled / 24 h, with and without a cap)
	g.Emit("srv", "0", pool, "0", "sa,sb,sa,sc,sa")
	g.Emit("srv", "0", pool, "24h", "sa,sb,sb")
	g.Emit("srv", "2", pool, "0", "sa,sa,sa,sb")
	g.Emit("srv", "3", pool, "24h", "sc,sa,sc")
	for i := 0; i < g.N(0, 12); i++ {
		var ms []string
		for j, n := 0, 1+g.Intn(6); j < n; j++ {
			ms = append(ms, srvBoxes[g.Intn(3)])
		}
		g.Emit("srv", vh.I([]int{0, 0, 2}[g.Intn(3)]), pool, []string{"0", "24h", "1h"}[g.Intn(3)], strings.Join(ms, ","))
	}
	// after a restart the first accesses to a mailbox are k overlapping reads (then a mutation, then the next restart)
	g.Emit("conc", "0", pool, "250", "8", vh.I(g.N(4, 12)))
	g.Emit("conc", "0", pool, "250", "3", vh.I(g.N(3, 12)))
	g.Emit("conc", "3", pool, "40", "2", vh.I(g.N(3, 12)))
	for i := 0; i < g.N(0, 20); i++ {
		g.Emit("conc", vh.I([]int{0, 0, 5}[g.Intn(3)]), pool, vh.I(100+g.Intn(300)), vh.I(2+g.Intn(7)), "6")
	}
	// in-process reopen points at random positions
	for i := 0; i < g.N(200, 5000); i++ {
		s := &genState{g: g}
		cap := []int{0, 0, 1, 2, 3}[g.Intn(5)]
		mbs := [][]int{{0}, {0, 1}, {0, 2, 3}, {0, 1, 2, 3}, {7, 8, 9}, {9, 10, 11, 12, 0}, {13, 14, 15, 16}, {17, 18, 19, 8}, {20, 21, 22}, {0, 2, 20, 22}}[g.Intn(10)]
		var ops []string
		for j, n := 0, 2+g.Intn(9); j < n; j++ {
			if g.Chance(0.25) {
				ops = append(ops, "R")
				ops = append(ops, s.afterReopen()...)
			} else if g.Chance(0.06) {
				ops = append(ops, fmt.Sprintf("C.%d", g.Intn(4)))
				ops = append(ops, s.afterReopen()...)
			}
			ops = append(ops, s.op(mbs))
		}
		ops = append(ops, "R")
		ops = append(ops, s.afterReopen()...)
		lay = pickLayout()
		emit(cap, ops)
		lay = "plain"
	}
	// real restarts; after a restart the first delivery often goes to the mailbox the previous
	// process delivered to first (same id when it happens within the same second)
	for i := 0; i < g.N(40, 1000); i++ {
		s := &genState{g: g}
		cap := []int{0, 0, 0, 2, 3}[g.Intn(5)]
		mbs := [][]int{{0}, {0, 1}, {0, 1, 2, 3}, {7, 8, 9}, {12, 13, 14, 16}, {15, 17, 18, 19}, {20, 21, 22}, {2, 0, 21, 22}}[g.Intn(8)]
		var ops []string
		first := mbs[g.Intn(len(mbs))]
		for seg, nseg := 0, 2+g.Intn(3); seg < nseg; seg++ {
			if seg > 0 {
				ops = append(ops, "X")
				if g.Chance(0.6) {
					ops = append(ops, s.afterReopen()...)
				}
			}
			if g.Chance(0.8) {
				ops = append(ops, s.add(first))
			}
			for j, n := 0, g.Intn(4); j < n; j++ {
				ops = append(ops, s.op(mbs))
				if g.Chance(0.1) {
					ops = append(ops, "R")
					ops = append(ops, s.afterReopen()...)
				}
			}
		}
		lay = pickLayout()
		emit(cap, ops)
		lay = "plain"
	}
}

package main

// Restart with LARGE on-disk structures:
//
//	big <cap> <pool> <n> <nto> <bodyrep>   => l0= l1= l2= same=
//
// n deliveries to one mailbox, each with nto recipients in its To header (the index entry of a message holds them
// all: 12 messages with 4000 recipients make an index.gob of about 1.4 MiB) and a body of 16*bodyrep bytes; the
// listing through the live store object (l0); a fresh file.New on the path (l1, must equal l0: same=1); mark the
// first message seen, deliver one more, a fresh file.New again (l2). A listing is count:FNV of the rendered
// messages (handle, subject, number and FNV of the recipients, size, seen, content digest).
import (
	"bytes"
	"fmt"
	"io"
	"net/mail"
	"os"
	"strconv"
	"strings"
	"time"

	"github.com/inbucket/inbucket/v3/pkg/extension/event"
	"github.com/inbucket/inbucket/v3/pkg/message"
	"github.com/inbucket/inbucket/v3/pkg/storage"
	"verifharness/cmd/c11/fsd"
	"verifharness/vh"
)

func bigTo(j, nto int) []*mail.Address {
	to := make([]*mail.Address, nto)
	for i := range to {
		to[i] = &mail.Address{Name: "R" + strconv.Itoa(i), Address: fmt.Sprintf("r%dm%d@to.example", i, j)}
	}
	return to
}

func bigBody(j, rep int) []byte { return bytes.Repeat([]byte(fmt.Sprintf("body %08d \r\n", j)), rep) }

func fnv(s string) uint32 {
	h := uint32(2166136261)
	for i := 0; i < len(s); i++ {
		h ^= uint32(s[i])
		h *= 16777619
	}
	return h
}

func bigToText(to []*mail.Address) string {
	var b strings.Builder
	for _, a := range to {
		b.WriteString(a.Name + "<" + a.Address + ">,")
	}
	return b.String()
}

func bigListing(st storage.Store, name string, ids []string) string {
	ms, err := st.GetMessages(name)
	if err != nil {
		return "ERR"
	}
	var xs []string
	for _, m := range ms {
		h := "u"
		for j, id := range ids {
			if id == m.ID() {
				h = "k" + strconv.Itoa(j)
			}
		}
		content := "NOSRC"
		if r, err := m.Source(); err == nil {
			b, err := io.ReadAll(r)
			_ = r.Close()
			if err == nil {
				content = fsd.Digest(b)
			}
		}
		xs = append(xs, fmt.Sprintf("%s.%s.%d:%08x.%d.%s.%s", h, m.Subject(), len(m.To()), fnv(bigToText(m.To())), m.Size(), vh.B(m.Seen()), content))
	}
	if len(xs) == 0 {
		return "-"
	}
	return strings.Join(xs, ";")
}

func bigCase(cap, n, nto, rep int) []string {
	dir := fsd.Scratch("c10b")
	defer os.RemoveAll(dir)
	name := fsd.Pool()[0].Name
	var ids []string
	s := fsd.Open(dir, cap, nil)
	deliver := func(st storage.Store, j int) string {
		id, err := st.AddMessage(&message.Delivery{
			Meta: event.MessageMetadata{Mailbox: name, From: &mail.Address{Address: "f@from.example"}, To: bigTo(j, nto),
				Date: time.Unix(1600000000+int64(j), 0), Subject: "big" + strconv.Itoa(j)},
			Reader: bytes.NewReader(bigBody(j, rep))})
		if err != nil {
			return "err"
		}
		ids = append(ids, id)
		return "k" + strconv.Itoa(len(ids)-1)
	}
	for j := 0; j < n; j++ {
		if deliver(s.Store, j) == "err" {
			return []string{"DELIVERY-FAILED"}
		}
	}
	l0 := bigListing(s.Store, name, ids)
	l1 := bigListing(fsd.Open(dir, cap, nil).Store, name, ids)
	s2 := fsd.Open(dir, cap, nil)
	r1 := "notexist"
	if len(ids) > 0 {
		if err := s2.Store.MarkSeen(name, ids[0]); err == nil {
			r1 = "ok"
		} else if err != storage.ErrNotExist {
			r1 = "err"
		}
	}
	r2 := deliver(s2.Store, n)
	l2 := bigListing(fsd.Open(dir, cap, nil).Store, name, ids)
	return []string{"l0=" + fsd.Short(l0), "l1=" + fsd.Short(l1), "l2=" + fsd.Short(l2), "same=" + vh.B(l0 == l1), "res=" + r1 + "," + r2}
}

// Restart with mailboxes of MANY messages, mutated right before the stop:
//
//	size <cap> <pool> <n> <muts>   => res= l0= l1= same= l2=
//
// n plain deliveries to one mailbox through one store object, then the mutations (r.<j> removes the j-th delivery,
// s.<j> marks it seen; comma separated, "-" for none) through the SAME object and nothing after them; l0 is the
// listing through that object, l1 the listing through a fresh file.New on the path (the store was stopped right after
// the mutations; must equal l0: same=1); then one more delivery through a fresh object and l2 through another one.
func sizeCase(cap, n int, muts string) []string {
	dir := fsd.Scratch("c10z")
	defer os.RemoveAll(dir)
	name := fsd.Pool()[0].Name
	var ids []string
	deliver := func(st storage.Store, j int) string {
		id, err := st.AddMessage(&message.Delivery{
			Meta: event.MessageMetadata{Mailbox: name, From: &mail.Address{Address: "f@from.example"}, To: bigTo(j, 1),
				Date: time.Unix(1600000000+int64(j), 0), Subject: "big" + strconv.Itoa(j)},
			Reader: bytes.NewReader(bigBody(j, 1))})
		if err != nil {
			return "err"
		}
		ids = append(ids, id)
		return "k" + strconv.Itoa(len(ids)-1)
	}
	s := fsd.Open(dir, cap, nil)
	for j := 0; j < n; j++ {
		if deliver(s.Store, j) == "err" {
			return []string{"DELIVERY-FAILED"}
		}
	}
	var res []string
	if muts != "-" {
		for _, m := range strings.Split(muts, ",") {
			f := strings.Split(m, ".")
			j := vh.AtoI(f[1])
			var err error = storage.ErrNotExist
			if j < len(ids) {
				if f[0] == "r" {
					err = s.Store.RemoveMessage(name, ids[j])
				} else {
					err = s.Store.MarkSeen(name, ids[j])
				}
			}
			switch err {
			case nil:
				res = append(res, "ok")
			case storage.ErrNotExist:
				res = append(res, "notexist")
			default:
				res = append(res, "err")
			}
		}
	}
	l0 := bigListing(s.Store, name, ids)
	l1 := bigListing(fsd.Open(dir, cap, nil).Store, name, ids)
	r2 := deliver(fsd.Open(dir, cap, nil).Store, n)
	l2 := bigListing(fsd.Open(dir, cap, nil).Store, name, ids)
	return []string{"res=" + strings.Join(append(res, r2), ","), "l0=" + fsd.Short(l0), "l1=" + fsd.Short(l1), "same=" + vh.B(l0 == l1), "l2=" + fsd.Short(l2)}
}

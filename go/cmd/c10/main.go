// Driver for C10 (the file store is durable across restart).
//
//	hist <cap> <pool> <ops>   => res= cks= same= fin= vis= retries=
//
// ops is a history over four mailboxes with reopen points: `R` builds a fresh file.New on the same
// path inside the process, `X` is a REAL restart: the history is cut into segments at every X and
// each segment runs in its own process (the driver re-executes itself: `drive_c10 segment …`), which
// resets the process-global id counter exactly as a server restart does. At every reopen point the
// full state (every mailbox listed, every message read) is taken before and after.
package main

import (
	"bufio"
	"encoding/json"
	"fmt"
	"os"
	osexec "os/exec"
	"strings"

	"github.com/inbucket/inbucket/v3/pkg/verifhook"
	"verifharness/cmd/c11/fsd"
	"verifharness/vh"
)

type segOut struct {
	Start   string   `json:"start"` // state/visit seen by the fresh process
	Res     []string `json:"res"`
	Cks     []string `json:"cks"`  // state/visit after each in-process reopen
	Same    []string `json:"same"` // 1 when the state before a reopen equals the state after
	End     string   `json:"end"`
	Tab     [][]string
	Retries int
}

// runSegment runs ops (no X inside) on dir in this process.
func runSegment(dir string, cap int, tab [][]string, ops []fsd.Op) segOut {
	var out segOut
	verifhook.Set(func(site, arg string) {
		if site == "file.add.idretry" {
			out.Retries++
		}
	})
	defer verifhook.Set(nil)
	s := fsd.Open(dir, cap, tab)
	out.Start = s.State() + "/" + s.Visit()
	for _, o := range ops {
		if o.Kind == "R" {
			before := s.State() + "/" + s.Visit()
			s.Reopen()
			after := s.State() + "/" + s.Visit()
			out.Res = append(out.Res, "-")
			out.Cks = append(out.Cks, after)
			out.Same = append(out.Same, vh.B(before == after))
			continue
		}
		out.Res = append(out.Res, s.Do(o))
	}
	out.End = s.State() + "/" + s.Visit()
	out.Tab = s.Tab
	return out
}

func segmentMain() {
	// segment <dir> <cap> <tabfile> <ops>
	dir, cap, tabf, opsf := os.Args[2], vh.AtoI(os.Args[3]), os.Args[4], os.Args[5]
	var tab [][]string
	if b, err := os.ReadFile(tabf); err == nil {
		_ = json.Unmarshal(b, &tab)
	}
	out := runSegment(dir, cap, tab, fsd.ParseOps(opsf))
	w := bufio.NewWriter(os.Stdout)
	b, _ := json.Marshal(out)
	w.Write(b)
	w.Flush()
}

func exec(kind string, in []string) []string {
	if kind != "hist" {
		return []string{"UNKNOWN-KIND"}
	}
	if !fsd.CheckPool(in[1]) {
		return []string{"POOL-DIFFERS"}
	}
	cap := vh.AtoI(in[0])
	dir := fsd.Scratch("c10")
	defer os.RemoveAll(dir)
	// cut at X
	var segs [][]string
	cur := []string{}
	if in[2] != "-" {
		for _, o := range strings.Split(in[2], ",") {
			if o == "X" {
				segs = append(segs, cur)
				cur = []string{}
			} else {
				cur = append(cur, o)
			}
		}
	}
	segs = append(segs, cur)
	var res, cks, same []string
	var tab [][]string
	retries := 0
	prevEnd := ""
	fin := ""
	for i, sg := range segs {
		opsf := "-"
		if len(sg) > 0 {
			opsf = strings.Join(sg, ",")
		}
		var out segOut
		if len(segs) == 1 {
			out = runSegment(dir, cap, tab, fsd.ParseOps(opsf))
		} else {
			tabf := dir + ".tab.json"
			b, _ := json.Marshal(tab)
			_ = os.WriteFile(tabf, b, 0o600)
			cmd := osexec.Command(os.Args[0], "segment", dir, vh.I(cap), tabf, opsf)
			cmd.Stderr = os.Stderr
			ob, err := cmd.Output()
			_ = os.Remove(tabf)
			if err != nil {
				return []string{"SEGMENT-PROCESS-FAILED", vh.HS(err.Error())}
			}
			if err := json.Unmarshal(ob, &out); err != nil {
				return []string{"SEGMENT-OUTPUT-UNREADABLE"}
			}
		}
		if i > 0 {
			res = append(res, "-")
			cks = append(cks, out.Start)
			same = append(same, vh.B(prevEnd == out.Start))
		}
		res = append(res, out.Res...)
		cks = append(cks, out.Cks...)
		same = append(same, out.Same...)
		tab = out.Tab
		retries += out.Retries
		prevEnd = out.End
		fin = out.End
	}
	j := func(xs []string, sep string) string {
		if len(xs) == 0 {
			return "none"
		}
		return strings.Join(xs, sep)
	}
	return []string{"res=" + j(res, ","), "cks=" + j(cks, "^"), "same=" + j(same, ","), "fin=" + fin, fmt.Sprintf("retries=%d", retries)}
}

func main() {
	if len(os.Args) > 1 && os.Args[1] == "segment" {
		segmentMain()
		return
	}
	vh.Main(gen, exec)
}

// Driver for C10 (the file store is durable across restart).
//
//	hist <cap> <pool> <ops>   => res= cks= same= fin= vis= retries=
//
// ops is a history over four mailboxes with reopen points: `R` builds a fresh file.New on the same
// path inside the process, `X` is a REAL restart: the history is cut into segments at every X and
// each segment runs in its own process (the driver re-executes itself: `drive_c10 segment …`), which
// resets the process-global id counter exactly as a server restart does. At every reopen point the
// full state (every mailbox listed, every message read) is taken before and after.
package main

import (
	"bufio"
	"encoding/json"
	"fmt"
	"os"
	osexec "os/exec"
	"strings"
	"time"

	"github.com/inbucket/inbucket/v3/pkg/verifhook"
	"verifharness/cmd/c11/fsd"
	"verifharness/vh"
)

type segOut struct {
	Start    string   `json:"start"` // state/visit seen by the fresh process
	Res      []string `json:"res"`
	Cks      []string `json:"cks"`  // state/visit after each in-process reopen
	Same     []string `json:"same"` // 1 when the state before a reopen equals the state after
	End      string   `json:"end"`
	Tab      [][]string
	Retries  int
	Reissued []string
	Live     string // "1", or the index of the first operation after which a fresh store saw another state than the live one
	Cap      int
}

// runSegment runs ops (no X inside) on dir in this process.
func runSegment(dir string, cap int, tab [][]string, ops []fsd.Op) segOut {
	var out segOut
	verifhook.Set(func(site, arg string) {
		if site == "file.add.idretry" {
			out.Retries++
		}
	})
	defer verifhook.Set(nil)
	// s is the store object under test. The harness never walks it and never lists through it at a
	// reopen point: its own views come from separate, freshly constructed store objects (a store that
	// initialises something lazily must not be "warmed up" by the checker before the history's own
	// first visit / retention pass).
	s := fsd.Open(dir, cap, tab)
	fresh := func() string {
		f := fsd.Open(dir, s.Cap, fsd.CopyTab(s.Tab))
		return f.State() + "/" + f.Visit()
	}
	out.Start = fresh()
	out.Live = "1"
	for i, o := range ops {
		if o.Kind == "R" || o.Kind == "C" {
			before := fresh()
			if o.Kind == "C" {
				s.Cap = o.Rep
			}
			s.Reopen()
			after := fresh()
			out.Res = append(out.Res, "-")
			out.Cks = append(out.Cks, after)
			out.Same = append(out.Same, vh.B(before == after))
			continue
		}
		out.Res = append(out.Res, s.Do(o))
		// what a freshly constructed store reads from the disk = what the live store object answers
		// (by-name listings only on the live object: its visit is observed by the history's own v operations)
		if out.Live == "1" {
			f := fsd.Open(dir, s.Cap, fsd.CopyTab(s.Tab))
			if f.State() != s.State() {
				out.Live = fmt.Sprintf("0@%d", i)
			}
		}
	}
	out.End = fresh()
	out.Tab = s.Tab
	out.Reissued = s.Reissued
	out.Cap = s.Cap
	return out
}

func segmentMain() {
	// segment <dir> <cap> <tabfile> <ops>
	dir, cap, tabf, opsf := os.Args[2], vh.AtoI(os.Args[3]), os.Args[4], os.Args[5]
	var tab [][]string
	if b, err := os.ReadFile(tabf); err == nil {
		_ = json.Unmarshal(b, &tab)
	}
	out := runSegment(dir, cap, tab, fsd.ParseOps(opsf))
	w := bufio.NewWriter(os.Stdout)
	b, _ := json.Marshal(out)
	w.Write(b)
	w.Flush()
}

type histOut struct {
	res, cks, same, reissued []string
	fin, live                string
	retries                  int
}

// runHist runs a history on dir; segments (cut at X) run in their own processes when there is more
// than one, or always when forceProc is set.
func runHist(dir string, cap int, opsField string, forceProc bool) (h histOut, errOut []string) {
	var segs [][]string
	cur := []string{}
	if opsField != "-" {
		for _, o := range strings.Split(opsField, ",") {
			if o == "X" {
				segs = append(segs, cur)
				cur = []string{}
			} else {
				cur = append(cur, o)
			}
		}
	}
	segs = append(segs, cur)
	var tab [][]string
	prevEnd := ""
	h.live = "1"
	for i, sg := range segs {
		opsf := "-"
		if len(sg) > 0 {
			opsf = strings.Join(sg, ",")
		}
		var out segOut
		if len(segs) == 1 && !forceProc {
			out = runSegment(dir, cap, tab, fsd.ParseOps(opsf))
		} else {
			tabf := dir + ".tab.json"
			b, _ := json.Marshal(tab)
			_ = os.WriteFile(tabf, b, 0o600)
			cmd := osexec.Command(os.Args[0], "segment", dir, vh.I(cap), tabf, opsf)
			cmd.Stderr = os.Stderr
			ob, err := cmd.Output()
			_ = os.Remove(tabf)
			if err != nil {
				return h, []string{"SEGMENT-PROCESS-FAILED", vh.HS(err.Error())}
			}
			if err := json.Unmarshal(ob, &out); err != nil {
				return h, []string{"SEGMENT-OUTPUT-UNREADABLE"}
			}
		}
		if i > 0 {
			h.res = append(h.res, "-")
			h.cks = append(h.cks, out.Start)
			h.same = append(h.same, vh.B(prevEnd == out.Start))
		}
		h.res = append(h.res, out.Res...)
		h.cks = append(h.cks, out.Cks...)
		h.same = append(h.same, out.Same...)
		h.reissued = append(h.reissued, out.Reissued...)
		if h.live == "1" && out.Live != "1" {
			h.live = fmt.Sprintf("seg%d:%s", i, out.Live)
		}
		tab = out.Tab
		cap = out.Cap
		h.retries += out.Retries
		prevEnd = out.End
		h.fin = out.End
	}
	return h, nil
}

func jn(xs []string, sep string) string {
	if len(xs) == 0 {
		return "none"
	}
	return strings.Join(xs, sep)
}

// the history of the open finding K-C10-id-reissued-after-restart
const reissueOps = "a.0.w1.1600000001.6f6c64206d61696c0d0a.1,r.0.0,X,a.0.w2.1600000002.6e6577206d61696c0d0a.2"

func exec(kind string, in []string) []string {
	if !fsd.CheckPool(in[1]) {
		return []string{"POOL-DIFFERS"}
	}
	cap := vh.AtoI(in[0])
	switch kind {
	case "hist":
		dir := fsd.Scratch("c10")
		defer os.RemoveAll(dir)
		h, e := runHist(dir, cap, in[2], false)
		if e != nil {
			return e
		}
		return []string{"res=" + jn(h.res, ","), "cks=" + jn(h.cks, "^"), "same=" + jn(h.same, ","), "fin=" + h.fin,
			"live=" + h.live, fmt.Sprintf("retries=%d", h.retries), "reissued=" + jn(h.reissued, ",")}
	case "reissue":
		// deliver, remove, REAL restart, deliver — both processes within one wall-clock second (the id
		// is second + counter, the counter restarts at 0000): retried when the second rolled over
		var h histOut
		for attempt := 0; attempt < 8; attempt++ {
			for time.Now().Nanosecond() > 550_000_000 {
				time.Sleep(10 * time.Millisecond)
			}
			dir := fsd.Scratch("c10r")
			var e []string
			h, e = runHist(dir, cap, reissueOps, true)
			os.RemoveAll(dir)
			if e != nil {
				return e
			}
			if len(h.reissued) > 0 {
				break
			}
		}
		return []string{"res=" + jn(h.res, ","), "fin=" + h.fin, "reissued=" + jn(h.reissued, ",")}
	}
	return []string{"UNKNOWN-KIND"}
}

func main() {
	if len(os.Args) > 1 && os.Args[1] == "segment" {
		segmentMain()
		return
	}
	vh.Main(gen, exec)
}

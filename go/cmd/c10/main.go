// Driver for C10 (the file store is durable across restart).
//
//	hist <cap> <pool> <ops>   => res= cks= same= fin= vis= retries=
//	conc <cap> <pool> <n> <k> <trials> => init= t0= t1= …   (k overlapping FIRST reads of a mailbox of n messages after each real restart)
//
// ops is a history over four mailboxes with reopen points: `R` builds a fresh file.New on the same
// path inside the process, `X` is a REAL restart: the history is cut into segments at every X and
// each segment runs in its own process (the driver re-executes itself: `drive_c10 segment …`), which
// resets the process-global id counter exactly as a server restart does. At every reopen point the
// full state (every mailbox listed, every message read) is taken before and after.
package main

import (
	"bufio"
	"encoding/json"
	"fmt"
	"os"
	osexec "os/exec"
	"path/filepath"
	"strings"
	"time"

	"github.com/inbucket/inbucket/v3/pkg/storage"
	"github.com/inbucket/inbucket/v3/pkg/verifhook"
	"verifharness/cmd/c11/fsd"
	"verifharness/vh"
)

type segOut struct {
	Start    string   `json:"start"` // state/visit seen by the fresh process
	Res      []string `json:"res"`
	Cks      []string `json:"cks"`  // state/visit after each in-process reopen
	Same     []string `json:"same"` // 1 when the state before a reopen equals the state after
	End      string   `json:"end"`
	Tab      [][]string
	Retries  int
	Reissued []string
	Live     string // "1", or the index of the first operation after which a fresh store saw another state than the live one
	Cap      int
}

// ---- how the storage directory is laid out (the ENVIRONMENT of a history) ---------------------------------
//
//	plain       <root>/store
//	pathlink    the storage path itself is a symbolic link to a directory elsewhere
//	maillink    <path>/mail is a symbolic link to a directory elsewhere (made before the first file.New)
//	bucketlink  between two lifetimes (at every reopen / restart) each first-level hash directory that is a real
//	            directory is moved elsewhere and replaced by a symbolic link
//	trailing    the path is given with a trailing slash      dotdot  the path contains ".."
//	relative    the path is relative to the working directory
var (
	layout     = "plain"
	layoutRoot string
)

func layoutSetup(root, lay string) string {
	layout, layoutRoot = lay, root
	os.Setenv("VERIF_C10_LAYOUT", lay)
	os.Setenv("VERIF_C10_ROOT", root)
	store := filepath.Join(root, "store")
	switch lay {
	case "pathlink":
		real := filepath.Join(root, "volume")
		_ = os.MkdirAll(real, 0o770)
		_ = os.Symlink(real, store)
		return store
	case "maillink":
		_ = os.MkdirAll(store, 0o770)
		real := filepath.Join(root, "mailvolume")
		_ = os.MkdirAll(real, 0o770)
		_ = os.Symlink(real, filepath.Join(store, "mail"))
		return store
	case "trailing":
		_ = os.MkdirAll(store, 0o770)
		return store + "/"
	case "dotdot":
		_ = os.MkdirAll(filepath.Join(store, "sub"), 0o770)
		return store + "/sub/../"
	case "relative":
		_ = os.MkdirAll(store, 0o770)
		if wd, err := os.Getwd(); err == nil {
			if rel, err := filepath.Rel(wd, store); err == nil {
				return rel
			}
		}
		return store
	}
	_ = os.MkdirAll(store, 0o770)
	return store
}

// betweenLifetimes is what the operator does while the server is down (layout bucketlink).
func betweenLifetimes(path string) {
	if layout != "bucketlink" {
		return
	}
	mail := filepath.Join(path, "mail")
	ents, err := os.ReadDir(mail)
	if err != nil {
		return
	}
	vol := filepath.Join(layoutRoot, "buckets")
	_ = os.MkdirAll(vol, 0o770)
	for _, e := range ents {
		p := filepath.Join(mail, e.Name())
		if fi, err := os.Lstat(p); err == nil && fi.IsDir() {
			dst, _ := os.MkdirTemp(vol, e.Name()+"-")
			_ = os.Remove(dst)
			if os.Rename(p, dst) == nil {
				_ = os.Symlink(dst, p)
			}
		}
	}
}

// runSegment runs ops (no X inside) on dir in this process.
func runSegment(dir string, cap int, tab [][]string, ops []fsd.Op) segOut {
	var out segOut
	verifhook.Set(func(site, arg string) {
		if site == "file.add.idretry" {
			out.Retries++
		}
	})
	defer verifhook.Set(nil)
	// s is the store object under test. The harness never walks it and never lists through it at a
	// reopen point: its own views come from separate, freshly constructed store objects (a store that
	// initialises something lazily must not be "warmed up" by the checker before the history's own
	// first visit / retention pass).
	s := fsd.Open(dir, cap, tab)
	fresh := func() string {
		f := fsd.Open(dir, s.Cap, fsd.CopyTab(s.Tab))
		return f.State() + "/" + f.Visit()
	}
	out.Start = fresh()
	out.Live = "1"
	for i, o := range ops {
		if o.Kind == "R" || o.Kind == "C" {
			before := fresh()
			if o.Kind == "C" {
				s.Cap = o.Rep
			}
			betweenLifetimes(dir)
			s.Reopen()
			after := fresh()
			out.Res = append(out.Res, "-")
			out.Cks = append(out.Cks, after)
			out.Same = append(out.Same, vh.B(before == after))
			continue
		}
		out.Res = append(out.Res, s.Do(o))
		// what a freshly constructed store reads from the disk = what the live store object answers
		// (by-name listings only on the live object: its visit is observed by the history's own v operations)
		if out.Live == "1" {
			f := fsd.Open(dir, s.Cap, fsd.CopyTab(s.Tab))
			if f.State() != s.State() {
				out.Live = fmt.Sprintf("0@%d", i)
			}
		}
	}
	out.End = fresh()
	out.Tab = s.Tab
	out.Reissued = s.Reissued
	out.Cap = s.Cap
	return out
}

func segmentMain() {
	// segment <dir> <cap> <tabfile> <ops>
	dir, cap, tabf, opsf := os.Args[2], vh.AtoI(os.Args[3]), os.Args[4], os.Args[5]
	if l := os.Getenv("VERIF_C10_LAYOUT"); l != "" {
		layout, layoutRoot = l, os.Getenv("VERIF_C10_ROOT")
	}
	var tab [][]string
	if b, err := os.ReadFile(tabf); err == nil {
		_ = json.Unmarshal(b, &tab)
	}
	out := runSegment(dir, cap, tab, fsd.ParseOps(opsf))
	w := bufio.NewWriter(os.Stdout)
	b, _ := json.Marshal(out)
	w.Write(b)
	w.Flush()
}

// ---- concurrent first reads after a restart ---------------------------------------------------

type concOut struct {
	Readers []string // one compact listing per reader, or PANIC:<msg>
	Mut     string
	Tab     [][]string
}

// concSegment is one incarnation of the server: a fresh process, a fresh store object, and the FIRST
// accesses to mailbox mb are k readers released together from a barrier (GetMessages / GetMessage by
// id and "latest" / VisitMailboxes); then one mutation through the same store object.
func concSegment(dir string, cap int, tab [][]string, mb, k int, mut string) concOut {
	s := fsd.Open(dir, cap, tab)
	name := fsd.Pool()[mb].Name
	out := concOut{Readers: make([]string, k)}
	start := make(chan struct{})
	done := make(chan struct{}, k)
	for r := 0; r < k; r++ {
		go func(r int) {
			defer func() {
				if x := recover(); x != nil {
					out.Readers[r] = "PANIC:" + vh.HS(fmt.Sprint(x))
				}
				done <- struct{}{}
			}()
			<-start
			switch r % 3 {
			case 0:
				ms, err := s.Store.GetMessages(name)
				if err != nil {
					out.Readers[r] = "ERR"
					return
				}
				out.Readers[r] = fsd.Short(s.Msgs(mb, ms))
			case 1:
				if len(s.Tab[mb]) > 0 {
					s.Store.GetMessage(name, "latest")
					s.Store.GetMessage(name, s.Tab[mb][len(s.Tab[mb])/2])
				}
				ms, err := s.Store.GetMessages(name)
				if err != nil {
					out.Readers[r] = "ERR"
					return
				}
				out.Readers[r] = fsd.Short(s.Msgs(mb, ms))
			default:
				got := "-"
				err := s.Store.VisitMailboxes(func(ms []storage.Message) bool {
					if len(ms) > 0 && ms[0].Mailbox() == name {
						got = s.Msgs(mb, ms)
					}
					return true
				})
				if err != nil {
					out.Readers[r] = "ERR"
					return
				}
				out.Readers[r] = fsd.Short(got)
			}
		}(r)
	}
	close(start)
	for r := 0; r < k; r++ {
		<-done
	}
	func() {
		defer func() {
			if x := recover(); x != nil {
				out.Mut = "PANIC:" + vh.HS(fmt.Sprint(x))
			}
		}()
		out.Mut = s.Do(fsd.ParseOp(mut))
	}()
	out.Tab = s.Tab
	return out
}

func concSegmentMain() {
	// concseg <dir> <cap> <tabfile> <mb> <k> <mutation>
	dir, cap, tabf := os.Args[2], vh.AtoI(os.Args[3]), os.Args[4]
	var tab [][]string
	if b, err := os.ReadFile(tabf); err == nil {
		_ = json.Unmarshal(b, &tab)
	}
	out := concSegment(dir, cap, tab, vh.AtoI(os.Args[5]), vh.AtoI(os.Args[6]), os.Args[7])
	b, _ := json.Marshal(out)
	os.Stdout.Write(b)
}

// ConcAdd is the j-th delivery of a `conc` case (the model runner builds the same).
func concAdd(mb, j int) string {
	return fmt.Sprintf("a.%d.c%d.%d.%s.1", mb, j, 1600000000+j, vh.HS(fmt.Sprintf("c%d\r\n", j)))
}

func shortState(dir string, cap int, tab [][]string) string {
	f := fsd.Open(dir, cap, fsd.CopyTab(tab))
	var xs []string
	for i := range fsd.Pool() {
		xs = append(xs, fsd.Short(f.Listing(i)))
	}
	return strings.Join(xs, "|")
}

// concCase: a mailbox of n messages (and a small second one), then `trials` incarnations, each a REAL
// process whose first accesses to the mailbox are k overlapping reads, followed by one mutation; after
// each incarnation a fresh store reads the whole state.
func concCase(cap, n, k, trials int) []string {
	dir := fsd.Scratch("c10c")
	defer os.RemoveAll(dir)
	s := fsd.Open(dir, cap, nil)
	for j := 0; j < n; j++ {
		s.Do(fsd.ParseOp(concAdd(0, j)))
	}
	for j := 0; j < 3; j++ {
		s.Do(fsd.ParseOp(concAdd(3, j)))
	}
	tab := s.Tab
	out := []string{"init=" + shortState(dir, cap, tab)}
	for t := 0; t < trials; t++ {
		mut := fmt.Sprintf("s.0.%d", t)
		if t%2 == 1 {
			mut = concAdd(0, n+t)
		}
		tabf := dir + ".tab.json"
		b, _ := json.Marshal(tab)
		_ = os.WriteFile(tabf, b, 0o600)
		cmd := osexec.Command(os.Args[0], "concseg", dir, vh.I(cap), tabf, "0", vh.I(k), mut)
		cmd.Stderr = os.Stderr
		ob, err := cmd.Output()
		_ = os.Remove(tabf)
		var co concOut
		if err != nil || json.Unmarshal(ob, &co) != nil {
			out = append(out, fmt.Sprintf("t%d=PROCESS-DIED", t))
			continue
		}
		tab = co.Tab
		out = append(out, fmt.Sprintf("t%d=%s/%s/%s", t, strings.Join(co.Readers, ","), co.Mut, shortState(dir, cap, tab)))
	}
	return out
}

type histOut struct {
	res, cks, same, reissued []string
	fin, live                string
	retries                  int
}

// runHist runs a history on dir; segments (cut at X) run in their own processes when there is more
// than one, or always when forceProc is set.
func runHist(dir string, cap int, opsField string, forceProc bool) (h histOut, errOut []string) {
	return runHistFrom(dir, cap, opsField, forceProc, nil)
}

// runHistFrom: as runHist, the handle table starting as tab0 (a store that already holds mail).
func runHistFrom(dir string, cap int, opsField string, forceProc bool, tab0 [][]string) (h histOut, errOut []string) {
	var segs [][]string
	cur := []string{}
	if opsField != "-" {
		for _, o := range strings.Split(opsField, ",") {
			if o == "X" {
				segs = append(segs, cur)
				cur = []string{}
			} else {
				cur = append(cur, o)
			}
		}
	}
	segs = append(segs, cur)
	tab := tab0
	prevEnd := ""
	h.live = "1"
	for i, sg := range segs {
		opsf := "-"
		if len(sg) > 0 {
			opsf = strings.Join(sg, ",")
		}
		var out segOut
		if len(segs) == 1 && !forceProc {
			out = runSegment(dir, cap, tab, fsd.ParseOps(opsf))
		} else {
			if i > 0 {
				betweenLifetimes(dir)
			}
			tabf := filepath.Join(layoutRoot, "tab.json")
			if layoutRoot == "" {
				tabf = strings.TrimRight(dir, "/") + ".tab.json"
			}
			b, _ := json.Marshal(tab)
			_ = os.WriteFile(tabf, b, 0o600)
			cmd := osexec.Command(os.Args[0], "segment", dir, vh.I(cap), tabf, opsf)
			cmd.Stderr = os.Stderr
			ob, err := cmd.Output()
			_ = os.Remove(tabf)
			if err != nil {
				return h, []string{"SEGMENT-PROCESS-FAILED", vh.HS(err.Error())}
			}
			if err := json.Unmarshal(ob, &out); err != nil {
				return h, []string{"SEGMENT-OUTPUT-UNREADABLE"}
			}
		}
		if i > 0 {
			h.res = append(h.res, "-")
			h.cks = append(h.cks, out.Start)
			h.same = append(h.same, vh.B(prevEnd == out.Start))
		}
		h.res = append(h.res, out.Res...)
		h.cks = append(h.cks, out.Cks...)
		h.same = append(h.same, out.Same...)
		h.reissued = append(h.reissued, out.Reissued...)
		if h.live == "1" && out.Live != "1" {
			h.live = fmt.Sprintf("seg%d:%s", i, out.Live)
		}
		tab = out.Tab
		cap = out.Cap
		h.retries += out.Retries
		prevEnd = out.End
		h.fin = out.End
	}
	return h, nil
}

func jn(xs []string, sep string) string {
	if len(xs) == 0 {
		return "none"
	}
	return strings.Join(xs, sep)
}

// the history of the open finding K-C10-id-reissued-after-restart
const reissueOps = "a.0.w1.1600000001.6f6c64206d61696c0d0a.1,r.0.0,X,a.0.w2.1600000002.6e6577206d61696c0d0a.2"

func exec(kind string, in []string) []string {
	if !fsd.CheckPool(in[1]) {
		return []string{"POOL-DIFFERS"}
	}
	cap := vh.AtoI(in[0])
	switch kind {
	case "hist":
		root := fsd.Scratch("c10")
		defer os.RemoveAll(root)
		lay := "plain"
		if len(in) > 3 {
			lay = in[3]
		}
		dir := layoutSetup(root, lay)
		h, e := runHist(dir, cap, in[2], false)
		if e != nil {
			return e
		}
		return []string{"res=" + jn(h.res, ","), "cks=" + jn(h.cks, "^"), "same=" + jn(h.same, ","), "fin=" + h.fin,
			"live=" + h.live, fmt.Sprintf("retries=%d", h.retries), "reissued=" + jn(h.reissued, ",")}
	case "srv":
		return srvCase(cap, in[2], in[3])
	case "upg":
		return upgCase(cap, in[2], in[3])
	case "big":
		return bigCase(cap, vh.AtoI(in[2]), vh.AtoI(in[3]), vh.AtoI(in[4]))
	case "size":
		return sizeCase(cap, vh.AtoI(in[2]), in[3])
	case "conc":
		return concCase(cap, vh.AtoI(in[2]), vh.AtoI(in[3]), vh.AtoI(in[4]))
	case "reissue":
		layout, layoutRoot = "plain", ""
		os.Setenv("VERIF_C10_LAYOUT", "plain")
		// deliver, remove, REAL restart, deliver — both processes within one wall-clock second (the id
		// is second + counter, the counter restarts at 0000): retried when the second rolled over
		var h histOut
		for attempt := 0; attempt < 8; attempt++ {
			for time.Now().Nanosecond() > 550_000_000 {
				time.Sleep(10 * time.Millisecond)
			}
			dir := fsd.Scratch("c10r")
			var e []string
			h, e = runHist(dir, cap, reissueOps, true)
			os.RemoveAll(dir)
			if e != nil {
				return e
			}
			if len(h.reissued) > 0 {
				break
			}
		}
		return []string{"res=" + jn(h.res, ","), "fin=" + h.fin, "reissued=" + jn(h.reissued, ",")}
	}
	return []string{"UNKNOWN-KIND"}
}

func main() {
	fsd.Extended = true // C10 histories also use odd mailbox names (mixed case, +tag, @domain, blanks, non-UTF-8, …)

	if len(os.Args) > 1 && os.Args[1] == "segment" {
		segmentMain()
		return
	}
	if len(os.Args) > 1 && os.Args[1] == "srvchild" {
		srvChildMain()
		return
	}
	if len(os.Args) > 1 && os.Args[1] == "concseg" {
		concSegmentMain()
		return
	}
	vh.Main(gen, exec)
}

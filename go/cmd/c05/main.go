// Driver for C05 (domain policy): predicate-level correspondence.
//
//	wild <pattern> <input>                       => MatchWithWildcards
//	pol <da> <acc> <rej> <ds> <sto> <dis> <rejo> <domain>
//	      => ShouldAcceptDomain ShouldStoreDomain ShouldAcceptOriginDomain
//
// The lists are raw environment values; they are loaded through the real config.Process.
package main

import (
	"bytes"
	"os"
	"strings"

	"github.com/inbucket/inbucket/v3/pkg/config"
	"github.com/inbucket/inbucket/v3/pkg/policy"
	"github.com/inbucket/inbucket/v3/pkg/stringutil"
	"verifharness/smtpd"
	"verifharness/vh"
)

var labels = []string{"a", "b", "ab", "x-y", "example", "com", "org", "mail", "A", "Ex", "COM", "m1", "a_b", "1"}

var literalDomains = []string{"[127.0.0.1]", "[IPv6:2001:db8::25]", "[IPv6:2001:DB8::AB:1]", "[10.0.0.1]", "[IPv6:::1]"}

func genDomain(g *vh.Gen) string {
	if g.Chance(0.1) { // address literals: the policy lists may name them too
		return g.Pick(literalDomains...)
	}
	n := 1 + g.Intn(3)
	parts := make([]string, n)
	for i := range parts {
		parts[i] = g.Pick(labels...)
	}
	return strings.Join(parts, ".")
}

func flipCase(g *vh.Gen, s string) string {
	b := []byte(s)
	for i, c := range b {
		if g.Chance(0.3) {
			if 'a' <= c && c <= 'z' {
				b[i] = c - 32
			} else if 'A' <= c && c <= 'Z' {
				b[i] = c + 32
			}
		}
	}
	return string(b)
}

// genPattern derives a wildcard pattern from a domain so that matches are frequent.
func genPattern(g *vh.Gen, d string) string {
	b := []byte(d)
	var out []byte
	for i := 0; i < len(b); i++ {
		switch {
		case g.Chance(0.12):
			out = append(out, '?')
		case g.Chance(0.10):
			out = append(out, '*')
			i += g.Intn(4)
		case g.Chance(0.04):
			out = append(out, '*', '*')
		case g.Chance(0.03):
			out = append(out, b[i], 'z')
		default:
			out = append(out, b[i])
		}
	}
	if g.Chance(0.1) {
		out = append(out, '*')
	}
	return flipCase(g, string(out))
}

func genList(g *vh.Gen, pool []string, wild bool) string {
	n := g.Intn(4)
	if n == 0 {
		if g.Chance(0.1) {
			return " "
		}
		return ""
	}
	xs := make([]string, n)
	for i := range xs {
		d := g.Pick(pool...)
		if wild {
			d = genPattern(g, d)
		} else if g.Chance(0.5) {
			d = flipCase(g, d)
		}
		xs[i] = d
	}
	if g.Chance(0.05) {
		xs = append(xs, "")
	}
	return strings.Join(xs, ",")
}

func gen(g *vh.Gen) {
	// wildcard matcher: small alphabets so that every DP branch is reached
	alph := "ab*?."
	for i := 0; i < g.N(3000, 200000); i++ {
		p := make([]byte, g.Intn(6))
		for j := range p {
			p[j] = alph[g.Intn(len(alph))]
		}
		s := make([]byte, g.Intn(7))
		for j := range s {
			s[j] = "ab."[g.Intn(3)]
		}
		if g.Chance(0.02) { // the input itself contains '*': outside the proved domain, still compared
			s = append(s, '*')
		}
		g.Emit("wild", vh.H(p), vh.H(s))
	}
	for i := 0; i < g.N(1500, 100000); i++ {
		d := genDomain(g)
		g.Emit("wild", vh.HS(genPattern(g, d)), vh.HS(strings.ToLower(d)))
	}
	// policy predicates through config.Process
	for i := 0; i < g.N(3000, 150000); i++ {
		pool := make([]string, 4)
		for j := range pool {
			pool[j] = genDomain(g)
		}
		d := g.Pick(pool...)
		if g.Chance(0.15) {
			d = genDomain(g)
		}
		d = flipCase(g, d)
		g.Emit("pol", vh.B(g.Chance(0.5)), vh.HS(genList(g, pool, false)), vh.HS(genList(g, pool, false)),
			vh.B(g.Chance(0.5)), vh.HS(genList(g, pool, false)), vh.HS(genList(g, pool, false)),
			vh.HS(genList(g, pool, true)), vh.HS(d))
	}
}

// genSessions: whole SMTP dialogues under policy-heavy configurations (several recipients per
// transaction naming the same mailbox through different domains, small recipient limits).
func genSessions(g *vh.Gen) {
	o := smtpd.Opts{Garbage: 0.03, MaxBody: 40}
	for i := 0; i < g.N(300, 10000); i++ {
		c, pool := smtpd.GenCfg(g, o)
		if g.Chance(0.6) {
			c.Naming = "local"
		}
		stream := smtpd.GenDialogue(g, c, pool[:2+g.Intn(3)], o)
		// a third of the sessions run with extension listeners that answer every MAIL / RCPT with an explicit defer
		// ... and a sixth with a listener that explicitly allows every recipient: the accept rule is overridden for RCPT,
		// the store / discard rule still decides what is stored
		g.Emit(g.Pick("smtp", "smtp", "smtp", "smtpdefer", "smtpdefer", "smtpallow"), append(c.Fields(), vh.H(stream))...)
	}
	// one destination named through a stored and a discarded domain in one transaction, in every order
	gs := g.Side("c05-collision")
	for i := 0; i < g.N(40, 1500); i++ {
		c, pool := smtpd.GenCfg(gs, smtpd.Opts{})
		stream := smtpd.GenCollision(gs, &c, pool)
		gs.Emit(gs.Pick("smtp", "smtp", "smtpdefer", "smtpallow"), append(c.Fields(), vh.H(stream))...)
	}
}

// genAsm: the same kind of sessions against the ASSEMBLED server (child process: config.Process from the
// environment, server.FullAssembly, real SMTP port, REST read-back): whatever the assembly does to the configured
// lists on their way to the policy is inside the check.
func genAsm(g *vh.Gen) {
	o := smtpd.Opts{Garbage: 0.02, MaxBody: 40}
	for i := 0; i < g.N(40, 1500); i++ {
		c, pool := smtpd.GenCfg(g, o)
		for c.RejO == "" && c.Rej == "" && c.Dis == "" {
			c, pool = smtpd.GenCfg(g, o)
		}
		stream := smtpd.GenDialogue(g, c, pool[:2+g.Intn(3)], o)
		stream = bytes.ReplaceAll(stream, []byte("x/y"), []byte("xsy")) // names with '/' cannot be read back over REST (K-C14)
		if !bytes.HasSuffix(bytes.ToUpper(bytes.TrimRight(stream, "\r\n")), []byte("QUIT")) {
			stream = append(stream, []byte("QUIT\r\n")...)
		}
		stream = closeOpenBlock(stream)
		g.Emit("asm", append(c.Fields(), vh.H(stream))...)
	}
}

// closeOpenBlock: a dialogue whose last DATA line is not followed by a terminating "." line may end INSIDE a mail data
// block; over real TCP the session then ends by whichever comes first, the client's EOF or the child's shutdown (which
// says 221) - an order the harness does not control under load. Such a stream gets the terminator and a QUIT: the
// session then always ends by its own QUIT (if the DATA line had been refused the "." is one more unknown command).
func closeOpenBlock(stream []byte) []byte {
	lines := bytes.Split(stream, []byte("\n"))
	last, dot := -1, -1
	for i, l := range lines {
		t := strings.ToUpper(strings.TrimRight(string(l), "\r"))
		if strings.TrimSpace(t) == "DATA" {
			last = i
		}
		if t == "." {
			dot = i
		}
	}
	if last >= 0 && dot < last {
		if !bytes.HasSuffix(stream, []byte("\n")) {
			stream = append(stream, []byte("\r\n")...)
		}
		stream = append(stream, []byte(".\r\nQUIT\r\n")...)
	}
	return stream
}

func setenv(k, v string) {
	if v == "" {
		os.Unsetenv(k)
	} else {
		os.Setenv(k, v)
	}
}

func exec(kind string, in []string) []string {
	switch kind {
	case "smtp":
		return smtpd.Exec(in)
	case "smtpdefer":
		return smtpd.ExecDefer(in)
	case "smtpallow":
		return smtpd.ExecAllow(in)
	case "asm":
		return smtpd.ExecAsm(in)
	case "wild":
		return []string{vh.B(stringutil.MatchWithWildcards(vh.US(in[0]), vh.US(in[1])))}
	case "pol":
		setenv("INBUCKET_SMTP_DEFAULTACCEPT", map[string]string{"1": "true", "0": "false"}[in[0]])
		setenv("INBUCKET_SMTP_ACCEPTDOMAINS", vh.US(in[1]))
		setenv("INBUCKET_SMTP_REJECTDOMAINS", vh.US(in[2]))
		setenv("INBUCKET_SMTP_DEFAULTSTORE", map[string]string{"1": "true", "0": "false"}[in[3]])
		setenv("INBUCKET_SMTP_STOREDOMAINS", vh.US(in[4]))
		setenv("INBUCKET_SMTP_DISCARDDOMAINS", vh.US(in[5]))
		setenv("INBUCKET_SMTP_REJECTORIGINDOMAINS", vh.US(in[6]))
		conf, err := config.Process()
		if err != nil {
			return []string{"CONFIGERR", vh.HS(err.Error())}
		}
		a := &policy.Addressing{Config: conf}
		d := vh.US(in[7])
		return []string{vh.B(a.ShouldAcceptDomain(d)), vh.B(a.ShouldStoreDomain(d)), vh.B(a.ShouldAcceptOriginDomain(d))}
	}
	return []string{"UNKNOWN-KIND"}
}

func main() {
	if len(os.Args) > 1 && os.Args[1] == "asmchild" {
		smtpd.AsmChild()
		return
	}
	vh.Main(func(g *vh.Gen) { gen(g); genSessions(g); genAsm(g) }, exec)
}

package main

import (
	"encoding/hex"
	"fmt"
	"strings"

	"verifharness/cmd/c11/fsd"
	"verifharness/vh"
)

type genState struct {
	g     *vh.Gen
	adds  [4]int // adds so far per mailbox (handles issued)
	ntok  int
	dates int64
}

func (s *genState) add(mb int) string {
	g := s.g
	s.ntok++
	s.dates++
	seed := []byte(fmt.Sprintf("m%d line\r\n", s.ntok))
	rep := 1 + g.Intn(3)
	switch {
	case g.Chance(0.08):
		rep = 500 + g.Intn(200) // > 4096 bytes: more than one bufio buffer
	case g.Chance(0.03):
		rep = 4000 // > 32 KiB: more than one io.Copy chunk
	case g.Chance(0.05):
		rep = 0 // empty body
	}
	s.adds[mb]++
	return fmt.Sprintf("a.%d.t%d.%d.%s.%d", mb, s.ntok, 1600000000+s.dates, hex.EncodeToString(seed), rep)
}

func (s *genState) handle(mb int) int {
	g := s.g
	if s.adds[mb] == 0 || g.Chance(0.07) {
		return 99
	}
	return g.Intn(s.adds[mb])
}

func (s *genState) op(mbs []int, wAdd float64) string {
	g := s.g
	mb := mbs[g.Intn(len(mbs))]
	x := g.Float64()
	switch {
	case x < wAdd:
		return s.add(mb)
	case x < wAdd+(1-wAdd)*0.35:
		return fmt.Sprintf("s.%d.%d", mb, s.handle(mb))
	case x < wAdd+(1-wAdd)*0.85:
		return fmt.Sprintf("r.%d.%d", mb, s.handle(mb))
	default:
		return fmt.Sprintf("p.%d", mb)
	}
}

func join(xs []string) string {
	if len(xs) == 0 {
		return "-"
	}
	return strings.Join(xs, ",")
}

func gen(g *vh.Gen) {
	pool := fsd.PoolField()
	emit := func(cap int, hist []string, op string) {
		g.Emit("plan", vh.I(cap), pool, join(hist), op)
	}
	// the fixed scenarios of the design spike, for several caps, with mailboxes that share parents
	a := func(mb, n int) string {
		return fmt.Sprintf("a.%d.f%d.%d.%s.1", mb, n, 1600000000+n, hex.EncodeToString([]byte(fmt.Sprintf("fixed %d\r\n", n))))
	}
	g.Emit("new", "0", pool)
	g.Emit("new", "2", pool)
	emit(0, nil, a(0, 1))
	emit(0, []string{a(0, 1), a(0, 2)}, a(0, 3))
	emit(2, []string{a(0, 1), a(0, 2)}, a(0, 3))
	emit(1, []string{a(0, 1)}, a(0, 2))
	emit(0, []string{a(0, 1), a(0, 2)}, "s.0.0")
	emit(0, []string{a(0, 1), a(0, 2)}, "r.0.0")
	emit(0, []string{a(0, 1)}, "r.0.0")
	emit(0, []string{a(0, 1), a(0, 2)}, "p.0")
	emit(0, []string{a(0, 1), a(1, 2)}, "r.0.0")          // sibling shares level 2
	emit(0, []string{a(0, 1), a(2, 2)}, "p.0")            // sibling shares level 1 only
	emit(1, []string{a(0, 1), a(1, 2), a(3, 3)}, a(0, 4)) // cap 1 with a sibling
	emit(3, []string{a(3, 1), a(3, 2), a(3, 3), a(3, 4)}, a(3, 5))
	// the cap shrank between runs: one delivery evicts several messages (one index commit each)
	emit(0, []string{a(0, 1), a(0, 2), a(0, 3), a(0, 4), "C.2"}, a(0, 5))
	emit(0, []string{a(1, 1), a(1, 2), a(1, 3), a(0, 4), "C.1"}, a(1, 5))
	// a mailbox of dozens of messages: its index is larger than one bufio buffer (4 KiB), so a crash inside
	// writeIndex leaves a non-empty PREFIX in index.gob.tmp
	var big []string
	for j := 1; j <= 40; j++ {
		big = append(big, a(0, 100+j))
	}
	emit(0, big, a(0, 200))
	emit(0, big, "s.0.7")
	emit(0, big, "r.0.0")
	emit(0, nil, "p.3")
	emit(0, nil, "r.3.99")
	// histories with several killed operations, reopens and completed operations interleaved
	for i := 0; i < g.N(60, 3000); i++ {
		s := &genState{g: g}
		cap := []int{0, 0, 1, 2, 3}[g.Intn(5)]
		mbs := [][]int{{0}, {0, 1}, {0, 2, 3}}[g.Intn(3)]
		var items []string
		for j, n := 0, 3+g.Intn(8); j < n; j++ {
			switch {
			case g.Chance(0.1):
				items = append(items, "R")
			case g.Chance(0.08):
				items = append(items, "v")
			default:
				it := s.op(mbs, 0.6)
				if g.Chance(0.4) {
					it += fmt.Sprintf("@%d", g.Intn(16))
				}
				items = append(items, it)
			}
		}
		g.Emit("chist", vh.I(cap), pool, strings.Join(items, ","))
	}
	for i := 0; i < g.N(26, 700); i++ {
		s := &genState{g: g}
		cap := []int{0, 0, 1, 2, 3}[g.Intn(5)]
		var mbs []int
		switch g.Intn(4) {
		case 0:
			mbs = []int{0}
		case 1:
			mbs = []int{0, 1}
		case 2:
			mbs = []int{0, 2, 3}
		default:
			mbs = []int{0, 1, 2, 3}
		}
		n := g.Intn(7)
		var hist []string
		for j := 0; j < n; j++ {
			hist = append(hist, s.op(mbs, 0.65))
		}
		if g.Chance(0.15) {
			hist = append(hist, fmt.Sprintf("C.%d", 1+g.Intn(2)))
		}
		emit(cap, hist, s.op(mbs, 0.4))
	}
}

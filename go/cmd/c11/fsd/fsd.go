// Package fsd is shared by the C10 and C11 drivers: operation histories over the real file store
// (pkg/storage/file) on a scratch directory, handle tables, and the projected observations
// (listings by handle, visit walk) both properties compare with the disk model.
package fsd

import (
	"bytes"
	"context"
	"encoding/hex"
	"fmt"
	"io"
	"net/mail"
	"os"
	"path/filepath"
	"sort"
	"strconv"
	"strings"
	"time"

	"github.com/inbucket/inbucket/v3/pkg/config"
	"github.com/inbucket/inbucket/v3/pkg/extension"
	"github.com/inbucket/inbucket/v3/pkg/extension/event"
	"github.com/inbucket/inbucket/v3/pkg/message"
	"github.com/inbucket/inbucket/v3/pkg/storage"
	"github.com/inbucket/inbucket/v3/pkg/storage/file"
	"github.com/inbucket/inbucket/v3/pkg/stringutil"
	"github.com/rs/zerolog"
)

func init() { zerolog.SetGlobalLevel(zerolog.Disabled) }

// PoolEntry is one mailbox name of the pool with the directory hash the real code derives.
type PoolEntry struct{ Name, Hash string }

var pool []PoolEntry

// Extended adds to the pool mailbox names as the storage.Store interface accepts them (set by the C10 driver
// before the first use): mixed case, names differing only in case or in a trailing dot, +tag, @domain, blanks,
// non-ASCII, invalid UTF-8, a slash, a NUL byte, and a very long name. The file store only ever hashes the name.
var Extended bool

var oddNames = []string{"Support-Desk", "ALICE", "alice", "bob+tag", "carol@Example.COM", "two words", "dot.", "dot",
	"\u00fcn\u00ef-\u00e7\u00f8de", "\xff\xfe\x80bad", "a/b", "nul\x00byte", strings.Repeat("long-Name.", 23)}

// Pool returns seven mailbox names: 0 and 1 share the 6-hex-digit (level 2) directory, 2 shares
// only the 3-digit (level 1) directory with them, 3..6 each have a first-level directory of their own. Found by search over the
// real stringutil.HashMailboxName, so the shared-parent branches of removeDir are exercised.
func Pool() []PoolEntry {
	if pool != nil {
		return pool
	}
	by6 := map[string]string{}
	var a, b string
	for i := 0; a == "" && i < 200000; i++ {
		n := "u" + strconv.Itoa(i)
		h := stringutil.HashMailboxName(n)
		if o, ok := by6[h[:6]]; ok {
			a, b = o, n
		} else {
			by6[h[:6]] = n
		}
	}
	ha := stringutil.HashMailboxName(a)
	var c string
	for i := 0; c == "" && i < 2000000; i++ {
		n := "v" + strconv.Itoa(i)
		h := stringutil.HashMailboxName(n)
		if h[:3] == ha[:3] && h[:6] != ha[:6] {
			c = n
		}
	}
	for _, n := range []string{a, b, c, "solo"} {
		pool = append(pool, PoolEntry{n, stringutil.HashMailboxName(n)})
	}
	// three more, each below a first-level directory of its own (mailboxes that are "new" after a reopen)
	used := map[string]bool{}
	for _, p := range pool {
		used[p.Hash[:3]] = true
	}
	for i := 0; len(pool) < 7; i++ {
		n := "w" + strconv.Itoa(i)
		h := stringutil.HashMailboxName(n)
		if !used[h[:3]] {
			used[h[:3]] = true
			pool = append(pool, PoolEntry{n, h})
		}
	}
	if Extended {
		for _, n := range oddNames {
			pool = append(pool, PoolEntry{n, stringutil.HashMailboxName(n)})
		}
		// HASH NEIGHBOURHOOD (indexes 20..22): three names below ONE first-level (3 hex) directory that no other
		// pool name uses, with three different second-level (6 hex) directories; found by hashing n<i>.
		for _, p := range pool {
			used[p.Hash[:3]] = true
		}
		by3 := map[string][]string{}
		for i := 0; i < 200000; i++ {
			n := "n" + strconv.Itoa(i)
			h := stringutil.HashMailboxName(n)
			if used[h[:3]] {
				continue
			}
			dup := false
			for _, o := range by3[h[:3]] {
				if stringutil.HashMailboxName(o)[:6] == h[:6] {
					dup = true
				}
			}
			if dup {
				continue
			}
			by3[h[:3]] = append(by3[h[:3]], n)
			if len(by3[h[:3]]) == 3 {
				for _, o := range by3[h[:3]] {
					pool = append(pool, PoolEntry{o, stringutil.HashMailboxName(o)})
				}
				break
			}
		}
	}
	return pool
}

// PoolField encodes the pool as an input field: name:hash,... (hex).
func PoolField() string {
	var xs []string
	for _, p := range Pool() {
		xs = append(xs, hex.EncodeToString([]byte(p.Name))+":"+hex.EncodeToString([]byte(p.Hash)))
	}
	return strings.Join(xs, ",")
}

// CheckPool verifies that the pool of an input line is what the real hash function gives now.
func CheckPool(field string) bool { return field == PoolField() }

// Op is one operation of a history.
//
//	a.<mb>.<tok>.<date>.<seedhex>.<rep>  deliver    s.<mb>.<h>  mark seen    r.<mb>.<h>  remove
//	p.<mb>  purge    v  visit    t  retention scan    R  reopen in process    C.<cap>  reopen with another cap    X  real process restart (C10)
type Op struct {
	Kind   string
	Mb     int
	Tok    string
	Date   int64
	Seed   []byte
	Rep    int
	Handle int
}

func ParseOp(s string) Op {
	f := strings.Split(s, ".")
	o := Op{Kind: f[0]}
	at := func(i int) int { n, _ := strconv.Atoi(f[i]); return n }
	switch f[0] {
	case "a":
		o.Mb, o.Tok, o.Date, o.Rep = at(1), f[2], int64(at(3)), at(5)
		o.Seed, _ = hex.DecodeString(f[4])
	case "s", "r":
		o.Mb, o.Handle = at(1), at(2)
	case "p":
		o.Mb = at(1)
	case "C": // reopen with another MailboxMsgCap
		o.Rep = at(1)
	}
	return o
}

func ParseOps(field string) []Op {
	if field == "-" || field == "" {
		return nil
	}
	var ops []Op
	for _, s := range strings.Split(field, ",") {
		ops = append(ops, ParseOp(s))
	}
	return ops
}

func Body(seed []byte, rep int) []byte { return bytes.Repeat(seed, rep) }

// Digest is the projected content: hex when short, else length and a positional checksum.
func Digest(b []byte) string {
	if len(b) == 0 {
		return "E"
	}
	if len(b) <= 32 {
		return hex.EncodeToString(b)
	}
	s := 0
	for i, c := range b {
		s = (s + (i%251+1)*int(c)) % 1000003
	}
	return fmt.Sprintf("L%dS%d", len(b), s)
}

// Sess is a store object on a directory plus the handle table of the run.
type Sess struct {
	Dir   string
	Cap   int
	Store storage.Store
	Tab   [][]string // per pool mailbox: ids in order of successful adds
	// Reissued lists "k<old>>k<new>" for every delivery that was given an id issued before in this
	// mailbox (possible after a restart, for a message that is gone).
	Reissued []string
}

func Open(dir string, cap int, tab [][]string) *Sess {
	s := &Sess{Dir: dir, Cap: cap, Tab: tab}
	if s.Tab == nil {
		s.Tab = make([][]string, len(Pool()))
	}
	s.Reopen()
	return s
}

func CopyTab(t [][]string) [][]string {
	r := make([][]string, len(t))
	for i := range t {
		r[i] = append([]string(nil), t[i]...)
	}
	return r
}

// Reopen builds a fresh Store object on the same path (what a restart does inside one process).
func (s *Sess) Reopen() {
	st, err := file.New(config.Storage{Params: map[string]string{"path": s.Dir}, MailboxMsgCap: s.Cap}, extension.NewHost())
	if err != nil {
		panic("file.New: " + err.Error())
	}
	s.Store = st
}

func (s *Sess) id(mb, h int) string {
	if h >= 0 && h < len(s.Tab[mb]) {
		return s.Tab[mb][h]
	}
	return "nosuchid"
}

func Delivery(mb int, o Op) *message.Delivery {
	body := Body(o.Seed, o.Rep)
	return &message.Delivery{
		Meta: event.MessageMetadata{
			Mailbox: Pool()[mb].Name,
			From:    &mail.Address{Name: "F " + o.Tok, Address: o.Tok + "@from.example"},
			To:      []*mail.Address{{Address: o.Tok + "@to.example"}, {Name: "Second", Address: "x" + o.Tok + "@to.example"}},
			Date:    time.Unix(o.Date, 0),
			Subject: "subj " + o.Tok,
		},
		Reader: bytes.NewReader(body),
	}
}

// Do runs one operation and returns its projected result.
func (s *Sess) Do(o Op) string {
	switch o.Kind {
	case "R":
		s.Reopen()
		return "-"
	case "C":
		s.Cap = o.Rep
		s.Reopen()
		return "-"
	case "v": // VisitMailboxes on the store object under test
		return "V=" + s.Visit()
	case "t": // one pass of the real retention scanner (period 1 h) on the store object under test
		rs := storage.NewRetentionScanner(config.Storage{RetentionPeriod: time.Hour}, s.Store)
		if err := rs.DoScan(context.Background()); err != nil {
			return "err"
		}
		return "ok"
	}
	name := Pool()[o.Mb].Name
	switch o.Kind {
	case "a":
		id, err := s.Store.AddMessage(Delivery(o.Mb, o))
		if err != nil {
			return "err"
		}
		// An id may legitimately be issued again after a restart once its message is gone (the
		// counter restarts with the process); the old handle then no longer names anything.
		for j, old := range s.Tab[o.Mb] {
			if old == id {
				s.Tab[o.Mb][j] = "reissued:" + id
				s.Reissued = append(s.Reissued, "k"+strconv.Itoa(j)+">k"+strconv.Itoa(len(s.Tab[o.Mb])))
			}
		}
		s.Tab[o.Mb] = append(s.Tab[o.Mb], id)
		return "k" + strconv.Itoa(len(s.Tab[o.Mb])-1)
	case "s":
		return errClass(s.Store.MarkSeen(name, s.id(o.Mb, o.Handle)))
	case "r":
		return errClass(s.Store.RemoveMessage(name, s.id(o.Mb, o.Handle)))
	case "p":
		return errClass(s.Store.PurgeMessages(name))
	case "C": // the server is restarted with another MailboxMsgCap
		s.Cap = o.Rep
		s.Reopen()
		return "-"
	}
	return "badop"
}

func errClass(err error) string {
	switch err {
	case nil:
		return "ok"
	case storage.ErrNotExist:
		return "notexist"
	}
	return "err"
}

func addrs(as []*mail.Address) string {
	var xs []string
	for _, a := range as {
		xs = append(xs, a.Name+"<"+a.Address+">")
	}
	return strings.Join(xs, ",")
}

func (s *Sess) handleOf(mb int, id string) string {
	for j := len(s.Tab[mb]) - 1; j >= 0; j-- {
		if s.Tab[mb][j] == id {
			return "k" + strconv.Itoa(j)
		}
	}
	return "u"
}

func (s *Sess) msgs(mb int, ms []storage.Message) string {
	if len(ms) == 0 {
		return "-"
	}
	var xs []string
	for _, m := range ms {
		from := ""
		if m.From() != nil {
			from = m.From().Name + "<" + m.From().Address + ">"
		}
		info := fmt.Sprintf("%s|%s|%s|%d", m.Subject(), from, addrs(m.To()), m.Date().Unix())
		content := "NOSRC"
		if r, err := m.Source(); err == nil {
			b, err := io.ReadAll(r)
			_ = r.Close()
			if err == nil {
				content = Digest(b)
			}
		}
		h := "u"
		if mb >= 0 {
			h = s.handleOf(mb, m.ID())
		}
		seen := "0"
		if m.Seen() {
			seen = "1"
		}
		xs = append(xs, strings.Join([]string{h, hex.EncodeToString([]byte(m.Mailbox())), hex.EncodeToString([]byte(info)),
			strconv.FormatInt(m.Size(), 10), seen, content}, "."))
	}
	return strings.Join(xs, ";")
}

// Msgs renders a list of messages of pool mailbox mb (handles, metadata, content digests).
func (s *Sess) Msgs(mb int, ms []storage.Message) string { return s.msgs(mb, ms) }

// Short is a compact form of a (possibly very long) listing: number of messages and FNV-1a of the text.
func Short(listing string) string {
	n := 0
	if listing != "-" && listing != "" {
		n = strings.Count(listing, ";") + 1
	}
	h := uint32(2166136261)
	for i := 0; i < len(listing); i++ {
		h ^= uint32(listing[i])
		h *= 16777619
	}
	return fmt.Sprintf("%d:%08x", n, h)
}

// Listing is GetMessages of one pool mailbox with every message's content read.
func (s *Sess) Listing(mb int) string {
	ms, err := s.Store.GetMessages(Pool()[mb].Name)
	if err != nil {
		return "ERR"
	}
	out := s.msgs(mb, ms)
	// GetMessage by id and "latest" must agree with the listing.
	if len(ms) > 0 {
		last := ms[len(ms)-1]
		if m, err := s.Store.GetMessage(Pool()[mb].Name, "latest"); err != nil || m.ID() != last.ID() {
			return out + ";LATEST-DIFFERS"
		}
		for _, x := range ms {
			if m, err := s.Store.GetMessage(Pool()[mb].Name, x.ID()); err != nil || m.ID() != x.ID() {
				return out + ";GET-DIFFERS"
			}
		}
	}
	return out
}

// State is the listing of every pool mailbox.
func (s *Sess) State() string {
	var xs []string
	for i := range Pool() {
		xs = append(xs, s.Listing(i))
	}
	return strings.Join(xs, "|")
}

// Visit is the multiset of listings VisitMailboxes yields (sorted), or ERR.
func (s *Sess) Visit() string {
	var xs []string
	err := s.Store.VisitMailboxes(func(ms []storage.Message) bool {
		mb := -1
		if len(ms) > 0 {
			for i, p := range Pool() {
				if p.Name == ms[0].Mailbox() {
					mb = i
				}
			}
		}
		xs = append(xs, s.msgs(mb, ms))
		return true
	})
	if err != nil {
		return "ERR"
	}
	if len(xs) == 0 {
		return "none"
	}
	sort.Strings(xs)
	return strings.Join(xs, "|")
}

// CopyDir copies a directory tree.
func CopyDir(src, dst string) {
	err := filepath.Walk(src, func(p string, fi os.FileInfo, err error) error {
		if err != nil {
			return err
		}
		rel, _ := filepath.Rel(src, p)
		t := filepath.Join(dst, rel)
		if fi.IsDir() {
			return os.MkdirAll(t, 0o770)
		}
		b, err := os.ReadFile(p)
		if err != nil {
			return err
		}
		return os.WriteFile(t, b, 0o660)
	})
	if err != nil {
		panic("copy: " + err.Error())
	}
}

// Scratch returns a fresh scratch directory under the run directory.
func Scratch(tag string) string {
	base := os.Getenv("VERIF_WORKDIR")
	if base == "" {
		base = os.TempDir()
	}
	d, err := os.MkdirTemp(base, "verif-"+tag+"-")
	if err != nil {
		panic(err)
	}
	return d
}

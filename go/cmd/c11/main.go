// Driver for C11 (a crash at any point of a file-store update leaves every mailbox readable).
//
//	plan  <cap> <pool> <hist> <op>        => seq=<sites of the whole op> res= pre= post= vis=
//	crash <cap> <pool> <hist> <op> <k>    => at= pre= post= rec= vis= acc= v1= v2=
//	new   <cap> <pool>                    => d0= d1= d2=   (file.New dies at its MkdirAll, then a second file.New)
//	chist <cap> <pool> <items>             => res= cks=   (items: op | op@k = killed after k steps, then reopened | R)
//	visit <cap> <pool> <hist> <op> <k> <j> => vis= started= pre= post= fin=   (walk interleaved with the operation)
//
// `crash … k`: the history runs on a scratch directory; the operation under test then runs with a
// verifhook handler that panics at the (k+1)-th mutation point (k steps are complete; deferred
// unlocks run, user-space buffers are lost as at a kill). A fresh file.New on the directory then
// lists every mailbox (reading every message), walks VisitMailboxes, and delivers a new message.
// If step k is a content write the run is repeated up to the close point and the file is truncated
// to every length <= 512 (sampled lengths above); if it is RemoveAll / MkdirAll the driver itself
// performs part of it (subsets of the entries / an outer part of the chain) — v1, v2.
package main

import (
	"fmt"
	"os"
	"path/filepath"
	"sort"
	"strconv"
	"strings"

	"github.com/inbucket/inbucket/v3/pkg/config"
	"github.com/inbucket/inbucket/v3/pkg/extension"
	"github.com/inbucket/inbucket/v3/pkg/storage/file"
	"github.com/inbucket/inbucket/v3/pkg/verifhook"
	"verifharness/cmd/c11/fsd"
	"verifharness/vh"
)

type crashSig struct{}

func mutationSite(site string) bool {
	return strings.HasPrefix(site, "file.") && !strings.HasPrefix(site, "file.visit.") && !strings.HasPrefix(site, "file.new.") && site != "file.add.idretry"
}

// runOp runs one operation; with target > 0 it dies at the target-th mutation point.
// It returns the sites passed (the one died at last), the argument of the last one, the result.
func runOp(s *fsd.Sess, o fsd.Op, target int) (sites []string, arg string, res string, crashed bool) {
	n := 0
	verifhook.Set(func(site, a string) {
		if !mutationSite(site) {
			return
		}
		n++
		sites = append(sites, strings.TrimPrefix(site, "file."))
		arg = a
		if target > 0 && n == target {
			panic(crashSig{})
		}
	})
	defer verifhook.Set(nil)
	defer func() {
		if r := recover(); r != nil {
			if _, ok := r.(crashSig); !ok {
				panic(r)
			}
			crashed = true
			res = "crashed"
		}
	}()
	res = s.Do(o)
	return
}

type scen struct {
	cap  int
	hist []fsd.Op
	op   fsd.Op
	base string // directory after the history
	tab  [][]string
	pre  string
}

func setup(in []string) (*scen, bool) {
	if !fsd.CheckPool(in[1]) {
		return nil, false
	}
	sc := &scen{cap: vh.AtoI(in[0]), hist: fsd.ParseOps(in[2]), op: fsd.ParseOp(in[3])}
	sc.base = fsd.Scratch("c11")
	s := fsd.Open(sc.base, sc.cap, nil)
	for _, o := range sc.hist {
		s.Do(o)
	}
	sc.tab = s.Tab
	sc.cap = s.Cap // the history may have changed the cap (C.<n>)
	sc.pre = fsd.Open(sc.base, sc.cap, fsd.CopyTab(sc.tab)).State()
	return sc, true
}

func (sc *scen) fork() *fsd.Sess {
	d := fsd.Scratch("c11f")
	fsd.CopyDir(sc.base, d)
	return fsd.Open(d, sc.cap, fsd.CopyTab(sc.tab))
}

// countVisitPoints counts the directory reads of VisitMailboxes on the state after the history.
func countVisitPoints(sc *scen) int {
	n := 0
	verifhook.Set(func(site, a string) {
		if strings.HasPrefix(site, "file.visit.") {
			n++
		}
	})
	defer verifhook.Set(nil)
	fsd.Open(sc.base, sc.cap, fsd.CopyTab(sc.tab)).Visit()
	return n
}

// visitRun walks VisitMailboxes on one store object while the operation runs on another one (same
// directory; directory reads take no lock): when the walk is at its k-th yield point the operation
// starts and runs until it has completed j file-system steps, stays there while the walk finishes, and
// completes afterwards.
func visitRun(sc *scen, k, j int) (vis string, started bool, fin string) {
	a := sc.fork()
	defer os.RemoveAll(a.Dir)
	walker := fsd.Open(a.Dir, sc.cap, fsd.CopyTab(sc.tab))
	parked := make(chan struct{})
	resume := make(chan struct{})
	done := make(chan struct{})
	isParked := false
	nVisit, nOp := 0, 0
	verifhook.Set(func(site, arg string) {
		switch {
		case strings.HasPrefix(site, "file.visit."):
			if nVisit == k && !started {
				started = true
				go func() {
					a.Do(sc.op)
					close(done)
				}()
				select {
				case <-parked:
					isParked = true
				case <-done:
				}
			}
			nVisit++
		case mutationSite(site):
			if nOp == j {
				nOp++
				parked <- struct{}{}
				<-resume
				return
			}
			nOp++
		}
	})
	vis = walker.Visit()
	if isParked {
		close(resume)
		<-done
	}
	verifhook.Set(nil)
	if !started {
		a.Do(sc.op)
	}
	fin, _ = recovered(a.Dir, sc.cap, a.Tab)
	return
}

var accOp = fsd.Op{Kind: "a", Tok: "zz", Date: 1700000000, Seed: []byte("new mail\r\n"), Rep: 1}

// recovered opens a fresh store on the directory and reports state / visit.
func recovered(dir string, cap int, tab [][]string) (string, string) {
	r := fsd.Open(dir, cap, fsd.CopyTab(tab))
	return r.State(), r.Visit()
}

func accepts(dir string, cap int, tab [][]string, mb int) string {
	r := fsd.Open(dir, cap, fsd.CopyTab(tab))
	o := accOp
	o.Mb = mb
	res := r.Do(o)
	return res + "/" + fsd.Open(dir, cap, fsd.CopyTab(r.Tab)).Listing(mb)
}

func truncLens(n int, thorough bool) []int {
	seen := map[int]bool{}
	var ls []int
	add := func(l int) {
		if l >= 0 && l <= n && !seen[l] {
			seen[l] = true
			ls = append(ls, l)
		}
	}
	add(n)
	add(n - 1)
	for _, l := range []int{32769, 32768, 32767, 8192, 4097, 4096, 4095, 2048, 1024, 513} {
		add(l)
	}
	step := 1
	if !thorough && n > 96 {
		step = 1 // every length <= 512 in both tiers
	}
	for l := 512; l >= 0; l -= step {
		add(l)
	}
	sort.Sort(sort.Reverse(sort.IntSlice(ls)))
	return ls
}

// newCrash: file.New on a path that does not exist yet dies at its MkdirAll (nothing, or only an outer
// part of the chain path/../mail exists); a second file.New must then build a working empty store.
func newCrash(cap int) []string {
	out := []string{}
	for depth := 0; depth <= 2; depth++ {
		root := fsd.Scratch("c11n")
		base := filepath.Join(root, "a", "b") // the configured path; mail lives in base/mail
		at := "no-point"
		func() {
			verifhook.Set(func(site, arg string) {
				if site == "file.new.mkdir" {
					at = "new.mkdir"
					panic(crashSig{})
				}
			})
			defer verifhook.Set(nil)
			defer func() {
				if r := recover(); r != nil {
					if _, ok := r.(crashSig); !ok {
						panic(r)
					}
				}
			}()
			file.New(config.Storage{Params: map[string]string{"path": base}, MailboxMsgCap: cap}, extension.NewHost())
		}()
		// the part of MkdirAll(base/mail) that happened before the process died
		switch depth {
		case 1:
			os.MkdirAll(filepath.Join(root, "a"), 0o770)
		case 2:
			os.MkdirAll(base, 0o770)
		}
		st, vs := recovered(base, cap, nil)
		out = append(out, fmt.Sprintf("d%d=%s/%s/%s/%s", depth, at, st, vs, accepts(base, cap, make([][]string, len(fsd.Pool())), 0)))
		os.RemoveAll(root)
	}
	return out
}

// crashHistory: a history in which operations run to completion, are killed after k file-system steps
// (`op@k`; the store is then reopened, as after a process restart), and reopens are interleaved. After
// every item the state is read through a separate fresh store object.
func crashHistory(cap int, items string) []string {
	dir := fsd.Scratch("c11h")
	defer os.RemoveAll(dir)
	s := fsd.Open(dir, cap, nil)
	var res, cks []string
	for _, it := range strings.Split(items, ",") {
		opf, k := it, -1
		if i := strings.Index(it, "@"); i >= 0 {
			opf, k = it[:i], vh.AtoI(it[i+1:])
		}
		o := fsd.ParseOp(opf)
		if k < 0 {
			res = append(res, s.Do(o))
		} else {
			_, _, r, crashed := runOp(s, o, k+1)
			if crashed {
				res = append(res, "crashed")
				s = fsd.Open(dir, s.Cap, s.Tab) // the process is gone: a new store object
			} else {
				res = append(res, r)
			}
		}
		st, vs := recovered(dir, s.Cap, s.Tab)
		cks = append(cks, st+"/"+vs)
	}
	return []string{"res=" + strings.Join(res, ","), "cks=" + strings.Join(cks, "^")}
}

func exec(kind string, in []string) []string {
	if kind == "chist" {
		if !fsd.CheckPool(in[1]) {
			return []string{"POOL-DIFFERS"}
		}
		return crashHistory(vh.AtoI(in[0]), in[2])
	}
	if kind == "new" {
		if !fsd.CheckPool(in[1]) {
			return []string{"POOL-DIFFERS"}
		}
		return newCrash(vh.AtoI(in[0]))
	}
	sc, ok := setup(in)
	if !ok {
		return []string{"POOL-DIFFERS"}
	}
	defer os.RemoveAll(sc.base)
	thorough := os.Getenv("VERIF_TIER") == "thorough"
	// complete run on a copy: the site sequence and the post state
	full := sc.fork()
	defer os.RemoveAll(full.Dir)
	seq, _, res, _ := runOp(full, sc.op, 0)
	post, pvis := recovered(full.Dir, sc.cap, full.Tab)
	switch kind {
	case "plan":
		return []string{"seq=" + strings.Join(seq, ","), "res=" + res, "pre=" + sc.pre, "post=" + post, "vis=" + pvis,
			"nv=" + strconv.Itoa(countVisitPoints(sc))}
	case "visit":
		vis, started, fin := visitRun(sc, vh.AtoI(in[4]), vh.AtoI(in[5]))
		return []string{"vis=" + vis, "started=" + vh.B(started), "pre=" + sc.pre, "post=" + post, "fin=" + fin}
	case "crash":
		k := vh.AtoI(in[4])
		out := []string{}
		a := sc.fork()
		defer os.RemoveAll(a.Dir)
		sites, _, cres, crashed := runOp(a, sc.op, k+1)
		at := "done"
		if crashed {
			at = sites[len(sites)-1]
		}
		_ = cres
		rec, vis := recovered(a.Dir, sc.cap, a.Tab)
		acc := accepts(a.Dir, sc.cap, a.Tab, sc.op.Mb)
		out = append(out, "at="+at, "pre="+sc.pre, "post="+post, "rec="+rec, "vis="+vis, "acc="+acc)
		v1, v2 := "na", "na"
		nstates := 0
		switch {
		case crashed && strings.HasSuffix(at, ".write"):
			// die at the close point, then cut the file being written at every length
			b := sc.fork()
			defer os.RemoveAll(b.Dir)
			bs, arg, _, bc := runOp(b, sc.op, k+3)
			if !bc || !strings.HasSuffix(bs[len(bs)-1], ".close") {
				v1 = "NO-CLOSE-POINT"
				break
			}
			fi, err := os.Stat(arg)
			if err != nil {
				v1 = "NO-FILE"
				break
			}
			first, firstL, n := "", -1, 0
			for _, l := range truncLens(int(fi.Size()), thorough) {
				if err := os.Truncate(arg, int64(l)); err != nil {
					v1 = "TRUNCATE-FAILED"
					break
				}
				st, vs := recovered(b.Dir, sc.cap, b.Tab)
				cur := st + "/" + vs
				n++
				if first == "" {
					first, firstL = cur, l
				} else if cur != first {
					first = fmt.Sprintf("DIVERGE@%d(vs@%d):%s", l, firstL, cur)
					break
				}
			}
			v1 = first + "/" + accepts(b.Dir, sc.cap, b.Tab, sc.op.Mb)
			nstates = n
		case crashed && at == "dir.removeall":
			for vi, mode := range []int{0, 1} {
				b := sc.fork()
				_, arg, _, _ := runOp(b, sc.op, k+1)
				ents, _ := os.ReadDir(arg)
				for i, e := range ents {
					if mode == 1 || i%2 == 0 {
						os.Remove(filepath.Join(arg, e.Name()))
					}
				}
				st, vs := recovered(b.Dir, sc.cap, b.Tab)
				r := st + "/" + vs + "/" + accepts(b.Dir, sc.cap, b.Tab, sc.op.Mb)
				os.RemoveAll(b.Dir)
				if vi == 0 {
					v1 = r
				} else {
					v2 = r
				}
			}
		case crashed && at == "dir.mkdir":
			for depth := 1; depth <= 2; depth++ {
				b := sc.fork()
				_, arg, _, _ := runOp(b, sc.op, k+1)
				rel, _ := filepath.Rel(filepath.Join(b.Dir, "mail"), arg)
				comps := strings.Split(rel, string(filepath.Separator))
				os.MkdirAll(filepath.Join(append([]string{b.Dir, "mail"}, comps[:depth]...)...), 0o770)
				st, vs := recovered(b.Dir, sc.cap, b.Tab)
				r := st + "/" + vs + "/" + accepts(b.Dir, sc.cap, b.Tab, sc.op.Mb)
				os.RemoveAll(b.Dir)
				if depth == 1 {
					v1 = r
				} else {
					v2 = r
				}
			}
		}
		return append(out, "v1="+v1, "v2="+v2, "n="+strconv.Itoa(nstates))
	}
	return []string{"UNKNOWN-KIND"}
}

func main() { vh.Main(gen, exec) }

package main

// Assembled-system stream of C14:
//
//	asm14 <store> <basepath> <ops>     store mem|file; basepath = INBUCKET_WEB_BASEPATH as the operator spelled it
//	                                   ("", "/p", "p", "p/", "/a/b/", "a/b"); ops as in `hist` (a: / c: / r:)
//
// One child process per case (web.Router is a process global): configuration from the ENVIRONMENT through
// config.Process, server.FullAssembly + Services.Start on ephemeral ports (the web address is a port bound and
// released beforehand), deliveries over the real SMTP port, then the Go client and raw requests against the REAL
// http listener under the prefixed base path. Observation as for `hist`, except that a delivery reports when the
// server stamped it and how many bytes it stored ("A:<millis>:<size>", read from the stored event and the source
// endpoint), and the store afterwards (D=) is read through the listing endpoint.
import (
	"bufio"
	"bytes"
	"context"
	"encoding/json"
	"fmt"
	"io"
	"net"
	"net/http"
	"net/url"
	"os"
	osexec "os/exec"
	"sort"
	"strconv"
	"strings"
	"time"

	"github.com/inbucket/inbucket/v3/pkg/config"
	"github.com/inbucket/inbucket/v3/pkg/extension/event"
	"github.com/inbucket/inbucket/v3/pkg/policy"
	"github.com/inbucket/inbucket/v3/pkg/rest/client"
	"github.com/inbucket/inbucket/v3/pkg/server"
	"github.com/inbucket/inbucket/v3/pkg/storage"
	"github.com/inbucket/inbucket/v3/pkg/storage/file"
	"github.com/inbucket/inbucket/v3/pkg/storage/mem"
	"verifharness/vh"
)

// the web port is picked by bind-note-release: another process can take it in between (sandbox, not the server):
// the case is started again in a fresh child
func asmExec(in []string) []string {
	var f []string
	for try := 0; try < 6; try++ {
		f = asmExecOnce(in)
		if !vh.PortClash(f) {
			break
		}
		time.Sleep(time.Duration(50*(try+1)) * time.Millisecond)
	}
	return f
}

func asmExecOnce(in []string) []string {
	cmd := osexec.Command(os.Args[0], append([]string{"asm14child"}, in...)...)
	var out, errb bytes.Buffer
	cmd.Stdout, cmd.Stderr = &out, &errb
	if err := cmd.Start(); err != nil {
		return []string{"SETUPERR"}
	}
	done := make(chan error, 1)
	go func() { done <- cmd.Wait() }()
	select {
	case err := <-done:
		if err != nil {
			t := errb.String()
			if len(t) > 400 {
				t = t[len(t)-400:]
			}
			return []string{"CRASH", vh.HS(t)}
		}
	case <-time.After(120 * time.Second):
		cmd.Process.Kill()
		return []string{"HANG"}
	}
	f := strings.Fields(out.String())
	if len(f) == 0 {
		return []string{"NOOUTPUT"}
	}
	return f
}

func freePort() string {
	l, err := net.Listen("tcp", "127.0.0.1:0")
	if err != nil {
		return "127.0.0.1:0"
	}
	a := l.Addr().String()
	l.Close()
	return a
}

func asmChild(in []string) {
	fail := func(what string) {
		fmt.Println("SETUPERR " + vh.HS(what))
		os.Exit(0)
	}
	storeKind, basePath, opsF := in[0], f(in[1]), in[2]
	dir, err := os.MkdirTemp(os.Getenv("VERIF_WORKDIR"), "asm14")
	if err != nil {
		fail("tempdir")
	}
	defer os.RemoveAll(dir)
	for _, kv := range os.Environ() {
		if strings.HasPrefix(kv, "INBUCKET_") {
			os.Unsetenv(strings.SplitN(kv, "=", 2)[0])
		}
	}
	webAddr := freePort()
	os.Setenv("INBUCKET_SMTP_ADDR", "127.0.0.1:0")
	os.Setenv("INBUCKET_POP3_ADDR", "127.0.0.1:0")
	os.Setenv("INBUCKET_WEB_ADDR", webAddr)
	os.Setenv("INBUCKET_WEB_UIDIR", dir)
	if basePath != "" {
		os.Setenv("INBUCKET_WEB_BASEPATH", basePath)
	}
	if storeKind == "file" {
		os.Setenv("INBUCKET_STORAGE_TYPE", "file")
		os.Setenv("INBUCKET_STORAGE_PARAMS", "path:"+dir)
	} else {
		os.Setenv("INBUCKET_STORAGE_TYPE", "memory")
	}
	storage.Constructors["file"] = file.New
	storage.Constructors["memory"] = mem.New
	conf, err := config.Process()
	if err != nil {
		fail("config.Process: " + err.Error())
	}
	svc, err := server.FullAssembly(conf)
	if err != nil {
		fail("FullAssembly: " + err.Error())
	}
	stored := make(chan event.MessageMetadata, 64)
	svc.ExtHost.Events.AfterMessageStored.AddListener("verif", func(m event.MessageMetadata) { stored <- m })
	ctx, cancel := context.WithCancel(context.Background())
	ready := make(chan struct{})
	svc.Start(ctx, func() { close(ready) })
	select {
	case <-ready:
	case err := <-svc.Notify():
		fail("service failed to start: " + fmt.Sprint(err))
	case <-time.After(20 * time.Second):
		fail("services not ready")
	}
	smtpAddr := svc.SMTPServer.VerifAddr()
	if smtpAddr == nil {
		fail("no SMTP address")
	}
	smtpPrefixed = true
	pol := &policy.Addressing{Config: conf}
	// the prefix as the operator means it: slashes trimmed, one leading slash
	trimmed := strings.Trim(basePath, "/")
	prefix := ""
	if trimmed != "" {
		prefix = "/" + trimmed
	}
	e := &env{url: "http://" + webAddr, addr: webAddr, mfaFn: pol.ExtractMailbox,
		ids: map[string][]string{}, rev: map[string]map[string]int{}}
	for _, s := range strings.Split(trimmed, "/") {
		if s != "" {
			e.baseSeg = append(e.baseSeg, s)
		}
	}
	e.raw = &http.Client{Timeout: 20 * time.Second, CheckRedirect: func(*http.Request, []*http.Request) error { return http.ErrUseLastResponse }}
	e.cli, err = client.New(e.url + prefix)
	if err != nil {
		fail("client.New")
	}
	get := func(path string) (int, []byte) {
		resp, err := e.raw.Get(e.url + prefix + path)
		if err != nil {
			return 0, nil
		}
		defer resp.Body.Close()
		b, _ := io.ReadAll(resp.Body)
		return resp.StatusCode, b
	}
	var outs []string
	added := map[string]bool{}
	if opsF != "-" {
		for _, o := range strings.Split(opsF, ",") {
			parts := strings.Split(o, ":")
			switch parts[0] {
			case "a":
				mb, tag := f(parts[1]), vh.AtoI(parts[3])
				if err := smtpDeliver(smtpAddr.String(), mb, tag); err != nil {
					outs = append(outs, "A:ERR")
					continue
				}
				select {
				case m := <-stored:
					if e.rev[m.Mailbox] == nil {
						e.rev[m.Mailbox] = map[string]int{}
					}
					e.rev[m.Mailbox][m.ID] = len(e.ids[m.Mailbox])
					e.ids[m.Mailbox] = append(e.ids[m.Mailbox], m.ID)
					added[m.Mailbox] = true
					// the bytes the store holds: what the source endpoint serves
					code, src := get("/api/v1/mailbox/" + url.PathEscape(m.Mailbox) + "/" + url.PathEscape(m.ID) + "/source")
					if code != 200 || m.Mailbox != mb {
						outs = append(outs, "A:ERR")
					} else {
						outs = append(outs, fmt.Sprintf("A:%d:%d", m.Date.UnixNano()/1000000, len(src)))
					}
				case <-time.After(10 * time.Second):
					outs = append(outs, "A:ERR")
				}
			case "r":
				outs = append(outs, e.doRaw(parts))
			case "c":
				outs = append(outs, e.doClient(parts))
			default:
				outs = append(outs, "BADOP")
			}
		}
	}
	// the store afterwards, read through the listing endpoint
	var names []string
	for n := range added {
		names = append(names, n)
	}
	sort.Strings(names)
	var dparts []string
	for _, mb := range names {
		code, body := get("/api/v1/mailbox/" + url.PathEscape(mb))
		if code != 200 {
			dparts = append(dparts, vh.HS(mb)+"=HTTP"+strconv.Itoa(code))
			continue
		}
		var hs []*jhdr
		if err := json.Unmarshal(body, &hs); err != nil {
			dparts = append(dparts, vh.HS(mb)+"=BADJSON")
			continue
		}
		if len(hs) == 0 {
			continue
		}
		vs := make([]string, len(hs))
		for i, h := range hs {
			vs[i] = e.viewTok(h.Mailbox, h.ID, h.Subject, h.From, h.To, h.PosixMillis, h.Size, h.Seen)
		}
		dparts = append(dparts, vh.HS(mb)+"="+strings.Join(vs, ";"))
	}
	sort.Strings(dparts)
	outs = append(outs, "D="+strings.Join(dparts, "|"))
	seen := map[string]bool{}
	var ents []string
	for _, c := range e.calls {
		if !seen[c[0]] {
			seen[c[0]] = true
			ents = append(ents, vh.HS(c[0])+":"+c[1])
		}
	}
	outs = append(outs, "M="+strings.Join(ents, ","))
	cancel()
	drained := make(chan struct{})
	go func() { svc.SMTPServer.Drain(); svc.POP3Server.Drain(); svc.RetentionScanner.Join(); close(drained) }()
	select {
	case <-drained:
	case <-time.After(20 * time.Second):
		outs = append(outs, "DRAIN-TIMEOUT")
	}
	fmt.Println(strings.Join(outs, " "))
}

// smtpDeliver sends the message of content tag `tag` to <mb>@dst.example over the real SMTP port.
func smtpDeliver(addr, mb string, tag int) error {
	conn, err := net.DialTimeout("tcp", addr, 5*time.Second)
	if err != nil {
		return err
	}
	defer conn.Close()
	_ = conn.SetDeadline(time.Now().Add(20 * time.Second))
	r := bufio.NewReader(conn)
	expect := func(code string) error {
		for {
			line, err := r.ReadString('\n')
			if err != nil {
				return err
			}
			if len(line) < 4 || line[:3] != code {
				return fmt.Errorf("smtp: want %s, got %q", code, line)
			}
			if line[3] == ' ' {
				return nil
			}
		}
	}
	send := func(s string) { _, _ = conn.Write([]byte(s)) }
	if err := expect("220"); err != nil {
		return err
	}
	steps := []struct{ cmd, code string }{
		{"HELO verif.example\r\n", "250"},
		{"MAIL FROM:<" + tagFrom(tag) + ">\r\n", "250"},
		{"RCPT TO:<" + mb + "@dst.example>\r\n", "250"},
		{"DATA\r\n", "354"},
		{string(buildRaw(tag)) + ".\r\n", "250"},
		{"QUIT\r\n", "221"},
	}
	for _, s := range steps {
		send(s.cmd)
		if err := expect(s.code); err != nil {
			return err
		}
	}
	return nil
}

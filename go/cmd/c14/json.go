package main

// Field-by-field projection of the JSON answers (pkg/rest/model, pkg/webui/mailbox_json.go): every field
// is reported on its own — "the content tag as read from THIS field" for from / to / subject / text / html /
// header entries / attachment digests — so that a handler that fills one field from the wrong place is seen.

import (
	"crypto/md5"
	"encoding/hex"
	"fmt"
	"regexp"
	"strconv"
	"strings"
	"time"

	"github.com/inbucket/inbucket/v3/pkg/rest/client"
	"github.com/inbucket/inbucket/v3/pkg/server/web"
	"verifharness/vh"
)

var (
	fromRE  = regexp.MustCompile(`^<?f(\d+)@src\.example>?$`)
	toRE    = regexp.MustCompile(`^<?t(\d+)@dst\.example>?$`)
	textRE  = regexp.MustCompile(`^text of (\d+)\r?\nsecond line[\r\n]*$`)
	htmlRE  = regexp.MustCompile(`^<p>html of (\d+)</p>[\r\n]*$`)
	shtmlRE = regexp.MustCompile(`html of (\d+)`)
)

func reTag(re *regexp.Regexp, s string) string {
	if m := re.FindStringSubmatch(s); m != nil {
		return m[1]
	}
	return "BAD"
}

func subjTag(s string) string { return reTag(subjRE, s) }

// refTagS: the tag the metadata fields name (candidate for the fields that are looked up by tag: digests, text)
func refTagS(subject, from string, to []string) string {
	if t, ok := refTag(subject, from, to); ok {
		return strconv.Itoa(t)
	}
	return "BAD"
}

// hdrFields: k<id>.<posix-millis>.<date as millis>.<from>.<to>.<subject>.<size>.<seen>
func (e *env) hdrFields(mailbox, id string, millis int64, date time.Time, from string, to []string, subject string, size int64, seen bool) string {
	ref, ok := refTag(subject, from, to)
	return fmt.Sprintf("%s.%d.%d.%s.%s.%s.%d.%s", e.kOf(mailbox, id), millis, date.UnixNano()/1000000,
		fromFieldTag(from, ref, ok), toFieldTag(to, ref, ok), subjFieldTag(subject, ref, ok), size, seenTok(seen))
}

func (e *env) jsonHdrTok(h *jhdr) string {
	return e.hdrFields(h.Mailbox, h.ID, h.PosixMillis, h.Date, h.From, h.To, h.Subject, h.Size, h.Seen)
}

func htmlTok(html string, ui bool) string {
	if html == "" {
		return "none"
	}
	if ui {
		return reTag(shtmlRE, html)
	}
	return reTag(htmlRE, html)
}

func mimeHdrTok(h map[string][]string) string {
	one := func(k string) string {
		v := h[k]
		if len(v) != 1 {
			return ""
		}
		return v[0]
	}
	return reTag(fromRE, one("From")) + "." + reTag(toRE, one("To")) + "." + subjTag(one("Subject"))
}

// md5Tag recovers the tag whose attachment content has this digest (the candidates are the tags read elsewhere).
func md5Tag(sum string, candidates ...string) string {
	for _, c := range candidates {
		t, err := strconv.Atoi(c)
		if err != nil {
			continue
		}
		d := md5.Sum([]byte(tagAttach(t)))
		if hex.EncodeToString(d[:]) == sum {
			return c
		}
	}
	return "BAD"
}

// uiTextTag: "text" of the web-UI message is web.TextToHTML of the text part.
func uiTextTag(s string, candidates ...string) string {
	for _, c := range candidates {
		t, err := strconv.Atoi(c)
		if err != nil {
			continue
		}
		if strings.TrimRight(s, "\r\n") == strings.TrimRight(web.TextToHTML(tagText(t)), "\r\n") ||
			strings.HasPrefix(s, web.TextToHTML(tagText(t))) {
			return c
		}
	}
	return "BAD"
}

var linkRE = regexp.MustCompile(`^http://([^/]+)/serve/mailbox/(.+)/([^/]+)/attach/(\d+)/a\.bin$`)

// jsonMsgTok projects a full v1 message: header fields | text | html | MIME header | attachments
func (e *env) jsonMsgTok(h *jhdr, host string) string {
	st := refTagS(h.Subject, h.From, h.To)
	text, html := "BAD", "BAD"
	if h.Body != nil {
		text, html = reTag(textRE, h.Body.Text), htmlTok(h.Body.HTML, false)
	}
	atts := make([]string, len(h.Attachments))
	for i, a := range h.Attachments {
		t := md5Tag(a.MD5, st)
		if a.FileName != "a.bin" || a.ContentType != "application/octet-stream" {
			t = "BADMETA"
		}
		link := "BADLINK"
		if m := linkRE.FindStringSubmatch(a.DownloadLink); m != nil && a.ViewLink == a.DownloadLink && (host == "" || m[1] == host) {
			id := m[3]
			if k, ok := e.rev[m[2]][id]; ok {
				id = "k" + strconv.Itoa(k)
			}
			link = vh.HS(m[2]) + "/" + vh.HS(id) + "/" + m[4]
		}
		atts[i] = t + "@" + link
	}
	return e.jsonHdrTok(h) + "|t" + text + "|h" + html + "|H" + mimeHdrTok(h.Header) + "|A" + strings.Join(atts, ";")
}

// jsonUITok projects the web-UI message: header fields | text | html | MIME header | attachment ids | error count
func (e *env) jsonUITok(h *jhdr) string {
	st := refTagS(h.Subject, h.From, h.To)
	text, html := "BAD", "BAD"
	if h.Text != nil {
		text = uiTextTag(*h.Text, st)
	}
	if h.HTML != nil {
		html = htmlTok(*h.HTML, true)
	}
	atts := make([]string, len(h.Attachments))
	for i, a := range h.Attachments {
		atts[i] = a.ID
		if a.FileName != "a.bin" || a.ContentType != "application/octet-stream" {
			atts[i] = "BADMETA"
		}
	}
	return e.jsonHdrTok(h) + "|t" + text + "|h" + html + "|H" + mimeHdrTok(h.Header) + "|A" + strings.Join(atts, ";") + "|E" + strconv.Itoa(len(h.Errors))
}

func (e *env) cliHdrTok(h *client.MessageHeader) string {
	return e.hdrFields(h.Mailbox, h.ID, h.PosixMillis, h.Date, h.From, h.To, h.Subject, h.Size, h.Seen)
}

// cliMsgTok: the client's Message (same JSON as the v1 message; links are not compared here)
func (e *env) cliMsgTok(m *client.Message) string {
	st := refTagS(m.Subject, m.From, m.To)
	text, html := "BAD", "BAD"
	if m.Body != nil {
		text, html = reTag(textRE, m.Body.Text), htmlTok(m.Body.HTML, false)
	}
	atts := make([]string, len(m.Attachments))
	for i, a := range m.Attachments {
		atts[i] = md5Tag(a.MD5, st)
		if a.FileName != "a.bin" || a.ContentType != "application/octet-stream" {
			atts[i] = "BADMETA"
		}
	}
	return "M@" + vh.HS(m.Mailbox) + ":" + e.hdrFields(m.Mailbox, m.ID, m.PosixMillis, m.Date, m.From, m.To, m.Subject, m.Size, m.Seen) +
		"|t" + text + "|h" + html + "|H" + mimeHdrTok(m.Header) + "|A" + strings.Join(atts, ";")
}

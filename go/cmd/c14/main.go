// Driver for C14 (REST / web-UI APIs and the Go client report and change exactly the store's state).
//
//	hist <store> <naming> <base> <ops>   store mem|file, naming local|full, base = configured base path
//	  ops (comma separated):
//	    a:<mb>:<dateMillis>:<tag>:<size>                       delivery straight into the store
//	    r:<METHOD>:<tmpl>:<wireName>:<id>:<body>:<num>:<file>  raw HTTP request (path pieces already escaped);
//	                                                           body = content t|f|b|e + framing l|c + headers 0-3
//	    c:<op>:<name>:<id|index>                               call of the bundled Go client
//	    x:<mb>:<k>                                             the content file of message k vanishes (file store)
//	    y:<tmpl>:<mb>:<k>:<body>                               a GET racing with a removal of message k that completes
//	                                                           between the manager's look-up and its open
//	=> one token per op, the store afterwards (D=…), the observed naming function (M=…)
//
// Every case stands up the real router (webui + rest routes, web.NewServer) behind a real
// net/http server, a real store behind a real StoreManager, and the real client.
// Ids: "k<j>" names the message of the j-th add to the addressed mailbox; the driver translates
// to and from the ids the back-end issued.
package main

import (
	"bufio"
	"bytes"
	"encoding/json"
	"fmt"
	"io"
	"log"
	"net"
	"net/http"
	"net/http/httptest"
	"net/mail"
	"net/url"
	"os"
	"path/filepath"
	"regexp"
	"sort"
	"strconv"
	"strings"
	"time"

	"github.com/gorilla/mux"
	"github.com/inbucket/inbucket/v3/pkg/config"
	"github.com/inbucket/inbucket/v3/pkg/extension"
	"github.com/inbucket/inbucket/v3/pkg/extension/event"
	"github.com/inbucket/inbucket/v3/pkg/message"
	"github.com/inbucket/inbucket/v3/pkg/msghub"
	"github.com/inbucket/inbucket/v3/pkg/policy"
	"github.com/inbucket/inbucket/v3/pkg/rest"
	"github.com/inbucket/inbucket/v3/pkg/rest/client"
	"github.com/inbucket/inbucket/v3/pkg/server/web"
	"github.com/inbucket/inbucket/v3/pkg/storage"
	"github.com/inbucket/inbucket/v3/pkg/storage/file"
	"github.com/inbucket/inbucket/v3/pkg/storage/mem"
	"github.com/inbucket/inbucket/v3/pkg/stringutil"
	"github.com/inbucket/inbucket/v3/pkg/webui"
	"github.com/rs/zerolog"
	"verifharness/vh"
)

// ---------------------------------------------------------------- message content by tag

func tagFrom(tag int) string    { return fmt.Sprintf("f%d@src.example", tag) }
func tagTo(tag int) string      { return fmt.Sprintf("t%d@dst.example", tag) }
func tagSubject(tag int) string { return fmt.Sprintf("subj %d", tag) }
func tagText(tag int) string    { return fmt.Sprintf("text of %d\r\nsecond line", tag) }
func tagHTML(tag int) string    { return fmt.Sprintf("<p>html of %d</p>", tag) }
func tagAttach(tag int) string  { return fmt.Sprintf("ATTACH-%d", tag) }

// buildRaw is the source of the message with content tag `tag`: tag%4 = 2 carries an HTML
// alternative, tag%4 = 3 one attachment.
func buildRaw(tag int) []byte {
	if size, ok := sizeOfTag(tag); ok {
		return sizedRaw(tag, size)
	}
	var b bytes.Buffer
	fmt.Fprintf(&b, "From: %s\r\nTo: %s\r\nSubject: %s\r\nMIME-Version: 1.0\r\n", tagFrom(tag), tagTo(tag), tagSubject(tag))
	switch tag % 4 {
	case 2:
		b.WriteString("Content-Type: multipart/alternative; boundary=\"bnd\"\r\n\r\n")
		b.WriteString("--bnd\r\nContent-Type: text/plain; charset=us-ascii\r\n\r\n" + tagText(tag) + "\r\n")
		b.WriteString("--bnd\r\nContent-Type: text/html; charset=us-ascii\r\n\r\n" + tagHTML(tag) + "\r\n--bnd--\r\n")
	case 3:
		b.WriteString("Content-Type: multipart/mixed; boundary=\"bnd\"\r\n\r\n")
		b.WriteString("--bnd\r\nContent-Type: text/plain; charset=us-ascii\r\n\r\n" + tagText(tag) + "\r\n")
		b.WriteString("--bnd\r\nContent-Type: application/octet-stream\r\nContent-Disposition: attachment; filename=\"a.bin\"\r\n\r\n" + tagAttach(tag) + "\r\n--bnd--\r\n")
	default:
		b.WriteString("Content-Type: text/plain; charset=us-ascii\r\n\r\n" + tagText(tag) + "\r\n")
	}
	return b.Bytes()
}

// The SIZE dimension: tags from 1000 on name a source of exactly sizedSizes[tag-1000] bytes — a plain message
// (header, text) followed by numbered filler lines, cut at that length (so the two smallest are no message at all).
// Spread over orders of magnitude and around powers of two; nothing here is derived from a limit in the code.
var sizedSizes = []int{0, 1, 4095, 4096, 4097, 65535, 65536, 65537, 1 << 20, 10240000, 10256383, 10256384, 10256385, 12000000,
	64 << 20, 257, 1000000, 16777215, 16777217, 33554433}

func sizeOfTag(tag int) (int, bool) {
	if tag >= 1000 && tag-1000 < len(sizedSizes) {
		return sizedSizes[tag-1000], true
	}
	return 0, false
}

var sizedMemo = map[int][]byte{}

func sizedRaw(tag, size int) []byte {
	if b, ok := sizedMemo[tag]; ok {
		return b
	}
	var b bytes.Buffer
	b.Grow(size + 128)
	fmt.Fprintf(&b, "From: %s\r\nTo: %s\r\nSubject: %s\r\nMIME-Version: 1.0\r\nContent-Type: text/plain; charset=us-ascii\r\n\r\n%s\r\n",
		tagFrom(tag), tagTo(tag), tagSubject(tag), tagText(tag))
	line := []byte(" the quick brown fox jumps over the lazy dog 0123456789 abcdefghij\r\n")
	for n := 0; b.Len() < size; n++ {
		b.WriteString(strconv.Itoa(n))
		b.Write(line)
	}
	raw := b.Bytes()[:size:size]
	if len(sizedMemo) >= 6 { // keep the memory bounded: a history uses a handful of sizes
		for k := range sizedMemo {
			delete(sizedMemo, k)
			break
		}
	}
	sizedMemo[tag] = raw
	return raw
}

var subjRE = regexp.MustCompile(`^subj (\d+)$`)

// Metadata shapes. What the store is told about a message (event.MessageMetadata) is a function of the content
// tag; tags below 400 have the plain shape (one sender, one recipient, a subject), tags from 400 on exercise
// empty and long metadata. The source (buildRaw) keeps its plain MIME header in every shape.
//
//	1: To = []          2: From = empty address     3: Subject = ""     4: To = [one empty address]
//	8: From = "Sender <tag>" <shared@src.example>, To = ["Rcpt <tag>" <shared@dst.example>]: display names differ, the
//	   bare addresses are the same for every message of this shape
//	5: To = 60 / 2 / 257 / 1025 addresses (by tag%4)     6: To = [] and Subject = ""     7: From = empty address and To = []
func shapeOf(tag int) int {
	if tag < 400 {
		return 0
	}
	return 1 + (tag/4)%8
}

// recipients of the long-list shape: spread over orders of magnitude and next to powers of two
func longTo(tag int) int { return []int{60, 2, 257, 1025}[tag%4] }

func metaFrom(tag int) *mail.Address {
	switch shapeOf(tag) {
	case 2, 7:
		return &mail.Address{}
	case 8:
		return &mail.Address{Name: fmt.Sprintf("Sender %d", tag), Address: "shared@src.example"}
	}
	return &mail.Address{Address: tagFrom(tag)}
}

func metaTo(tag int) []*mail.Address {
	switch shapeOf(tag) {
	case 1, 6, 7:
		return []*mail.Address{}
	case 4:
		return []*mail.Address{{}}
	case 8:
		return []*mail.Address{{Name: fmt.Sprintf("Rcpt %d", tag), Address: "shared@dst.example"}}
	case 5:
		l := make([]*mail.Address, longTo(tag))
		for i := range l {
			l[i] = &mail.Address{Address: fmt.Sprintf("t%d-%d@dst.example", tag, i)}
		}
		return l
	}
	return []*mail.Address{{Address: tagTo(tag)}}
}

func metaSubject(tag int) string {
	switch shapeOf(tag) {
	case 3, 6:
		return ""
	}
	return tagSubject(tag)
}

var (
	metaFromRE = regexp.MustCompile(`^(?:<f|Sender )(\d+)(?:@src\.example>| <shared@src\.example>)$`)
	metaToRE   = regexp.MustCompile(`^(?:<t|Rcpt )(\d+)(?:(?:-0)?@dst\.example>| <shared@dst\.example>)$`)
)

func sameList(a, b []string) bool {
	if len(a) != len(b) {
		return false
	}
	for i := range a {
		if a[i] != b[i] {
			return false
		}
	}
	return true
}

// refTag: the content tag as read from the first metadata field that names one (subject, sender, first recipient).
func refTag(subject, from string, to []string) (int, bool) {
	for _, m := range [][]string{subjRE.FindStringSubmatch(subject), metaFromRE.FindStringSubmatch(from)} {
		if m != nil {
			t, _ := strconv.Atoi(m[1])
			return t, true
		}
	}
	if len(to) > 0 {
		if m := metaToRE.FindStringSubmatch(to[0]); m != nil {
			t, _ := strconv.Atoi(m[1])
			return t, true
		}
	}
	return 0, false
}

// The tag as read from ONE field: the tag the field itself names if it is exactly what a message of that tag has
// there; a field that names no tag (empty sender / recipient list / subject) is read as the tag the other fields
// name, provided that is what a message of that tag has there. Everything else is BAD.
func fromFieldTag(from string, ref int, refOK bool) string {
	if m := metaFromRE.FindStringSubmatch(from); m != nil {
		ref, refOK = vh.AtoI(m[1]), true
	}
	if refOK && from == stringutil.StringAddress(metaFrom(ref)) {
		return strconv.Itoa(ref)
	}
	return "BAD"
}

func toFieldTag(to []string, ref int, refOK bool) string {
	if len(to) > 0 {
		if m := metaToRE.FindStringSubmatch(to[0]); m != nil {
			ref, refOK = vh.AtoI(m[1]), true
		}
	}
	if refOK && sameList(to, stringutil.StringAddressList(metaTo(ref))) {
		return strconv.Itoa(ref)
	}
	return "BAD"
}

func subjFieldTag(subject string, ref int, refOK bool) string {
	if m := subjRE.FindStringSubmatch(subject); m != nil {
		ref, refOK = vh.AtoI(m[1]), true
	}
	if refOK && subject == metaSubject(ref) {
		return strconv.Itoa(ref)
	}
	return "BAD"
}

// tagOf recovers the content tag from the metadata and checks every field against it.
func tagOf(subject, from string, to []string) string {
	ref, ok := refTag(subject, from, to)
	if !ok {
		return "BADSUBJ"
	}
	t := strconv.Itoa(ref)
	if subjFieldTag(subject, ref, true) != t {
		return "BADSUBJ"
	}
	if fromFieldTag(from, ref, true) != t {
		return "BADFROM"
	}
	if toFieldTag(to, ref, true) != t {
		return "BADTO"
	}
	return t
}

// ---------------------------------------------------------------- recording manager

type recMgr struct {
	message.Manager
	calls [][2]string // argument, "S"+result | "E"
}

func (r *recMgr) MailboxForAddress(a string) (string, error) {
	s, err := r.Manager.MailboxForAddress(a)
	if err != nil {
		r.calls = append(r.calls, [2]string{a, "E"})
	} else {
		r.calls = append(r.calls, [2]string{a, "S" + vh.HS(s)})
	}
	return s, err
}

// ---------------------------------------------------------------- a removal racing with a look-up

// raceStore is the storage.Store the StoreManager sees. When armed for (mailbox, id) it lets GetMessage find
// that message and then removes it — completely — before handing it back, i.e. before the manager opens the
// content: the interleaving "another client's removal completes between look-up and open" (no lock is held
// across that window in the file store).
type raceStore struct {
	storage.Store
	armedMb, armedID string
	armed            bool
}

func (r *raceStore) GetMessage(mb, id string) (storage.Message, error) {
	m, err := r.Store.GetMessage(mb, id)
	if err == nil && m != nil && r.armed && m.Mailbox() == r.armedMb && m.ID() == r.armedID {
		r.armed = false
		_ = r.Store.RemoveMessage(m.Mailbox(), m.ID())
	}
	return m, err
}

// ---------------------------------------------------------------- one case

type env struct {
	race    *raceStore
	dir     string
	store   storage.Store
	mgr     *recMgr
	url     string // scheme://host:port of the server under test (no base path)
	addr    string // host:port
	mfaFn   func(string) (string, error)
	calls   [][2]string // naming calls made by the driver itself (assembled-system stream)
	raw     *http.Client
	cli     *client.Client
	baseSeg []string
	ids     map[string][]string          // mailbox -> real id of the k-th add
	rev     map[string]map[string]int    // mailbox -> real id -> k
}

func (e *env) mfa(name string) (string, bool) {
	if e.mfaFn != nil {
		s, err := e.mfaFn(name)
		if err != nil {
			e.calls = append(e.calls, [2]string{name, "E"})
		} else {
			e.calls = append(e.calls, [2]string{name, "S" + vh.HS(s)})
		}
		return s, err == nil
	}
	s, err := e.mgr.MailboxForAddress(name)
	return s, err == nil
}

// realID translates "k<j>" for the mailbox a request is going to address.
var kRE = regexp.MustCompile(`^k(\d+)$`)

func (e *env) realID(mailbox string, ok bool, id string) string {
	m := kRE.FindStringSubmatch(id)
	if m == nil || !ok {
		return id
	}
	k, err := strconv.Atoi(m[1])
	if err != nil || k >= len(e.ids[mailbox]) {
		return id
	}
	return e.ids[mailbox][k]
}

func (e *env) kOf(mailbox, id string) string {
	if k, ok := e.rev[mailbox][id]; ok {
		return "k" + strconv.Itoa(k)
	}
	return "k?" + vh.HS(id)
}

func seenTok(b bool) string {
	if b {
		return "1"
	}
	return "0"
}

func (e *env) viewTok(mailbox, id, subject, from string, to []string, millis, size int64, seen bool) string {
	return fmt.Sprintf("%s.%d.%s.%d.%s", e.kOf(mailbox, id), millis, tagOf(subject, from, to), size, seenTok(seen))
}

type jatt struct {
	ID           string `json:"id"`
	FileName     string `json:"filename"`
	ContentType  string `json:"content-type"`
	DownloadLink string `json:"download-link"`
	ViewLink     string `json:"view-link"`
	MD5          string `json:"md5"`
}

type jhdr struct {
	Mailbox     string    `json:"mailbox"`
	ID          string    `json:"id"`
	From        string    `json:"from"`
	To          []string  `json:"to"`
	Subject     string    `json:"subject"`
	Date        time.Time `json:"date"`
	PosixMillis int64     `json:"posix-millis"`
	Size        int64     `json:"size"`
	Seen        bool      `json:"seen"`
	// v1 message
	Body *struct {
		Text string `json:"text"`
		HTML string `json:"html"`
	} `json:"body"`
	// web-UI message
	Text        *string             `json:"text"`
	HTML        *string             `json:"html"`
	Header      map[string][]string `json:"header"`
	Attachments []jatt              `json:"attachments"`
	Errors      []json.RawMessage   `json:"errors"`
}

func (e *env) listTok(hs []*jhdr) string {
	if len(hs) == 0 {
		return "L@-:"
	}
	mb := hs[0].Mailbox
	parts := make([]string, len(hs))
	for i, h := range hs {
		if h.Mailbox != mb {
			return "L@MIXED:"
		}
		parts[i] = e.jsonHdrTok(h)
	}
	return "L@" + vh.HS(mb) + ":" + strings.Join(parts, ";")
}

var tagInSrc = regexp.MustCompile(`(?m)^Subject: subj (\d+)\r?$`)

func srcTok(b []byte) string {
	head := b
	if len(head) > 4096 {
		head = head[:4096]
	}
	m := tagInSrc.FindSubmatch(head)
	if m == nil {
		// a source too short to hold its Subject line: one of the tiny sized sources, recognised by its bytes
		for i, size := range sizedSizes {
			if size < 128 && len(b) == size && bytes.Equal(b, buildRaw(1000+i)) {
				return "S:" + strconv.Itoa(1000+i)
			}
		}
		return "S:BAD"
	}
	tag, _ := strconv.Atoi(string(m[1]))
	if smtpPrefixed {
		// delivered over SMTP: StoreManager.Deliver puts Return-Path and Received lines in front
		// (and the SMTP DATA reader turns CRLF into LF: property C02)
		if !bytes.HasSuffix(b, bytes.ReplaceAll(buildRaw(tag), []byte("\r\n"), []byte("\n"))) || !bytes.HasPrefix(b, []byte("Return-Path: <")) {
			return "S:BADBYTES"
		}
		return "S:" + string(m[1])
	}
	if !bytes.Equal(b, buildRaw(tag)) {
		return "S:BADBYTES"
	}
	return "S:" + string(m[1])
}

// smtpPrefixed: the messages of this process were delivered over SMTP (assembled-system stream).
var smtpPrefixed bool

var tagInHTML = regexp.MustCompile(`^<p>html of (\d+)</p>$`)
var tagInAtt = regexp.MustCompile(`^ATTACH-(\d+)$`)

// respTok projects one HTTP response.
func (e *env) respTok(resp *http.Response, reqNum string) string {
	body, _ := io.ReadAll(resp.Body)
	host := ""
	if resp.Request != nil {
		host = resp.Request.URL.Host
	}
	st := strconv.Itoa(resp.StatusCode)
	switch {
	case resp.StatusCode == 301:
		loc, err := url.PathUnescape(resp.Header.Get("Location"))
		if err != nil {
			return st + "/BADLOC"
		}
		return st + "/" + vh.HS(loc)
	case resp.StatusCode != 200:
		return st
	}
	ct := resp.Header.Get("Content-Type")
	switch {
	case strings.HasPrefix(ct, "application/json"):
		trim := bytes.TrimSpace(body)
		switch {
		case bytes.Equal(trim, []byte(`"OK"`)):
			return st + "/OK"
		case len(trim) > 0 && trim[0] == '[':
			var hs []*jhdr
			if err := json.Unmarshal(trim, &hs); err != nil {
				return st + "/BADJSON"
			}
			return st + "/" + e.listTok(hs)
		default:
			var h jhdr
			if err := json.Unmarshal(trim, &h); err != nil {
				return st + "/BADJSON"
			}
			if h.Body != nil {
				return st + "/M@" + vh.HS(h.Mailbox) + ":" + e.jsonMsgTok(&h, host)
			}
			return st + "/U@" + vh.HS(h.Mailbox) + ":" + e.jsonUITok(&h)
		}
	case strings.HasPrefix(ct, "text/plain"):
		return st + "/" + srcTok(body)
	case strings.HasPrefix(ct, "text/html"):
		if len(body) == 0 {
			return st + "/H:none"
		}
		if m := tagInHTML.FindSubmatch(body); m != nil {
			return st + "/H:" + string(m[1])
		}
		return st + "/H:BAD"
	default:
		if m := tagInAtt.FindSubmatch(body); m != nil {
			n, _ := strconv.ParseUint(reqNum, 10, 32)
			return st + "/T:" + string(m[1]) + "." + strconv.FormatUint(n, 10)
		}
		return st + "/T:BAD"
	}
}

func f(s string) string { return vh.US(s) }

// routedName is the {name} the server will extract from an escaped request path (the server
// unescapes the whole path first); used only to pick the back-end id a "k<j>" stands for.
func (e *env) routedName(escPath string, api bool) (string, bool) {
	p, err := url.PathUnescape(escPath)
	if err != nil {
		return "", false
	}
	segs := strings.Split(p, "/")
	i := 1 + len(e.baseSeg) + 2
	if api {
		i++
	}
	if i >= len(segs) {
		return "", false
	}
	return segs[i], true
}

func pathOf(base []string, tmpl int, wname, id, num, file string) string {
	p := ""
	for _, s := range base {
		p += "/" + s
	}
	if tmpl < 3 {
		p += "/api/v1/mailbox/" + wname
	} else {
		p += "/serve/mailbox/" + wname
	}
	if tmpl != 0 {
		p += "/" + id
	}
	switch tmpl {
	case 2, 5:
		p += "/source"
	case 4:
		p += "/html"
	case 6:
		p += "/attach/" + num + "/" + file
	}
	return p
}

func (e *env) doRaw(parts []string) string {
	method, tmpl := parts[1], vh.AtoI(parts[2])
	wname, id, bodyK, num, file := f(parts[3]), f(parts[4]), parts[5], f(parts[6]), f(parts[7])
	probe := pathOf(e.baseSeg, tmpl, wname, "ID", num, file)
	name, ok := e.routedName(probe, tmpl < 3)
	mb := ""
	if ok {
		mb, ok = e.mfa(name)
	}
	if un, err := url.PathUnescape(wname); err == nil {
		e.mfa(un)
	}
	p := pathOf(e.baseSeg, tmpl, wname, e.realID(mb, ok, id), num, file)
	// body field: <content><framing><headers>
	//   content  t {"seen":true} | f {"seen":false} | b not JSON | e empty
	//   framing  l Content-Length | c chunked (unknown length on the client side)
	//   headers  0 none | 1 Accept: application/json | 2 unrelated extra headers | 3 the request is sent as HTTP/1.0
	// How a body is framed and which unrelated headers come along must not matter to the answer.
	content, framing, hdrs := bodyK[0], byte('l'), byte('0')
	if len(bodyK) >= 3 {
		framing, hdrs = bodyK[1], bodyK[2]
	}
	var payload string
	hasBody := method == "PATCH" || method == "POST" || method == "PUT"
	switch content {
	case 't':
		payload = `{"seen":true}`
	case 'f':
		payload = `{"seen":false}`
	case 'e':
		payload = ""
	default:
		payload = `not json`
	}
	var body io.Reader
	if hasBody {
		if framing == 'c' && hdrs != '3' {
			body = struct{ io.Reader }{strings.NewReader(payload)} // not an in-memory reader type: length unknown
		} else {
			body = strings.NewReader(payload)
		}
	}
	req, err := http.NewRequest(method, e.url+p, body)
	if err != nil {
		return "BADREQ"
	}
	if req.URL.EscapedPath() != p {
		return "BADREQ-ESC"
	}
	if hasBody && framing == 'c' && hdrs != '3' {
		req.ContentLength = -1
	}
	switch hdrs {
	case '1':
		req.Header.Set("Accept", "application/json")
	case '2':
		req.Header.Set("X-Requested-With", "verif")
		req.Header.Set("Content-Type", "text/plain; charset=utf-8")
		req.Header.Set("Accept-Language", "de")
	}
	var resp *http.Response
	if hdrs == '3' {
		resp, err = e.http10(req, method, p, payload, hasBody)
	} else {
		resp, err = e.raw.Do(req)
	}
	if err != nil {
		return "DROP"
	}
	defer resp.Body.Close()
	tok := e.respTok(resp, num)
	if resp.StatusCode == 301 {
		// the id segment of the redirect target is the store's real id: back to the handle token, like every other id
		if rid := e.realID(mb, ok, id); rid != id {
			if loc, err := url.PathUnescape(resp.Header.Get("Location")); err == nil {
				tok = "301/" + vh.HS(canonLoc(loc, pathOf(e.baseSeg, tmpl, wname, rid, num, file), pathOf(e.baseSeg, tmpl, wname, id, num, file)))
			}
		}
	}
	return tok
}

// canonLoc: loc is the cleaned form of the (unescaped) request path pReal; pTok is the same path with the handle
// token where pReal has the store's id. The segment of loc that stems from that id segment — followed through the
// cleaning: empty and "." segments vanish, ".." pops — is replaced by the token.
func canonLoc(loc, pReal, pTok string) string {
	ur, err1 := url.PathUnescape(pReal)
	ut, err2 := url.PathUnescape(pTok)
	if err1 != nil || err2 != nil {
		return loc
	}
	sr, stk := strings.Split(ur, "/"), strings.Split(ut, "/")
	if len(sr) != len(stk) {
		return loc
	}
	at := -1
	for i := range sr {
		if sr[i] != stk[i] {
			if at >= 0 {
				return loc
			}
			at = i
		}
	}
	if at < 0 {
		return loc
	}
	var stack []int // source index of every surviving segment
	for i, seg := range sr {
		switch seg {
		case "", ".":
		case "..":
			if len(stack) > 0 {
				stack = stack[:len(stack)-1]
			}
		default:
			stack = append(stack, i)
		}
	}
	ls := strings.Split(loc, "/")
	for j, src := range stack {
		if src == at && j+1 < len(ls) && ls[j+1] == sr[at] {
			ls[j+1] = stk[at]
			return strings.Join(ls, "/")
		}
	}
	return loc
}

// http10 sends the request as HTTP/1.0 over a plain connection (Content-Length framing, connection closed after).
func (e *env) http10(req *http.Request, method, p, payload string, hasBody bool) (*http.Response, error) {
	conn, err := net.DialTimeout("tcp", e.addr, 5*time.Second)
	if err != nil {
		return nil, err
	}
	_ = conn.SetDeadline(time.Now().Add(20 * time.Second))
	var b strings.Builder
	fmt.Fprintf(&b, "%s %s HTTP/1.0\r\nHost: %s\r\n", method, p, req.URL.Host)
	if hasBody {
		fmt.Fprintf(&b, "Content-Length: %d\r\n", len(payload))
	}
	b.WriteString("\r\n")
	if hasBody {
		b.WriteString(payload)
	}
	if _, err := conn.Write([]byte(b.String())); err != nil {
		conn.Close()
		return nil, err
	}
	resp, err := http.ReadResponse(bufio.NewReader(conn), req)
	if err != nil {
		conn.Close()
		return nil, err
	}
	// read the body now: the connection is closed when this function's caller is done
	data, _ := io.ReadAll(resp.Body)
	resp.Body.Close()
	conn.Close()
	resp.Body = io.NopCloser(bytes.NewReader(data))
	return resp, nil
}

func (e *env) doClient(parts []string) string {
	op, name, arg := parts[1], f(parts[2]), parts[3]
	// the mailbox the request will reach, for the id translation only
	mb, ok := "", false
	if name != "" && name != "." && name != ".." {
		first := strings.Split(name, "/")[0]
		mb, ok = e.mfa(first)
	}
	e.mfa(name)
	id := func() string { return e.realID(mb, ok, f(arg)) }
	unit := func(err error) string {
		if err != nil {
			return "E"
		}
		return "U"
	}
	src := func(b *bytes.Buffer, err error) string {
		if err != nil {
			return "E"
		}
		return srcTok(b.Bytes())
	}
	nth := func() (*client.MessageHeader, bool) {
		hs, err := e.cli.ListMailbox(name)
		i := vh.AtoI(arg)
		if err != nil || i >= len(hs) {
			return nil, false
		}
		return hs[i], true
	}
	switch op {
	case "list":
		hs, err := e.cli.ListMailbox(name)
		if err != nil {
			return "E"
		}
		if len(hs) == 0 {
			return "L@-:"
		}
		ps := make([]string, len(hs))
		for i, h := range hs {
			ps[i] = e.cliHdrTok(h)
		}
		return "L@" + vh.HS(hs[0].Mailbox) + ":" + strings.Join(ps, ";")
	case "get":
		m, err := e.cli.GetMessage(name, id())
		if err != nil {
			return "E"
		}
		return e.cliMsgTok(m)
	case "seen":
		return unit(e.cli.MarkSeen(name, id()))
	case "src":
		return src(e.cli.GetMessageSource(name, id()))
	case "del":
		return unit(e.cli.DeleteMessage(name, id()))
	case "purge":
		return unit(e.cli.PurgeMailbox(name))
	case "hget":
		h, ok := nth()
		if !ok {
			return "E"
		}
		m, err := h.GetMessage()
		if err != nil {
			return "E"
		}
		return e.cliMsgTok(m)
	case "hsrc":
		h, ok := nth()
		if !ok {
			return "E"
		}
		return src(h.GetSource())
	case "hdel":
		h, ok := nth()
		if !ok {
			return "E"
		}
		return unit(h.Delete())
	case "msrc":
		m, err := e.cli.GetMessage(name, id())
		if err != nil {
			return "E"
		}
		return src(m.GetSource())
	case "mdel":
		m, err := e.cli.GetMessage(name, id())
		if err != nil {
			return "E"
		}
		return unit(m.Delete())
	}
	return "BADOP"
}

// doVanish: the content file of message k of a mailbox disappears from the file store's disk
// (x:<mb>:<k>); the memory store has nothing to lose.
func (e *env) doVanish(parts []string) string {
	mb, k := f(parts[1]), vh.AtoI(parts[2])
	if e.dir == "" || k >= len(e.ids[mb]) {
		return "X"
	}
	h := stringutil.HashMailboxName(mb)
	_ = os.Remove(filepath.Join(e.dir, "mail", h[0:3], h[0:6], h, e.ids[mb][k]+".raw"))
	return "X"
}

// doRace: y:<tmpl>:<mb>:<k>:<body> — a GET of template tmpl for message k of mb while another client's
// removal of that message completes between the manager's look-up and its opening of the content.
func (e *env) doRace(parts []string) string {
	mb, k := f(parts[2]), vh.AtoI(parts[3])
	if k < len(e.ids[mb]) {
		e.race.armedMb, e.race.armedID, e.race.armed = mb, e.ids[mb][k], true
	}
	defer func() { e.race.armed = false }()
	return e.doRaw([]string{"r", "GET", parts[1], vh.HS(url.QueryEscape(mb)), vh.HS("k" + strconv.Itoa(k)), parts[4], vh.HS("0"), vh.HS("a.bin")})
}

func (e *env) doAdd(parts []string) string {
	mb, date, tag := f(parts[1]), int64(vh.AtoI(parts[2])), vh.AtoI(parts[3])
	raw := buildRaw(tag)
	if len(raw) != vh.AtoI(parts[4]) {
		return "ASIZE"
	}
	d := &message.Delivery{
		Meta: event.MessageMetadata{
			Mailbox: mb,
			From:    metaFrom(tag),
			To:      metaTo(tag),
			Date:    time.UnixMilli(date),
			Subject: metaSubject(tag),
		},
		Reader: bytes.NewReader(raw),
	}
	id, err := e.store.AddMessage(d)
	if err != nil {
		return "AERR"
	}
	if e.rev[mb] == nil {
		e.rev[mb] = map[string]int{}
	}
	e.rev[mb][id] = len(e.ids[mb])
	e.ids[mb] = append(e.ids[mb], id)
	return "A"
}

func (e *env) dump() string {
	var parts []string
	err := e.store.VisitMailboxes(func(ms []storage.Message) bool {
		if len(ms) == 0 {
			return true
		}
		mb := ms[0].Mailbox()
		vs := make([]string, len(ms))
		for i, m := range ms {
			vs[i] = e.viewTok(mb, m.ID(), m.Subject(), stringutil.StringAddress(m.From()), stringutil.StringAddressList(m.To()),
				m.Date().UnixNano()/1000000, m.Size(), m.Seen())
		}
		parts = append(parts, vh.HS(mb)+"="+strings.Join(vs, ";"))
		return true
	})
	if err != nil {
		return "D=ERR"
	}
	sort.Strings(parts)
	return "D=" + strings.Join(parts, "|")
}

var caseNo int

func runHist(in []string) []string {
	storeKind, naming, base, opsF := in[0], in[1], f(in[2]), in[3]
	caseNo++
	extHost := extension.NewHost()
	conf := &config.Root{Web: config.Web{BasePath: base, UIDir: "/nonexistent-ui"}}
	switch naming {
	case "full":
		conf.MailboxNaming = config.FullNaming
	default:
		conf.MailboxNaming = config.LocalNaming
	}
	var st storage.Store
	var err error
	var dir string
	// store field: mem|file[.c<cap>][.m<maxkb>][.t1]  (per-mailbox cap; store-wide size limit, memory store only;
	// t1: the client is given its base URL spelt with a trailing slash — the same server, the same answers)
	clientSlash := false
	sf := strings.Split(storeKind, ".")
	storeKind = sf[0]
	scfg := config.Storage{Params: map[string]string{}}
	for _, o := range sf[1:] {
		switch o[0] {
		case 'c':
			scfg.MailboxMsgCap = vh.AtoI(o[1:])
		case 'm':
			scfg.Params["maxkb"] = o[1:]
		case 't':
			clientSlash = true
		}
	}
	if storeKind == "file" {
		dir = filepath.Join(workdir(), fmt.Sprintf("c14-%d-%d", os.Getpid(), caseNo))
		scfg.Params["path"] = dir
		delete(scfg.Params, "maxkb")
		st, err = file.New(scfg, extHost)
		defer os.RemoveAll(dir)
	} else {
		st, err = mem.New(scfg, extHost)
	}
	if err != nil {
		return []string{"STOREERR", vh.HS(err.Error())}
	}
	race := &raceStore{Store: st}
	mgr := &recMgr{Manager: &message.StoreManager{AddrPolicy: &policy.Addressing{Config: conf}, Store: race, ExtHost: extHost}}

	// the router is a package global: assemble it the way server.FullAssembly does
	web.Router = mux.NewRouter()
	prefix := stringutil.MakePathPrefixer(conf.Web.BasePath)
	webui.SetupRoutes(web.Router.PathPrefix(prefix("/serve/")).Subrouter())
	rest.SetupRoutes(web.Router.PathPrefix(prefix("/api/")).Subrouter())
	web.NewServer(conf, mgr, &msghub.Hub{})
	srv := httptest.NewUnstartedServer(web.Router)
	srv.Config.ErrorLog = log.New(io.Discard, "", 0) // a handler panic is observed as a dropped connection
	srv.Start()
	defer srv.Close()

	e := &env{race: race, dir: dir, store: st, mgr: mgr, url: srv.URL, addr: srv.Listener.Addr().String(), ids: map[string][]string{}, rev: map[string]map[string]int{}}
	for _, s := range strings.Split(base, "/") {
		if s != "" {
			e.baseSeg = append(e.baseSeg, s)
		}
	}
	e.raw = &http.Client{Timeout: 20 * time.Second, CheckRedirect: func(*http.Request, []*http.Request) error { return http.ErrUseLastResponse }}
	cliBase := srv.URL + prefix("")
	if clientSlash {
		cliBase += "/"
	}
	e.cli, err = client.New(cliBase)
	if err != nil {
		return []string{"CLIENTERR"}
	}
	var outs []string
	if opsF != "-" {
		for _, o := range strings.Split(opsF, ",") {
			parts := strings.Split(o, ":")
			switch parts[0] {
			case "a":
				outs = append(outs, e.doAdd(parts))
			case "r":
				outs = append(outs, e.doRaw(parts))
			case "c":
				outs = append(outs, e.doClient(parts))
			case "x":
				outs = append(outs, e.doVanish(parts))
			case "y":
				outs = append(outs, e.doRace(parts))
			default:
				outs = append(outs, "BADOP")
			}
		}
	}
	outs = append(outs, e.dump())
	// naming table
	seen := map[string]bool{}
	var ents []string
	for _, c := range mgr.calls {
		if !seen[c[0]] {
			seen[c[0]] = true
			ents = append(ents, vh.HS(c[0])+":"+c[1])
		}
	}
	outs = append(outs, "M="+strings.Join(ents, ","))
	return outs
}

func workdir() string {
	if d := os.Getenv("VERIF_WORKDIR"); d != "" {
		return d
	}
	return os.TempDir()
}

func exec(kind string, in []string) []string {
	switch kind {
	case "hist":
		return runHist(in)
	case "asm14":
		return asmExec(in)
	}
	return []string{"UNKNOWN-KIND"}
}

func main() {
	zerolog.SetGlobalLevel(zerolog.Disabled)
	if len(os.Args) > 1 && os.Args[1] == "asm14child" {
		asmChild(os.Args[2:])
		return
	}
	vh.Main(gen, exec)
}

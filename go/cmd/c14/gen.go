package main

import (
	"fmt"
	"net/url"
	"sort"
	"strings"

	"verifharness/vh"
)

// Mailbox names that are canonical under the naming mode (lower case, no +extension), with
// characters that matter to URLs: & = ? # % ; , ! ' * ~ $ and — the open finding — '/'.
var poolLocal = []string{"alpha", "a.b", "x_y", "a&b", "a=b", "q?x", "h#x", "p%41", "s;t", "e!f'g*h", "t~u$v", "w`x{y|z}", "c^d", "s/t", "r/k0",
	// lengths spread up to and just beyond the 64 octets a local part may have
	"lllllllllllllllllllllllllllllllllllllllllllllllllllllllllllllll", "mmmmmmmmmmmmmmmmmmmmmmmmmmmmmmmmmmmmmmmmmmmmmmmmmmmmmmmmmmmmmmmm", "nnnnnnnnnnnnnnnnnnnnnnnnnnnnnnnnnnnnnnnnnnnnnnnnnnnnnnnnnnnnnnnnn", "abcdefghijklmnopqrstuvwxyz0123456789.abcdefghijklmnopq"}
var poolFull = []string{"alpha@example.com", "a.b@mail.example.org", "a&b@x.example", "q?x@example.com", "p%41@example.com", "s/t@example.com",
	// addresses of 65, 100 and 140 octets (local part <= 64, the rest is domain)
	"kkkkkkkkkkkkkkkkkkkkkkkkkkkkkkkkkkkkkkkkkkkkkkkkkkkkk@example.com", "jjjjjjjjjjjjjjjjjjjjjjjjjjjjjjjjjjjjjjjjjjjjjjjjjjjjjjjjjjjj@ddddddddddddddddddddddddddd.example.com", "iiiiiiiiiiiiiiiiiiiiiiiiiiiiiiiiiiiiiiiiiiiiiiiiiiiiiiiiiiiiiiii@eeeeeeeeeeeeeeeeeeeeeeeeeeeeee.fffffffffffffffffffffffffffffff.example.org"}

type hgen struct {
	g      *vh.Gen
	naming string
	pool   []string
	adds   map[string]int
	ops    []string
	slash  bool
	shapes bool // deliveries with empty / long metadata (tags from 400 on, see shapeOf)
}

func (h *hgen) canon() string {
	for {
		mb := h.pool[h.g.Intn(len(h.pool))]
		if strings.Contains(mb, "/") && !h.slash {
			continue
		}
		return mb
	}
}

// name returns a string that addresses mailbox mb (or, rarely, nothing at all).
func (h *hgen) name(mb string) string {
	g := h.g
	switch {
	case g.Chance(0.6):
		return mb
	case g.Chance(0.25): // +extension
		if i := strings.IndexByte(mb, '@'); i >= 0 {
			return mb[:i] + "+tag" + mb[i:]
		}
		return mb + "+x.y"
	case g.Chance(0.3): // upper case
		return strings.ToUpper(mb)
	case g.Chance(0.4) && h.naming == "local": // a domain, ignored by local naming
		return mb + "@example.com"
	case g.Chance(0.5): // a mailbox that never got mail
		return g.Pick("nobody", "zz.top", "k0", "latest")
	default: // names the policy refuses
		return g.Pick("a..b", "two words", ".lead", "x@", "a@b@c", "q\"uote")
	}
}

func (h *hgen) id(mb string) string {
	g := h.g
	n := h.adds[mb]
	switch {
	case g.Chance(0.62) && n > 0:
		return fmt.Sprintf("k%d", g.Intn(n))
	case g.Chance(0.4):
		return "latest"
	case g.Chance(0.3):
		return fmt.Sprintf("k%d", n+g.Intn(3))
	default:
		return g.Pick("nosuch", "Latest", "k1x", "k", "20060102T150405-0000", "source", "html", "k-1")
	}
}

const hexU = "0123456789ABCDEF"
const hexL = "0123456789abcdef"

// wire escapes a name for a raw request in one of several valid ways.
func (h *hgen) wire(name string) string {
	g := h.g
	switch {
	case g.Chance(0.4):
		return url.PathEscape(name)
	case g.Chance(0.4):
		return url.QueryEscape(name)
	case g.Chance(0.5): // every byte percent-encoded, lower-case hex
		var b strings.Builder
		for i := 0; i < len(name); i++ {
			b.WriteByte('%')
			b.WriteByte(hexL[name[i]>>4])
			b.WriteByte(hexL[name[i]&15])
		}
		return b.String()
	default: // only what must be escaped
		var b strings.Builder
		for i := 0; i < len(name); i++ {
			c := name[i]
			if ('a' <= c && c <= 'z') || ('A' <= c && c <= 'Z') || ('0' <= c && c <= '9') || strings.IndexByte("-_.~!$&'()*+,;=:@", c) >= 0 {
				b.WriteByte(c)
			} else {
				b.WriteByte('%')
				b.WriteByte(hexU[c>>4])
				b.WriteByte(hexU[c&15])
			}
		}
		return b.String()
	}
}

func (h *hgen) add() {
	mb := h.canon()
	tag := h.g.Intn(400)
	if h.shapes && h.g.Chance(0.3) {
		tag = 400 + h.g.Intn(64) // empty / long metadata, display names (shapeOf)
	}
	date := 1700000000000 + int64(h.g.Intn(100000000))
	h.ops = append(h.ops, fmt.Sprintf("a:%s:%d:%d:%d", vh.HS(mb), date, tag, len(buildRaw(tag))))
	h.adds[mb]++
}

var tmplMethods = map[int][]string{0: {"GET", "DELETE"}, 1: {"GET", "PATCH", "DELETE", "GET", "PATCH"}, 2: {"GET"}, 3: {"GET"}, 4: {"GET"}, 5: {"GET"}, 6: {"GET"}}

func (h *hgen) raw() {
	g := h.g
	mb := h.canon()
	name := h.name(mb)
	if name == "" {
		name = mb
	}
	tmpl := g.Intn(7)
	if g.Chance(0.3) {
		tmpl = 1
	}
	ms := tmplMethods[tmpl]
	method := ms[g.Intn(len(ms))]
	if g.Chance(0.08) {
		method = g.Pick("GET", "DELETE", "PATCH", "POST", "PUT")
	}
	// body: content, then how it is framed on the wire and which unrelated headers come along
	// (neither may matter to the answer)
	body := "t"
	if g.Chance(0.25) {
		body = g.Pick("f", "b", "e")
	}
	body += g.Pick("l", "c") + g.Pick("0", "0", "1", "2", "3")
	num := "0"
	if g.Chance(0.3) {
		// strconv.ParseUint(s, 10, 32): any number of leading zeros, value bound only
		num = g.Pick("1", "00", "x", "-1", "4294967296", "7", "0000000000000000000000000", "000000000000000000000001",
			"00000000000000000000000000000000000000", "99999999999999999999999999", "4294967295", "+1", "1_0", "")
	}
	w := h.wire(name)
	if w == "" {
		w = "x"
	}
	h.ops = append(h.ops, fmt.Sprintf("r:%s:%d:%s:%s:%s:%s:%s", method, tmpl, vh.HS(w), vh.HS(h.id(mb)), body, vh.HS(num), vh.HS(g.Pick("a.bin", "f", "x%20y"))))
}

func (h *hgen) client() {
	g := h.g
	mb := h.canon()
	name := h.name(mb)
	if g.Chance(0.02) {
		name = g.Pick(".", "..")
	}
	op := g.Pick("list", "get", "seen", "src", "del", "purge", "hget", "hsrc", "hdel", "msrc", "mdel", "list", "get", "seen")
	arg := vh.HS(h.id(mb))
	if g.Chance(0.06) {
		// ids that are no path segment: empty, slashes only — no message has them: an error, store unchanged
		arg = vh.HS(g.Pick("", "", "/", "//"))
	} else if g.Chance(0.02) {
		// dot segments as ids: restClient.do's JoinPath cleans them away (known finding K-C14-client-slash)
		arg = vh.HS(g.Pick(".", "..", "x/.."))
	}
	if op[0] == 'h' {
		arg = fmt.Sprint(g.Intn(h.adds[mb] + 1))
	}
	h.ops = append(h.ops, fmt.Sprintf("c:%s:%s:%s", op, vh.HS(name), arg))
}

// genGone: messages whose content can no longer be opened — the file vanished (x), or a removal completes
// between look-up and open (y) — asked for through every endpoint. Afterwards only GETs and deliveries.
func genGone(g *vh.Gen) {
	for i := 0; i < g.N(40, 1200); i++ {
		naming, pool := "local", []string{"alpha", "a.b", "x_y", "a&b", "q?x"}
		h := &hgen{g: g, naming: naming, pool: pool, adds: map[string]int{}}
		for j := 0; j < 2+g.Intn(4); j++ {
			h.add()
		}
		get := func(mb string, k int) {
			tmpl := 1 + g.Intn(6)
			id := fmt.Sprintf("k%d", k)
			if g.Chance(0.15) {
				id = "latest"
			}
			h.ops = append(h.ops, fmt.Sprintf("r:GET:%d:%s:%s:tl%s:%s:%s", tmpl, vh.HS(url.QueryEscape(mb)), vh.HS(id), g.Pick("0", "1", "2"), vh.HS("0"), vh.HS("a.bin")))
		}
		for j := 0; j < 3+g.Intn(8); j++ {
			mb := h.canon()
			for h.adds[mb] == 0 {
				mb = h.canon()
			}
			k := g.Intn(h.adds[mb])
			switch {
			case g.Chance(0.3):
				h.ops = append(h.ops, fmt.Sprintf("x:%s:%d", vh.HS(mb), k))
				for t := 0; t < 1+g.Intn(3); t++ {
					get(mb, k)
				}
			case g.Chance(0.5):
				h.ops = append(h.ops, fmt.Sprintf("y:%d:%s:%d:tl0", 1+g.Intn(6), vh.HS(mb), k))
			case g.Chance(0.5):
				get(mb, k)
			case g.Chance(0.5):
				h.ops = append(h.ops, fmt.Sprintf("r:GET:0:%s:%s:tl0:%s:%s", vh.HS(url.QueryEscape(mb)), vh.HS("k0"), vh.HS("0"), vh.HS("a.bin")))
			default:
				h.add()
			}
		}
		ops := strings.Join(h.ops, ",")
		base := g.Pick("", "", "pre")
		g.Emit("hist", "mem", naming, vh.HS(base), ops)
		g.Emit("hist", "file", naming, vh.HS(base), ops)
	}
}

// genAsm: the assembled server (config.Process + server.FullAssembly + Services.Start in a child process): base
// path in every spelling an operator may use, deliveries over SMTP, every client method and web-UI fetches.
func genAsm(g *vh.Gen) {
	spellings := []string{"", "/p", "p", "p/", "/a/b/", "a/b"}
	for rep := 0; rep < g.N(1, 8); rep++ {
		for i, sp := range spellings {
			h := &hgen{g: g, naming: "local", pool: []string{"alpha", "a.b", "x_y"}, adds: map[string]int{}}
			for j := 0; j < 2+g.Intn(3); j++ {
				h.add()
			}
			var mbs []string
			for mb := range h.adds {
				mbs = append(mbs, mb)
			}
			sort.Strings(mbs)
			mb := mbs[g.Intn(len(mbs))]
			cop := func(op, name, arg string) { h.ops = append(h.ops, fmt.Sprintf("c:%s:%s:%s", op, vh.HS(name), arg)) }
			k0 := vh.HS("k0")
			cop("list", mb, k0)
			cop("get", g.Pick(mb, strings.ToUpper(mb), mb+"+x"), k0)
			cop("src", mb, vh.HS("latest"))
			cop("seen", mb, k0)
			cop("hget", mb, "0")
			for _, tmpl := range []int{3, 4, 5, 6} {
				h.ops = append(h.ops, fmt.Sprintf("r:GET:%d:%s:%s:tl0:%s:%s", tmpl, vh.HS(url.QueryEscape(mb)), g.Pick(k0, vh.HS("latest"), vh.HS("nosuch")), vh.HS("0"), vh.HS("a.bin")))
			}
			cop("msrc", mb, k0)
			cop("get", "nobody", k0)
			h.add()
			cop("hsrc", mb, "0")
			cop("list", mbs[0], k0)
			switch g.Intn(3) {
			case 0:
				cop("del", mb, k0)
			case 1:
				cop("mdel", mb, vh.HS("latest"))
			default:
				cop("hdel", mb, "0")
			}
			if g.Chance(0.5) {
				cop("purge", mbs[len(mbs)-1], k0)
			}
			cop("list", mb, k0)
			st := "mem"
			if (i+rep)%2 == 1 {
				st = "file"
			}
			g.Emit("asm14", st, vh.HS(sp), strings.Join(h.ops, ","))
		}
	}
}

// genAttach: the attachment number of /serve/mailbox/{name}/{id}/attach/{num}/{file} for messages that exist,
// with and without attachments: strconv.ParseUint(num, 10, 32) takes digits only — no sign —, any number of
// leading zeros, values below 2^32. Signed spellings and the values around 2^31 / 2^32 / 2^63 are where a
// near-synonym (Atoi, ParseInt, another bit size) differs.
func genAttach(g *vh.Gen) {
	nums := []string{"-1", "-0", "+1", "+0", "0", "1", "2", "00", "01", "2147483647", "2147483648", "-2147483648", "-2147483649",
		"4294967295", "4294967296", "4294967297", "9223372036854775807", "9223372036854775808", "-9223372036854775808",
		"18446744073709551615", "18446744073709551616", "0000000000000000000000000", "000000000000000000000001", "0x1", "1e0", " 1"}
	for i := 0; i < g.N(12, 300); i++ {
		h := &hgen{g: g, naming: "local", pool: []string{"alpha", "a.b"}, adds: map[string]int{}}
		// one message with an attachment (tag%4 = 3), one without
		for _, tag := range []int{3 + 4*g.Intn(90), 1 + 4*g.Intn(90)} {
			mb := h.pool[g.Intn(len(h.pool))]
			date := 1700000000000 + int64(g.Intn(100000000))
			h.ops = append(h.ops, fmt.Sprintf("a:%s:%d:%d:%d", vh.HS(mb), date, tag, len(buildRaw(tag))))
			h.adds[mb]++
		}
		for j := 0; j < 8+g.Intn(8); j++ {
			mb := h.pool[g.Intn(len(h.pool))]
			id := "latest"
			if h.adds[mb] > 0 && g.Chance(0.6) {
				id = fmt.Sprintf("k%d", g.Intn(h.adds[mb]))
			}
			num := nums[g.Intn(len(nums))]
			h.ops = append(h.ops, fmt.Sprintf("r:GET:6:%s:%s:tl%s:%s:%s", vh.HS(url.QueryEscape(mb)), vh.HS(id), g.Pick("0", "1", "3"),
				vh.HS(url.PathEscape(num)), vh.HS("a.bin")))
		}
		ops := strings.Join(h.ops, ",")
		g.Emit("hist", g.Pick("mem", "file"), "local", vh.HS(g.Pick("", "pre")), ops)
	}
}

// genMeta: messages whose metadata has EMPTY or long parts — no recipients, an empty sender address, an empty
// subject, one empty recipient, 60 recipients — next to plain ones, then plain listings (no query parameters)
// through the API and the client, and every message fetched by id through the API, the client and the web UI:
// a listing is exactly the mailbox, whatever the metadata looks like.
func genMeta(g *vh.Gen) {
	for i := 0; i < g.N(10, 400); i++ {
		mbs := []string{"alpha", "a.b"}
		adds := map[string]int{}
		var ops []string
		n := 3 + g.Intn(5)
		for j := 0; j < n; j++ {
			mb := mbs[g.Intn(2)]
			tag := 400 + g.Intn(64)
			if g.Chance(0.25) {
				tag = g.Intn(400)
			} else if g.Chance(0.3) {
				tag = []int{412, 413, 414, 415, 444, 445, 446, 447}[g.Intn(8)] // display names over one shared bare address
			}
			date := 1700000000000 + int64(g.Intn(100000000))
			ops = append(ops, fmt.Sprintf("a:%s:%d:%d:%d", vh.HS(mb), date, tag, len(buildRaw(tag))))
			adds[mb]++
			if g.Chance(0.4) {
				ops = append(ops, fmt.Sprintf("r:GET:0:%s:%s:tl0:%s:%s", vh.HS(mb), vh.HS("k0"), vh.HS("0"), vh.HS("a.bin")))
			}
		}
		for _, mb := range mbs {
			ops = append(ops, fmt.Sprintf("r:GET:0:%s:%s:tl0:%s:%s", vh.HS(mb), vh.HS("k0"), vh.HS("0"), vh.HS("a.bin")))
			ops = append(ops, fmt.Sprintf("c:list:%s:%s", vh.HS(mb), vh.HS("k0")))
			for k := 0; k < adds[mb]; k++ {
				id := vh.HS(fmt.Sprintf("k%d", k))
				switch g.Intn(4) {
				case 0:
					ops = append(ops, fmt.Sprintf("r:GET:1:%s:%s:tl0:%s:%s", vh.HS(mb), id, vh.HS("0"), vh.HS("a.bin")))
				case 1:
					ops = append(ops, fmt.Sprintf("c:get:%s:%s", vh.HS(mb), id))
				case 2:
					ops = append(ops, fmt.Sprintf("r:GET:3:%s:%s:tl0:%s:%s", vh.HS(mb), id, vh.HS("0"), vh.HS("a.bin")))
				default:
					ops = append(ops, fmt.Sprintf("c:hget:%s:%d", vh.HS(mb), k))
				}
			}
		}
		for _, st := range []string{"mem", "file"} {
			g.Emit("hist", st, "local", vh.HS(""), strings.Join(ops, ","))
		}
	}
}

// genSize: message sources of 0 bytes to 12 MB (thorough: up to 64 MiB) put into the store, then fetched through
// REST /source, the web UI's /source and the client's GetMessageSource / MessageHeader.GetSource: every byte comes
// back (the driver compares the bytes, the token stays the tag).
func genSize(g *vh.Gen) {
	hist := func(idx []int) string {
		mb := vh.HS("alpha")
		var ops []string
		for j, i := range idx {
			tag := 1000 + i
			ops = append(ops, fmt.Sprintf("a:%s:%d:%d:%d", mb, 1700000000000+int64(j), tag, sizedSizes[i]))
		}
		for j := range idx {
			id := vh.HS(fmt.Sprintf("k%d", j))
			ops = append(ops, fmt.Sprintf("r:GET:2:%s:%s:tl0:%s:%s", mb, id, vh.HS("0"), vh.HS("a.bin")))
			ops = append(ops, fmt.Sprintf("c:src:%s:%s", mb, id))
			ops = append(ops, fmt.Sprintf("r:GET:5:%s:%s:tl0:%s:%s", mb, id, vh.HS("0"), vh.HS("a.bin")))
			ops = append(ops, fmt.Sprintf("c:hsrc:%s:%d", mb, j))
		}
		return strings.Join(ops, ",")
	}
	emit := func(idx []int) {
		for _, st := range []string{"mem", "file"} {
			g.Emit("hist", st, "local", vh.HS(""), hist(idx))
		}
	}
	// indices into sizedSizes: 0:0 1:1 2:4095 3:4096 4:4097 5:65535 6:65536 7:65537 8:1MiB 9:10240000 10:10256383
	// 11:10256384 12:10256385 13:12000000 14:64MiB 15:257 16:1000000 17:16777215 18:16777217 19:33554433
	emit([]int{0, 1, 4, 6, 13})
	emit([]int{15, 8, 12})
	if g.Tier == "thorough" {
		emit([]int{2, 3, 5, 7, 16})
		emit([]int{9, 10, 11})
		emit([]int{17, 18})
		emit([]int{19, 0})
		emit([]int{14})
		for i := 0; i < 20; i++ {
			n := 1 + g.Intn(3)
			idx := make([]int, n)
			for j := range idx {
				idx[j] = g.Intn(14)
			}
			emit(idx)
		}
	}
}

func gen(g *vh.Gen) {
	genAttach(g)
	genSize(g)
	genMeta(g)
	genAsm(g)
	genGone(g)
	n := g.N(300, 10000)
	for i := 0; i < n; i++ {
		naming := "local"
		pool := poolLocal
		if g.Chance(0.3) {
			naming, pool = "full", poolFull
		}
		base := g.Pick("", "", "pre", "/pre/", "a/b")
		h := &hgen{g: g, naming: naming, pool: pool, adds: map[string]int{}, slash: g.Chance(0.1), shapes: true}
		nops := 4 + g.Intn(30)
		for j := 0; j < nops; j++ {
			switch {
			case g.Chance(0.3) || j < 2:
				h.add()
			case g.Chance(0.5):
				h.raw()
			default:
				h.client()
			}
		}
		ops := strings.Join(h.ops, ",")
		// the same history on both back-ends; a quarter of them with a mailbox cap and / or (memory store)
		// a store-wide size limit, so that deliveries evict while API calls go on
		lim, mlim := "", ""
		if g.Chance(0.25) {
			if g.Chance(0.7) {
				lim = fmt.Sprintf(".c%d", 1+g.Intn(3))
			}
			if lim == "" || g.Chance(0.4) {
				mlim = ".m1"
			}
		}
		// a fifth of the histories: the client's base URL is spelt with a trailing slash
		ts := ""
		if g.Chance(0.2) {
			ts = ".t1"
		}
		g.Emit("hist", "mem"+lim+mlim+ts, naming, vh.HS(base), ops)
		g.Emit("hist", "file"+lim+ts, naming, vh.HS(base), ops)
	}
}

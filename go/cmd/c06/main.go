// Driver for C06 (no message larger than the configured maximum is accepted or stored): small
// limits, body sizes straddling the limit (limit-2 .. limit+2, x2, x10), with / without / lying
// SIZE parameters, followed by further transactions on the same connection.
package main

import (
	"bytes"
	"os"
	"strings"

	"verifharness/smtpd"
	"verifharness/vh"
)

func gen(g *vh.Gen) {
	o := smtpd.Opts{Garbage: 0.03, MaxBody: 60, SizeParams: true, SmallLimit: true}
	for i := 0; i < g.N(300, 12000); i++ {
		c, pool := smtpd.GenCfg(g, o)
		c.DA, c.DS = true, true
		stream := smtpd.GenDialogue(g, c, pool, o)
		// one case in eight with an extension that allows every sender and recipient: the size rule is not the extension's to waive
		g.Emit(g.Pick("smtp", "smtp", "smtp", "smtp", "smtp", "smtp", "smtp", "smtpallow"), append(c.Fields(), vh.H(stream))...)
	}
	// long physical lines around the sizes of read buffers (4 KiB steps), ending in a dot, a CR or a letter, in messages
	// on both sides of the limit: a line reader that hands out a long line in pieces must not take a piece for a line
	for i := 0; i < g.N(12, 300); i++ {
		c, pool := smtpd.GenCfg(g, o)
		c.DA, c.DS, c.Acc, c.Rej, c.Sto, c.Dis, c.RejO, c.MaxRcpt = true, true, "", "", "", "", "", 200
		c.MaxBytes = g.Pick2(5000, 9000, 20000, 65536)
		n := g.Pick2(4095, 4096, 4097, 4098, 8192, 8193, 12289, 65537)
		long := strings.Repeat("p", n-1) + g.Pick(".", ".", "\r", "x")
		ls := []string{"Subject: long line", "", "first", long}
		for k := g.Intn(4); k > 0; k-- {
			ls = append(ls, g.Pick("tail", ".", "..", strings.Repeat("q", g.Pick2(100, 1000, 4097))))
		}
		var b strings.Builder
		b.WriteString("HELO long.example\r\nMAIL FROM:<s@" + pool[0] + ">\r\nRCPT TO:<alice@" + pool[1] + ">\r\nDATA\r\n")
		b.WriteString(smtpd.StuffLines(ls))
		b.WriteString("NOOP\r\nMAIL FROM:<s@" + pool[0] + ">\r\nRCPT TO:<bob@" + pool[1] + ">\r\nDATA\r\n")
		b.WriteString(smtpd.StuffLines([]string{"x"}))
		b.WriteString("QUIT\r\n")
		g.Emit("smtp", append(c.Fields(), vh.H([]byte(b.String())))...)
	}
	// refusal storms: many oversized blocks refused in a row on one server, then a message that fits
	for i := 0; i < g.N(3, 60); i++ {
		c, pool := smtpd.GenCfg(g, o)
		// counts spread over orders of magnitude, the large ones first so that the quick tier has them: a threshold somebody
		// hides in the server is not going to be the one an earlier check was tuned to
		ks := []int{130, 12, 41, 300, 17, 65, 33, 11, 1000}
		stream := smtpd.GenStorm(g, &c, pool, ks[i%len(ks)])
		g.Emit("smtp", append(c.Fields(), vh.H(stream))...)
	}
}

// genAsm: the ASSEMBLED server (child process: config.Process from the environment, server.FullAssembly, real SMTP
// port) with limits and store settings an operator can combine: the memory store with a size limit (maxkb) below,
// around and above the message limit, the file store, mailbox caps. Replies only (kind asmr): the size rule speaks
// about what is refused and accepted; what a size-limited store keeps afterwards is C08's.
func genAsm(g *vh.Gen) {
	o := smtpd.Opts{Garbage: 0.02, MaxBody: 60, SizeParams: true, SmallLimit: true}
	for i := 0; i < g.N(40, 1500); i++ {
		c, pool := smtpd.GenCfg(g, o)
		c.DA, c.DS = true, true
		c.MaxBytes = g.Pick2(2000, 5000, 20000, 65536)
		c.Store = g.Pick("mem::1", "mem::4", "mem::16", "mem:2:4", "mem", "file", "file:1")
		o2 := o
		o2.MaxBody = c.MaxBytes + c.MaxBytes/2
		stream := smtpd.GenDialogue(g, c, pool, o2)
		stream = bytes.ReplaceAll(stream, []byte("x/y"), []byte("xsy"))
		if !bytes.HasSuffix(bytes.ToUpper(bytes.TrimRight(stream, "\r\n")), []byte("QUIT")) {
			stream = append(stream, []byte("QUIT\r\n")...)
		}
		g.Emit("asmr", append(c.Fields(), vh.H(stream))...)
	}
	for i := 0; i < g.N(2, 30); i++ {
		c, pool := smtpd.GenCfg(g, o)
		stream := smtpd.GenStorm(g, &c, pool, []int{70, 13, 21, 150, 11}[i%5])
		c.Store = g.Pick("mem", "file", "mem::4")
		g.Emit("asmr", append(c.Fields(), vh.H(stream))...)
	}
}

func exec(kind string, in []string) []string {
	switch kind {
	case "smtp":
		return smtpd.Exec(in)
	case "smtpallow":
		return smtpd.ExecAllow(in)
	case "asmr":
		return smtpd.ExecAsm(in)
	}
	return []string{"UNKNOWN-KIND"}
}

func main() {
	if len(os.Args) > 1 && os.Args[1] == "asmchild" {
		smtpd.AsmChild()
		return
	}
	vh.Main(func(g *vh.Gen) { gen(g); genAsm(g) }, exec)
}

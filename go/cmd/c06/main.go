// Driver for C06 (no message larger than the configured maximum is accepted or stored): small
// limits, body sizes straddling the limit (limit-2 .. limit+2, x2, x10), with / without / lying
// SIZE parameters, followed by further transactions on the same connection.
package main

import (
	"verifharness/smtpd"
	"verifharness/vh"
)

func gen(g *vh.Gen) {
	o := smtpd.Opts{Garbage: 0.03, MaxBody: 60, SizeParams: true, SmallLimit: true}
	for i := 0; i < g.N(300, 12000); i++ {
		c, pool := smtpd.GenCfg(g, o)
		c.DA, c.DS = true, true
		stream := smtpd.GenDialogue(g, c, pool, o)
		g.Emit("smtp", append(c.Fields(), vh.H(stream))...)
	}
}

func exec(kind string, in []string) []string {
	if kind != "smtp" {
		return []string{"UNKNOWN-KIND"}
	}
	return smtpd.Exec(in)
}

func main() { vh.Main(gen, exec) }

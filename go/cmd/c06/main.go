// Driver for C06 (no message larger than the configured maximum is accepted or stored): small
// limits, body sizes straddling the limit (limit-2 .. limit+2, x2, x10), with / without / lying
// SIZE parameters, followed by further transactions on the same connection.
package main

import (
	"bytes"
	"os"

	"verifharness/smtpd"
	"verifharness/vh"
)

func gen(g *vh.Gen) {
	o := smtpd.Opts{Garbage: 0.03, MaxBody: 60, SizeParams: true, SmallLimit: true}
	for i := 0; i < g.N(300, 12000); i++ {
		c, pool := smtpd.GenCfg(g, o)
		c.DA, c.DS = true, true
		stream := smtpd.GenDialogue(g, c, pool, o)
		g.Emit("smtp", append(c.Fields(), vh.H(stream))...)
	}
	// refusal storms: many oversized blocks refused in a row on one server, then a message that fits
	for i := 0; i < g.N(3, 60); i++ {
		c, pool := smtpd.GenCfg(g, o)
		stream := smtpd.GenStorm(g, &c, pool, g.Pick2(11, 12, 17, 33))
		g.Emit("smtp", append(c.Fields(), vh.H(stream))...)
	}
}

// genAsm: the ASSEMBLED server (child process: config.Process from the environment, server.FullAssembly, real SMTP
// port) with limits and store settings an operator can combine: the memory store with a size limit (maxkb) below,
// around and above the message limit, the file store, mailbox caps. Replies only (kind asmr): the size rule speaks
// about what is refused and accepted; what a size-limited store keeps afterwards is C08's.
func genAsm(g *vh.Gen) {
	o := smtpd.Opts{Garbage: 0.02, MaxBody: 60, SizeParams: true, SmallLimit: true}
	for i := 0; i < g.N(40, 1500); i++ {
		c, pool := smtpd.GenCfg(g, o)
		c.DA, c.DS = true, true
		c.MaxBytes = g.Pick2(2000, 5000, 20000, 65536)
		c.Store = g.Pick("mem::1", "mem::4", "mem::16", "mem:2:4", "mem", "file", "file:1")
		o2 := o
		o2.MaxBody = c.MaxBytes + c.MaxBytes/2
		stream := smtpd.GenDialogue(g, c, pool, o2)
		stream = bytes.ReplaceAll(stream, []byte("x/y"), []byte("xsy"))
		if !bytes.HasSuffix(bytes.ToUpper(bytes.TrimRight(stream, "\r\n")), []byte("QUIT")) {
			stream = append(stream, []byte("QUIT\r\n")...)
		}
		g.Emit("asmr", append(c.Fields(), vh.H(stream))...)
	}
	for i := 0; i < g.N(2, 30); i++ {
		c, pool := smtpd.GenCfg(g, o)
		stream := smtpd.GenStorm(g, &c, pool, g.Pick2(11, 13, 21))
		c.Store = g.Pick("mem", "file", "mem::4")
		g.Emit("asmr", append(c.Fields(), vh.H(stream))...)
	}
}

func exec(kind string, in []string) []string {
	switch kind {
	case "smtp":
		return smtpd.Exec(in)
	case "asmr":
		return smtpd.ExecAsm(in)
	}
	return []string{"UNKNOWN-KIND"}
}

func main() {
	if len(os.Args) > 1 && os.Args[1] == "asmchild" {
		smtpd.AsmChild()
		return
	}
	vh.Main(func(g *vh.Gen) { gen(g); genAsm(g) }, exec)
}

// Driver for C08 (cap and size limit evict oldest-first, accounting never drifts): histories of
// deliveries of varying sizes interleaved with removals and purges under every combination
// of mailbox cap and store size limit; after every operation the listing is observed through
// the next operations and every add is followed by a GetMessage of the id just returned.
// See package sd (shared with C07 and C16).
package main

import (
	"verifharness/cmd/c07/sd"
	"verifharness/vh"
)

func gen(g *vh.Gen) {
	caps := []int{0, 1, 2, 5}
	maxs := []int{0, 1, 4}
	for i := 0; i < g.N(500, 20000); i++ {
		capN := caps[g.Intn(len(caps))]
		maxkb := maxs[g.Intn(len(maxs))]
		names := sd.Names(g)
		if len(names) > 3 {
			names = names[:3]
		}
		p := sd.Profile{MinOps: 6, MaxOps: 50, Sizes: []int{150, 300, 600, 900, 1024, 1100, 2048, 3000}, PAdd: 0.55, Oversize: 5000}
		if maxkb == 1 {
			p.Sizes = []int{150, 300, 400, 600, 900, 1024, 1025}
			p.Oversize = 1500
		}
		ops := sd.Ops(g, len(names), p)
		backends := []string{"mem", "file"}
		if maxkb > 0 {
			backends = []string{"mem"} // the size limit exists in the memory store only
		}
		sd.EmitHistory(g, backends, "direct", capN, maxkb, names, ops)
	}
}

// genBoth: cap AND size limit on the memory store, with the oldest message of the STORE inside the
// mailbox that overflows its cap (the combination no test of the suite uses): a fixed opening
//
//	a0 (oldest of the store), a1, a0 …  until mailbox 0 is at its cap, then deliveries to mailbox 0
//
// so that the cap evicts the store's oldest message (the enforcer has to forget it) and the next
// size eviction must pick the then-oldest message, possibly in the other mailbox; followed by a
// random tail of deliveries, removals and purges. Sizes are chosen around limit/cap.
func genBoth(g *vh.Gen) {
	for i := 0; i < g.N(120, 4000); i++ {
		capN := 1 + g.Intn(3)
		maxkb := 1 + g.Intn(2)
		limit := maxkb * 1024
		names := sd.Names(g)
		if len(names) < 2 {
			names = append(names, "other")
		}
		if len(names) > 3 {
			names = names[:3]
		}
		unit := limit / (capN + 2)
		sz := func() int { return 130 + g.Intn(unit) }
		date := 1600000000
		var ops []string
		add := func(mb, size int) {
			date += 1 + g.Intn(50)
			ops = append(ops, "a"+vh.I(mb)+":"+vh.I(date)+":"+vh.I(size))
		}
		add(0, sz()) // the oldest message of the store lives in mailbox 0
		add(1, sz())
		for k := 1; k < capN; k++ {
			add(0, sz())
		}
		ops = append(ops, "l0", "v")
		if g.Chance(0.5) {
			// overflow the cap of mailbox 0 only: its oldest = the store's oldest goes
			add(0, sz())
			ops = append(ops, "l0", "l1")
		}
		// overflow the cap AND push the store over the size limit in one delivery: after the cap
		// eviction the enforcer must evict the then-oldest message of the store (mailbox 1)
		add(0, limit-100)
		ops = append(ops, "l0", "l1", "v")
		if g.Chance(0.5) {
			ops = append(ops, "r1:k0", "g1:k0")
		}
		add(1, sz())
		add(0, sz())
		tail := sd.Ops(g, len(names), sd.Profile{MinOps: 4, MaxOps: 25, Sizes: []int{150, unit, unit + 100, limit / 2, limit - 50}, PAdd: 0.6, Oversize: limit + 300})
		// dates of the tail are generated independently; they are inputs only
		sd.EmitHistory(g, []string{"mem"}, "direct", capN, maxkb, names, joinOps(ops)+","+tail)
	}
}

func joinOps(ops []string) string {
	out := ""
	for i, o := range ops {
		if i > 0 {
			out += ","
		}
		out += o
	}
	return out
}

// genWrap: the cap on the file store with a FULL mailbox whose deliveries straddle the wrap of the
// id counter within one second (arrival order is not id order; planted, see sd/wrap.go): the next
// deliveries must evict the oldest ARRIVALS.
func genWrap(g *vh.Gen) {
	for i := 0; i < g.N(16, 300); i++ {
		capN := 2 + g.Intn(4)
		tail := []string{"l0"}
		date := 1600002000
		for k := 0; k < 1+g.Intn(capN+1); k++ {
			date += 7
			tail = append(tail, "a0:"+vh.I(date)+":"+vh.I(150+50*g.Intn(5)), "l0", "g0:l", "g0:k0", "g0:k"+vh.I(capN-1))
		}
		tail = append(tail, "v")
		sd.EmitHistory(g, []string{"file"}, "direct@wrap"+vh.I(capN), capN, 0, []string{"wrapbox", "other"}, sd.WrapHistory(g, capN, tail))
	}
}

// genReopen: the FILE store re-opened on the same path with another cap (operation o<cap>: a restart
// with a changed INBUCKET_STORAGE_MAILBOXMSGCAP): n -> smaller n, 0 -> n, n -> 0 -> n. After the re-open
// a mailbox may hold more than the cap until its next delivery, which must leave exactly the newest cap
// (two or more evictions at once), the new id retrievable.
func genReopen(g *vh.Gen) {
	for i := 0; i < g.N(40, 1500); i++ {
		var caps []int
		switch g.Intn(3) {
		case 0:
			big := 4 + g.Intn(4)
			caps = []int{big, 1 + g.Intn(big-2)}
		case 1:
			caps = []int{0, 1 + g.Intn(4)}
		default:
			n := 2 + g.Intn(4)
			caps = []int{n, 0, 1 + g.Intn(n)}
		}
		names := []string{"reopen-a", "reopen-b"}
		date := 1600003000
		var ops []string
		add := func(mb int) {
			date += 5
			ops = append(ops, "a"+vh.I(mb)+":"+vh.I(date)+":"+vh.I(150+50*g.Intn(5)))
		}
		look := func() { ops = append(ops, "l0", "l1", "g0:l") }
		for si, c := range caps {
			if si > 0 {
				ops = append(ops, "o"+vh.I(c))
				look() // more than the cap may still be there
			}
			n := 3 + g.Intn(5)
			if c == 0 {
				n = 5 + g.Intn(4) // run without a cap: fill well beyond the next cap
			}
			for k := 0; k < n; k++ {
				add(g.Intn(2))
				if g.Chance(0.4) {
					look()
				}
				if g.Chance(0.1) {
					ops = append(ops, "r0:k"+vh.I(g.Intn(6)))
				}
			}
			look()
		}
		ops = append(ops, "v")
		sd.EmitHistory(g, []string{"file"}, "direct", caps[0], 0, names, joinOps(ops))
	}
}

// genMany: ONE delivery that must displace MANY older messages on the memory store with a size limit:
// 64 resident messages of 60 bytes (3840 of 4096 bytes), then a large message that still fits and
// needs k = 1, 10, 32, 33, 60 or all 64 of them evicted; afterwards listings and a visit (the bytes
// kept must be within the limit and exactly the longest fitting suffix of the arrival order), then
// more of the same.
func genMany(g *vh.Gen) {
	ks := []int{1, 10, 32, 33, 60, 64}
	for i := 0; i < g.N(12, 400); i++ {
		names := []string{"many-a", "many-b"}
		date := 1600004000
		var ops []string
		add := func(mb, size int) {
			date += 3
			ops = append(ops, "a"+vh.I(mb)+":"+vh.I(date)+":"+vh.I(size))
		}
		fillSmall := func(n int) {
			for j := 0; j < n; j++ {
				add(g.Intn(2), 60)
			}
		}
		fillSmall(64)
		k := ks[i%len(ks)]
		large := 4096
		if k < 64 {
			large = 256 + 60*k - 30
		}
		add(g.Intn(2), large)
		ops = append(ops, "l0", "l1", "v")
		// once more from whatever is left: top up with small ones, then another large one
		fillSmall(20 + g.Intn(30))
		ops = append(ops, "l0", "l1")
		add(g.Intn(2), 256+60*ks[g.Intn(len(ks)-1)])
		ops = append(ops, "l0", "l1", "v")
		sd.EmitHistory(g, []string{"mem"}, "direct", 0, 4, names, joinOps(ops))
	}
	// the same an order of magnitude up: limit 16 KiB, 256 resident messages of 60 bytes (15 360 bytes),
	// one delivery displacing 100, 129, 200 or all 256 of them
	for _, k := range []int{100, 129, 200, 256} {
		date := 1600006000
		var ops []string
		for j := 0; j < 256; j++ {
			date += 2
			ops = append(ops, "a"+vh.I(j%2)+":"+vh.I(date)+":60")
		}
		large := 16384
		if k < 256 {
			large = 1024 + 60*k - 30
		}
		ops = append(ops, "a0:"+vh.I(date+5)+":"+vh.I(large), "l0", "l1", "v")
		sd.EmitHistory(g, []string{"mem"}, "direct", 0, 16, []string{"many-a", "many-b"}, joinOps(ops))
	}
}

// genConfig: the CONFIGURATION as an operator can write it, through the real constructors
// (storage.FromConfig with the registry of cmd/inbucket): maxkb present as 0 / empty / negative /
// non-numeric / huge instead of absent, a negative cap, a trailing slash on the file store's path, an
// unknown parameter. "No limit" spellings must behave as no limit: every delivery retrievable.
func genConfig(g *vh.Gen) {
	for _, k := range []int{1, 2, 3, 4, 5, 6, 7} {
		for rep := 0; rep < g.N(3, 60); rep++ {
			names := sd.Names(g)
			if len(names) > 3 {
				names = names[:3]
			}
			capN := 0
			if k != 6 && g.Chance(0.4) {
				capN = 1 + g.Intn(3)
			}
			p := sd.Profile{MinOps: 6, MaxOps: 24, Sizes: []int{150, 600, 1100, 3000}, PAdd: 0.6}
			ops := sd.Ops(g, len(names), p)
			backends := []string{"mem"}
			if k >= 6 {
				backends = []string{"mem", "file"}
			}
			sd.EmitHistory(g, backends, "direct@cfg"+vh.I(k), capN, 0, names, ops)
		}
	}
}

// genReopenMany: the cap lowered so that MANY messages must go at the next delivery, spread over orders
// of magnitude (1, 9, 20, 21, 50, 200, 600): the mailbox is filled without a cap (written straight into
// the index, sd/wrap.go — reaching it through AddMessage is the same state), the store re-opened with a
// small cap, then three deliveries, the mailbox listed after EACH of them (exactly the newest cap).
func genReopenMany(g *vh.Gen) {
	excess := []int{1, 9, 20, 21, 50, 200, 600}
	if g.Tier == "thorough" {
		excess = append(excess, 2, 19, 22, 33, 64, 100, 128, 1000, 2000)
	}
	for _, e := range excess {
		c := 2 + g.Intn(3)
		n := e + c - 1
		date := 1600005000
		var ops []string
		for i := 0; i < n; i++ {
			date++
			ops = append(ops, "a0:"+vh.I(date)+":"+vh.I(100+10*(i%5)))
		}
		ops = append(ops, "o"+vh.I(c), "l0")
		for k := 0; k < 3; k++ {
			date += 5
			ops = append(ops, "a0:"+vh.I(date)+":200", "l0", "g0:l", "g0:k"+vh.I(n+k))
		}
		ops = append(ops, "a1:"+vh.I(date+9)+":150", "v")
		sd.EmitHistory(g, []string{"file"}, "direct@wrap"+vh.I(n), 0, 0, []string{"many-reopen", "other"}, joinOps(ops))
	}
}

// genBurst: the size limit with a BURST of removals right before a delivery that fits only if all of them were
// accounted for: mailbox 0 is filled with k small messages (k from 2 to 200), mailbox 1 with a few larger ones, up to
// just under the limit; then mailbox 0 is purged (or its messages removed one by one) and at once a message is
// delivered to mailbox 1 that is as large as what was freed. Nothing may be evicted for it. Whatever the store keeps
// per removal on the side (a queue, a counter, a notice to another goroutine) has to be settled before the next
// delivery is weighed.
func genBurst(g *vh.Gen) {
	gb := g.Side("c08-burst")
	for i := 0; i < g.N(40, 1500); i++ {
		maxkb := []int{4, 16, 64, 8}[i%4]
		limit := maxkb * 1024
		k := []int{2, 3, 5, 9, 17, 40, 100, 200}[gb.Intn(8)]
		small := 130 + gb.Intn(40)
		for k*small > limit*3/4 {
			k /= 2
		}
		names := []string{"burst", "other", "third"}
		date := 1600000000
		var ops []string
		add := func(mb, size int) {
			date += 1 + gb.Intn(50)
			ops = append(ops, "a"+vh.I(mb)+":"+vh.I(date)+":"+vh.I(size))
		}
		rest := limit - k*small
		nbig := 1 + gb.Intn(3)
		big := (rest - 200) / nbig
		if big < 130 {
			big, nbig = 130, 1
		}
		// the store's oldest messages live in mailbox 1 (so a wrong eviction takes one of THEM)
		for j := 0; j < nbig; j++ {
			add(1, big)
		}
		for j := 0; j < k; j++ {
			add(0, small)
		}
		ops = append(ops, "l1")
		if gb.Chance(0.6) {
			ops = append(ops, "p0")
		} else {
			for j := 0; j < k; j++ {
				ops = append(ops, "r0:k"+vh.I(j))
			}
		}
		freed := k * small
		add(gb.Intn(2)+1, freed-gb.Intn(60)) // fits exactly because the burst freed it
		ops = append(ops, "l1", "l2", "l0", "v")
		if gb.Chance(0.5) {
			add(1, small)
			ops = append(ops, "l1", "v")
		}
		sd.EmitHistory(gb, []string{"mem"}, "direct", 0, maxkb, names, joinOps(ops))
	}
	// the same inside ONE delivery: cap and size limit together, the store's oldest messages in mailbox 1, mailbox 0 at
	// its cap and the store just under the limit; a delivery to mailbox 0 no larger than the message its cap evicts
	// needs no size eviction at all - the bytes the cap eviction freed count before the new message is weighed
	for i := 0; i < g.N(30, 600); i++ {
		capN := 1 + gb.Intn(4)
		maxkb := []int{4, 16, 2, 8}[i%4]
		limit := maxkb * 1024
		names := []string{"capped", "elder", "third"}
		date := 1600000000
		var ops []string
		add := func(mb, size int) {
			date += 1 + gb.Intn(50)
			ops = append(ops, "a"+vh.I(mb)+":"+vh.I(date)+":"+vh.I(size))
		}
		nold := 1 + gb.Intn(3)
		per := limit / (nold + capN + 1)
		if per < 140 {
			per = 140
		}
		for j := 0; j < nold; j++ {
			add(1, per)
		}
		for j := 0; j < capN; j++ {
			add(0, per)
		}
		// fill what is left (but never over the limit) in the third mailbox
		if left := limit - (nold+capN)*per - 20; left > 140 {
			add(2, left)
		}
		ops = append(ops, "l1", "l0")
		// many such deliveries in a row (each evicts the oldest of mailbox 0 by the cap and is exactly as large; nothing
		// else may ever go): whether the freed bytes are seen in time may depend on scheduling, so one trial proves little
		for r := 0; r < 250+gb.Intn(100); r++ {
			add(0, per)
			if r%64 == 63 {
				ops = append(ops, "l1")
			}
		}
		ops = append(ops, "l1", "l0", "l2", "v")
		sd.EmitHistory(gb, []string{"mem"}, "direct", capN, maxkb, names, joinOps(ops))
	}
}

func genAll(g *vh.Gen) {
	genReopenMany(g)
	genConfig(g)
	genMany(g)
	gen(g)
	genBoth(g)
	genWrap(g)
	genReopen(g)
	genBurst(g)
}

func main() { vh.Main(genAll, sd.Exec) }

// Driver for C08 (cap and size limit evict oldest-first, accounting never drifts): histories of
// deliveries of varying sizes interleaved with removals and purges under every combination
// of mailbox cap and store size limit; after every operation the listing is observed through
// the next operations and every add is followed by a GetMessage of the id just returned.
// See package sd (shared with C07 and C16).
package main

import (
	"verifharness/cmd/c07/sd"
	"verifharness/vh"
)

func gen(g *vh.Gen) {
	caps := []int{0, 1, 2, 5}
	maxs := []int{0, 1, 4}
	for i := 0; i < g.N(500, 20000); i++ {
		capN := caps[g.Intn(len(caps))]
		maxkb := maxs[g.Intn(len(maxs))]
		names := sd.Names(g)
		if len(names) > 3 {
			names = names[:3]
		}
		p := sd.Profile{MinOps: 6, MaxOps: 50, Sizes: []int{150, 300, 600, 900, 1024, 1100, 2048, 3000}, PAdd: 0.55, Oversize: 5000}
		if maxkb == 1 {
			p.Sizes = []int{150, 300, 400, 600, 900, 1024, 1025}
			p.Oversize = 1500
		}
		ops := sd.Ops(g, len(names), p)
		backends := []string{"mem", "file"}
		if maxkb > 0 {
			backends = []string{"mem"} // the size limit exists in the memory store only
		}
		sd.EmitHistory(g, backends, "direct", capN, maxkb, names, ops)
	}
}

func main() { vh.Main(gen, sd.Exec) }

package main

import (
	"fmt"
	"strconv"
	"strings"

	"github.com/inbucket/inbucket/v3/pkg/stringutil"
	"verifharness/vh"
)

// geo renders mailbox -> (level-1 key = lock bucket, level-2 key) from the real hashes.
func geo() string {
	var ent []string
	for mb := 1; mb <= 4; mb++ {
		h := stringutil.HashMailboxName(mbNames[mb])
		k1, _ := strconv.ParseInt(h[0:3], 16, 64)
		k2, _ := strconv.ParseInt(h[0:6], 16, 64)
		ent = append(ent, fmt.Sprintf("%d:%d:%d", mb, k1, k2))
	}
	return strings.Join(ent, ",")
}

type pre struct {
	s    string
	tags map[int][]int // mailbox -> tags
}

func genOps(g *vh.Gen, n int, mbs []int, sizes []int, p pre) string {
	ops := make([]string, n)
	// tags of concurrent deliveries are the thread number + 1
	kinds := make([]byte, n)
	boxes := make([]int, n)
	for i := range ops {
		kinds[i] = "aaaagtlsrrppv"[g.Intn(13)]
		boxes[i] = mbs[g.Intn(len(mbs))]
		if g.Chance(0.6) {
			boxes[i] = mbs[0]
		}
	}
	target := func(i int) string {
		var cands []string
		for _, t := range p.tags[boxes[i]] {
			cands = append(cands, strconv.Itoa(t))
		}
		for j := range ops {
			if j != i && kinds[j] == 'a' && boxes[j] == boxes[i] {
				cands = append(cands, strconv.Itoa(j+1), strconv.Itoa(j+1))
			}
		}
		if len(cands) == 0 || g.Chance(0.08) {
			return "x"
		}
		return cands[g.Intn(len(cands))]
	}
	for i := range ops {
		switch kinds[i] {
		case 'a':
			ops[i] = fmt.Sprintf("a:%d:%d:%d", boxes[i], i+1, sizes[g.Intn(len(sizes))])
		case 'g', 's', 'r':
			ops[i] = fmt.Sprintf("%c:%d:%s", kinds[i], boxes[i], target(i))
		case 'v':
			ops[i] = "v"
		default:
			ops[i] = fmt.Sprintf("%c:%d", kinds[i], boxes[i])
		}
	}
	return strings.Join(ops, ",")
}

// gen prints COMBO lines (cases without schedule); the model runner's enum mode adds the schedules.
func gen(g *vh.Gen) {
	if g.Tier == "stress" {
		for i := 0; i < 24; i++ {
			store := []string{"mem", "file"}[i%2]
			capv, maxkb := 0, 0
			switch i % 6 {
			case 2:
				capv = 3
			case 4:
				maxkb = 2
			}
			if store == "file" {
				maxkb = 0
			}
			g.Emit("stress", store, strconv.Itoa(capv), strconv.Itoa(maxkb), strconv.Itoa(g.Intn(1000000)), "8", "150")
		}
		return
	}
	memPre := func(sz int) []pre {
		s := strconv.Itoa(sz)
		return []pre{
			{"-", map[int][]int{}},
			{"a:1:90:" + s, map[int][]int{1: {90}}},
			{"a:1:90:" + s + ",a:1:91:" + s, map[int][]int{1: {90, 91}}},
			{"a:1:90:" + s + ",a:2:91:" + s, map[int][]int{1: {90}, 2: {91}}},
			{"a:1:90:" + s + ",s:1:90,a:2:91:" + s + ",a:1:92:" + s, map[int][]int{1: {90, 92}, 2: {91}}},
		}
	}
	for i := 0; i < g.N(6, 20); i++ {
		g.Emit("burst", []string{"file", "mem"}[i%2], strconv.Itoa(g.Intn(1000000)), strconv.Itoa(g.N(250, 1500)))
	}
	// free-running stress on one lock bucket, judged by the history checks of runStress and (burst) by the
	// linearizability oracle; no -race needed (3-5 s in the quick tier)
	for i := 0; i < g.N(8, 16); i++ {
		store := []string{"file", "mem"}[i%2]
		g.Emit("stress", store, "0", "0", strconv.Itoa(g.Intn(1000000)), "4", strconv.Itoa(g.N(300, 800)))
	}
	// the retention scanner as a concurrent party: deliveries fall between its snapshot and its removals
	for _, store := range []string{"mem", "file"} {
		for p := 0; p <= g.N(7, 14); p++ {
			g.Emit("scan", store, "1:90:e,1:91:e,2:92:f", "1:1", strconv.Itoa(p))
		}
		for p := 0; p <= g.N(5, 12); p++ {
			g.Emit("scan", store, "1:90:e,2:91:e,4:92:e", "2:1,1:2", strconv.Itoa(p))
		}
		g.Emit("scan", store, "1:90:e,1:91:f,2:92:e", "1:1,2:2", strconv.Itoa(g.Intn(10)))
	}
	// fault family: the index of mailbox 1 can no longer be rewritten (file store, with and without cap)
	g.Emit("fault", "2", "2", "a:1:1:10,l:1,l:2,a:2:2:10")
	g.Emit("fault", "3", "3", "a:1:1:10,a:2:2:10,l:2,v")
	g.Emit("fault", "2", "2", "a:1:1:10,l:1,l:2,a:2:2:10,s:1:90,r:1:90,g:1:91,t:1,v,a:4:3:10,p:1,a:1:4:10,l:1")
	g.Emit("fault", "0", "2", "a:1:1:10,s:1:90,r:1:90,r:1:91,a:1:2:10,l:1")
	for i := 0; i < g.N(8, 60); i++ {
		capv := []int{0, 2, 3, 4}[g.Intn(4)]
		fill := 1 + g.Intn(3)
		if capv > 0 && g.Chance(0.6) {
			fill = capv
		}
		if capv > 0 && fill > capv {
			fill = capv
		}
		n := 3 + g.Intn(5)
		var ops []string
		for j := 0; j < n; j++ {
			mb := []int{1, 1, 1, 2, 2, 4}[g.Intn(6)]
			tgt := "x"
			switch mb {
			case 1:
				tgt = strconv.Itoa(90 + g.Intn(fill))
			case 2:
				tgt = "80"
			case 4:
				tgt = "81"
			}
			switch k := g.Intn(14); {
			case k < 5:
				ops = append(ops, fmt.Sprintf("a:%d:%d:10", mb, j+1))
			case k < 7:
				ops = append(ops, fmt.Sprintf("l:%d", mb))
			case k < 9:
				ops = append(ops, fmt.Sprintf("s:%d:%s", mb, tgt))
			case k < 11:
				ops = append(ops, fmt.Sprintf("r:%d:%s", mb, tgt))
			case k < 12:
				ops = append(ops, fmt.Sprintf("g:%d:%s", mb, tgt))
			case k < 13:
				ops = append(ops, "v")
			default:
				ops = append(ops, fmt.Sprintf("p:%d", mb))
			}
		}
		g.Emit("fault", strconv.Itoa(capv), strconv.Itoa(fill), strings.Join(ops, ","))
	}
	// scenarios that are always present
	g.Emit("mem", "0", "1", "-", "a:1:1:100,r:1:1")
	g.Emit("mem", "0", "1", "-", "a:1:1:100,p:1")
	g.Emit("mem", "0", "1", "a:1:90:400", "a:1:1:400,p:1")
	g.Emit("mem", "1", "1", "a:1:90:400", "a:1:1:400,a:1:2:400")
	// cap and size limit together: a delivery overflowing mailbox 1's cap while the enforcer evicts (for size, on
	// behalf of a delivery elsewhere) the oldest message, which lives in mailbox 1 too
	g.Emit("mem", "2", "1", "a:1:90:400,a:1:91:400", "a:1:1:400,a:2:2:600")
	g.Emit("mem", "1", "1", "a:1:90:600", "a:1:1:100,a:2:2:600")
	// the first ever delivery to a mailbox (its entry only just created, or created earlier by a mere lookup)
	// against a walk over all mailboxes
	g.Emit("mem", "0", "0", "-", "a:1:1:10,v")
	g.Emit("mem", "0", "0", "-", "a:1:1:10,v,l:1")
	g.Emit("mem", "1", "0", "g:2:x", "a:2:1:10,v,g:2:x")
	g.Emit("mem", "0", "0", "a:1:90:10", "a:1:1:10,r:1:1,l:1")
	g.Emit("mem", "1", "0", "a:1:90:10", "a:1:1:10,a:1:2:10,v")
	// two removals of the SAME message overlapping (in any order exactly one succeeds), a removal against a purge and
	// against the cap eviction of that message; with the size limit: the enforcer must not subtract a size twice —
	// a later delivery that makes the store exceed the limit has to evict
	g.Emit("mem", "0", "0", "a:1:90:10", "r:1:90,r:1:90")
	g.Emit("mem", "0", "0", "a:1:90:10,a:1:91:10", "r:1:90,r:1:90,l:1")
	g.Emit("mem", "0", "0", "a:1:90:10", "r:1:90,p:1")
	g.Emit("mem", "1", "0", "a:1:90:10", "r:1:90,a:1:1:10")
	g.Emit("mem", "0", "1", "a:1:90:400", "r:1:90,r:1:90")
	g.Emit("mem", "0", "1", "a:1:90:400,a:2:91:400", "r:1:90,r:1:90,a:2:1:700")
	g.Emit("mem", "0", "1", "a:1:90:400", "r:1:90,p:1")
	g.Emit("file", geo(), "a:1:90:10", "r:1:90,r:1:90")
	g.Emit("file", geo(), "a:1:90:10", "p:1,v")
	g.Emit("file", geo(), "a:1:90:10,a:4:91:10", "r:1:90,v,a:4:1:10")
	g.Emit("file", geo(), "a:1:90:10,a:3:91:10", "p:1,v,p:3")
	g.Emit("file", geo(), "a:1:90:10,a:2:91:10", "p:1,v,a:2:3:10")
	nmem := g.N(34, 900)
	for i := 0; i < nmem; i++ {
		capv := []int{0, 0, 1, 2}[g.Intn(4)]
		maxkb := 0
		sizes := []int{10}
		psz := 10
		if g.Chance(0.45) {
			maxkb = 1
			sizes = []int{100, 400, 600, 2000}
			psz = 400
		}
		ps := memPre(psz)
		p := ps[g.Intn(len(ps))]
		n := 2
		if g.Chance(0.4) {
			n = 3
		}
		g.Emit("mem", strconv.Itoa(capv), strconv.Itoa(maxkb), p.s, genOps(g, n, []int{1, 2}, sizes, p))
	}
	filePre := []pre{
		{"-", map[int][]int{}},
		{"a:1:90:10", map[int][]int{1: {90}}},
		{"a:1:90:10,a:1:91:10", map[int][]int{1: {90, 91}}},
		{"a:1:90:10,a:3:91:10", map[int][]int{1: {90}, 3: {91}}},
		{"a:1:90:10,a:2:91:10", map[int][]int{1: {90}, 2: {91}}},
		{"a:1:90:10,a:4:91:10,s:1:90", map[int][]int{1: {90}, 4: {91}}},
	}
	nfile := g.N(26, 700)
	for i := 0; i < nfile; i++ {
		p := filePre[g.Intn(len(filePre))]
		n := 2
		if g.Chance(0.4) {
			n = 3
		}
		mbs := [][]int{{1, 4}, {1, 2}, {1, 3}, {1, 2, 3, 4}}[g.Intn(4)]
		g.Emit("file", geo(), p.s, genOps(g, n, mbs, []int{10}, p))
	}
}

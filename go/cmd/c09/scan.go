package main

import (
	"context"
	"fmt"
	"strings"
	"sync"
	"time"

	"github.com/inbucket/inbucket/v3/pkg/config"
	"github.com/inbucket/inbucket/v3/pkg/storage"
	"github.com/inbucket/inbucket/v3/pkg/verifhook"
)

// runScan: the real retention scanner (storage.RetentionScanner.DoScan over the store under test, retention
// period 1 h) as one of two concurrent parties. The store first receives the prefix (mb:tag:e = expired, 48 h
// old; mb:tag:f = fresh). Then the scanner goroutine is released for <p> scheduling points (every
// verifhook.Point site of the store parks it: before each mailbox lock / directory read / index commit), then
// the deliveries (fresh messages) run to completion one after the other, then the scanner runs to its end.
// So a delivery can fall between the store handing a snapshot to the scanner and the scanner's removals.
//
//	scan <store> <prefix> <adds mb:tag,...> <p>   =>   <status> <adds' results> <final listing 1;2;4>
func runScan(in []string) []string {
	kind, prefixS, addsS, p := in[0], in[1], in[2], atoi(in[3])
	c := &ctl{kind: kind, free: true, gids: map[int64]int{}, parties: map[int]*party{}, lastArg: map[int]string{}, addID: map[int]string{}}
	c.cond = sync.NewCond(&c.mu)
	verifhook.Set(c.handler)
	defer verifhook.Set(nil)
	e, err := newEnv(kind, 0, 0)
	if err != nil {
		return []string{"HARNESS-ERROR"}
	}
	defer e.close()
	now := time.Now()
	add := func(spec string, fresh bool) string {
		f := strings.Split(spec, ":")
		d := delivery(mbNames[atoi(f[0])], atoi(f[1]), 10)
		if fresh {
			d.Meta.Date = now
		} else {
			d.Meta.Date = now.Add(-48 * time.Hour)
		}
		if _, err := e.store.AddMessage(d); err != nil {
			return "err"
		}
		return "id"
	}
	if prefixS != "-" {
		for _, s := range strings.Split(prefixS, ",") {
			if add(s, strings.HasSuffix(s, ":f")) != "id" {
				return []string{"HARNESS-ERROR-prefix"}
			}
		}
	}
	rs := storage.NewRetentionScanner(config.Storage{RetentionPeriod: time.Hour, RetentionSleep: 0}, e.store)
	c.mu.Lock()
	c.free = false
	c.parties[0] = &party{state: stNew}
	c.parties[1] = &party{state: stNew}
	c.mu.Unlock()
	wait := 4 * baseWait
	startS, startD := make(chan struct{}), make(chan struct{})
	scanErr := ""
	var addRes []string
	go func() {
		<-startS
		c.mu.Lock()
		c.gids[goid()] = 0
		c.mu.Unlock()
		if err := rs.DoScan(context.Background()); err != nil {
			scanErr = "err"
		}
		c.mu.Lock()
		c.parties[0].state = stFinished
		c.cond.Broadcast()
		c.mu.Unlock()
	}()
	go func() {
		<-startD
		c.mu.Lock()
		c.gids[goid()] = 1
		c.mu.Unlock()
		if addsS != "-" {
			for _, s := range strings.Split(addsS, ",") {
				addRes = append(addRes, add(s, true))
			}
		}
		c.mu.Lock()
		c.parties[1].state = stFinished
		c.cond.Broadcast()
		c.mu.Unlock()
	}()
	// one scheduling step of a party; false = it made no progress (blocked)
	stepOf := func(q int, start chan struct{}) bool {
		c.mu.Lock()
		pt := c.parties[q]
		switch pt.state {
		case stFinished:
			c.mu.Unlock()
			return true
		case stNew:
			pt.state = stRunning
			close(start)
		case stParked:
			pt.state = stRunning
			close(pt.release)
		}
		c.mu.Unlock()
		return c.waitUntil(wait, func() bool { return c.parties[q].state != stRunning })
	}
	finished := func(q int) bool { c.mu.Lock(); defer c.mu.Unlock(); return c.parties[q].state == stFinished }
	status := "fin"
	for i := 0; i < p && !finished(0); i++ {
		if !stepOf(0, startS) {
			status = "blocked"
			break
		}
	}
	for guard := 0; status == "fin" && !finished(1) && guard < 200; guard++ {
		if !stepOf(1, startD) {
			// the delivery waits for a lock the parked scanner holds: let the scanner move once
			if !stepOf(0, startS) {
				status = "deadlock"
			}
		}
	}
	for guard := 0; status == "fin" && !finished(0) && guard < 2000; guard++ {
		if !stepOf(0, startS) {
			status = "deadlock"
		}
	}
	// whatever is left runs freely
	c.mu.Lock()
	c.free = true
	for _, pt := range c.parties {
		if pt.state == stParked {
			pt.state = stRunning
			close(pt.release)
		}
	}
	c.mu.Unlock()
	if !c.waitUntil(100*wait, func() bool { return c.parties[0].state == stFinished && (c.parties[1].state == stFinished || c.parties[1].state == stNew) }) {
		status = "deadlock"
	}
	if scanErr != "" {
		status = "scan-" + scanErr
	}
	var fin []string
	for _, mb := range []int{1, 2, 4} {
		ms, err := e.store.GetMessages(mbNames[mb])
		v := "ERR"
		if err == nil {
			v = viewOf(ms)
		}
		fin = append(fin, fmt.Sprintf("%d=%s", mb, v))
	}
	res := strings.Join(addRes, ",")
	if res == "" {
		res = "-"
	}
	return []string{status, res, strings.Join(fin, ";")}
}

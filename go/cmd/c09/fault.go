package main

import (
	"fmt"
	"os"
	"path/filepath"
	"strings"
	"time"

	"github.com/inbucket/inbucket/v3/pkg/storage"
	"github.com/inbucket/inbucket/v3/pkg/stringutil"
)

// runFault: the file store after a persistent failure of the index rewrite of mailbox 1 (a directory is
// planted at <mailbox 1 dir>/index.gob.tmp, which makes os.Create fail for every uid; stands for a full disk,
// a read-only remount, a lost permission). Mailbox 1 holds <fill> messages (tags 90..), its bucket neighbour
// mailbox 2 one message (tag 80), mailbox 4 (another bucket) one message (tag 81). Then the operations run one
// after the other, each in its own goroutine under a deadline: every operation must RETURN (with an error or
// not); the observation of an operation that does not is "hang".
//
//	fault <cap> <fill> <ops>   =>   <r0> .. <rn-1> <final listing of 1;2;4>
func runFault(in []string) []string {
	capv, fill := atoi(in[0]), atoi(in[1])
	ops := parseOps(in[2])
	e, err := newEnv("file", capv, 0)
	if err != nil {
		return []string{"HARNESS-ERROR"}
	}
	defer e.close()
	limit := 1500 * time.Millisecond
	seq := func(o symop) string {
		id, _ := e.resolve(o)
		return e.runOp(o, id, func(ms []storage.Message) int { return 0 })
	}
	pre := []symop{{k: 'a', mb: 2, tag: 80, size: 10}, {k: 'a', mb: 4, tag: 81, size: 10}}
	for i := 0; i < fill; i++ {
		pre = append(pre, symop{k: 'a', mb: 1, tag: 90 + i, size: 10})
	}
	for _, o := range pre {
		if r := seq(o); r != "id" {
			return []string{"HARNESS-ERROR-" + r}
		}
	}
	// the fault
	h := stringutil.HashMailboxName(mbNames[1])
	mbdir := filepath.Join(e.dir, "mail", h[0:3], h[0:6], h)
	if fill > 0 {
		if err := os.Mkdir(filepath.Join(mbdir, "index.gob.tmp"), 0770); err != nil {
			return []string{"HARNESS-ERROR-plant"}
		}
	}
	visitMB := func(ms []storage.Message) int {
		if len(ms) == 0 {
			return 0
		}
		for k, n := range mbNames {
			if n == ms[0].Mailbox() {
				return k
			}
		}
		return 0
	}
	withDeadline := func(f func() string) string {
		c := make(chan string, 1)
		go func() { c <- f() }()
		select {
		case r := <-c:
			return r
		case <-time.After(limit):
			limit = 500 * time.Millisecond // once something hangs, the rest is only probed
			return "hang"
		}
	}
	var out []string
	for _, o := range ops {
		o := o
		out = append(out, withDeadline(func() string {
			id, _ := e.resolve(o)
			return e.runOp(o, id, visitMB)
		}))
	}
	var fin []string
	for _, mb := range []int{1, 2, 4} {
		mb := mb
		fin = append(fin, fmt.Sprintf("%d=%s", mb, withDeadline(func() string {
			ms, err := e.store.GetMessages(mbNames[mb])
			if err != nil {
				return "ERR"
			}
			return viewOf(ms)
		})))
	}
	return append(out, strings.Join(fin, ";"))
}

// Driver for C09 (stores under concurrent use).
//
//	mem  <cap> <maxkb> <prefix> <ops> <sched>   forced schedule on the real memory store
//	file <geo>         <prefix> <ops> <sched>   forced schedule on the real file store
//	stress <store> <cap> <maxkb> <seed> <workers> <opsPerWorker>   free-running history (thorough tier)
//
// ops: a:mb:tag:size g:mb:tgt t:mb l:mb s:mb:tgt r:mb:tgt p:mb v  (tgt = tag of the delivery that
// created the message, or x = an id no store issues).  sched: one character per step, 0..9 = client
// goroutine, e = the size enforcer goroutine; a trailing '!' says the model expects the last pick to
// block.  The controller keeps every goroutine parked at a verifhook.Point and releases one at a time.
//
// Each case runs in a worker subprocess (a crash of the code under test kills the process).
package main

import (
	"bufio"
	"fmt"
	"io"
	"os"
	"os/exec"
	"strconv"
	"strings"
	"time"

	"github.com/rs/zerolog"
	"verifharness/vh"
)

// The four mailboxes of every case: 1 and 2 share the lock bucket / level-1 directory, 1 and 3 also
// share the level-2 directory, 4 is elsewhere (names found by search, checked in geo()).
var mbNames = map[int]string{1: "box1", 2: "c107", 3: "c1624220", 4: "box4"}

type worker struct {
	cmd *exec.Cmd
	in  io.WriteCloser
	out *bufio.Reader
}

var cur *worker

func startWorker() *worker {
	cmd := exec.Command(os.Args[0], "worker")
	cmd.Env = append(os.Environ(), "GORACE=halt_on_error=1")
	in, _ := cmd.StdinPipe()
	out, _ := cmd.StdoutPipe()
	errf, _ := os.OpenFile(os.Getenv("VERIF_WORKDIR")+"/worker.stderr", os.O_CREATE|os.O_WRONLY|os.O_APPEND, 0644)
	if errf != nil {
		cmd.Stderr = errf
	}
	if err := cmd.Start(); err != nil {
		panic(err)
	}
	return &worker{cmd: cmd, in: in, out: bufio.NewReaderSize(out, 1<<20)}
}

// execCase forwards one case to the worker; a dead worker is the observation "crash".
func execCase(kind string, in []string) []string {
	if cur == nil {
		cur = startWorker()
	}
	line := kind + " " + strings.Join(in, " ") + "\n"
	_, werr := io.WriteString(cur.in, line)
	type rd struct {
		s   string
		err error
	}
	w := cur
	ch := make(chan rd, 1)
	go func() { s, err := w.out.ReadString('\n'); ch <- rd{s, err} }()
	var resp string
	var rerr error
	select {
	case r := <-ch:
		resp, rerr = r.s, r.err
	case <-time.After(caseDeadline(kind)):
		// the worker does not answer (a goroutine of the code under test spins or everything is blocked)
		_ = cur.cmd.Process.Kill()
		_ = cur.cmd.Wait()
		cur = nil
		return []string{"no-answer"}
	}
	if werr != nil || rerr != nil {
		_ = cur.in.Close()
		_ = cur.cmd.Wait()
		cur = nil
		return []string{"crash"}
	}
	outs := strings.Split(strings.TrimRight(resp, "\n"), " ")
	if kind == "fault" {
		for _, o := range outs {
			if strings.Contains(o, "hang") {
				// an operation never returned: its goroutine may be spinning; do not reuse this process
				_ = cur.cmd.Process.Kill()
				_ = cur.cmd.Wait()
				cur = nil
				break
			}
		}
	}
	return outs
}

func caseDeadline(kind string) time.Duration {
	switch kind {
	case "stress", "burst":
		return 10 * time.Minute
	case "fault":
		return 60 * time.Second
	}
	return 3 * time.Minute
}

func workerMain() {
	zerolog.SetGlobalLevel(zerolog.Disabled)
	sc := bufio.NewScanner(os.Stdin)
	sc.Buffer(make([]byte, 1<<20), 1<<26)
	w := bufio.NewWriter(os.Stdout)
	for sc.Scan() {
		parts := strings.Split(sc.Text(), " ")
		var outs []string
		switch parts[0] {
		case "mem", "file":
			outs = runForcedRobust(parts[0], parts[1:])
		case "stress":
			outs = runStress(parts[1:])
		case "burst":
			outs = runBurst(parts[1:])
		case "fault":
			outs = runFault(parts[1:])
		case "scan":
			outs = runScan(parts[1:])
		default:
			outs = []string{"UNKNOWN-KIND"}
		}
		w.WriteString(strings.Join(outs, " "))
		w.WriteByte('\n')
		w.Flush()
	}
}

func atoi(s string) int {
	i, err := strconv.Atoi(s)
	if err != nil {
		panic("bad int " + s)
	}
	return i
}

func main() {
	if len(os.Args) > 1 && os.Args[1] == "worker" {
		workerMain()
		return
	}
	vh.Main(gen, execCase)
}

var _ = fmt.Sprint

package main

import (
	"fmt"
	"math/rand"
	"sort"
	"strconv"
	"strings"
	"sync"
	"time"

	"github.com/inbucket/inbucket/v3/pkg/storage"
)

// runBurst: free-running mini-histories for the linearizability oracle. Each round releases three
// goroutines at once, each performing ONE operation on mailboxes 1/2 (one lock bucket); start and end
// instants are recorded, then the mailboxes are listed. One output token per round:
//
//	<init listing>|<ops>|<flags>|<intervals as ranks>|<r0>,<r1>,<r2>|<final listing>
//
//	burst <store> <seed> <rounds>
func runBurst(in []string) []string {
	kind, seed, rounds := in[0], atoi(in[1]), atoi(in[2])
	e, err := newEnv(kind, 0, 0)
	if err != nil {
		return []string{"harness-error"}
	}
	defer e.close()
	r := rand.New(rand.NewSource(int64(seed)))
	listing := func() (string, map[int][]storage.Message) {
		var ent []string
		cur := map[int][]storage.Message{}
		for mb := 1; mb <= 2; mb++ {
			ms, err := e.store.GetMessages(mbNames[mb])
			v := "ERR"
			if err == nil {
				v = viewOf(ms)
				cur[mb] = ms
			}
			ent = append(ent, fmt.Sprintf("%d=%s", mb, v))
		}
		return strings.Join(ent, ";"), cur
	}
	nextTag := 1
	var out []string
	init, cur := listing()
	for round := 0; round < rounds; round++ {
		// keep the mailboxes small
		for mb := 1; mb <= 2; mb++ {
			if len(cur[mb]) > 4 {
				_ = e.store.PurgeMessages(mbNames[mb])
				init, cur = listing()
			}
		}
		ops := make([]symop, 3)
		ids := make([]string, 3)
		flags := make([]byte, 3)
		var opS []string
		for i := range ops {
			mb := 1 + r.Intn(2)
			if r.Intn(3) > 0 {
				mb = 1
			}
			o := symop{mb: mb, tag: -1}
			switch k := r.Intn(20); {
			case k < 6:
				o.k, o.tag, o.size = 'a', nextTag, 10
				nextTag++
			case k < 10:
				o.k = 's'
			case k < 14:
				o.k = 'r'
			case k < 15:
				o.k = 'p'
			case k < 17:
				o.k = 'l'
			case k < 18:
				o.k = 'g'
			case k < 19:
				o.k = 't'
			default:
				o.k = 'v'
			}
			flags[i] = '-'
			if hasTarget(o) {
				if ms := cur[mb]; len(ms) > 0 && r.Intn(8) > 0 {
					m := ms[r.Intn(len(ms))]
					o.tag = atoi(tagOf(m))
					ids[i], flags[i] = m.ID(), 'r'
				} else {
					ids[i], flags[i] = bogusID, 'u'
				}
			}
			ops[i] = o
			switch o.k {
			case 'a':
				opS = append(opS, fmt.Sprintf("a:%d:%d:%d", o.mb, o.tag, o.size))
			case 'g', 's', 'r':
				t := "x"
				if flags[i] == 'r' {
					t = strconv.Itoa(o.tag)
				}
				opS = append(opS, fmt.Sprintf("%c:%d:%s", o.k, o.mb, t))
			case 'v':
				opS = append(opS, "v")
			default:
				opS = append(opS, fmt.Sprintf("%c:%d", o.k, o.mb))
			}
		}
		res := make([]string, 3)
		t0 := make([]time.Duration, 3)
		t1 := make([]time.Duration, 3)
		base := time.Now()
		gate := make(chan struct{})
		var wg sync.WaitGroup
		for i := range ops {
			wg.Add(1)
			go func(i int) {
				defer wg.Done()
				<-gate
				visitMB := func(ms []storage.Message) int {
					if len(ms) == 0 {
						return 0
					}
					for k, n := range mbNames {
						if n == ms[0].Mailbox() {
							return k
						}
					}
					return 0
				}
				t0[i] = time.Since(base)
				res[i] = e.runOp(ops[i], ids[i], visitMB)
				t1[i] = time.Since(base)
			}(i)
		}
		close(gate)
		wg.Wait()
		// a walk's empty mailboxes cannot be attributed (mem lists them): drop "0=" entries
		for i := range res {
			if ops[i].k == 'v' && strings.HasPrefix(res[i], "V") {
				var keep []string
				for _, ent := range strings.Split(res[i][1:], ";") {
					if ent != "" && !strings.HasPrefix(ent, "0=") {
						keep = append(keep, ent)
					}
				}
				res[i] = "V" + strings.Join(keep, ";")
			}
		}
		// ranks of the six instants
		type inst struct {
			t time.Duration
			i int
			e bool
		}
		var all []inst
		for i := range ops {
			all = append(all, inst{t0[i], i, false}, inst{t1[i], i, true})
		}
		sort.SliceStable(all, func(a, b int) bool { return all[a].t < all[b].t })
		rs, re := make([]int, 3), make([]int, 3)
		for k, x := range all {
			if x.e {
				re[x.i] = k
			} else {
				rs[x.i] = k
			}
		}
		var iv []string
		for i := range ops {
			iv = append(iv, fmt.Sprintf("%d-%d", rs[i], re[i]))
		}
		fin, ncur := listing()
		out = append(out, strings.Join([]string{init, strings.Join(opS, ","), string(flags), strings.Join(iv, ","), strings.Join(res, ","), fin}, "|"))
		init, cur = fin, ncur
	}
	return out
}

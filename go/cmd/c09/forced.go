package main

import (
	"bytes"
	"fmt"
	"io"
	"net/mail"
	"os"
	"runtime"
	"sort"
	"strconv"
	"strings"
	"sync"
	"time"

	"github.com/inbucket/inbucket/v3/pkg/config"
	"github.com/inbucket/inbucket/v3/pkg/extension"
	"github.com/inbucket/inbucket/v3/pkg/extension/event"
	"github.com/inbucket/inbucket/v3/pkg/message"
	"github.com/inbucket/inbucket/v3/pkg/storage"
	"github.com/inbucket/inbucket/v3/pkg/storage/file"
	"github.com/inbucket/inbucket/v3/pkg/storage/mem"
	"github.com/inbucket/inbucket/v3/pkg/stringutil"
	"github.com/inbucket/inbucket/v3/pkg/verifhook"
	"verifharness/vh"
)

const bogusID = "9999"

type symop struct {
	k    byte // a g t l s r p v
	mb   int
	tag  int // add: own tag; g/s/r: target tag (-1 = bogus)
	size int
}

func parseOps(s string) []symop {
	if s == "-" {
		return nil
	}
	var out []symop
	for _, f := range strings.Split(s, ",") {
		p := strings.Split(f, ":")
		o := symop{k: p[0][0], tag: -1}
		if len(p) > 1 {
			o.mb = atoi(p[1])
		}
		switch o.k {
		case 'a':
			o.tag, o.size = atoi(p[2]), atoi(p[3])
		case 'g', 's', 'r':
			if p[2] != "x" {
				o.tag = atoi(p[2])
			}
		}
		out = append(out, o)
	}
	return out
}

func hasTarget(o symop) bool { return o.k == 'g' || o.k == 's' || o.k == 'r' }

// ------------------------------------------------------------------ controller

const (
	stNew = iota
	stRunning
	stParked
	stFinished
	stIdle
)

const enfParty = -1

type party struct {
	state   int
	release chan struct{}
	site    string
}

type ctl struct {
	mu       sync.Mutex
	cond     *sync.Cond
	kind     string
	free     bool
	gids     map[int64]int
	parties  map[int]*party
	lastArg  map[int]string // last mailbox-identifying hook argument per party (for visit callbacks)
	addID    map[int]string // party -> id seen at mem.add.visible
	sends    int
	recvs    int
	progress int
}

func goid() int64 {
	var buf [64]byte
	n := runtime.Stack(buf[:], false)
	f := strings.Fields(string(buf[:n]))
	id, _ := strconv.ParseInt(f[1], 10, 64)
	return id
}

var fileParkSites = map[string]bool{
	"file.dir.mkdir": true, "file.index.rename": true, "file.index.remove": true, "file.dir.removeall": true,
	"file.dir.rmdir": true, "file.visit.l1": true, "file.visit.l2": true, "file.visit.l3": true, "file.visit.mbox": true,
}

func (c *ctl) handler(site, arg string) {
	g := goid()
	c.mu.Lock()
	p, ok := c.gids[g]
	if !ok {
		if c.kind == "mem" && strings.HasPrefix(site, "mem.") {
			p = enfParty
			c.gids[g] = p
		} else {
			c.mu.Unlock()
			return
		}
	}
	if site == "mem.wm.lock" || site == "file.visit.mbox" {
		c.lastArg[p] = arg
	}
	if site == "mem.add.visible" {
		c.addID[p] = arg
	}
	if c.free {
		c.mu.Unlock()
		return
	}
	pt := c.parties[p]
	if pt == nil {
		pt = &party{}
		c.parties[p] = pt
	}
	switch {
	case site == "mem.enf.idle":
		pt.state = stIdle
		c.progress++
		c.cond.Broadcast()
		c.mu.Unlock()
		return
	case strings.HasPrefix(site, "file.") && !fileParkSites[site]:
		c.mu.Unlock()
		return
	}
	if site == "mem.deliver.sent" || site == "mem.remove.sent" {
		c.sends++
	}
	if site == "mem.enf.incoming" || site == "mem.enf.remove" {
		c.recvs++
	}
	ch := make(chan struct{})
	pt.state, pt.release, pt.site = stParked, ch, site
	c.progress++
	c.cond.Broadcast()
	c.mu.Unlock()
	<-ch
}

// waitUntil waits for pred (called with the lock held) up to d; returns pred's final value.
func (c *ctl) waitUntil(d time.Duration, pred func() bool) bool {
	deadline := time.Now().Add(d)
	c.mu.Lock()
	defer c.mu.Unlock()
	for !pred() {
		left := time.Until(deadline)
		if left <= 0 {
			return false
		}
		t := time.AfterFunc(left, func() { c.mu.Lock(); c.cond.Broadcast(); c.mu.Unlock() })
		c.cond.Wait()
		t.Stop()
	}
	return true
}

// ------------------------------------------------------------------ store access

type env struct {
	kind   string
	store  storage.Store
	dir    string
	tagID  map[int]string // tag -> real id, grow-only
	tagMu  sync.Mutex
	issued map[int][]string // mailbox -> ids returned by AddMessage
	hashMB map[string]int
}

func newEnv(kind string, cap, maxkb int) (*env, error) {
	e := &env{kind: kind, tagID: map[int]string{}, issued: map[int][]string{}, hashMB: map[string]int{}}
	for i, n := range mbNames {
		e.hashMB[stringutil.HashMailboxName(n)] = i
	}
	host := extension.NewHost()
	var err error
	if kind == "mem" {
		params := map[string]string{}
		if maxkb > 0 {
			params["maxkb"] = strconv.Itoa(maxkb)
		}
		e.store, err = mem.New(config.Storage{MailboxMsgCap: cap, Params: params}, host)
	} else {
		e.dir, err = os.MkdirTemp(os.Getenv("VERIF_WORKDIR"), "c09fs")
		if err != nil {
			return nil, err
		}
		e.store, err = file.New(config.Storage{MailboxMsgCap: cap, Params: map[string]string{"path": e.dir}}, host)
	}
	return e, err
}

func (e *env) close() {
	if e.dir != "" {
		_ = os.RemoveAll(e.dir)
	}
}

func delivery(mb string, tag, size int) *message.Delivery {
	body := bytes.Repeat([]byte{'x'}, size)
	return &message.Delivery{
		Meta: event.MessageMetadata{
			Mailbox: mb,
			From:    &mail.Address{Address: "from@example.com"},
			To:      []*mail.Address{{Address: mb + "@example.com"}},
			Date:    time.Unix(1700000000, 0),
			Subject: "t" + strconv.Itoa(tag),
		},
		Reader: io.NopCloser(bytes.NewReader(body)),
	}
}

func tagOf(m storage.Message) string { return strings.TrimPrefix(m.Subject(), "t") }

func seenS(m storage.Message) string {
	if m.Seen() {
		return "1"
	}
	return "0"
}

func viewOf(ms []storage.Message) string {
	parts := make([]string, len(ms))
	for i, m := range ms {
		parts[i] = tagOf(m) + "." + seenS(m)
	}
	return strings.Join(parts, "+")
}

func errRes(err error) string {
	if err == storage.ErrNotExist {
		return "ne"
	}
	return "err"
}

// resolve returns the real id for a target and whether it was known.
func (e *env) resolve(o symop) (string, byte) {
	if !hasTarget(o) {
		return "", '-'
	}
	if o.tag < 0 {
		return bogusID, 'u'
	}
	e.tagMu.Lock()
	defer e.tagMu.Unlock()
	if id, ok := e.tagID[o.tag]; ok {
		return id, 'r'
	}
	return bogusID, 'u'
}

func (e *env) learn(tag int, id string) {
	e.tagMu.Lock()
	if _, ok := e.tagID[tag]; !ok {
		e.tagID[tag] = id
	}
	e.tagMu.Unlock()
}

// runOp executes one operation; visitMB tells which mailbox a visit callback belongs to.
func (e *env) runOp(o symop, id string, visitMB func(ms []storage.Message) int) string {
	name := mbNames[o.mb]
	switch o.k {
	case 'a':
		rid, err := e.store.AddMessage(delivery(name, o.tag, o.size))
		if err != nil {
			return "err"
		}
		e.learn(o.tag, rid)
		e.tagMu.Lock()
		e.issued[o.mb] = append(e.issued[o.mb], rid)
		e.tagMu.Unlock()
		return "id"
	case 'g':
		m, err := e.store.GetMessage(name, id)
		if err != nil {
			return errRes(err)
		}
		if m == nil {
			return "err-nil"
		}
		return "m" + tagOf(m) + "." + seenS(m)
	case 't':
		m, err := e.store.GetMessage(name, "latest")
		if err != nil {
			return errRes(err)
		}
		if m == nil {
			return "err-nil"
		}
		return "m" + tagOf(m) + "." + seenS(m)
	case 'l':
		ms, err := e.store.GetMessages(name)
		if err != nil {
			return errRes(err)
		}
		return "L" + viewOf(ms)
	case 's':
		if err := e.store.MarkSeen(name, id); err != nil {
			return errRes(err)
		}
		return "ok"
	case 'r':
		if err := e.store.RemoveMessage(name, id); err != nil {
			return errRes(err)
		}
		return "ok"
	case 'p':
		if err := e.store.PurgeMessages(name); err != nil {
			return errRes(err)
		}
		return "ok"
	case 'v':
		var ent []string
		err := e.store.VisitMailboxes(func(ms []storage.Message) bool {
			ent = append(ent, fmt.Sprintf("%d=%s", visitMB(ms), viewOf(ms)))
			return true
		})
		if err != nil {
			return "err-visit"
		}
		sort.Strings(ent)
		return "V" + strings.Join(ent, ";")
	}
	return "err-op"
}

func (e *env) finalListing() string {
	var ent []string
	for mb := 1; mb <= 4; mb++ {
		ms, err := e.store.GetMessages(mbNames[mb])
		v := "ERR"
		if err == nil {
			v = viewOf(ms)
		}
		ent = append(ent, fmt.Sprintf("%d=%s", mb, v))
	}
	return strings.Join(ent, ";")
}

func (e *env) idsDistinct() string {
	for _, ids := range e.issued {
		seen := map[string]bool{}
		for _, id := range ids {
			if seen[id] {
				return "ids=dup"
			}
			seen[id] = true
		}
	}
	return "ids=ok"
}

// ------------------------------------------------------------------ forced schedules

var baseWait = 50 * time.Millisecond

// runForcedRobust re-runs with 10x timeouts (up to 3 times) when a blocked / deadlock judgement was
// made that the schedule did not announce (trailing '!').
func runForcedRobust(kind string, in []string) []string {
	outs := runForced(kind, in, 1)
	sched := in[len(in)-1]
	expectBlock := strings.HasSuffix(sched, "!")
	n := len(strings.TrimSuffix(sched, "!"))
	suspicious := func(o []string) bool {
		if len(o) == 0 {
			return false
		}
		if o[0] == "deadlock" {
			return true
		}
		if strings.HasPrefix(o[0], "blocked@") {
			return !(expectBlock && o[0] == fmt.Sprintf("blocked@%d", n-1))
		}
		return false
	}
	for i := 0; i < 3 && suspicious(outs); i++ {
		if outs[0] == "deadlock" && (i >= 1 || deadlocksConfirmed >= 2) {
			// a deadlock judgement (nothing finishes although every party runs freely) is confirmed once with
			// tenfold deadlines; after two confirmed ones in this run further ones are reported as first seen,
			// so that a tree that really deadlocks does not eat the whole time budget
			break
		}
		outs = runForced(kind, in, 10)
	}
	if len(outs) > 0 && outs[0] == "deadlock" {
		deadlocksConfirmed++
	}
	return outs
}

var deadlocksConfirmed int

func runForced(kind string, in []string, scale int) []string {
	var capv, maxkb int
	var prefixS, opsS, sched string
	if kind == "mem" {
		capv, maxkb, prefixS, opsS, sched = atoi(in[0]), atoi(in[1]), in[2], in[3], in[4]
	} else {
		prefixS, opsS, sched = in[1], in[2], in[3]
	}
	expectBlock := strings.HasSuffix(sched, "!")
	sched = strings.TrimSuffix(sched, "!")
	prefix, ops := parseOps(prefixS), parseOps(opsS)
	wait := baseWait * time.Duration(scale)

	c := &ctl{kind: kind, free: true, gids: map[int64]int{}, parties: map[int]*party{}, lastArg: map[int]string{}, addID: map[int]string{}}
	c.cond = sync.NewCond(&c.mu)
	verifhook.Set(c.handler)
	defer verifhook.Set(nil)

	e, err := newEnv(kind, capv, maxkb)
	if err != nil {
		return []string{"HARNESS-ERROR", vh.HS(err.Error())}
	}
	defer e.close()

	// which mailbox does a visit callback belong to
	visitMB := func(p int) func(ms []storage.Message) int {
		return func(ms []storage.Message) int {
			c.mu.Lock()
			a := c.lastArg[p]
			c.mu.Unlock()
			if kind == "mem" {
				for i, n := range mbNames {
					if n == a {
						return i
					}
				}
				return 0
			}
			return e.hashMB[a]
		}
	}

	// prefix: sequential, hooks free-running
	c.mu.Lock()
	c.gids[goid()] = 100
	c.mu.Unlock()
	for _, o := range prefix {
		id, _ := e.resolve(o)
		if r := e.runOp(o, id, visitMB(100)); strings.HasPrefix(r, "err") {
			return []string{"HARNESS-ERROR", vh.HS("prefix op failed: " + r)}
		}
	}
	c.mu.Lock()
	delete(c.gids, goid())
	c.free = false
	if kind == "mem" && maxkb > 0 {
		c.parties[enfParty] = &party{state: stIdle}
	}
	for i := range ops {
		c.parties[i] = &party{state: stNew}
	}
	c.mu.Unlock()

	n := len(ops)
	results := make([]string, n)
	flags := make([]byte, n)
	starts := make([]int, n)
	ends := make([]int, n)
	for i := range results {
		results[i], flags[i], starts[i], ends[i] = "none", '?', -1, -1
	}
	startCh := make([]chan struct{}, n)
	for i := range ops {
		startCh[i] = make(chan struct{})
		go func(i int) {
			<-startCh[i]
			c.mu.Lock()
			c.gids[goid()] = i
			c.mu.Unlock()
			id, fl := e.resolve(ops[i])
			flags[i] = fl
			r := e.runOp(ops[i], id, visitMB(i))
			c.mu.Lock()
			results[i] = r
			c.parties[i].state = stFinished
			c.progress++
			c.cond.Broadcast()
			c.mu.Unlock()
		}(i)
	}

	status := ""
	settled := func(p int) func() bool {
		return func() bool {
			pt := c.parties[p]
			return pt.state != stRunning && c.sends == c.recvs
		}
	}
	for step := 0; step < len(sched) && status == ""; step++ {
		p := enfParty
		if sched[step] != 'e' {
			p = int(sched[step] - '0')
		}
		c.mu.Lock()
		pt := c.parties[p]
		if pt == nil || p >= n {
			c.mu.Unlock()
			continue
		}
		switch pt.state {
		case stFinished, stIdle:
			c.mu.Unlock()
			continue
		case stNew:
			pt.state = stRunning
			starts[p] = step
			close(startCh[p])
		case stParked:
			// ids made visible by parked deliveries are known to later operations
			pt.state = stRunning
			close(pt.release)
		}
		c.mu.Unlock()
		if !c.waitUntil(wait, settled(p)) {
			status = fmt.Sprintf("blocked@%d", step)
			break
		}
		c.mu.Lock()
		for q, id := range c.addID {
			if q >= 0 && q < n {
				e.learn(ops[q].tag, id)
			}
		}
		if p >= 0 && c.parties[p].state == stFinished && ends[p] < 0 {
			ends[p] = step
		}
		c.mu.Unlock()
	}

	// The model said the last pick must block, the implementation went on: a lock / rendezvous was bypassed.
	// Complete the run under control (lowest-numbered party that can move, one at a time) so that the
	// linearizability oracle can judge what the bypass led to.
	// The same controlled completion is made whenever the schedule did not run everything to the end (it ended
	// early, or a pick blocked that the model did not announce): the completed execution is a real execution of
	// the implementation with known intervals, so the oracle can judge it.
	var bypassSnap []string
	unexpectedBlock := strings.HasPrefix(status, "blocked@") && !(expectBlock && status == fmt.Sprintf("blocked@%d", len(sched)-1))
	if (status == "" || unexpectedBlock) && !c.allSettledDone(n) {
		snapStatus := "unfinished"
		if unexpectedBlock {
			snapStatus = status
		}
		// what the schedule itself led to (compared with the model) ...
		c.mu.Lock()
		bypassSnap = append([]string{snapStatus, string(flags), "-"}, results...)
		c.mu.Unlock()
		bypassSnap = append(bypassSnap, "-", e.idsDistinct())
		// ... and the controlled completion (judged by the oracle only)
		step := len(sched)
		for guard := 0; guard < 400; guard++ {
			c.mu.Lock()
			cand := []int{}
			if pt := c.parties[enfParty]; pt != nil && pt.state == stParked {
				cand = append(cand, enfParty)
			}
			for i := 0; i < n; i++ {
				if st := c.parties[i].state; st == stParked || st == stNew {
					cand = append(cand, i)
				}
			}
			c.mu.Unlock()
			if len(cand) == 0 {
				break
			}
			moved := false
			for _, p := range cand {
				c.mu.Lock()
				pt := c.parties[p]
				if pt.state == stNew {
					pt.state = stRunning
					starts[p] = step
					close(startCh[p])
				} else {
					pt.state = stRunning
					close(pt.release)
				}
				c.mu.Unlock()
				if c.waitUntil(wait, settled(p)) {
					moved = true
					c.mu.Lock()
					for q, id := range c.addID {
						if q >= 0 && q < n {
							e.learn(ops[q].tag, id)
						}
					}
					if p >= 0 && c.parties[p].state == stFinished && ends[p] < 0 {
						ends[p] = step
					}
					c.mu.Unlock()
					step++
					break
				}
				// p is blocked for now; it keeps running and will settle once its partner moves
				step++
			}
			if !moved {
				break
			}
		}
		c.mu.Lock()
		for i := 0; i < n; i++ {
			if c.parties[i].state == stFinished && ends[i] < 0 {
				ends[i] = step
			}
		}
		c.mu.Unlock()
		status = "bypassed"
	}

	// drain: everything runs freely to the end
	allFinished := func() bool {
		for i := 0; i < n; i++ {
			if st := c.parties[i].state; st != stFinished && st != stNew {
				return false
			}
		}
		return true
	}
	c.mu.Lock()
	done := allFinished()
	neverStarted := false
	for i := 0; i < n; i++ {
		if c.parties[i].state == stNew {
			neverStarted = true
		}
	}
	c.mu.Unlock()
	if status == "" {
		if done && !neverStarted && c.enfQuiet() {
			status = "fin"
		} else {
			status = "unfinished"
		}
	}
	if status == "bypassed" && !(done && !neverStarted && c.enfQuiet()) {
		status = "unfinished"
	}
	if status != "fin" && status != "bypassed" {
		if bypassSnap != nil {
			// completion did not finish: drain, report the schedule's own observation
			c.mu.Lock()
			c.free = true
			for _, pt := range c.parties {
				if pt.state == stParked {
					pt.state = stRunning
					close(pt.release)
				}
			}
			c.mu.Unlock()
			if !c.waitUntil(100*wait, allFinished) {
				bypassSnap[0] = "deadlock"
			}
			return bypassSnap
		}
		// results of unfinished operations are not observations of this schedule
		c.mu.Lock()
		snap := append([]string(nil), results...)
		fl := string(flags)
		c.free = true
		for _, pt := range c.parties {
			if pt.state == stParked {
				pt.state = stRunning
				close(pt.release)
			}
		}
		c.mu.Unlock()
		for i := range ops {
			c.mu.Lock()
			isNew := c.parties[i].state == stNew
			if isNew {
				c.parties[i].state = stRunning
			}
			c.mu.Unlock()
			if isNew {
				close(startCh[i])
			}
		}
		if !c.waitUntil(100*wait, allFinished) {
			status = "deadlock"
		}
		out := []string{status, fl, "-"}
		out = append(out, snap...)
		return append(out, "-", e.idsDistinct())
	}
	c.mu.Lock()
	c.free = true
	c.mu.Unlock()
	iv := make([]string, n)
	for i := range iv {
		iv[i] = fmt.Sprintf("%d-%d", starts[i], ends[i])
	}
	if status == "bypassed" {
		out := append(bypassSnap, "BYP", strings.Join(iv, ","))
		out = append(out, results...)
		return append(out, e.finalListing())
	}
	out := []string{status, string(flags), strings.Join(iv, ",")}
	out = append(out, results...)
	return append(out, e.finalListing(), e.idsDistinct())
}

// allSettledDone: every client finished and the enforcer is idle (nothing left to complete).
func (c *ctl) allSettledDone(n int) bool {
	c.mu.Lock()
	for i := 0; i < n; i++ {
		if c.parties[i].state != stFinished {
			c.mu.Unlock()
			return false
		}
	}
	c.mu.Unlock()
	return c.enfQuiet()
}

func (c *ctl) enfQuiet() bool {
	c.mu.Lock()
	defer c.mu.Unlock()
	pt := c.parties[enfParty]
	return pt == nil || pt.state == stIdle
}

package main

import (
	"fmt"
	"math/rand"
	"sort"
	"strings"
	"sync"

	"github.com/inbucket/inbucket/v3/pkg/storage"
)

// runStress: free-running goroutines on one real store (meant for the -race build; the worker runs with
// GORACE=halt_on_error=1 so a data race kills it = observation "crash"). Checks made on the history:
// no operation fails, no id is issued twice in a mailbox, every listing is in per-worker delivery order
// without duplicates, and (no cap, no size limit) the final content of the mailboxes that are never purged
// is exactly delivered minus removed, each worker's deliveries in order.
//
//	stress <store> <cap> <maxkb> <seed> <workers> <ops>
func runStress(in []string) []string {
	kind, capv, maxkb, seed, workers, nops := in[0], atoi(in[1]), atoi(in[2]), atoi(in[3]), atoi(in[4]), atoi(in[5])
	e, err := newEnv(kind, capv, maxkb)
	if err != nil {
		return []string{"harness-error"}
	}
	defer e.close()
	var mu sync.Mutex
	var bad []string
	fail := func(f string, a ...interface{}) {
		mu.Lock()
		if len(bad) < 3 {
			bad = append(bad, strings.ReplaceAll(fmt.Sprintf(f, a...), " ", "_"))
		}
		mu.Unlock()
	}
	type rec struct{ mb, tag int }
	added := make([][]rec, workers)   // deliveries that returned an id, per worker, in order
	removed := make([]map[int]bool, workers)
	checkView := func(ms []storage.Message) {
		last := map[int]int{}
		for _, m := range ms {
			t := atoi(tagOf(m))
			w := t / 100000
			if prev, ok := last[w]; ok && prev >= t {
				fail("listing out of delivery order or duplicated: %d after %d", t, prev)
			}
			last[w] = t
		}
	}
	var wg sync.WaitGroup
	for w := 0; w < workers; w++ {
		removed[w] = map[int]bool{}
		wg.Add(1)
		go func(w int) {
			defer wg.Done()
			r := rand.New(rand.NewSource(int64(seed*1000 + w)))
			mine := map[int]string{} // tag -> id of own live messages
			marked := map[int]bool{} // own messages whose MarkSeen succeeded
			var order []int
			for i := 0; i < nops; i++ {
				mb := 1 + r.Intn(2) // mailboxes 1, 2 (one lock bucket) are never purged; 3 (same bucket) and 4 are purged
				switch k := r.Intn(20); {
				case k < 8:
					tag := w*100000 + i
					if r.Intn(6) == 0 {
						mb = 3 + r.Intn(2)
					}
					id, err := e.store.AddMessage(delivery(mbNames[mb], tag, 20+r.Intn(200)))
					if err != nil {
						fail("add failed: %v", err)
						continue
					}
					e.tagMu.Lock()
					e.issued[mb] = append(e.issued[mb], id)
					e.tagMu.Unlock()
					if mb < 3 {
						mine[tag] = id
						order = append(order, tag)
						added[w] = append(added[w], rec{mb, tag})
					}
				case k < 11:
					ms, err := e.store.GetMessages(mbNames[mb])
					if err != nil {
						fail("list failed: %v", err)
						continue
					}
					checkView(ms)
				case k < 13 && len(order) > 0:
					tag := order[r.Intn(len(order))]
					if removed[w][tag] {
						continue
					}
					var box int
					for _, a := range added[w] {
						if a.tag == tag {
							box = a.mb
						}
					}
					m, err := e.store.GetMessage(mbNames[box], mine[tag])
					if capv == 0 && maxkb == 0 {
						if err != nil || m == nil {
							fail("own live message %d not found: %v", tag, err)
						} else if tagOf(m) != fmt.Sprint(tag) {
							fail("get returned another message")
						} else if marked[tag] && !m.Seen() {
							fail("seen flag of %d lost", tag)
						}
					}
					if err := e.store.MarkSeen(mbNames[box], mine[tag]); err == nil {
						marked[tag] = true
					} else if capv == 0 && maxkb == 0 {
						fail("mark-seen of own live message failed: %v", err)
					}
				case k < 15 && len(order) > 0:
					tag := order[r.Intn(len(order))]
					if removed[w][tag] {
						continue
					}
					var box int
					for _, a := range added[w] {
						if a.tag == tag {
							box = a.mb
						}
					}
					err := e.store.RemoveMessage(mbNames[box], mine[tag])
					if err == nil {
						removed[w][tag] = true
					} else if capv == 0 && maxkb == 0 {
						fail("remove of own live message failed: %v", err)
					} else {
						removed[w][tag] = true
					}
				case k < 16:
					if err := e.store.PurgeMessages(mbNames[3+r.Intn(2)]); err != nil {
						fail("purge failed: %v", err)
					}
				case k < 17:
					err := e.store.VisitMailboxes(func(ms []storage.Message) bool { checkView(ms); return true })
					if err != nil {
						fail("visit failed: %v", err)
					}
				default:
					if _, err := e.store.GetMessage(mbNames[mb], "latest"); err != nil && err != storage.ErrNotExist {
						fail("latest failed: %v", err)
					}
				}
			}
		}(w)
	}
	wg.Wait()
	if e.idsDistinct() != "ids=ok" {
		fail("duplicate id")
	}
	if capv == 0 && maxkb == 0 {
		for mb := 1; mb <= 2; mb++ {
			ms, err := e.store.GetMessages(mbNames[mb])
			if err != nil {
				fail("final list failed")
				continue
			}
			checkView(ms)
			var got, want []string
			for _, m := range ms {
				got = append(got, tagOf(m))
			}
			for w := range added {
				for _, a := range added[w] {
					if a.mb == mb && !removed[w][a.tag] {
						want = append(want, fmt.Sprint(a.tag))
					}
				}
			}
			sort.Strings(got)
			sort.Strings(want)
			if strings.Join(got, ",") != strings.Join(want, ",") {
				fail("mailbox %d: final content differs from delivered minus removed (%d vs %d)", mb, len(got), len(want))
			}
		}
	}
	if len(bad) > 0 {
		return []string{"bad:" + strings.Join(bad, "|")}
	}
	return []string{"ok"}
}

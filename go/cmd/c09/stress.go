package main

func runStress(in []string) []string { return []string{"UNIMPLEMENTED"} }

package main

// Structured generator of address strings: mostly well-formed addresses assembled from
// parts that exercise every arm of the parser (quoted strings, quoted pairs, routes,
// IP literals with and without the IPv6 tag, letter-case flips, '+' and '.' placement,
// the 128 / 255 / 320 / 63 length edges), plus a mutation stream of near-misses.

import (
	"strings"

	"verifharness/vh"
)

var atoms = []string{"a", "b", "user", "User", "JOE", "x1", "first.last", "a.b.c", "o'brien", "a-b", "a_b", "a/b", "!#$%&'*", "=?^`{|}~", "1", "Z"}
var exts = []string{"x", "tag", "Tag.1", "a+b", "", "+", "e-1", "news/2024"}
var labels = []string{"a", "b", "ab", "x-y", "example", "com", "org", "mail", "A", "Ex", "COM", "m1", "a_b", "1", "x--y", "EXAMPLE", "Inbucket"}
var ipLits = []string{"[1.2.3.4]", "[127.0.0.1]", "[IPv6:2001:db8:aaaa:1::100]", "[IPv6:2001:DB8::A]", "[IPv6:::1]", "[IPv6:::FFFF:1.2.3.4]",
	"[ipv6:2001:db8::1]", "[IPV6:2001:db8::1]", "[2001:DB8::A]", "[::1]", "[1.2.3]", "[]", "[x]", "[IPv6:]", "[IPv6:1.2.3.4]", "[1.2.3.4", "1.2.3.4]",
	"[256.1.1.1]", "[IPv6:2001:db8::g]", "[ABCD:EF01:2345:6789:abcd:ef01:2345:6789]", "[1.2.3.4.]", "[ 1.2.3.4]", "[01.2.3.4]", "[IPv6:fe80::1%eth0]"}

func flipCase(g *vh.Gen, s string, p float64) string {
	b := []byte(s)
	for i, c := range b {
		if g.Chance(p) {
			if 'a' <= c && c <= 'z' {
				b[i] = c - 32
			} else if 'A' <= c && c <= 'Z' {
				b[i] = c + 32
			}
		}
	}
	return string(b)
}

func rep(s string, n int) string { return strings.Repeat(s, n) }

// plainLocal builds an unquoted local part: atoms joined by '.', optional '+ext' parts.
func plainLocal(g *vh.Gen) string {
	n := 1 + g.Intn(3)
	parts := make([]string, n)
	for i := range parts {
		parts[i] = g.Pick(atoms...)
	}
	l := strings.Join(parts, ".")
	switch {
	case g.Chance(0.25):
		l += "+" + g.Pick(exts...)
	case g.Chance(0.05):
		l = "+" + l // empty base name
	case g.Chance(0.04):
		l += "+"
	case g.Chance(0.04):
		l = l + "+" + g.Pick(exts...) + "+" + g.Pick(exts...)
	}
	return l
}

// quoteSome re-spells a local part with quoted strings / quoted pairs without changing
// what it unquotes to (mostly), and sometimes puts periods where only quoting allows them.
func quotedLocal(g *vh.Gen) string {
	base := plainLocal(g)
	switch g.Intn(12) {
	case 0:
		return `"` + base + `"`
	case 1: // quoted pair in front of every third byte
		var b strings.Builder
		for i := 0; i < len(base); i++ {
			if i%3 == 0 {
				b.WriteByte('\\')
			}
			b.WriteByte(base[i])
		}
		return b.String()
	case 2:
		return `"` + base + `"` + g.Pick("", "x", ".y", "+z")
	case 3:
		return `"` + g.Pick("a b", "a@b", "a,b", "(c)", "a\\\"b", "<x>", "a:b", "a;b", "[x]") + `"`
	case 4:
		return g.Pick(`a\ b`, `a\@b`, `\"a`, `a\\b`, `a\,b`, `\(c\)`)
	case 5: // periods that need quoting
		return g.Pick(`"."`, `".a"`, `"a."`, `"a.\.b"`, `\.a`, `a\.`, `a.\.b`, `"a".`, `a\..b`, `".".a`, `"a.".b`, `"a"."b"`, `a."b"`)
	case 6: // quotes in the wrong place
		return g.Pick(`a"b"`, `"a`, `a"`, `a\`, `"a\"`, `""`, `"" `, `"a""b"`, `"\`)
	case 7:
		return `"` + base + `"+` + g.Pick(exts...)
	case 8:
		return g.Pick(`"+x"`, `"+"`, `\+x`, `"a+b"`, `a"+"b`)
	case 9:
		return `"` + flipCase(g, base, 0.5) + `"`
	default:
		return base
	}
}

func genDomain(g *vh.Gen) string {
	switch {
	case g.Chance(0.14):
		return g.Pick(ipLits...)
	case g.Chance(0.05):
		return g.Pick("[", "[IPv6:", "[ipv6:", "[IPV6:") + genIP(g) + "]"
	case g.Chance(0.03):
		return ""
	}
	n := 1 + g.Intn(3)
	parts := make([]string, n)
	for i := range parts {
		parts[i] = g.Pick(labels...)
	}
	d := strings.Join(parts, ".")
	switch {
	case g.Chance(0.06):
		d += "."
	case g.Chance(0.02):
		d += ".."
	case g.Chance(0.03):
		d = "." + d
	case g.Chance(0.03):
		d = strings.Replace(d, ".", "..", 1)
	case g.Chance(0.03):
		d = "-" + d
	case g.Chance(0.03):
		d += "-"
	case g.Chance(0.03):
		d = strings.Replace(d, ".", "-.", 1)
	case g.Chance(0.02):
		d += g.Pick("!", "+x", " ", "@x", "*")
	}
	return d
}

// genIP builds IPv4 / IPv6 literal bodies around every rule of netip.ParseAddr: octet ranges and
// leading zeros, field counts, group lengths 1..5, the ellipsis at every position (also twice, also
// with all eight groups present), embedded IPv4 tails, zones.
func genIP(g *vh.Gen) string {
	v4 := func() string {
		n := 4
		if g.Chance(0.1) {
			n = 3 + 2*g.Intn(2)
		}
		parts := make([]string, n)
		for i := range parts {
			parts[i] = g.Pick("0", "1", "9", "10", "99", "100", "199", "255", "256", "300", "01", "00", "007", "", "1a", "25")
			if g.Chance(0.6) {
				parts[i] = vh.I(g.Intn(256))
			}
		}
		return strings.Join(parts, ".")
	}
	if g.Chance(0.3) {
		return v4()
	}
	n := 1 + g.Intn(9)
	if g.Chance(0.4) {
		n = 6 + g.Intn(3)
	}
	groups := make([]string, n)
	const hexd = "0123456789abcdefABCDEF"
	for i := range groups {
		k := 1 + g.Intn(4)
		if g.Chance(0.04) {
			k = 5
		}
		if g.Chance(0.03) {
			k = 0
		}
		b := make([]byte, k)
		for j := range b {
			b[j] = hexd[g.Intn(len(hexd))]
		}
		if g.Chance(0.02) && k > 0 {
			b[g.Intn(k)] = "gxz-_"[g.Intn(5)]
		}
		groups[i] = string(b)
	}
	s := strings.Join(groups, ":")
	ell := func(s string) string {
		// replace one ':' by '::', or put '::' in front / at the end
		switch g.Intn(4) {
		case 0:
			return "::" + s
		case 1:
			return s + "::"
		default:
			idx := []int{}
			for i := 0; i < len(s); i++ {
				if s[i] == ':' {
					idx = append(idx, i)
				}
			}
			if len(idx) == 0 {
				return "::" + s
			}
			i := idx[g.Intn(len(idx))]
			return s[:i] + ":" + s[i:]
		}
	}
	if g.Chance(0.6) {
		s = ell(s)
		if g.Chance(0.05) {
			s = ell(s)
		}
	}
	if g.Chance(0.2) {
		if strings.HasSuffix(s, "::") {
			s += v4()
		} else {
			s += ":" + v4()
		}
	}
	switch {
	case g.Chance(0.03):
		s += "%eth0"
	case g.Chance(0.01):
		s += "%"
	case g.Chance(0.02):
		s = ":" + s
	case g.Chance(0.02):
		s += ":"
	}
	return s
}

func genRoute(g *vh.Gen) string {
	switch {
	case g.Chance(0.88):
		return ""
	case g.Chance(0.5):
		return "@" + genDomain(g) + ":"
	case g.Chance(0.5):
		return "@a.example,@" + genDomain(g) + ":"
	case g.Chance(0.5):
		return "@no.colon"
	default:
		return "@:"
	}
}

// lengthEdge builds addresses whose lengths sit on the limits of the parser.
func lengthEdge(g *vh.Gen) string {
	switch g.Intn(10) {
	case 0: // local part of 127..130 bytes
		return rep("a", 127+g.Intn(4)) + "@" + genDomain(g)
	case 1: // quoted: the index of '@' differs from the length of the unquoted local part
		return `"` + rep("a", 125+g.Intn(4)) + `"@` + genDomain(g)
	case 2: // domain of 253..257 bytes
		n := 253 + g.Intn(5)
		d := rep(rep("a", 49)+".", 6)
		for len(d) < n {
			d += "b"
		}
		return "u@" + d[:n]
	case 3: // label of 62..65 bytes
		return "u@" + rep("a", 62+g.Intn(4)) + g.Pick(".com", "", ".")
	case 4: // whole address 318..322 bytes, local within its limit
		n := 318 + g.Intn(5)
		l := rep("l", 60+g.Intn(69))
		d := rep(rep("d", 30)+".", 12)
		a := l + "@" + d
		for len(a) < n {
			a += "e"
		}
		return a[:n]
	case 5: // no '@' at all: a bare name as typed into the web UI, up to the address limit
		return rep("n", 126+g.Intn(5))
	case 6:
		return rep("n", 318+g.Intn(5))
	case 7: // long route in front of a short address: the 128 limit counts from the stripped address
		return "@" + rep("r", 100+g.Intn(80)) + ".example:" + rep("a", 100+g.Intn(30)) + "@" + genDomain(g)
	case 8: // hyphens do not count towards the label length
		return "u@" + rep("a-", 40) + "a.com"
	default:
		return rep("a", 64) + "+" + rep("x", 63+g.Intn(3)) + "@" + genDomain(g)
	}
}

const sig = "ab.+@\"\\[]: A-_\x80\xc3\xa9"

func mutate(g *vh.Gen, s string) string {
	b := []byte(s)
	for k := 1 + g.Intn(2); k > 0; k-- {
		switch {
		case len(b) > 0 && g.Chance(0.35):
			i := g.Intn(len(b))
			b = append(b[:i], b[i+1:]...)
		case len(b) > 0 && g.Chance(0.5):
			b[g.Intn(len(b))] = sig[g.Intn(len(sig))]
		default:
			i := g.Intn(len(b) + 1)
			b = append(b[:i], append([]byte{sig[g.Intn(len(sig))]}, b[i:]...)...)
		}
	}
	return string(b)
}

// genAddress is the structured generator.
func genAddress(g *vh.Gen) string {
	switch {
	case g.Chance(0.04):
		return lengthEdge(g)
	case g.Chance(0.06): // bare names / partial addresses as the read side sees them
		return g.Pick(plainLocal(g), genDomain(g), flipCase(g, plainLocal(g), 0.4), g.Pick(ipLits...))
	}
	var l string
	if g.Chance(0.3) {
		l = quotedLocal(g)
	} else {
		l = plainLocal(g)
	}
	a := genRoute(g) + flipCase(g, l, 0.15) + "@" + flipCase(g, genDomain(g), 0.2)
	if g.Chance(0.06) {
		a = mutate(g, a)
	}
	if g.Chance(0.01) {
		a = strings.Replace(a, "a", g.Pick("\xc3\xa9", "\xe2\x84\xaa", "\xff", "\xc4\xb0"), 1)
	}
	if g.Chance(0.02) {
		// non-ASCII runes whose Unicode lower-case is ASCII or that fold to ASCII letters: U+212A KELVIN SIGN -> k,
		// U+0130 -> i (+ combining dot in some tables), U+017F long s, and an upper-case non-ASCII letter; anywhere
		// in the address (local part, label domain, literal)
		subs := [][2]string{{"k", "\u212a"}, {"K", "\u212a"}, {"i", "\u0130"}, {"I", "\u0130"}, {"s", "\u017f"}, {"e", "\u00c9"}, {"m", "\u041c"}, {"c", "\uff23"}, {"b", "\uff22"}, {"1", "\uff11"}}
		sub := subs[g.Intn(len(subs))]
		if i := strings.LastIndex(a, sub[0]); i >= 0 && g.Chance(0.6) {
			a = a[:i] + sub[1] + a[i+1:]
		} else {
			a = strings.Replace(a, sub[0], sub[1], 1)
		}
	}
	return a
}

// naive generator: random strings over the significant alphabet (reported for the ratio only).
func naiveAddress(g *vh.Gen) string {
	b := make([]byte, 1+g.Intn(12))
	for i := range b {
		b[i] = sig[g.Intn(len(sig))]
	}
	return string(b)
}

func gen(g *vh.Gen) {
	for i := 0; i < g.N(20000, 500000); i++ {
		g.Emit("addr", vh.HS(genAddress(g)))
	}
	for i := 0; i < g.N(1500, 30000); i++ {
		g.Emit("addr", vh.HS(naiveAddress(g)))
	}
	// thorough tier: every string of length <= 5 over 14 significant symbols (a search aid, never cited as proof)
	if g.Tier == "thorough" {
		const alpha = "aA1.+@\"\\[]:- \x80"
		var rec func(prefix []byte, left int)
		rec = func(prefix []byte, left int) {
			if len(prefix) > 0 {
				g.Emit("addr", vh.H(prefix))
			}
			if left == 0 {
				return
			}
			for i := 0; i < len(alpha); i++ {
				rec(append(prefix, alpha[i]), left-1)
			}
		}
		rec(nil, 5)
	}
	// letter-case variants
	for i := 0; i < g.N(6000, 150000); i++ {
		a := genAddress(g)
		g.Emit("case", vh.HS(a), vh.HS(flipCase(g, a, []float64{0.1, 0.5, 1.0}[g.Intn(3)])))
	}
	// +extension variants: l@d against l+e@d
	for i := 0; i < g.N(6000, 150000); i++ {
		var l string
		switch {
		case g.Chance(0.8):
			l = flipCase(g, plainLocal(g), 0.15)
		default:
			l = quotedLocal(g)
		}
		e := g.Pick(exts...)
		if g.Chance(0.05) {
			e = g.Pick("x@y", `"`, `\`, "a b", "x.", ".x", rep("e", 70))
		}
		d := flipCase(g, genDomain(g), 0.2)
		if g.Chance(0.08) {
			// the general clause (theorem plus_insensitive_any): routes, at signs and colons anywhere, quoting in the extension
			l = g.Pick("@r:u", "@r", "@r.example:"+l, `"a@b"`, "u@x", `a\@`, "", "@a,@b:"+l, `"`+l, l+`\`)
			e = g.Pick(e, "x:y", "x@y", `"`, `\`, `"q"`, `\"`, "x:", ":x")
			d = g.Pick(d, "x:u@"+d, `q"@`+d, "y@"+d, ":a@"+d, "@"+d)
		}
		g.Emit("plus", vh.HS(l), vh.HS(e), vh.HS(d))
	}
	// IP literals: the modelled parser against net.ParseIP
	for i := 0; i < g.N(6000, 150000); i++ {
		var lit string
		switch {
		case g.Chance(0.6):
			lit = genIP(g)
		default:
			lit = g.Pick(ipLits...)
			lit = strings.TrimSuffix(strings.TrimPrefix(lit, "["), "]")
			if g.Chance(0.5) {
				lit = strings.TrimPrefix(lit, "IPv6:")
			}
		}
		lit = flipCase(g, lit, 0.3)
		if g.Chance(0.15) {
			lit = mutate(g, lit)
		}
		if g.Chance(0.05) {
			hexd := "0123456789abcdefABCDEF:.:"
			b := make([]byte, 2+g.Intn(30))
			for j := range b {
				b[j] = hexd[g.Intn(len(hexd))]
			}
			lit = string(b)
		}
		g.Emit("ip", vh.HS(lit))
	}
	// strings.ToLower on ASCII-only strings (every byte value < 128), and on some non-ASCII ones (observed only)
	for i := 0; i < g.N(1500, 30000); i++ {
		b := make([]byte, g.Intn(24))
		for j := range b {
			b[j] = byte(g.Intn(128))
		}
		s := string(b)
		switch {
		case g.Chance(0.3):
			s = genAddress(g)
		case g.Chance(0.1):
			s += g.Pick("\u212a", "\u0130", "\xff", "\u00c9")
		}
		g.Emit("lower", vh.HS(s))
	}
	// ValidateDomainPart on arbitrary byte strings: label domains with multi-byte runes, invalid UTF-8, literals
	for i := 0; i < g.N(3000, 60000); i++ {
		d := genDomain(g)
		if g.Chance(0.5) {
			d = mutate(g, d)
		}
		if g.Chance(0.3) {
			k := g.Intn(len(d) + 1)
			d = d[:k] + g.Pick("\u00e9", "\u212a", "\xff", "\xc3", "\xe2\x82", "\xf0\x9f\x98\x80", "\xed\xa0\x80", "\xc0\xaf", "\u0131") + d[k:]
		}
		g.Emit("valid", vh.HS(d))
	}
	// POP3 USER (open known finding: the argument is used verbatim)
	for i := 0; i < g.N(300, 5000); i++ {
		g.Emit("pop3", vh.HS(flipCase(g, plainLocal(g), 0.3)+"@"+flipCase(g, genDomain(g), 0.2)))
	}
	genLive(g)
	genHist(g)
}

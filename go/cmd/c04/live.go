package main

// Live path of C04: the address goes through a real SMTP session (RCPT + DATA on the real
// smtp.Server over net.Pipe, real StoreManager, memory store); afterwards the same address
// is used to ask for the mailbox through Manager.MailboxForAddress, through the REST API
// (the real router) and through a real POP3 session (USER <address>).
//
//	live <mode> <a> => <iptab> <rcpt code> <data code> <mailboxes holding a message> <lookup by address via manager>
//	                   <lookup by stored name via manager> <REST by address: status:count:mailbox> <POP3 USER address: count>
//	                   <POP3 USER stored name: count>

import (
	"bufio"
	"encoding/json"
	"fmt"
	"io"
	"net"
	"net/http"
	"net/http/httptest"
	"net/url"
	"sort"
	"strings"
	"time"

	"github.com/gorilla/mux"
	"github.com/inbucket/inbucket/v3/pkg/config"
	"github.com/inbucket/inbucket/v3/pkg/extension"
	"github.com/inbucket/inbucket/v3/pkg/message"
	"github.com/inbucket/inbucket/v3/pkg/msghub"
	"github.com/inbucket/inbucket/v3/pkg/policy"
	"github.com/inbucket/inbucket/v3/pkg/rest"
	"github.com/inbucket/inbucket/v3/pkg/server/pop3"
	"github.com/inbucket/inbucket/v3/pkg/server/smtp"
	"github.com/inbucket/inbucket/v3/pkg/server/web"
	"github.com/inbucket/inbucket/v3/pkg/storage"
	"github.com/inbucket/inbucket/v3/pkg/storage/mem"
	"github.com/inbucket/inbucket/v3/pkg/webui"
	"github.com/rs/zerolog"
	"verifharness/vh"
)

func init() { zerolog.SetGlobalLevel(zerolog.Disabled) }

type lineConn struct {
	c net.Conn
	r *bufio.Reader
}

func dial(serve func(net.Conn)) *lineConn {
	sc, cc := net.Pipe()
	go serve(sc)
	return &lineConn{c: cc, r: bufio.NewReader(cc)}
}

// cmd sends one line (if any) and returns the first token of the reply line.
func (l *lineConn) cmd(line string) string {
	l.c.SetDeadline(time.Now().Add(10 * time.Second))
	if line != "" {
		if _, err := io.WriteString(l.c, line+"\r\n"); err != nil {
			return "WERR"
		}
	}
	reply, err := l.r.ReadString('\n')
	if err != nil {
		return "RERR"
	}
	return strings.TrimRight(reply, "\r\n")
}

func code(reply string) string {
	if i := strings.IndexByte(reply, ' '); i > 0 {
		return reply[:i]
	}
	return reply
}

// pop3Count: number of messages a real POP3 session sees after USER <user> / PASS.
func pop3Count(st storage.Store, user string) string {
	srv, err := pop3.NewServer(config.POP3{Domain: "inbucket.local", Timeout: 30 * time.Second}, st)
	if err != nil {
		return "POP3ERR"
	}
	l := dial(func(c net.Conn) { srv.VerifServe(1, c) })
	defer l.c.Close()
	if g := l.cmd(""); !strings.HasPrefix(g, "+OK") {
		return "GREET:" + code(g)
	}
	if r := l.cmd("USER " + user); !strings.HasPrefix(r, "+OK") {
		return "USER:" + code(r)
	}
	if r := l.cmd("PASS x"); !strings.HasPrefix(r, "+OK") {
		return "PASS:" + code(r)
	}
	r := l.cmd("STAT")
	l.cmd("QUIT")
	f := strings.Fields(r)
	if len(f) >= 2 && f[0] == "+OK" {
		return "P" + f[1]
	}
	return "STAT:" + code(r)
}

// pop3Name: the mailbox name the real POP3 server ends up using for `USER a`. One message is
// sent to <a> through a real SMTP session; if a POP3 session opened with USER a then sees that
// message, POP3 used the canonical name, otherwise it used a mailbox of its own (named by the
// raw argument: the handler does s.user = args[0]).
func pop3Name(m int, a string) string {
	if !liveOK(a) || strings.ContainsAny(a, " \t") {
		return "S" + vh.HS(a)
	}
	env := deliverLive(m, a)
	if env.rc != "250" || env.dc != "250" || len(env.boxes) != 1 {
		return "S" + vh.HS(a)
	}
	if pop3Count(env.st, a) == "P1" {
		return "S" + vh.HS(env.boxes[0])
	}
	return "S" + vh.HS(a)
}

type liveEnv struct {
	conf   *config.Root
	st     storage.Store
	mgr    *message.StoreManager
	rc, dc string
	boxes  []string
}

// deliverLive sends one message to <a> through a real SMTP session in naming mode m.
func deliverLive(m int, a string) *liveEnv {
	conf := rootConfig(m)
	conf.SMTP = config.SMTP{Domain: "inbucket.local", MaxRecipients: 10, MaxMessageBytes: 100000,
		DefaultAccept: true, DefaultStore: true, Timeout: 30 * time.Second}
	conf.Web = config.Web{UIDir: "/nonexistent-ui"}
	extHost := extension.NewHost()
	e := &liveEnv{conf: conf}
	st, err := mem.New(config.Storage{Params: map[string]string{}}, extHost)
	if err != nil {
		e.rc = "STOREERR"
		return e
	}
	ap := &policy.Addressing{Config: conf}
	e.st = st
	e.mgr = &message.StoreManager{AddrPolicy: ap, Store: st, ExtHost: extHost}
	srv := smtp.NewServer(conf.SMTP, e.mgr, ap, extHost)
	l := dial(func(c net.Conn) { srv.VerifServe(c) })
	defer l.c.Close()
	if g := l.cmd(""); code(g) != "220" {
		e.rc = "GREET:" + code(g)
		return e
	}
	l.cmd("HELO client.example")
	l.cmd("MAIL FROM:<sender@example.org>")
	e.rc = code(l.cmd("RCPT TO:<" + a + ">"))
	if e.rc != "250" {
		l.cmd("QUIT")
		return e
	}
	e.dc = code(l.cmd("DATA"))
	if e.dc == "354" {
		io.WriteString(l.c, "Subject: live\r\nFrom: sender@example.org\r\n\r\nbody\r\n")
		e.dc = code(l.cmd("."))
	}
	l.cmd("QUIT")
	srv.Drain()
	st.VisitMailboxes(func(ms []storage.Message) bool {
		if len(ms) > 0 {
			e.boxes = append(e.boxes, ms[0].Mailbox())
		}
		return true
	})
	sort.Strings(e.boxes)
	return e
}

func liveOK(a string) bool {
	if a == "" || strings.ContainsAny(a, "\r\n\x00") {
		return false
	}
	return !strings.ContainsAny(a[:1], "<> ") && !strings.ContainsAny(a[len(a)-1:], "<> ")
}

func genLive(g *vh.Gen) {
	n := 0
	for n < g.N(300, 6000) {
		a := genAddress(g)
		if g.Chance(0.06) {
			// bare well-known names, as some clients send them (RFC 5321 allows RCPT TO:<Postmaster>)
			a = flipCase(g, g.Pick("postmaster", "abuse", "root", "admin", "user"), 0.3)
		}
		if !liveOK(a) || len(a) > 400 {
			continue
		}
		g.Emit("live", vh.I(g.Intn(3)), vh.HS(a))
		n++
	}
}

func execLive(in []string) []string {
	m := vh.AtoI(in[0])
	a := vh.US(in[1])
	env := deliverLive(m, a)
	if env.rc != "250" {
		return []string{ipTable(a), env.rc}
	}
	conf, st, mgr, boxes, rc, dc := env.conf, env.st, env.mgr, env.boxes, env.rc, env.dc
	strs := append([]string{a}, boxes...)
	stored := "NONE"
	if len(boxes) == 1 {
		stored = "S" + vh.HS(boxes[0])
	} else if len(boxes) > 1 {
		stored = fmt.Sprintf("MANY%d", len(boxes))
	}
	count := func(name string, err error) string {
		if err != nil {
			return "MNONE"
		}
		md, err := mgr.GetMetadata(name)
		if err != nil {
			return "MERR"
		}
		return fmt.Sprintf("M%d", len(md))
	}
	byAddr := count(mgr.MailboxForAddress(a))
	byName := "-"
	if len(boxes) == 1 {
		byName = count(mgr.MailboxForAddress(boxes[0]))
	}
	// REST: the real router. Names containing '/' (or "." / "..") do not survive the URL path:
	// that is the open finding of C14, not this property.
	// POP3 first (the REST part ends by deleting the message): USER takes one space-free token
	popAddr, popName := "-", "-"
	if !strings.ContainsAny(a, " \t") {
		popAddr = pop3Count(st, a)
	}
	if len(boxes) == 1 && !strings.ContainsAny(boxes[0], " \t") {
		popName = pop3Count(st, boxes[0])
	}
	restObs := "-"
	if !strings.Contains(a, "/") && a != "." && a != ".." {
		web.Router = mux.NewRouter()
		webui.SetupRoutes(web.Router.PathPrefix("/serve/").Subrouter())
		rest.SetupRoutes(web.Router.PathPrefix("/api/").Subrouter())
		web.NewServer(conf, mgr, &msghub.Hub{})
		do := func(method, path, body string) *httptest.ResponseRecorder {
			var rd io.Reader
			if body != "" {
				rd = strings.NewReader(body)
			}
			req := httptest.NewRequest(method, "http://inbucket.local"+path, rd)
			rec := httptest.NewRecorder()
			web.Router.ServeHTTP(rec, req)
			return rec
		}
		ea := url.PathEscape(a)
		rec := do("GET", "/api/v1/mailbox/"+ea, "")
		restObs = fmt.Sprintf("%d", rec.Code)
		if rec.Code == http.StatusOK {
			var items []struct {
				Mailbox string `json:"mailbox"`
				ID      string `json:"id"`
			}
			if err := json.Unmarshal(rec.Body.Bytes(), &items); err != nil {
				restObs += ":BADJSON"
			} else {
				mb := "-"
				if len(items) > 0 {
					mb = vh.HS(items[0].Mailbox)
				}
				restObs += fmt.Sprintf(":%d:%s", len(items), mb)
				if len(items) == 1 {
					// every other handler that takes the name from the URL, addressed by the ADDRESS
					id := url.PathEscape(items[0].ID)
					var codes []string
					for _, rq := range [][3]string{
						{"GET", "/api/v1/mailbox/" + ea + "/" + id, ""},
						{"GET", "/api/v1/mailbox/" + ea + "/" + id + "/source", ""},
						{"GET", "/serve/mailbox/" + ea + "/" + id, ""},
						{"GET", "/serve/mailbox/" + ea + "/" + id + "/source", ""},
						{"PATCH", "/api/v1/mailbox/" + ea + "/" + id, `{"seen":true}`},
						{"DELETE", "/api/v1/mailbox/" + ea + "/" + id, ""},
					} {
						codes = append(codes, fmt.Sprint(do(rq[0], rq[1], rq[2]).Code))
					}
					left := 0
					st.VisitMailboxes(func(ms []storage.Message) bool { left += len(ms); return true })
					codes = append(codes, fmt.Sprintf("L%d", left), fmt.Sprint(do("DELETE", "/api/v1/mailbox/"+ea, "").Code))
					restObs += ":" + strings.Join(codes, ".")
				}
			}
		}
	}
	return []string{ipTable(strs...), rc, dc, stored, byAddr, byName, restObs, popAddr, popName}
}

package main

import (
	"verifharness/vh"
)

// pop3Name: the mailbox name the POP3 server uses for `USER a` (function level: s.user = args[0]).
func pop3Name(m int, a string) string { return "S" + vh.HS(a) }

func genLive(g *vh.Gen) {}

func execLive(in []string) []string { return []string{"UNIMPLEMENTED"} }

// Driver for C04 (mailbox naming is canonical).
//
//	addr <a>            => <iptab> <ParseEmailAddress> then per mode (local, full, domain):
//	                       <NewRecipient> <ExtractMailbox a> <ExtractMailbox of that name>
//	case <a> <b>        => <iptab> then per mode: <mailbox of NewRecipient a> <... of b>   (b is a letter-case variant of a)
//	plus <l> <e> <d>    => same for a = l@d, b = l+e@d
//	pop3 <a>            => <iptab> then per mode: <mailbox of NewRecipient a> <name the POP3 server uses for USER a>
//	ip <lit>            => <ParseIP(lit)!=nil> <ParseIP(ToLower(lit))!=nil> <every byte is a hex digit, '.' or ':'>
//	lower <s>           => <strings.ToLower(s)>
//	valid <d>           => <iptab> <ValidateDomainPart(d)>
//	hist <mode> <op:a> ... => (see hist.go) a sequence of naming calls in one process, each answered
//	live <mode> <a>     => (see live.go) RCPT on a real SMTP session, then lookups by address through the manager,
//	                       the REST API and POP3
//
// iptab: net.ParseIP's verdict for every bracketed-literal body that occurs in the strings of the
// case (the model takes net.ParseIP as a function argument; the runner looks verdicts up here).
package main

import (
	"net"
	"sort"
	"strings"

	"github.com/inbucket/inbucket/v3/pkg/config"
	"github.com/inbucket/inbucket/v3/pkg/policy"
	"verifharness/vh"
)

// naming modes: 0 local, 1 full, 2 domain (the type of config.Root.MailboxNaming is unexported)
var modes = []int{0, 1, 2}

func rootConfig(m int) *config.Root {
	c := &config.Root{}
	switch m {
	case 0:
		c.MailboxNaming = config.LocalNaming
	case 1:
		c.MailboxNaming = config.FullNaming
	default:
		c.MailboxNaming = config.DomainNaming
	}
	return c
}

func addressing(m int) *policy.Addressing { return &policy.Addressing{Config: rootConfig(m)} }

// ---------------------------------------------------------------- observation helpers

func optS(s string, err error) string {
	if err != nil {
		return "NONE"
	}
	return "S" + vh.HS(s)
}

func ipInners(x string, tab map[string]bool) {
	if len(x) == 0 || x[len(x)-1] != ']' {
		return
	}
	for p := 0; p < len(x); p++ {
		if x[p] != '[' {
			continue
		}
		d := x[p:]
		for _, s := range []int{1, 6} {
			if s <= len(d)-1 {
				in := d[s : len(d)-1]
				for _, v := range []string{in, strings.ToLower(in), asciiLower(in)} {
					tab[v] = net.ParseIP(v) != nil
				}
			}
		}
	}
}

func asciiLower(s string) string {
	b := []byte(s)
	for i, c := range b {
		if 'A' <= c && c <= 'Z' {
			b[i] = c + 32
		}
	}
	return string(b)
}

func ipTable(strs ...string) string {
	tab := map[string]bool{}
	for _, x := range strs {
		ipInners(x, tab)
	}
	if len(tab) == 0 {
		return "-"
	}
	keys := make([]string, 0, len(tab))
	for k := range tab {
		keys = append(keys, k)
	}
	sort.Strings(keys)
	parts := make([]string, len(keys))
	for i, k := range keys {
		parts[i] = vh.HS(k) + "=" + vh.B(tab[k])
	}
	return strings.Join(parts, ",")
}

func recipientMailbox(m int, a string) (string, error) {
	r, err := addressing(m).NewRecipient(a)
	if err != nil {
		return "", err
	}
	return r.Mailbox, nil
}

func exec(kind string, in []string) []string {
	switch kind {
	case "addr":
		a := vh.US(in[0])
		strs := []string{a}
		var outs []string
		l, d, err := policy.ParseEmailAddress(a)
		if err != nil {
			outs = append(outs, "NONE")
		} else {
			outs = append(outs, "P:"+vh.HS(l)+":"+vh.HS(d))
		}
		for _, m := range modes {
			ap := addressing(m)
			r, err := ap.NewRecipient(a)
			if err != nil {
				outs = append(outs, "NONE")
			} else {
				outs = append(outs, "R:"+vh.HS(r.LocalPart)+":"+vh.HS(r.Domain)+":"+vh.HS(r.Mailbox)+":"+vh.B(r.Address.Address == a))
				strs = append(strs, r.Mailbox)
			}
			name, err := ap.ExtractMailbox(a)
			outs = append(outs, optS(name, err))
			if err != nil {
				outs = append(outs, "-")
			} else {
				strs = append(strs, name)
				outs = append(outs, optS(ap.ExtractMailbox(name)))
			}
		}
		return append([]string{ipTable(strs...)}, outs...)
	case "case", "plus":
		var a, b string
		if kind == "case" {
			a, b = vh.US(in[0]), vh.US(in[1])
		} else {
			l, e, d := vh.US(in[0]), vh.US(in[1]), vh.US(in[2])
			a, b = l+"@"+d, l+"+"+e+"@"+d
		}
		outs := []string{ipTable(a, b)}
		for _, m := range modes {
			outs = append(outs, optS(recipientMailbox(m, a)), optS(recipientMailbox(m, b)))
		}
		return outs
	case "pop3":
		a := vh.US(in[0])
		outs := []string{ipTable(a)}
		for _, m := range modes {
			outs = append(outs, optS(recipientMailbox(m, a)), pop3Name(m, a))
		}
		return outs
	case "ip":
		lit := vh.US(in[0])
		alpha := true
		for i := 0; i < len(lit); i++ {
			c := lit[i]
			if !(('0' <= c && c <= '9') || ('a' <= c && c <= 'f') || ('A' <= c && c <= 'F') || c == '.' || c == ':') {
				alpha = false
			}
		}
		return []string{vh.B(net.ParseIP(lit) != nil), vh.B(net.ParseIP(strings.ToLower(lit)) != nil), vh.B(alpha)}
	case "lower":
		// strings.ToLower itself: the model's go_tolower claims ASCII lower-casing on ASCII-only strings
		return []string{vh.HS(strings.ToLower(vh.US(in[0])))}
	case "valid":
		// ValidateDomainPart alone (ranges over runes; the model over bytes), any byte string
		d := vh.US(in[0])
		return []string{ipTable(d), vh.B(policy.ValidateDomainPart(d))}
	case "hist":
		return execHist(in)
	case "sweep":
		return execSweep(in)
	case "live":
		return execLive(in)
	}
	return []string{"UNKNOWN-KIND"}
}

func main() { vh.Main(gen, exec) }

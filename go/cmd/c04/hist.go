package main

// Histories: a sequence of naming calls executed in order in ONE process on one goroutine with
// GOMAXPROCS(1) (so that anything the code keeps between calls -- a cache, a sync.Pool object -- is
// handed from one call to the next). The naming functions are pure functions of the address: every
// answer of the history has to be the answer the call gets alone.
//
//	hist <mode> <op:hexaddr> <op:hexaddr> ... => <iptab> <answer 1> <answer 2> ...
//
//	n  Addressing.NewRecipient(a).Mailbox           S<hex> | NONE
//	x  Addressing.ExtractMailbox(a)                  S<hex> | NONE
//	m  StoreManager.MailboxForAddress(a)             S<hex> | NONE
//	d  RCPT TO:<a> + DATA on a real SMTP session     <rcpt code>[:<data code>]/<store: hex(name)=count,...>
//	r  GET /api/v1/mailbox/<a> on the real router    <status>[:<number of messages listed>]
//	p  POP3 session USER a, PASS, STAT               P<count>

import (
	"encoding/json"
	"fmt"
	"io"
	"net"
	"net/http"
	"net/http/httptest"
	"net/url"
	"runtime"
	"sort"
	"strings"
	"time"

	"github.com/gorilla/mux"
	"github.com/inbucket/inbucket/v3/pkg/config"
	"github.com/inbucket/inbucket/v3/pkg/extension"
	"github.com/inbucket/inbucket/v3/pkg/message"
	"github.com/inbucket/inbucket/v3/pkg/msghub"
	"github.com/inbucket/inbucket/v3/pkg/policy"
	"github.com/inbucket/inbucket/v3/pkg/rest"
	"github.com/inbucket/inbucket/v3/pkg/server/smtp"
	"github.com/inbucket/inbucket/v3/pkg/server/web"
	"github.com/inbucket/inbucket/v3/pkg/storage"
	"github.com/inbucket/inbucket/v3/pkg/storage/mem"
	"github.com/inbucket/inbucket/v3/pkg/webui"
	"verifharness/vh"
)

type histEnv struct {
	conf *config.Root
	ap   *policy.Addressing
	st   storage.Store
	mgr  *message.StoreManager
	srv  *smtp.Server
	web  bool
}

func newHistEnv(m int) *histEnv {
	conf := rootConfig(m)
	conf.SMTP = config.SMTP{Domain: "inbucket.local", MaxRecipients: 10, MaxMessageBytes: 100000,
		DefaultAccept: true, DefaultStore: true, Timeout: 30 * time.Second}
	conf.Web = config.Web{UIDir: "/nonexistent-ui"}
	e := &histEnv{conf: conf, ap: &policy.Addressing{Config: conf}}
	extHost := extension.NewHost()
	st, err := mem.New(config.Storage{Params: map[string]string{}}, extHost)
	if err != nil {
		return e
	}
	e.st = st
	e.mgr = &message.StoreManager{AddrPolicy: e.ap, Store: st, ExtHost: extHost}
	e.srv = smtp.NewServer(conf.SMTP, e.mgr, e.ap, extHost)
	return e
}

func (e *histEnv) storeState() string {
	var parts []string
	e.st.VisitMailboxes(func(ms []storage.Message) bool {
		if len(ms) > 0 {
			parts = append(parts, vh.HS(ms[0].Mailbox())+"="+vh.I(len(ms)))
		}
		return true
	})
	sort.Strings(parts)
	if len(parts) == 0 {
		return "-"
	}
	return strings.Join(parts, ",")
}

func (e *histEnv) deliver(a string) string {
	l := dial(func(c net.Conn) { e.srv.VerifServe(c) })
	defer l.c.Close()
	if g := l.cmd(""); code(g) != "220" {
		return "GREET:" + code(g)
	}
	l.cmd("HELO client.example")
	l.cmd("MAIL FROM:<sender@example.org>")
	res := code(l.cmd("RCPT TO:<" + a + ">"))
	if res == "250" {
		dc := code(l.cmd("DATA"))
		if dc == "354" {
			io.WriteString(l.c, "Subject: hist\r\nFrom: sender@example.org\r\n\r\nbody\r\n")
			dc = code(l.cmd("."))
		}
		res += ":" + dc
	}
	l.cmd("QUIT")
	e.srv.Drain()
	return res + "/" + e.storeState()
}

func (e *histEnv) restList(a string) string {
	if !e.web {
		web.Router = mux.NewRouter()
		webui.SetupRoutes(web.Router.PathPrefix("/serve/").Subrouter())
		rest.SetupRoutes(web.Router.PathPrefix("/api/").Subrouter())
		web.NewServer(e.conf, e.mgr, &msghub.Hub{})
		e.web = true
	}
	req := httptest.NewRequest("GET", "http://inbucket.local/api/v1/mailbox/"+url.PathEscape(a), nil)
	rec := httptest.NewRecorder()
	web.Router.ServeHTTP(rec, req)
	if rec.Code != http.StatusOK {
		return fmt.Sprint(rec.Code)
	}
	var items []json.RawMessage
	if err := json.Unmarshal(rec.Body.Bytes(), &items); err != nil {
		return "200:BADJSON"
	}
	return fmt.Sprintf("200:%d", len(items))
}

func execHist(in []string) []string {
	m := vh.AtoI(in[0])
	// one goroutine, one P: what the code keeps between calls goes from each call to the next
	runtime.LockOSThread()
	prev := runtime.GOMAXPROCS(1)
	defer func() {
		runtime.GOMAXPROCS(prev)
		runtime.UnlockOSThread()
	}()
	e := newHistEnv(m)
	var strs, outs []string
	for _, el := range in[1:] {
		op, hx, ok := strings.Cut(el, ":")
		if !ok {
			outs = append(outs, "BADELEMENT")
			continue
		}
		a := vh.US(hx)
		strs = append(strs, a)
		switch op {
		case "n":
			r, err := e.ap.NewRecipient(a)
			if err != nil {
				outs = append(outs, "NONE")
			} else {
				outs = append(outs, "S"+vh.HS(r.Mailbox))
				strs = append(strs, r.Mailbox)
			}
		case "x":
			outs = append(outs, optS(e.ap.ExtractMailbox(a)))
		case "m":
			outs = append(outs, optS(e.mgr.MailboxForAddress(a)))
		case "d":
			if !liveOK(a) {
				outs = append(outs, "BADLIVE")
			} else {
				outs = append(outs, e.deliver(a))
			}
		case "r":
			outs = append(outs, e.restList(a))
		case "p":
			if strings.ContainsAny(a, " \t\r\n\x00") || a == "" {
				outs = append(outs, "BADLIVE")
			} else {
				outs = append(outs, pop3Count(e.st, a))
			}
		default:
			outs = append(outs, "BADOP")
		}
	}
	return append([]string{ipTable(strs...)}, outs...)
}

// execSweep: long histories of MailboxForAddress in one process, compressed. The target is asked, then N
// distinct other addresses; the target is asked again after every one of them (dense) or after the last one.
//
//	sweep <mode> <target> <N> <dense> => <iptab> <first answer for the target> <k: the target's answer changed after k other lookups, 0: never>
//	                                     <the changed answer> <j: MailboxForAddress(other_j) differed from ExtractMailbox(other_j), 0: never>
func execSweep(in []string) []string {
	m, target, n, dense := vh.AtoI(in[0]), vh.US(in[1]), vh.AtoI(in[2]), in[3] == "1"
	runtime.LockOSThread()
	prev := runtime.GOMAXPROCS(1)
	defer func() {
		runtime.GOMAXPROCS(prev)
		runtime.UnlockOSThread()
	}()
	e := newHistEnv(m)
	ref := addressing(m) // the naming function itself, for the other addresses
	first := optS(e.mgr.MailboxForAddress(target))
	devK, devAns, devOther := 0, "-", 0
	for k := 1; k <= n; k++ {
		other := fmt.Sprintf("u%d+x@H%d.Example", k, k%13)
		if optS(e.mgr.MailboxForAddress(other)) != optS(ref.ExtractMailbox(other)) && devOther == 0 {
			devOther = k
		}
		if dense || k == n {
			if ans := optS(e.mgr.MailboxForAddress(target)); ans != first {
				devK, devAns = k, ans
				break
			}
		}
	}
	return []string{ipTable(target), first, vh.I(devK), devAns, vh.I(devOther)}
}

// strings the parser refuses part-way through (after it has copied some of the local part)
func refusedAddress(g *vh.Gen) string {
	w := g.Pick("first", "alice", "Bob.Smith", "x1", "postmaster", "a-b")
	d := "@" + g.Pick("example.com", "Ex.org", "d", "[1.2.3.4]")
	switch g.Intn(9) {
	case 0:
		return w + " last" + d // space in the local part
	case 1:
		return `"` + w + d // unbalanced quote
	case 2:
		return w + g.Pick("(", ",", ":", ";", "<", "[", "\x7f") + "rest" + d // bad byte after good ones
	case 3:
		return rep("a", 129+g.Intn(4)) + d // local part too long
	case 4:
		return w + ".." + "x" + d // repeated period
	case 5:
		return w + "." + d // period before the at sign
	case 6:
		return w + "\xc3\xa9" + d // byte >= 0x80
	case 7:
		return w + `\` // unterminated quoted pair, no at sign
	default:
		return w + "@bad_domain!.com" // refused by the domain validation only
	}
}

func genHist(g *vh.Gen) {
	victim := func() string {
		return flipCase(g, plainLocal(g), 0.2) + "@" + flipCase(g, g.Pick("example.com", "Ex.org", "d.example", "a.b", "[1.2.3.4]", "[IPv6:2001:DB8::A]"), 0.2)
	}
	el := func(op, a string) string { return op + ":" + vh.HS(a) }
	fop := func() string { return g.Pick("n", "x", "m") }
	for i := 0; i < g.N(1200, 30000); i++ {
		var els []string
		v := victim()
		switch g.Intn(5) {
		case 0: // refused, then the victim
			els = []string{el(fop(), refusedAddress(g)), el(fop(), v)}
		case 1: // the victim alone first, a refusal, the same victim again
			op := fop()
			els = []string{el(op, v), el(fop(), refusedAddress(g)), el(op, v)}
		case 2: // several refusals in a row
			els = []string{el(fop(), refusedAddress(g)), el(fop(), refusedAddress(g)), el(fop(), v), el(fop(), victim())}
		case 3: // accepted ones only, with a bare name
			els = []string{el(fop(), v), el("x", plainLocal(g)), el(fop(), victim())}
		default: // anything from the structured generator in between
			els = []string{el(fop(), genAddress(g)), el(fop(), v), el(fop(), genAddress(g)), el(fop(), v)}
		}
		g.Emit("hist", append([]string{vh.I(g.Intn(3))}, els...)...)
	}
	// long histories of lookups (anything remembered between calls: caches with a capacity or an age)
	for m := 0; m < 3; m++ {
		g.Emit("sweep", vh.I(m), vh.HS(victim()), vh.I(g.N(7000, 70000)), "1")
	}
	for _, p := range []int{1, 2, 4, 8, 16, 32, 64, 100, 128, 256, 512, 1000, 1024, 2048, 3000, 4096, 5000, 8192, 10000} {
		for _, n := range []int{p - 1, p, p + 1} {
			if n >= 1 {
				g.Emit("sweep", vh.I(g.Intn(3)), vh.HS(victim()), vh.I(n), "0")
			}
		}
	}
	if g.Tier == "thorough" {
		for _, n := range []int{16383, 16384, 16385, 32767, 32768, 32769, 65535, 65536, 65537, 99999, 100000, 100001} {
			g.Emit("sweep", vh.I(g.Intn(3)), vh.HS(victim()), vh.I(n), "0")
		}
	}
	// with the servers: a delivery, a refusal, then lookups by the address
	for i := 0; i < g.N(200, 4000); i++ {
		v := victim()
		for strings.ContainsAny(v, "/ ") {
			v = victim()
		}
		ref := refusedAddress(g)
		var els []string
		switch g.Intn(4) {
		case 0:
			els = []string{el("d", v), el("x", ref), el("r", v), el("p", v)}
		case 1:
			if liveOK(ref) {
				els = []string{el("d", ref), el("d", v), el("r", v)}
			} else {
				els = []string{el("x", ref), el("d", v), el("r", v)}
			}
		case 2:
			els = []string{el("d", v), el("r", ref), el("r", v), el("m", v)}
		default:
			els = []string{el("m", ref), el("d", v), el("n", ref), el("d", v), el("r", v)}
		}
		g.Emit("hist", append([]string{vh.I(g.Intn(3))}, els...)...)
	}
}

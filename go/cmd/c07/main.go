// Driver for C07 (both stores behave as one ordered-mailbox model): random operation
// histories on the real memory and file stores, observed by handle. See package sd.
package main

import (
	"strconv"
	"strings"
	"verifharness/cmd/c07/sd"
	"verifharness/vh"
)

func gen(g *vh.Gen) {
	for i := 0; i < g.N(500, 20000); i++ {
		names := sd.Names(g)
		capN := 0
		if g.Chance(0.25) {
			capN = 1 + g.Intn(4)
		}
		p := sd.Profile{MinOps: 4, MaxOps: 60, Sizes: []int{120, 200, 333, 700, 1500}, PAdd: 0.38}
		ops := sd.Ops(g, len(names), p)
		sd.EmitHistory(g, []string{"mem", "file"}, "direct", capN, 0, names, ops)
	}
}

// genSizes: contents of realistic and boundary sizes on both stores (the content is derived from the
// delivery's tag; every Get, listing and visit of a history re-reads and compares the FULL content of
// every message it returns, and every history ends with a listing of all mailboxes, i.e. all live
// messages are read back after everything that was delivered or removed later).
func genSizes(g *vh.Gen) {
	small := []int{0, 1, 100, 4095, 4096, 4097}
	big := []int{65535, 65536, 65537, 200000}
	for i := 0; i < g.N(30, 1500); i++ {
		sizes := append([]int{}, small...)
		sizes = append(sizes, small...)
		sizes = append(sizes, big...)
		if i%8 == 0 || g.Tier == "thorough" && g.Chance(0.3) {
			sizes = append(sizes, 1<<20-7, 1<<20+1)
		}
		names := sd.Names(g)
		if len(names) > 3 {
			names = names[:3]
		}
		capN := 0
		if g.Chance(0.3) {
			capN = 1 + g.Intn(3)
		}
		p := sd.Profile{MinOps: 6, MaxOps: 28, Sizes: sizes, PAdd: 0.45}
		sd.EmitHistory(g, []string{"mem", "file"}, "direct", capN, 0, names, sd.Ops(g, len(names), p))
	}
	// the shortest history of the kind: a big message, a later delivery elsewhere, read the big one again
	for _, sz := range []int{65536, 65537, 200000} {
		ops := "a0:1600000001:" + vh.I(sz) + ",g0:k0,a1:1600000002:100,g0:k0,a0:1600000003:4097,g0:k0,l0,l1"
		sd.EmitHistory(g, []string{"mem", "file"}, "direct", 0, 0, []string{"big", "small"}, ops)
	}
}

// genVisitStop: histories that end with a VisitMailboxes whose visitor returns false at its k-th
// non-empty mailbox (the walk must end there on both stores), half of them with a visitor that removes
// the oldest message of every mailbox it is handed (what the retention scanner does).
func genVisitStop(g *vh.Gen) {
	for i := 0; i < g.N(60, 2000); i++ {
		names := sd.Names(g)
		if len(names) < 3 {
			names = append(names, "vs-one", "vs-two", "vs-three")
		}
		p := sd.Profile{MinOps: 6, MaxOps: 30, Sizes: []int{120, 200, 333}, PAdd: 0.6}
		ops := sd.Ops(g, len(names), p)
		mut := "0"
		if g.Chance(0.5) {
			mut = "1"
		}
		ops += ",w" + vh.I(1+g.Intn(len(names))) + ":" + mut
		sd.EmitHistory(g, []string{"mem", "file"}, "direct", 0, 0, names, ops)
	}
}

// genHeld: listings the caller KEEPS (operation h instead of l) and reads again at the very end
// (trailing operation c), after later operations on other mailboxes and on their own mailbox: the
// messages of a listing handed out earlier still say which mailbox they belong to, have their size, and
// — unless they have left since — read back their content. (Every visit of every history likewise
// reads what it was handed only after VisitMailboxes has returned.)
func genHeld(g *vh.Gen) {
	for i := 0; i < g.N(50, 2000); i++ {
		names := sd.Names(g)
		if len(names) < 2 {
			names = append(names, "held-two")
		}
		capN := 0
		if g.Chance(0.3) {
			capN = 2 + g.Intn(3)
		}
		p := sd.Profile{MinOps: 8, MaxOps: 34, Sizes: []int{120, 200, 333, 4097}, PAdd: 0.5}
		ops := strings.Split(sd.Ops(g, len(names), p), ",")
		var out []string
		held := 0
		for j, o := range ops {
			if o[0] == 'l' && j < len(ops)-len(names)-1 && g.Chance(0.7) {
				o = "h" + o[1:]
				held++
			}
			out = append(out, o)
			if o[0] == 'a' && held < 6 && g.Chance(0.3) {
				// keep the listing right after a delivery: later deliveries, removals, purges follow
				out = append(out, "h"+strings.Split(o[1:], ":")[0])
				held++
			}
		}
		if held == 0 {
			out = append([]string{"a0:1600000001:200", "h0"}, out...)
		}
		sd.EmitHistory(g, []string{"mem", "file"}, "direct", capN, 0, names, strings.Join(out, ",")+",c")
	}
}

// genMeta: long and odd METADATA (mode direct@meta, see sd/meta.go): the subject, From, To list and the
// date's sub-second part and zone are a function of the tag; the instant of the date is drawn from odd
// values; everything read back is compared field by field on both stores.
func genMeta(g *vh.Gen) {
	dates := []int64{-62135596800, -2208988800, -1, 0, 1, 951782400, 1600000000, 2147483648, 4102444800, 253402300799}
	for i := 0; i < g.N(24, 1200); i++ {
		names := sd.Names(g)
		if len(names) > 3 {
			names = names[:3]
		}
		n := 5 + g.Intn(12)
		var ops []string
		for k := 0; k < n; k++ {
			mb := g.Intn(len(names))
			ops = append(ops, "a"+vh.I(mb)+":"+strconv.FormatInt(dates[g.Intn(len(dates))], 10)+":"+vh.I(120+g.Intn(400)))
			switch g.Intn(5) {
			case 0:
				ops = append(ops, "l"+vh.I(mb))
			case 1:
				ops = append(ops, "g"+vh.I(mb)+":l")
			case 2:
				ops = append(ops, "s"+vh.I(mb)+":k0", "g"+vh.I(mb)+":k0")
			case 3:
				ops = append(ops, "v")
			}
		}
		for mb := range names {
			ops = append(ops, "l"+vh.I(mb))
		}
		ops = append(ops, "v")
		sd.EmitHistory(g, []string{"mem", "file"}, "direct@meta", 0, 0, names, strings.Join(ops, ","))
	}
}

func genAll(g *vh.Gen) {
	gen(g)
	sd.GenCollide(g)
	genSizes(g)
	genVisitStop(g)
	genHeld(g)
	genMeta(g)
	// arrival order is not id order: a mailbox whose deliveries straddle the wrap of the id counter
	// within one second (planted, see sd/wrap.go); listing, "latest", get/seen/remove by handle
	for i := 0; i < g.N(12, 200); i++ {
		p := 3 + g.Intn(4)
		tail := []string{"l0", "g0:l", "g0:k0", "g0:k" + vh.I(p-1), "s0:k2", "l0", "r0:k" + vh.I(g.Intn(p)), "l0", "g0:l",
			"a0:1600001000:200", "l0", "g0:l", "a1:1600001001:200", "v", "r0:k0", "l0", "p0", "l0", "g0:l"}
		sd.EmitHistory(g, []string{"file"}, "direct@wrap"+vh.I(p), 0, 0, []string{"wrapbox", "other"}, sd.WrapHistory(g, p, tail))
	}
}

func exec(kind string, in []string) []string {
	if kind == "collide" {
		return sd.ExecCollide(in)
	}
	return sd.Exec(kind, in)
}

func main() { vh.Main(genAll, exec) }

// Driver for C07 (both stores behave as one ordered-mailbox model): random operation
// histories on the real memory and file stores, observed by handle. See package sd.
package main

import (
	"verifharness/cmd/c07/sd"
	"verifharness/vh"
)

func gen(g *vh.Gen) {
	for i := 0; i < g.N(500, 20000); i++ {
		names := sd.Names(g)
		capN := 0
		if g.Chance(0.25) {
			capN = 1 + g.Intn(4)
		}
		p := sd.Profile{MinOps: 4, MaxOps: 60, Sizes: []int{120, 200, 333, 700, 1500}, PAdd: 0.38}
		ops := sd.Ops(g, len(names), p)
		sd.EmitHistory(g, []string{"mem", "file"}, "direct", capN, 0, names, ops)
	}
}

func genAll(g *vh.Gen) {
	gen(g)
	sd.GenCollide(g)
}

func exec(kind string, in []string) []string {
	if kind == "collide" {
		return sd.ExecCollide(in)
	}
	return sd.Exec(kind, in)
}

func main() { vh.Main(genAll, exec) }

// Driver for C07 (both stores behave as one ordered-mailbox model): random operation
// histories on the real memory and file stores, observed by handle. See package sd.
package main

import (
	"verifharness/cmd/c07/sd"
	"verifharness/vh"
)

func gen(g *vh.Gen) {
	for i := 0; i < g.N(500, 20000); i++ {
		names := sd.Names(g)
		capN := 0
		if g.Chance(0.25) {
			capN = 1 + g.Intn(4)
		}
		p := sd.Profile{MinOps: 4, MaxOps: 60, Sizes: []int{120, 200, 333, 700, 1500}, PAdd: 0.38}
		ops := sd.Ops(g, len(names), p)
		sd.EmitHistory(g, []string{"mem", "file"}, "direct", capN, 0, names, ops)
	}
}

func genAll(g *vh.Gen) {
	gen(g)
	sd.GenCollide(g)
	// arrival order is not id order: a mailbox whose deliveries straddle the wrap of the id counter
	// within one second (planted, see sd/wrap.go); listing, "latest", get/seen/remove by handle
	for i := 0; i < g.N(12, 200); i++ {
		p := 3 + g.Intn(4)
		tail := []string{"l0", "g0:l", "g0:k0", "g0:k" + vh.I(p-1), "s0:k2", "l0", "r0:k" + vh.I(g.Intn(p)), "l0", "g0:l",
			"a0:1600001000:200", "l0", "g0:l", "a1:1600001001:200", "v", "r0:k0", "l0", "p0", "l0", "g0:l"}
		sd.EmitHistory(g, []string{"file"}, "direct@wrap"+vh.I(p), 0, 0, []string{"wrapbox", "other"}, sd.WrapHistory(g, p, tail))
	}
}

func exec(kind string, in []string) []string {
	if kind == "collide" {
		return sd.ExecCollide(in)
	}
	return sd.Exec(kind, in)
}

func main() { vh.Main(genAll, exec) }

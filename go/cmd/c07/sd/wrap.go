package sd

import (
	"bytes"
	"encoding/gob"
	"fmt"
	"net/mail"
	"os"
	"path/filepath"
	"strings"
	"time"

	"github.com/inbucket/inbucket/v3/pkg/extension/event"
	"github.com/inbucket/inbucket/v3/pkg/storage/file"
	"github.com/inbucket/inbucket/v3/pkg/stringutil"
	"verifharness/vh"
)

// plantWrapped puts the mailbox into the state it has after the given deliveries (a<mb>:<date>:<size>,
// all to one mailbox) when the process-wide id counter wraps 9999 -> 0000 within one second while they
// arrive: the index (the store's own gob format) lists them in ARRIVAL order with the ids
// <sec>-9998, <sec>-9999, <sec>-0000, <sec>-0001, … and every body is in its .raw file. Reaching this
// state through AddMessage takes about 10 000 deliveries; the state itself is an ordinary one.
// The second lies a little in the past, so ids issued afterwards are larger. Returns the
// observation tokens of the planted deliveries (the driver emits their stored events, as in direct
// mode, and reads each message back).
func (r *runner) plantWrapped(dir string, ops []string) ([]string, error) {
	if len(ops) == 0 {
		return nil, nil
	}
	sec := time.Now().Add(-3 * time.Second).Format(idLayout)
	var mb = -1
	type planted struct {
		id string
		w  written
	}
	var ps []planted
	var msgs []*file.Message
	for i, o := range ops {
		if o[0] != 'a' {
			return nil, fmt.Errorf("planted operation %q is not a delivery", o)
		}
		f := strings.Split(o[1:], ":")
		m := vh.AtoI(f[0])
		if mb >= 0 && m != mb {
			return nil, fmt.Errorf("planted deliveries go to several mailboxes")
		}
		mb = m
		date := int64(vh.AtoI(f[1]))
		tag := r.nadds
		r.nadds++
		subject, from, to, src := content(tag, vh.AtoI(f[2]))
		id := fmt.Sprintf("%s-%04d", sec, (9998+i)%10000)
		ps = append(ps, planted{id, written{mb: mb, date: date, size: len(src), subject: subject, from: from, to: to, body: src}})
		msgs = append(msgs, &file.Message{Fid: id, Fdate: time.Unix(date, 0), Ffrom: &mail.Address{Address: from},
			Fto: []*mail.Address{{Address: to}}, Fsubject: subject, Fsize: int64(len(src))})
	}
	hash := stringutil.HashMailboxName(r.names[mb])
	mbdir := filepath.Join(dir, "mail", hash[0:3], hash[0:6], hash)
	if err := os.MkdirAll(mbdir, 0o770); err != nil {
		return nil, err
	}
	var buf bytes.Buffer
	enc := gob.NewEncoder(&buf)
	if err := enc.Encode(r.names[mb]); err != nil {
		return nil, err
	}
	for i, m := range msgs {
		if err := enc.Encode(m); err != nil {
			return nil, err
		}
		if err := os.WriteFile(filepath.Join(mbdir, ps[i].id+".raw"), ps[i].w.body, 0o660); err != nil {
			return nil, err
		}
	}
	if err := os.WriteFile(filepath.Join(mbdir, "index.gob"), buf.Bytes(), 0o660); err != nil {
		return nil, err
	}
	var toks []string
	for k, p := range ps {
		r.ids[mb] = append(r.ids[mb], p.id)
		r.handle[mb][p.id] = k
		r.wr[mb] = append(r.wr[mb], p.w)
	}
	for k, p := range ps {
		ev := event.MessageMetadata{Mailbox: r.names[mb], ID: p.id, Subject: p.w.subject, Size: int64(p.w.size)}
		r.host.Events.AfterMessageStored.Emit(&ev)
		m, err := r.store.GetMessage(r.names[mb], p.id)
		back := ""
		if err != nil {
			back = errClass(err)
		} else {
			back = r.view(mb, m)
		}
		toks = append(toks, fmt.Sprintf("A%d:%s", k, back)+r.evTokens(false))
	}
	return toks, nil
}

// WrapHistory returns the operations of a history whose first p deliveries (all to mailbox 0) are
// planted across the counter wrap, followed by looks and the given tail.
func WrapHistory(g *vh.Gen, p int, tail []string) string {
	date := 1600000000
	var ops []string
	for i := 0; i < p; i++ {
		date += 10
		ops = append(ops, fmt.Sprintf("a0:%d:%d", date, 150+50*g.Intn(6)))
	}
	ops = append(ops, tail...)
	return strings.Join(ops, ",")
}
